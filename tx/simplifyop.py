"""Translator: renormalizer/model/h_qc.py (generate_ladder_operator, simplify_op, qc_model, int_to_h)
and renormalizer/model/basis.py (BasisHalfSpin.op_mat)  ->  coq/Gen/SimplifyOp.v

Fail-closed.  What is rendered:
  * the symbols generate_ladder_operator emits (string symbol on sites l < j, core symbol of a_j / a_j^dagger),
  * the operator products qc_model feeds to simplify_op (one- and two-body pattern; flat and stacked branch must agree),
  * simplify_op's counting loop (translated statement by statement into a fold step), the reduced word, the sign,
    the discard rule, the quantum-number tables and the parity test that selects them,
  * int_to_h's index predicates / index maps and the antisymmetrisation ranges,
  * the 2x2 integer matrices BasisHalfSpin.op_mat assigns to the symbols in use, and that a multi-symbol word is
    the left-to-right matrix product.
"""
import ast
import sys

TARGET = "Gen/SimplifyOp.v"


class TranslateError(Exception):
    pass


def cstr(s):
    if '"' in s or "\\" in s:
        raise TranslateError("string literal %r" % s)
    return '"%s"' % s


def zlit(v):
    v = int(v)
    return "(%d)%%Z" % v if v < 0 else "%d%%Z" % v


def find_func(tree, name, cls=None):
    body = tree.body
    if cls is not None:
        for n in body:
            if isinstance(n, ast.ClassDef) and n.name == cls:
                body = n.body
                break
        else:
            raise TranslateError("class %s not found" % cls)
    for n in body:
        if isinstance(n, ast.FunctionDef) and n.name == name:
            return n
    raise TranslateError("function %s not found" % name)


def no_doc(body):
    return [s for s in body if not (isinstance(s, ast.Expr) and isinstance(s.value, ast.Constant) and isinstance(s.value.value, str))]


# ----------------------------------------------------------------------------- generate_ladder_operator
def ladder(tree):
    fn = find_func(tree, "generate_ladder_operator")
    body = no_doc(fn.body)
    if [a.arg for a in fn.args.args] != ["norbs"] or len(body) != 4:
        raise TranslateError("generate_ladder_operator shape")
    if [ast.unparse(s) for s in body[:2]] != ["a_ops = []", "a_dag_ops = []"] or ast.unparse(body[3]) != "return (a_ops, a_dag_ops)":
        raise TranslateError("generate_ladder_operator prologue/return")
    loop = body[2]
    if not (isinstance(loop, ast.For) and ast.unparse(loop.target) == "j" and ast.unparse(loop.iter) == "range(norbs)" and not loop.orelse):
        raise TranslateError("generate_ladder_operator loop")
    lb = no_doc(loop.body)
    if len(lb) != 3:
        raise TranslateError("generate_ladder_operator loop body")
    s0 = lb[0]
    if not (isinstance(s0, ast.Assign) and ast.unparse(s0.targets[0]) == "sigma_z_list" and isinstance(s0.value, ast.ListComp)):
        raise TranslateError("sigma_z_list")
    lc = s0.value
    g = lc.generators[0]
    if len(lc.generators) != 1 or g.ifs or ast.unparse(g.target) != "l" or ast.unparse(g.iter) != "range(j)":
        raise TranslateError("sigma_z_list range")
    e = lc.elt
    if not (isinstance(e, ast.Call) and ast.unparse(e.func) == "Op" and len(e.args) == 2 and not e.keywords
            and isinstance(e.args[0], ast.Constant) and isinstance(e.args[0].value, str) and ast.unparse(e.args[1]) == "l"):
        raise TranslateError("sigma_z_list element")
    string_sym = e.args[0].value
    cores = {}
    for s in lb[1:]:
        if not (isinstance(s, ast.Expr) and isinstance(s.value, ast.Call) and isinstance(s.value.func, ast.Attribute)
                and s.value.func.attr == "append" and len(s.value.args) == 1):
            raise TranslateError("ladder append")
        which = ast.unparse(s.value.func.value)
        a = s.value.args[0]
        if not (isinstance(a, ast.Call) and ast.unparse(a.func) == "Op.product" and len(a.args) == 1 and isinstance(a.args[0], ast.BinOp)
                and isinstance(a.args[0].op, ast.Add) and ast.unparse(a.args[0].left) == "sigma_z_list"
                and isinstance(a.args[0].right, ast.List) and len(a.args[0].right.elts) == 1):
            raise TranslateError("ladder product")
        c = a.args[0].right.elts[0]
        if not (isinstance(c, ast.Call) and ast.unparse(c.func) == "Op" and len(c.args) == 2 and not c.keywords
                and isinstance(c.args[0], ast.Constant) and isinstance(c.args[0].value, str) and ast.unparse(c.args[1]) == "j"):
            raise TranslateError("ladder core")
        cores[which] = c.args[0].value
    if set(cores) != {"a_ops", "a_dag_ops"}:
        raise TranslateError("ladder lists %s" % sorted(cores))
    for s in (string_sym, cores["a_ops"], cores["a_dag_ops"]):
        if " " in s or not s:
            raise TranslateError("compound ladder symbol")
    return string_sym, cores["a_ops"], cores["a_dag_ops"]


# ----------------------------------------------------------------------------- qc_model
def ladder_ref(n):
    """a_dag_ops[p] -> (True, 'p') ; a_ops[q] -> (False, 'q')"""
    if isinstance(n, ast.Subscript) and isinstance(n.value, ast.Name) and n.value.id in ("a_ops", "a_dag_ops") and isinstance(n.slice, ast.Name):
        return (n.value.id == "a_dag_ops", n.slice.id)
    raise TranslateError("ladder reference %s" % ast.unparse(n))


def qc_patterns(tree):
    fn = find_func(tree, "qc_model")
    if [a.arg for a in fn.args.args] != ["h1e", "h2e", "stacked", "conserve_qn"]:
        raise TranslateError("qc_model signature")
    src = [ast.unparse(s) for s in fn.body]
    if "a_ops, a_dag_ops = generate_ladder_operator(norbs)" not in src:
        raise TranslateError("qc_model: ladder unpacking")
    if "process_op = partial(simplify_op, norbs=norbs, conserve_qn=conserve_qn)" not in src:
        raise TranslateError("qc_model: process_op")
    if "pairs1 = np.argwhere(h1e != 0)" not in src or "pairs2 = np.argwhere(h2e != 0)" not in src:
        raise TranslateError("qc_model: support selection")
    pats = []
    for n in ast.walk(fn):
        if isinstance(n, ast.Call) and ast.unparse(n.func) == "process_op":
            if len(n.args) != 1 or n.keywords:
                raise TranslateError("process_op call")
            a = n.args[0]
            if isinstance(a, ast.BinOp) and isinstance(a.op, ast.Mult):
                pats.append((ladder_ref(a.left), ladder_ref(a.right)))
            elif isinstance(a, ast.Call) and ast.unparse(a.func) == "Op.product" and len(a.args) == 1 and isinstance(a.args[0], ast.List):
                pats.append(tuple(ladder_ref(e) for e in a.args[0].elts))
            else:
                raise TranslateError("process_op argument %s" % ast.unparse(a))
    one = sorted(set(p for p in pats if len(p) == 2))
    two = sorted(set(p for p in pats if len(p) == 4))
    if len(pats) != 4 or len(one) != 1 or len(two) != 1:
        raise TranslateError("qc_model: flat and stacked branch must build the same products (%s)" % (pats,))
    one, two = one[0], two[0]
    # factors: op * h1e[p, q] ; op * h2e[p, q, r, s]
    facs = sorted(set(ast.unparse(n.right) for n in ast.walk(fn) if isinstance(n, ast.BinOp) and isinstance(n.op, ast.Mult)
                      and ast.unparse(n.left) == "op"))
    v1 = [v for _, v in one]
    v2 = [v for _, v in two]
    if facs != sorted(["h1e[%s]" % ", ".join(v1), "h2e[%s]" % ", ".join(v2)]):
        raise TranslateError("qc_model: integral factors %s" % facs)
    if len(set(v1)) != 2 or len(set(v2)) != 4:
        raise TranslateError("qc_model: repeated index variable")
    # loops bind the variables in this order
    heads = sorted(set(ast.unparse(n.target) for n in ast.walk(fn) if isinstance(n, ast.For)))
    for need in ("(%s)" % ", ".join(v1), "(%s)" % ", ".join(v2)):
        if need not in heads:
            raise TranslateError("qc_model: loop header for %s missing (%s)" % (need, heads))
    # basis quantum numbers
    qn = {}
    for n in ast.walk(fn):
        if isinstance(n, ast.If) and ast.unparse(n.test) == "iorb % 2 == 0":
            for key, blk in (("even", n.body), ("odd", n.orelse)):
                if len(blk) != 1 or ast.unparse(blk[0].targets[0]) != "sigmaqn":
                    raise TranslateError("sigmaqn assignment")
                qn[key] = ast.literal_eval(ast.unparse(blk[0].value.args[0]))
    if set(qn) != {"even", "odd"} or any(len(v) != 2 or any(len(x) != 2 for x in v) for v in qn.values()):
        raise TranslateError("qc_model: sigmaqn")
    return [d for d, _ in one], [d for d, _ in two], qn


# ----------------------------------------------------------------------------- simplify_op
class Step:
    """Translate the body of the counting loop into a Gallina step function over the tuple of counters."""

    def __init__(self, state, loopvar):
        self.state = state
        self.loopvar = loopvar

    def nexpr(self, n):
        if isinstance(n, ast.Constant) and isinstance(n.value, int) and not isinstance(n.value, bool) and n.value >= 0:
            return str(n.value)
        if isinstance(n, ast.Name) and n.id in self.state:
            return n.id
        if isinstance(n, ast.BinOp) and isinstance(n.op, (ast.Add, ast.Mult)):
            return "(%s %s %s)" % (self.nexpr(n.left), "+" if isinstance(n.op, ast.Add) else "*", self.nexpr(n.right))
        raise TranslateError("loop expression %s" % ast.unparse(n))

    def test(self, t):
        if isinstance(t, ast.Compare) and len(t.ops) == 1 and isinstance(t.left, ast.Name) and t.left.id == self.loopvar \
                and isinstance(t.comparators[0], ast.Constant) and isinstance(t.comparators[0].value, str):
            e = "String.eqb s %s" % cstr(t.comparators[0].value)
            if isinstance(t.ops[0], ast.Eq):
                return "(%s)" % e
            if isinstance(t.ops[0], ast.NotEq):
                return "(negb (%s))" % e
        raise TranslateError("loop test %s" % ast.unparse(t))

    def block(self, stmts):
        tup = "(%s)" % ", ".join(self.state)
        if not stmts:
            return tup
        s = stmts[0]
        if isinstance(s, ast.AugAssign) and isinstance(s.op, ast.Add) and isinstance(s.target, ast.Name) and s.target.id in self.state:
            return "(let %s := (%s + %s) in %s)" % (s.target.id, s.target.id, self.nexpr(s.value), self.block(stmts[1:]))
        if isinstance(s, ast.If):
            if len(stmts) != 1:
                raise TranslateError("statement after if in counting loop")
            return "(if %s then %s else %s)" % (self.test(s.test), self.block(s.body), self.block(s.orelse))
        raise TranslateError("loop statement %s" % ast.unparse(s)[:60])


def qn_dict(node):
    if not isinstance(node, ast.Dict):
        raise TranslateError("qn dict")
    d = {}
    for k, v in zip(node.keys, node.values):
        if not (isinstance(k, ast.Constant) and isinstance(k.value, str)):
            raise TranslateError("qn dict key")
        val = ast.literal_eval(ast.unparse(v))
        d[k.value] = val
    return d


def simplify(tree):
    fn = find_func(tree, "simplify_op")
    if [a.arg for a in fn.args.args] != ["old_op", "norbs", "conserve_qn"]:
        raise TranslateError("simplify_op signature")
    body = no_doc(fn.body)
    if len(body) != 6:
        raise TranslateError("simplify_op body length %d" % len(body))
    if ast.unparse(body[0]) != "dof_to_siteidx = dict(zip(range(norbs), range(norbs)))":
        raise TranslateError("simplify_op: dof_to_siteidx")
    qif = body[1]
    if not (isinstance(qif, ast.If) and ast.unparse(qif.test) == "conserve_qn" and len(qif.body) == 2 and len(qif.orelse) == 1):
        raise TranslateError("simplify_op: qn dictionaries")
    dicts = {}
    for s in qif.body:
        dicts[ast.unparse(s.targets[0])] = qn_dict(s.value)
    noqn = qn_dict(qif.orelse[0].value)
    if set(dicts) != {"qn_dict0", "qn_dict1"} or ast.unparse(qif.orelse[0].targets[0]) != "qn_dict0":
        raise TranslateError("simplify_op: qn dictionary names")
    if ast.unparse(body[2]) != "old_ops, _ = old_op.split_elementary(dof_to_siteidx)" or ast.unparse(body[3]) != "new_ops = []" \
            or ast.unparse(body[5]) != "return Op.product(new_ops)":
        raise TranslateError("simplify_op: split / return")
    loop = body[4]
    if not (isinstance(loop, ast.For) and ast.unparse(loop.target) == "elem_op" and ast.unparse(loop.iter) == "old_ops" and not loop.orelse):
        raise TranslateError("simplify_op: site loop")
    lb = no_doc(loop.body)
    i = 0
    # n_sigma_z = elem_op.split_symbol.count("Z")
    s = lb[i]
    if not (isinstance(s, ast.Assign) and ast.unparse(s.targets[0]) == "n_sigma_z" and isinstance(s.value, ast.Call)
            and ast.unparse(s.value.func) == "elem_op.split_symbol.count" and len(s.value.args) == 1 and isinstance(s.value.args[0], ast.Constant)):
        raise TranslateError("n_sigma_z")
    cancel = s.value.args[0].value
    i += 1
    state = []
    while isinstance(lb[i], ast.Assign) and isinstance(lb[i].value, ast.Constant) and lb[i].value.value == 0 and isinstance(lb[i].targets[0], ast.Name):
        state.append(lb[i].targets[0].id)
        i += 1
    inner = lb[i]
    if not (isinstance(inner, ast.For) and isinstance(inner.target, ast.Name) and ast.unparse(inner.iter) == "elem_op.split_symbol" and not inner.orelse):
        raise TranslateError("counting loop header")
    if "n_permute" not in state:
        raise TranslateError("n_permute not initialised to 0")
    step = Step(state, inner.target.id).block(no_doc(inner.body))
    i += 1
    rest = [ast.unparse(x) for x in lb[i:]]
    expect_prefix = [
        "new_symbol = [s for s in elem_op.split_symbol if s != %r]" % cancel,
        "if n_sigma_z %% 2 == 1:\n    new_symbol.insert(0, %r)" % cancel,
        "if not new_symbol:\n    continue",
        "new_dof_name = elem_op.dofs[0]",
    ]
    if rest[:4] != expect_prefix:
        raise TranslateError("simplify_op: reduced word construction differs: %s" % rest[:4])
    sel = lb[i + 4]
    if not (isinstance(sel, ast.If) and [ast.unparse(x) for x in sel.body] == ["qn_dict = qn_dict1"] and [ast.unparse(x) for x in sel.orelse] == ["qn_dict = qn_dict0"]):
        raise TranslateError("simplify_op: qn table selection")
    t = sel.test
    if not (isinstance(t, ast.BoolOp) and isinstance(t.op, ast.And) and len(t.values) == 2 and ast.unparse(t.values[0]) == "conserve_qn"):
        raise TranslateError("simplify_op: qn selection test")
    c = t.values[1]
    if not (isinstance(c, ast.Compare) and ast.unparse(c.left) == "new_dof_name % 2" and isinstance(c.ops[0], ast.Eq)
            and isinstance(c.comparators[0], ast.Constant) and c.comparators[0].value in (0, 1)):
        raise TranslateError("simplify_op: parity test")
    odd_uses_1 = c.comparators[0].value
    tail = rest[5:]
    if tail != ["new_qn = [qn_dict[s] for s in new_symbol]",
                "new_ops.append(Op(' '.join(new_symbol), new_dof_name, (-1) ** n_permute, new_qn))"]:
        raise TranslateError("simplify_op: emitted operator %s" % tail)
    return {"cancel": cancel, "state": state, "step": step, "dict0": dicts["qn_dict0"], "dict1": dicts["qn_dict1"], "noqn": noqn,
            "dict1_parity": odd_uses_1}


# ----------------------------------------------------------------------------- int_to_h
def pexpr(n, vars_):
    """index arithmetic -> Coq nat expression"""
    if isinstance(n, ast.Name) and n.id in vars_:
        return n.id
    if isinstance(n, ast.Constant) and isinstance(n.value, int) and n.value >= 0:
        return str(n.value)
    if isinstance(n, ast.BinOp) and isinstance(n.op, ast.Mod):
        return "(Nat.modulo %s %s)" % (pexpr(n.left, vars_), pexpr(n.right, vars_))
    if isinstance(n, ast.BinOp) and isinstance(n.op, ast.FloorDiv):
        return "(Nat.div %s %s)" % (pexpr(n.left, vars_), pexpr(n.right, vars_))
    raise TranslateError("index expression %s" % ast.unparse(n))


def ptest(t, vars_):
    if isinstance(t, ast.BoolOp) and isinstance(t.op, ast.And):
        return "(" + " && ".join(ptest(v, vars_) for v in t.values) + ")"
    if isinstance(t, ast.Compare) and len(t.ops) == 1 and isinstance(t.ops[0], ast.Eq):
        return "(Nat.eqb %s %s)" % (pexpr(t.left, vars_), pexpr(t.comparators[0], vars_))
    raise TranslateError("index predicate %s" % ast.unparse(t))


def sub_indices(n, name, vars_):
    if not (isinstance(n, ast.Subscript) and ast.unparse(n.value) == name and isinstance(n.slice, ast.Tuple)):
        raise TranslateError("subscript of %s: %s" % (name, ast.unparse(n)))
    return [pexpr(e, vars_) for e in n.slice.elts]


def int_to_h(tree):
    fn = find_func(tree, "int_to_h")
    body = no_doc(fn.body)
    src = [ast.unparse(s) for s in body]
    if [a.arg for a in fn.args.args] != ["h", "eri"] or len(body) != 8 or src[0] != "nsorb = len(h) * 2" or src[7] != "return (sh, aseri)":
        raise TranslateError("int_to_h shape")
    if src[1] != "seri = np.zeros((nsorb, nsorb, nsorb, nsorb))" or src[2] != "sh = np.zeros((nsorb, nsorb))" \
            or src[5] != "aseri = np.zeros((nsorb, nsorb, nsorb, nsorb))":
        raise TranslateError("int_to_h zero initialisation")
    l1, l2, l3 = body[3], body[4], body[6]
    V4 = ["p", "q", "r", "s"]
    if not (isinstance(l1, ast.For) and ast.unparse(l1.target) == "(p, q, r, s)" and ast.unparse(l1.iter) == "itertools.product(range(nsorb), repeat=4)"
            and len(l1.body) == 1 and isinstance(l1.body[0], ast.If) and not l1.body[0].orelse and len(l1.body[0].body) == 1):
        raise TranslateError("int_to_h: seri loop")
    seri_pred = ptest(l1.body[0].test, V4)
    a = l1.body[0].body[0]
    if sub_indices(a.targets[0], "seri", V4) != V4:
        raise TranslateError("seri target")
    seri_src = sub_indices(a.value, "eri", V4)
    if not (isinstance(l2, ast.For) and ast.unparse(l2.target) == "(q, s)" and ast.unparse(l2.iter) == "itertools.product(range(nsorb), repeat=2)"
            and len(l2.body) == 1 and isinstance(l2.body[0], ast.If) and not l2.body[0].orelse and len(l2.body[0].body) == 1):
        raise TranslateError("int_to_h: sh loop")
    sh_pred = ptest(l2.body[0].test, ["q", "s"])
    a = l2.body[0].body[0]
    if sub_indices(a.targets[0], "sh", ["q", "s"]) != ["q", "s"]:
        raise TranslateError("sh target")
    sh_src = sub_indices(a.value, "h", ["q", "s"])
    if not (isinstance(l3, ast.For) and ast.unparse(l3.target) == "(q, s)" and ast.unparse(l3.iter) == "itertools.product(range(nsorb), repeat=2)"
            and len(no_doc(l3.body)) == 1 and isinstance(no_doc(l3.body)[0], ast.For)):
        raise TranslateError("int_to_h: aseri outer loop")
    l4 = no_doc(l3.body)[0]
    if not (ast.unparse(l4.target) == "(p, r)" and ast.unparse(l4.iter) == "itertools.product(range(q), range(s))" and len(no_doc(l4.body)) == 1):
        raise TranslateError("int_to_h: aseri inner loop (ranges p < q, r < s)")
    a = no_doc(l4.body)[0]
    if not (isinstance(a, ast.Assign) and sub_indices(a.targets[0], "aseri", V4) == V4 and isinstance(a.value, ast.BinOp) and isinstance(a.value.op, ast.Sub)):
        raise TranslateError("int_to_h: aseri assignment")
    plus = sub_indices(a.value.left, "seri", V4)
    minus = sub_indices(a.value.right, "seri", V4)
    for x in (plus, minus):
        if sorted(x) != V4:
            raise TranslateError("aseri: not a permutation of p,q,r,s")
    return {"seri_pred": seri_pred, "seri_src": seri_src, "sh_pred": sh_pred, "sh_src": sh_src,
            "plus": [V4.index(v) for v in plus], "minus": [V4.index(v) for v in minus]}


# ----------------------------------------------------------------------------- BasisHalfSpin.op_mat
def np_mat(node):
    """np.eye(2) | np.diag([..], k=K)  -> 2x2 integer matrix (row major) or None"""
    u = ast.unparse(node)
    if u == "np.eye(2)":
        return (1, 0, 0, 1)
    if isinstance(node, ast.Call) and ast.unparse(node.func) == "np.diag" and len(node.args) == 1 and isinstance(node.args[0], ast.List):
        try:
            vals = [ast.literal_eval(ast.unparse(e)) for e in node.args[0].elts]
        except Exception:
            return None
        if any(isinstance(v, complex) or float(v) != int(v) for v in vals):
            return None
        k = 0
        for kw in node.keywords:
            if kw.arg != "k":
                return None
            k = ast.literal_eval(ast.unparse(kw.value))
        vals = [int(v) for v in vals]
        if k == 0 and len(vals) == 2:
            return (vals[0], 0, 0, vals[1])
        if k == 1 and len(vals) == 1:
            return (0, vals[0], 0, 0)
        if k == -1 and len(vals) == 1:
            return (0, 0, vals[0], 0)
    return None


def halfspin(basis_src):
    tree = ast.parse(basis_src)
    fn = find_func(tree, "op_mat", "BasisHalfSpin")
    body = no_doc(fn.body)
    top = [s for s in body if isinstance(s, ast.If) and ast.unparse(s.test) == "len(op_symbol) == 1"]
    if len(top) != 1:
        raise TranslateError("BasisHalfSpin.op_mat: single-symbol test")
    top = top[0]
    if ast.unparse(body[-1]) != "return mat * op_factor":
        raise TranslateError("BasisHalfSpin.op_mat: return")
    # multi-symbol branch: left-to-right product
    if [ast.unparse(s) for s in top.orelse] != ["mat = np.eye(2)", "for o in op_symbol:\n    mat = mat @ self.op_mat(o)"]:
        raise TranslateError("BasisHalfSpin.op_mat: multi-symbol product")
    tb = no_doc(top.body)
    if ast.unparse(tb[0]) != "op_symbol = op_symbol[0]" or len(tb) != 2 or not isinstance(tb[1], ast.If):
        raise TranslateError("BasisHalfSpin.op_mat: single-symbol chain")
    table = []
    skipped = []
    node = tb[1]
    while True:
        t = node.test
        if isinstance(t, ast.Compare) and ast.unparse(t.left) == "op_symbol" and len(t.ops) == 1:
            if isinstance(t.ops[0], ast.Eq) and isinstance(t.comparators[0], ast.Constant):
                names = [t.comparators[0].value]
            elif isinstance(t.ops[0], ast.In) and isinstance(t.comparators[0], ast.List):
                names = [e.value for e in t.comparators[0].elts]
            else:
                raise TranslateError("op_mat test %s" % ast.unparse(t))
        else:
            raise TranslateError("op_mat test %s" % ast.unparse(t))
        m = None
        if len(node.body) == 1 and isinstance(node.body[0], ast.Assign) and ast.unparse(node.body[0].targets[0]) == "mat":
            m = np_mat(node.body[0].value)
        if m is None:
            skipped += names
        else:
            table += [(nm, m) for nm in names]
        if len(node.orelse) == 1 and isinstance(node.orelse[0], ast.If):
            node = node.orelse[0]
            continue
        if len(node.orelse) == 1 and isinstance(node.orelse[0], ast.Raise):
            break
        raise TranslateError("op_mat: final else must raise")
    return table, skipped


# ----------------------------------------------------------------------------- rendering
def zpair(v):
    return "(%s, %s)" % (zlit(v[0]), zlit(v[1]))


def render(lad, pats, simp, ith, hs, rule_names):
    string_sym, low, rai = lad
    one, two, sigmaqn = pats
    table, skipped = hs
    alphabet = []
    for s in (string_sym, low, rai):
        if s not in alphabet:
            alphabet.append(s)
    if simp["cancel"] not in alphabet:
        alphabet.append(simp["cancel"])
    have = dict(table)
    need = list(alphabet) + ["I"] + [n for n in rule_names if n not in alphabet and n != "I"]
    for s in need:
        if s not in have:
            raise TranslateError("BasisHalfSpin.op_mat gives no integer matrix for symbol %r" % s)
    for d in (simp["dict0"], simp["dict1"]):
        for s in alphabet:
            if s not in d or len(d[s]) != 2:
                raise TranslateError("qn dictionary lacks %r" % s)
    o = ["(* GENERATED by tx/simplifyop.py from renormalizer/model/h_qc.py and renormalizer/model/basis.py -- do not edit *)",
         "From Coq Require Import List String Arith Bool ZArith.", "Import ListNotations.", "Local Open Scope string_scope.", "",
         "(* generate_ladder_operator: a_j = prod_{l<j} %s[l] * %s[j] ; a_j^dagger = prod_{l<j} %s[l] * %s[j] *)" % (string_sym, low, string_sym, rai),
         "Definition qc_string_sym : string := %s." % cstr(string_sym),
         "Definition qc_annihilate_sym : string := %s." % cstr(low),
         "Definition qc_create_sym : string := %s." % cstr(rai),
         "Definition qc_alphabet : list string := [%s]." % "; ".join(cstr(s) for s in alphabet),
         "Definition ladder_word (dag : bool) (j : nat) : list (nat * string) :=",
         "  map (fun l => (l, qc_string_sym)) (seq 0 j) ++ [(j, if dag then qc_create_sym else qc_annihilate_sym)].", "",
         "(* qc_model: products handed to simplify_op; true = a_dag_ops[.], false = a_ops[.]; k-th entry uses the k-th index *)",
         "Definition one_body_pattern : list bool := [%s]." % "; ".join("true" if d else "false" for d in one),
         "Definition two_body_pattern : list bool := [%s]." % "; ".join("true" if d else "false" for d in two), "",
         "(* simplify_op: counting loop over the symbols of one site, state = (%s) *)" % ", ".join(simp["state"]),
         "Definition simp_cancel_sym : string := %s." % cstr(simp["cancel"]),
         "Definition simp_state := (%s)%%type." % " * ".join(["nat"] * len(simp["state"])),
         "Definition simp_init : simp_state := (%s)." % ", ".join(["0"] * len(simp["state"])),
         "Definition simp_step (st : simp_state) (s : string) : simp_state :=",
         "  let '(%s) := st in %s." % (", ".join(simp["state"]), simp["step"]),
         "Definition simp_n_permute (w : list string) : nat :=",
         "  let '(%s) := fold_left simp_step w simp_init in n_permute." % ", ".join(simp["state"]),
         "Definition simp_n_sigma_z (w : list string) : nat := count_occ string_dec w simp_cancel_sym.",
         "(* new_symbol = [s for s in w if s != cancel]; if n_sigma_z % 2 == 1: insert(0, cancel); empty -> site discarded *)",
         "Definition simp_new_symbol (w : list string) : list string :=",
         "  (if Nat.eqb (Nat.modulo (simp_n_sigma_z w) 2) 1 then [simp_cancel_sym] else [])",
         "  ++ filter (fun s => negb (String.eqb s simp_cancel_sym)) w.",
         "(* factor (-1) ** n_permute *)",
         "Definition simp_sign_minus (w : list string) : bool := Nat.odd (simp_n_permute w).", "",
         "(* quantum numbers per symbol: qn_dict0 / qn_dict1, the latter used when conserve_qn and dof %% 2 == %d *)" % simp["dict1_parity"],
         "Definition qn_dict0 : list (string * (Z * Z)) := [%s]." % "; ".join("(%s, %s)" % (cstr(s), zpair(simp["dict0"][s])) for s in alphabet),
         "Definition qn_dict1 : list (string * (Z * Z)) := [%s]." % "; ".join("(%s, %s)" % (cstr(s), zpair(simp["dict1"][s])) for s in alphabet),
         "Definition qn_uses_dict1 (dof : nat) : bool := Nat.eqb (Nat.modulo dof 2) %d." % simp["dict1_parity"],
         "(* qc_model basis: sigmaqn of the occupied level |1> for even / odd spin orbital (level |0> : %s / %s) *)" % (sigmaqn["even"][0], sigmaqn["odd"][0]),
         "Definition basis_qn_empty_even : Z * Z := %s." % zpair(sigmaqn["even"][0]),
         "Definition basis_qn_occ_even : Z * Z := %s." % zpair(sigmaqn["even"][1]),
         "Definition basis_qn_empty_odd : Z * Z := %s." % zpair(sigmaqn["odd"][0]),
         "Definition basis_qn_occ_odd : Z * Z := %s." % zpair(sigmaqn["odd"][1]), "",
         "(* int_to_h *)",
         "Definition seri_pred (p q r s : nat) : bool := %s." % ith["seri_pred"],
         "Definition seri_src (p q r s : nat) : list nat := [%s]." % "; ".join(ith["seri_src"]),
         "Definition sh_pred (q s : nat) : bool := %s." % ith["sh_pred"],
         "Definition sh_src (q s : nat) : list nat := [%s]." % "; ".join(ith["sh_src"]),
         "(* aseri[p,q,r,s] = seri[perm_plus] - seri[perm_minus] for p in range(q), r in range(s) *)",
         "Definition aseri_in_range (p q r s : nat) : bool := Nat.ltb p q && Nat.ltb r s.",
         "Definition aseri_plus : list nat := [%s]." % "; ".join(str(x) for x in ith["plus"]),
         "Definition aseri_minus : list nat := [%s]." % "; ".join(str(x) for x in ith["minus"]), "",
         "(* BasisHalfSpin.op_mat: single symbols (row major 2x2); a word is the left-to-right matrix product.",
         "   not rendered (non-integer or composite definitions): %s *)" % ", ".join(skipped),
         "Definition halfspin_table : list (string * (Z * Z * Z * Z)) :=",
         "  [" + ";\n   ".join("(%s, (%s, %s, %s, %s))" % ((cstr(nm),) + tuple(zlit(x) for x in m)) for nm, m in table) + "].",
         ""]
    return "\n".join(o)


def main(repo="/repo"):
    tree = ast.parse(open(repo + "/renormalizer/model/h_qc.py").read())
    lad = ladder(tree)
    pats = qc_patterns(tree)
    simp = simplify(tree)
    ith = int_to_h(tree)
    hs = halfspin(open(repo + "/renormalizer/model/basis.py").read())
    rule_names = []
    try:
        sys.path.insert(0, __file__.rsplit("/", 1)[0])
        import jwrule
        _, info = jwrule.main(repo)
        rule_names = info["counted"] + info["heads"]
    except Exception:
        rule_names = []
    info = {"alphabet": [lad[0], lad[1], lad[2]], "one": pats[0], "two": pats[1], "table": dict(hs[0])}
    return render(lad, pats, simp, ith, hs, rule_names), info


if __name__ == "__main__":
    sys.stdout.write(main(sys.argv[1] if len(sys.argv) > 1 else "/repo")[0])
