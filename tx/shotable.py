"""Translator: /repo/renormalizer/model/basis.py : BasisSHO.op_mat  ->  coq/Gen/ShoTable.v   (fail-closed)

Every literal-named branch of the `if/elif` chain of `BasisSHO.op_mat` whose value is a linear combination of
the ladder monomials  {b, b^dagger, b b, b^dagger b^dagger, b^dagger b, b b^dagger, I}  is interpreted
symbolically (flags: general_xp_power = False, dvr = False) and written as

    (symbol, (prefactor, [(rational coefficient, monomial); ...]))

with  prefactor = q * sqrt(omega)^sw * sqrt(2)^s2 * i^si .  The origin x0 is kept symbolic: `sho_table` is the
x0 = 0 part (single prefactor per branch -- anything else is a translation error), `sho_table_x0` lists all
terms grouped by (power of x0, prefactor).  `sho_dvr` records what each branch does when dvr = True
(nothing / rotate by dvr_v / diagonal power of dvr_x), `sho_generic` names the non-literal branches
(general power formula, "x x x" delegation) which are NOT translated (they are tied by correspondence).

The monomials themselves (`np.diag(np.sqrt(np.arange(1, self.nbas)), k=1)` ...) are recognised by exact
source text; any other spelling, any unknown statement / call / operator, a changed preamble or tail
raises TranslateError.
"""
import ast
import os
import sys
from fractions import Fraction
from math import isqrt

TARGET = "Gen/ShoTable.v"
SOURCE = "renormalizer/model/basis.py"


class TranslateError(Exception):
    pass


MONOS = ["Mb", "Mbd", "Mbb", "Mbdbd", "Mbdb", "Mbbd", "MI"]

# exact source text (ast.unparse) of the primitive matrices -> monomial
PRIMS = {
    "np.diag(np.sqrt(np.arange(1, self.nbas)), k=1)": "Mb",
    "np.diag(np.sqrt(np.arange(1, self.nbas)), k=-1)": "Mbd",
    "np.diag(np.sqrt(np.arange(1, self.nbas - 1) * np.arange(2, self.nbas)), k=2)": "Mbb",
    "np.diag(np.sqrt(np.arange(1, self.nbas - 1) * np.arange(2, self.nbas)), k=-2)": "Mbdbd",
    "np.diag(np.arange(self.nbas))": "Mbdb",
    "np.diag(np.arange(self.nbas) + 1)": "Mbbd",
    "np.eye(self.nbas)": "MI",
}

PREAMBLE = [
    "if not isinstance(op, Op):\n    op = Op(op, None)",
    "(op_symbol, op_factor) = (op.symbol, op.factor)",
    "op_symbol = op_symbol.replace('partialx', 'dx')",
    "if op_symbol in ['b', 'b b', 'b^\\\\dagger', 'b^\\\\dagger b^\\\\dagger', 'b^\\\\dagger b', 'b b^\\\\dagger', 'b^\\\\dagger+b']:\n"
    "    if self._recursion_flag == 0 and (not np.allclose(self.x0, 0)):\n"
    "        logger.warning(\"the second quantization doesn't support nonzero x0\")",
    "self._recursion_flag += 1",
    "op_symbol = op_symbol.replace('b^\\\\dagger + b', 'b^\\\\dagger+b')",
]
TAIL = ["self._recursion_flag -= 1", "return mat * op_factor"]

DVR_ROTATE = "if self.dvr:\n    mat = self.dvr_v.T @ mat @ self.dvr_v"


# ------------------------------------------------------------------ scalar algebra
# a scalar is a dict  key -> Fraction  with key = (sw, s2, si, sx):  q * sqrt(omega)^sw * sqrt(2)^s2 * i^si * x0^sx,
# kept normalised: s2 in {0,-1}, si in {0,1}
def _norm_term(key, q):
    sw, s2, si, sx = key
    # sqrt(2)^s2 = 2^k * sqrt(2)^r  with r in {0,-1}
    r = -(s2 % 2)          # 0 or -1
    k = (s2 - r) // 2
    q = q * (Fraction(2) ** k)
    si4 = si % 4
    if si4 >= 2:
        q = -q
        si4 -= 2
    return (sw, r, si4, sx), q


def s_add(a, b, sign=1):
    out = dict(a)
    for k, q in b.items():
        out[k] = out.get(k, Fraction(0)) + sign * q
        if out[k] == 0:
            del out[k]
    return out


def s_mul(a, b):
    out = {}
    for k1, q1 in a.items():
        for k2, q2 in b.items():
            k, q = _norm_term(tuple(x + y for x, y in zip(k1, k2)), q1 * q2)
            out[k] = out.get(k, Fraction(0)) + q
            if out[k] == 0:
                del out[k]
    return out


def s_const(q):
    q = Fraction(q)
    return {(0, 0, 0, 0): q} if q != 0 else {}


def s_single(a, what):
    if len(a) != 1:
        raise TranslateError("%s needs a one-term scalar, got %r" % (what, a))
    (k, q), = a.items()
    return k, q


def s_inv(a):
    k, q = s_single(a, "division")
    kk, qq = _norm_term(tuple(-x for x in k), 1 / q)
    return {kk: qq}


def _is_square(fr):
    n, d = fr.numerator, fr.denominator
    return n >= 0 and isqrt(n) ** 2 == n and isqrt(d) ** 2 == d


def _sqrt_fr(fr):
    return Fraction(isqrt(fr.numerator), isqrt(fr.denominator))


def s_sqrt(a):
    (sw, s2, si, sx), q = s_single(a, "np.sqrt")
    if si != 0 or s2 != 0 or sx % 2 or q <= 0:
        raise TranslateError("np.sqrt of %r" % (a,))
    if sw % 1:
        raise TranslateError("sqrt exponent")
    # sw counts sqrt(omega); sqrt halves the power of omega = sw/2 must stay an integer count of sqrt(omega)
    if sw % 2:
        raise TranslateError("np.sqrt of an odd power of sqrt(omega)")
    if _is_square(q):
        k, qq = _norm_term((sw // 2, 0, 0, sx // 2), _sqrt_fr(q))
    elif _is_square(2 * q):
        k, qq = _norm_term((sw // 2, -1, 0, sx // 2), _sqrt_fr(2 * q))
    elif _is_square(q / 2):
        k, qq = _norm_term((sw // 2, 1, 0, sx // 2), _sqrt_fr(q / 2))
    else:
        raise TranslateError("np.sqrt of the rational %s" % q)
    return {k: qq}


def s_pow(a, n):
    if not isinstance(n, int) or n < 0:
        raise TranslateError("power %r" % (n,))
    out = s_const(1)
    for _ in range(n):
        out = s_mul(out, a)
    return out


# a matrix value is ("M", {mono: scalar});  a scalar value is ("S", scalar)
def m_scale(m, s):
    out = {}
    for mo, sc in m.items():
        r = s_mul(sc, s)
        if r:
            out[mo] = r
    return out


def m_add(a, b, sign=1):
    out = {k: dict(v) for k, v in a.items()}
    for mo, sc in b.items():
        r = s_add(out.get(mo, {}), sc, sign)
        if r:
            out[mo] = r
        elif mo in out:
            del out[mo]
    return out


class Interp:
    def __init__(self, branches):
        self.branches = branches      # list of (test_node, body)
        self.cache = {}
        self.stack = []

    # ---- dispatch -------------------------------------------------------------------------
    @staticmethod
    def canon(sym):
        return sym.replace("partialx", "dx").replace(r"b^\dagger + b", r"b^\dagger+b")

    def test(self, node, sym):
        for n in ast.walk(node):
            if not isinstance(n, (ast.Compare, ast.BoolOp, ast.And, ast.Or, ast.UnaryOp, ast.Not, ast.Eq, ast.In, ast.Call,
                                  ast.Attribute, ast.Name, ast.Constant, ast.List, ast.Subscript, ast.Load)):
                raise TranslateError("branch test uses %s: %s" % (type(n).__name__, ast.unparse(node)))
            if isinstance(n, ast.Name) and n.id not in ("op_symbol", "self", "set"):
                raise TranslateError("branch test names %s" % n.id)
            if isinstance(n, ast.Attribute) and n.attr not in ("split", "general_xp_power"):
                raise TranslateError("branch test attribute %s" % n.attr)

        class _Self:
            general_xp_power = False
        try:
            return bool(eval(compile(ast.Expression(node), "<test>", "eval"), {"__builtins__": {}, "set": set},
                             {"op_symbol": sym, "self": _Self()}))
        except Exception as e:
            raise TranslateError("cannot evaluate test %s: %r" % (ast.unparse(node), e))

    def branch_of(self, sym):
        sym = self.canon(sym)
        for i, (t, body) in enumerate(self.branches):
            if self.test(t, sym):
                return i
        raise TranslateError("symbol %r reaches the final else" % sym)

    # ---- values ---------------------------------------------------------------------------
    def symbol_value(self, sym):
        """-> (matrix dict, dvr kind) of the branch that handles `sym` (plain frame formula)."""
        sym = self.canon(sym)
        if sym in self.cache:
            return self.cache[sym]
        if sym in self.stack:
            raise TranslateError("recursive symbol %r" % sym)
        self.stack.append(sym)
        i = self.branch_of(sym)
        test, body = self.branches[i]
        if not is_literal_test(test):
            raise TranslateError("symbol %r is handled by the generic branch %s" % (sym, ast.unparse(test)))
        res = self.block(body)
        self.stack.pop()
        self.cache[sym] = res
        return res

    def block(self, stmts):
        mat = None
        dvr = None          # None | ("rotate",) | ("diag", k)
        inherited = []      # dvr kinds of the self.op_mat(...) terms used so far
        pre_rotate = None   # kinds of the terms that the rotation statement acts on
        for s in stmts:
            txt = ast.unparse(s)
            if txt == _canon(DVR_ROTATE):
                if dvr is not None or mat is None:
                    raise TranslateError("second / misplaced dvr rotation")
                dvr = ("rotate",)
                pre_rotate = list(inherited)
                inherited = []
                continue
            if isinstance(s, ast.If):
                t = ast.unparse(s.test)
                if t == "not self.dvr":
                    # plain formula in the body; the dvr alternative must be a diagonal power of dvr_x
                    if len(s.orelse) != 1:
                        raise TranslateError("dvr alternative: %s" % txt)
                    alt = ast.unparse(s.orelse[0])
                    if alt == "mat = np.diag(self.dvr_x)":
                        dvr = ("diag", 1)
                    elif alt.startswith("mat = np.diag(self.dvr_x ** ") and alt.endswith(")") and alt[len("mat = np.diag(self.dvr_x ** "):-1].isdigit():
                        dvr = ("diag", int(alt[len("mat = np.diag(self.dvr_x ** "):-1]))
                    else:
                        raise TranslateError("dvr alternative: %s" % alt)
                    sub, _, inh = self.block_inner(s.body, mat)
                    inherited += inh
                    mat = sub
                    continue
                if t == "self.nbas == 1":
                    if [ast.unparse(x) for x in s.body] != ["mat = np.zeros((1, 1))"] or len(s.orelse) != 1:
                        raise TranslateError("nbas == 1 special case: %s" % txt)
                    sub, _, inh = self.block_inner(s.orelse, mat)
                    prim = ast.unparse(s.orelse[0].value) if isinstance(s.orelse[0], ast.Assign) else None
                    if PRIMS.get(prim) not in ("Mbb", "Mbdbd"):
                        raise TranslateError("nbas == 1 special case guards %s" % prim)
                    mat = sub
                    continue
                raise TranslateError("if-statement inside a branch: %s" % t)
            sub, _, inh = self.block_inner([s], mat)
            inherited += inh
            mat = sub
        if mat is None:
            raise TranslateError("branch assigns no matrix")
        if dvr == ("rotate",):
            # the rotated part must have been in the plain frame, everything added afterwards in the DVR frame
            if any(k != ("none",) for k in pre_rotate) or any(k != ("rotate",) for k in inherited):
                dvr = ("mixed",)
        if dvr is None:
            kinds = set(inherited)
            if not kinds:
                dvr = ("none",)
            elif len(kinds) == 1:
                dvr = kinds.pop()
            else:
                dvr = ("mixed",)
        return mat, dvr

    def block_inner(self, stmts, mat):
        inherited = []
        for s in stmts:
            self.cur_mat = mat
            if isinstance(s, ast.Assign) and len(s.targets) == 1 and isinstance(s.targets[0], ast.Name) and s.targets[0].id == "mat":
                kind, val = self.expr(s.value, inherited)
                if kind != "M":
                    raise TranslateError("mat assigned a scalar: %s" % ast.unparse(s))
                mat = val
            elif isinstance(s, ast.AugAssign) and isinstance(s.target, ast.Name) and s.target.id == "mat" and isinstance(s.op, ast.Add):
                kind, val = self.expr(s.value, inherited)
                if kind != "M" or mat is None:
                    raise TranslateError("mat += : %s" % ast.unparse(s))
                mat = m_add(mat, val)
            else:
                raise TranslateError("statement in a branch: %s" % ast.unparse(s)[:120])
        return mat, None, inherited

    def expr(self, n, inherited):
        txt = ast.unparse(n)
        if txt in PRIMS:
            return "M", {PRIMS[txt]: s_const(1)}
        if isinstance(n, ast.Constant):
            v = n.value
            if isinstance(v, bool):
                raise TranslateError("bool constant")
            if isinstance(v, int):
                return "S", s_const(v)
            if isinstance(v, float):
                return "S", s_const(Fraction(repr(v)))
            if isinstance(v, complex):
                if v.real != 0:
                    raise TranslateError("complex constant %r" % v)
                return "S", s_mul(s_const(Fraction(repr(v.imag))), {(0, 0, 1, 0): Fraction(1)})
            raise TranslateError("constant %r" % (v,))
        if isinstance(n, ast.Name) and n.id == "mat":
            if getattr(self, "cur_mat", None) is None:
                raise TranslateError("mat used before assignment")
            return "M", {k: dict(v) for k, v in self.cur_mat.items()}
        if isinstance(n, ast.Attribute) and isinstance(n.value, ast.Name) and n.value.id == "self":
            if n.attr == "omega":
                return "S", {(2, 0, 0, 0): Fraction(1)}
            if n.attr == "x0":
                return "S", {(0, 0, 0, 1): Fraction(1)}
            raise TranslateError("attribute self.%s" % n.attr)
        if isinstance(n, ast.Attribute) and n.attr == "real":
            kind, val = self.expr(n.value, inherited)
            if kind != "M":
                raise TranslateError(".real of a scalar")
            for mo, sc in val.items():
                for (sw, s2, si, sx) in sc:
                    if si != 0:
                        raise TranslateError(".real of a matrix with an imaginary coefficient: %s" % txt)
            return "M", val
        if isinstance(n, ast.UnaryOp) and isinstance(n.op, ast.USub):
            kind, val = self.expr(n.operand, inherited)
            return (kind, s_mul(val, s_const(-1))) if kind == "S" else (kind, m_scale(val, s_const(-1)))
        if isinstance(n, ast.BinOp):
            if isinstance(n.op, ast.Pow):
                kb, b = self.expr(n.left, inherited)
                if kb != "S" or not isinstance(n.right, ast.Constant) or not isinstance(n.right.value, int):
                    raise TranslateError("power: %s" % txt)
                return "S", s_pow(b, n.right.value)
            kl, l = self.expr(n.left, inherited)
            kr, r = self.expr(n.right, inherited)
            if isinstance(n.op, (ast.Add, ast.Sub)):
                sign = 1 if isinstance(n.op, ast.Add) else -1
                if kl != kr:
                    raise TranslateError("adding a scalar and a matrix: %s" % txt)
                return (kl, s_add(l, r, sign)) if kl == "S" else (kl, m_add(l, r, sign))
            if isinstance(n.op, ast.Mult):
                if kl == "S" and kr == "S":
                    return "S", s_mul(l, r)
                if kl == "S" and kr == "M":
                    return "M", m_scale(r, l)
                if kl == "M" and kr == "S":
                    return "M", m_scale(l, r)
                raise TranslateError("elementwise product of two matrices: %s" % txt)
            if isinstance(n.op, ast.Div):
                if kr != "S":
                    raise TranslateError("division by a matrix: %s" % txt)
                inv = s_inv(r)
                return ("S", s_mul(l, inv)) if kl == "S" else ("M", m_scale(l, inv))
            raise TranslateError("operator %s in %s" % (type(n.op).__name__, txt))
        if isinstance(n, ast.Call):
            f = ast.unparse(n.func)
            if f == "np.sqrt" and len(n.args) == 1 and not n.keywords:
                k, v = self.expr(n.args[0], inherited)
                if k != "S":
                    raise TranslateError("np.sqrt of a matrix: %s" % txt)
                return "S", s_sqrt(v)
            if f == "self.op_mat" and len(n.args) == 1 and not n.keywords and isinstance(n.args[0], ast.Constant) and isinstance(n.args[0].value, str):
                mat, dvr = self.symbol_value(n.args[0].value)
                inherited.append(dvr)
                return "M", mat
            raise TranslateError("call %s" % txt[:100])
        raise TranslateError("expression %s" % txt[:100])


def is_literal_test(test):
    """`op_symbol == "lit"`, `op_symbol in [lits]`, optionally `and (not self.general_xp_power)`."""
    t = test
    if isinstance(t, ast.BoolOp) and isinstance(t.op, ast.And) and len(t.values) == 2 and ast.unparse(t.values[1]) == "not self.general_xp_power":
        t = t.values[0]
    if isinstance(t, ast.Compare) and len(t.ops) == 1 and isinstance(t.left, ast.Name) and t.left.id == "op_symbol":
        c = t.comparators[0]
        if isinstance(t.ops[0], ast.Eq) and isinstance(c, ast.Constant) and isinstance(c.value, str):
            return [c.value]
        if isinstance(t.ops[0], ast.In) and isinstance(c, ast.List) and all(isinstance(e, ast.Constant) and isinstance(e.value, str) for e in c.elts):
            return [e.value for e in c.elts]
    return None


GENERIC_TESTS = {
    "set(op_symbol.split(' ')) == set('x')": "x x ... (delegates to x^k)",
    "op_symbol.split('^')[0] == 'x'": "x^k general power formula (x_power_k)",
    "set(op_symbol.split(' ')) == set('p')": "p p ... (delegates to p^k)",
    "op_symbol.split('^')[0] == 'p'": "p^k general power formula (p_power_k)",
}


def _canon(src):
    """source text -> the running interpreter's ast.unparse spelling"""
    return ast.unparse(ast.parse(src).body[0])


def _canon_expr(src):
    return ast.unparse(ast.parse(src, mode="eval").body)


def load_branches(repo):
    path = os.path.join(repo, SOURCE)
    tree = ast.parse(open(path).read())
    cls = [n for n in tree.body if isinstance(n, ast.ClassDef) and n.name == "BasisSHO"]
    if len(cls) != 1:
        raise TranslateError("class BasisSHO not found")
    fn = [n for n in cls[0].body if isinstance(n, ast.FunctionDef) and n.name == "op_mat"]
    if len(fn) != 1:
        raise TranslateError("BasisSHO.op_mat not found")
    if [a.arg for a in fn[0].args.args] != ["self", "op"]:
        raise TranslateError("op_mat signature changed")
    body = [s for s in fn[0].body if not (isinstance(s, ast.Expr) and isinstance(s.value, ast.Constant))]
    chain = [i for i, s in enumerate(body) if isinstance(s, ast.If) and ast.unparse(s.test) == "op_symbol == 'b'"]
    if len(chain) != 1:
        raise TranslateError("start of the if/elif chain not found")
    k = chain[0]
    pre = [ast.unparse(s) for s in body[:k]]
    exp = [_canon(t) for t in PREAMBLE]
    if pre != exp:
        for a, b in zip(pre + [None] * 9, exp + [None] * 9):
            if a != b:
                raise TranslateError("op_mat preamble changed: %r (expected %r)" % (a, b))
    if [ast.unparse(s) for s in body[k + 1:]] != [_canon(t) for t in TAIL]:
        raise TranslateError("op_mat tail changed: %r" % [ast.unparse(s) for s in body[k + 1:]])
    branches = []
    node = body[k]
    while True:
        branches.append((node.test, node.body))
        if len(node.orelse) == 1 and isinstance(node.orelse[0], ast.If):
            node = node.orelse[0]
            continue
        if [ast.unparse(s) for s in node.orelse] != [_canon("raise ValueError(f'op_symbol:{op_symbol} is not supported. ')")]:
            raise TranslateError("final else changed: %r" % [ast.unparse(s) for s in node.orelse])
        break
    return branches


def translate(repo):
    branches = load_branches(repo)
    it = Interp(branches)
    table = []       # (symbol, matrix dict, dvr)
    generic = []
    for test, body in branches:
        lits = is_literal_test(test)
        if lits is None:
            t = ast.unparse(test)
            if t not in GENERIC_TESTS:
                raise TranslateError("unknown generic branch test: %s" % t)
            generic.append(t)
            continue
        for sym in lits:
            if it.branch_of(sym) != [i for i, (t, _) in enumerate(branches) if t is test][0]:
                raise TranslateError("symbol %r is shadowed by an earlier branch" % sym)
            mat, dvr = it.symbol_value(sym)
            table.append((sym, mat, dvr))
    if sorted(generic) != sorted(GENERIC_TESTS):
        raise TranslateError("generic branches changed: %r" % generic)
    # split by x0 power / prefactor key
    out = []
    for sym, mat, dvr in table:
        groups = {}          # (sx, (sw,s2,si)) -> {mono: q}
        for mo, sc in mat.items():
            for (sw, s2, si, sx), q in sc.items():
                groups.setdefault((sx, (sw, s2, si)), {})[mo] = q
        plain = {k: v for k, v in groups.items() if k[0] == 0}
        if len(plain) > 1:
            raise TranslateError("branch %r mixes prefactors at x0 = 0: %r" % (sym, sorted(plain)))
        out.append({"symbol": sym, "plain": (list(plain.items())[0] if plain else None), "terms": sorted(groups.items()), "dvr": dvr})
    return out


# ------------------------------------------------------------------ rendering
def q(fr):
    fr = Fraction(fr)
    return "(%d # %d)" % (fr.numerator, fr.denominator) if fr.numerator >= 0 else "(- (%d # %d))" % (-fr.numerator, fr.denominator)


def z(n):
    return "%d" % n if n >= 0 else "(%d)" % n


def coq_str(s):
    return '"' + s.replace('"', '""') + '"'


def scal(key):
    sw, s2, si = key
    return "(mk_scal 1 %s %s %s)" % (z(sw), z(s2), z(si))


def coefs(d):
    return "[" + "; ".join("(%s, %s)" % (q(d[mo]), mo) for mo in MONOS if mo in d) + "]"


def dvr_txt(d):
    if d[0] == "none":
        return "DvrNone"
    if d[0] == "rotate":
        return "DvrRotate"
    if d[0] == "diag":
        return "(DvrDiagPow %d)" % d[1]
    return "DvrMixed"


def render(tab):
    L = []
    L.append("(* GENERATED by tx/shotable.py from renormalizer/model/basis.py : BasisSHO.op_mat -- do not edit. *)")
    L.append("From Coq Require Import QArith ZArith List String.")
    L.append("Import ListNotations.")
    L.append("From RV Require Import Model.Ladder.")
    L.append("Local Open Scope Q_scope.")
    L.append("Local Open Scope string_scope.")
    L.append("")
    L.append("(* value at x0 = 0:  prefactor * sum_j coefficient_j * monomial_j   (general_xp_power = False, dvr = False) *)")
    L.append("Definition sho_table : list (string * (scal * list (Q * mono))) := [")
    rows = []
    for e in tab:
        if e["plain"] is None:
            rows.append("  (%s, (mk_scal 1 0 0 0, []))" % coq_str(e["symbol"]))
        else:
            (sx, key), d = e["plain"]
            rows.append("  (%s, (%s, %s))" % (coq_str(e["symbol"]), scal(key), coefs(d)))
    L.append(";\n".join(rows))
    L.append("].")
    L.append("")
    L.append("(* all terms with the origin x0 symbolic:  sum over (power of x0, prefactor, coefficients) *)")
    L.append("Definition sho_table_x0 : list (string * list (nat * scal * list (Q * mono))) := [")
    rows = []
    for e in tab:
        ts = "; ".join("(%d%%nat, %s, %s)" % (sx, scal(key), coefs(d)) for (sx, key), d in e["terms"])
        rows.append("  (%s, [%s])" % (coq_str(e["symbol"]), ts))
    L.append(";\n".join(rows))
    L.append("].")
    L.append("")
    L.append("(* behaviour of each branch when dvr = True *)")
    L.append("Definition sho_dvr : list (string * dvr_kind) := [")
    L.append(";\n".join("  (%s, %s)" % (coq_str(e["symbol"]), dvr_txt(e["dvr"])) for e in tab))
    L.append("].")
    L.append("")
    return "\n".join(L) + "\n"


def main(repo):
    tab = translate(repo)
    return render(tab), tab


if __name__ == "__main__":
    text, tab = main(sys.argv[1] if len(sys.argv) > 1 else "/repo")
    sys.stdout.write(text)
