"""Translator: /repo/renormalizer/utils/configs.py  ->  coq/Gen/Trunc.v   (fail-closed)

Translates, with python's `ast`,
    class CompressCriteria(Enum)                       -> Inductive criteria
    CompressConfig._threshold_m_trunc(self, sigma)     -> threshold_m_trunc
    CompressConfig._fixed_m_trunc(self, sigma, idx, left) -> fixed_m_trunc
    CompressConfig.compute_m_trunc(self, sigma, idx, left) -> compute_m_trunc
    CompressConfig.set_bonddim(self, length)           -> set_bonddim   (fixed statement shape)
into Gallina over exact rationals, in terms of the NumPy-fragment semantics of Model/Trunc.v.

Typed expression subset (anything else raises TranslateError; the check then reports the translator
as broken):
    names of parameters / earlier assignments, `self.threshold|max_dims|criteria`,
    integer constants, `a + b`, `a - b` on integers,
    `x / scipy.linalg.norm(x)`   (x a vector; same expression on both sides)   -> normalised x
    `<normalised vector> OP <scalar>`, OP in > >= < <=                          -> nv_cmp Op.. v t
    `np.sum(<bool vector>)` -> count_true,  `int(e)` on an integer -> e,  `len(v)` -> py_len v,
    `max(a, b)`, `min(a, b)` on integers, `v[i]` on an integer list -> py_index,
    `a if <bool name> else b`, calls of the two sibling methods on `self`,
    `self.criteria is CompressCriteria.<member>` only as the test of an if/elif chain.

The square-root-free comparison: `sigma / norm(sigma) > thr` is rendered as `nv_cmp OpGt (normalised sigma) thr`
whose meaning (Model/Trunc.v) is  sigma_i^2 > thr^2 * sum sigma^2  (false when the sum is 0, as nan compares
False); equivalent for sigma_i >= 0 and thr > 0.  The `assert 0 < self.threshold < 1` and
`assert self.max_dims is not None` statements are emitted as recorded preconditions.
"""
import ast
import os
import sys

TARGET = "Gen/Trunc.v"


class TranslateError(Exception):
    pass


# types
Z, Q, VQ, NV, VB, LZ, B, CRIT = "Z", "Q", "list Q", "normvec", "list bool", "list Z", "bool", "criteria"
SELF_ATTRS = {"threshold": Q, "max_dims": LZ, "criteria": CRIT}
PARAM_TYPES = {"sigma": ("np.ndarray", VQ), "idx": ("int", Z), "left": ("bool", B), "length": (None, "nat")}
CMPOPS = {ast.Gt: "OpGt", ast.GtE: "OpGe", ast.Lt: "OpLt", ast.LtE: "OpLe"}


class Fn:
    def __init__(self, enum_members, methods):
        self.enum = enum_members
        self.methods = methods          # name -> (param names, return type) of already translated methods
        self.env = {}
        self.rename = {}
        self.pre = []

    def self_attr(self, attr):
        if attr not in SELF_ATTRS:
            raise TranslateError("unknown attribute self.%s" % attr)
        return "(cfg_%s self)" % attr, SELF_ATTRS[attr]

    # -------------------------------------------------------------- expressions
    def expr(self, n):
        """returns (coq_text, type)"""
        if isinstance(n, ast.Constant):
            if isinstance(n.value, bool) or not isinstance(n.value, int):
                raise TranslateError("unsupported constant %r" % (n.value,))
            return ("%d" % n.value if n.value >= 0 else "(%d)" % n.value), Z
        if isinstance(n, ast.Name):
            if n.id not in self.env:
                raise TranslateError("unbound name %s" % n.id)
            return self.rename.get(n.id, n.id), self.env[n.id]
        if isinstance(n, ast.Attribute) and isinstance(n.value, ast.Name) and n.value.id == "self":
            return self.self_attr(n.attr)
        if isinstance(n, ast.BinOp):
            if isinstance(n.op, ast.Div):
                # x / scipy.linalg.norm(x)
                r = n.right
                if (isinstance(r, ast.Call) and ast.unparse(r.func) in ("scipy.linalg.norm", "np.linalg.norm")
                        and len(r.args) == 1 and not r.keywords and ast.dump(r.args[0]) == ast.dump(n.left)):
                    t, ty = self.expr(n.left)
                    if ty != VQ:
                        raise TranslateError("normalising a non-vector")
                    return "(normalised %s)" % t, NV
                raise TranslateError("division other than x / norm(x): %s" % ast.unparse(n))
            l, lt = self.expr(n.left)
            r, rt = self.expr(n.right)
            if lt != Z or rt != Z:
                raise TranslateError("arithmetic on non-integers: %s" % ast.unparse(n))
            if isinstance(n.op, ast.Add):
                return "(%s + %s)" % (l, r), Z
            if isinstance(n.op, ast.Sub):
                return "(%s - %s)" % (l, r), Z
            raise TranslateError("operator %s" % type(n.op).__name__)
        if isinstance(n, ast.Compare):
            if len(n.ops) != 1 or type(n.ops[0]) not in CMPOPS:
                raise TranslateError("comparison %s" % ast.unparse(n))
            l, lt = self.expr(n.left)
            r, rt = self.expr(n.comparators[0])
            if lt == NV and rt == Q:
                return "(nv_cmp %s %s %s)" % (CMPOPS[type(n.ops[0])], l, r), VB
            raise TranslateError("comparison of %s with %s" % (lt, rt))
        if isinstance(n, ast.IfExp):
            c, ct = self.expr(n.test)
            if ct != B or not isinstance(n.test, (ast.Name, ast.Attribute)):
                raise TranslateError("conditional expression test %s" % ast.unparse(n.test))
            a, at = self.expr(n.body)
            b, bt = self.expr(n.orelse)
            if at != bt:
                raise TranslateError("branches of different type")
            return "(if %s then %s else %s)" % (c, a, b), at
        if isinstance(n, ast.Subscript):
            v, vt = self.expr(n.value)
            i, it = self.expr(n.slice)
            if vt != LZ or it != Z:
                raise TranslateError("subscript %s" % ast.unparse(n))
            return "(py_index %s %s)" % (v, i), Z
        if isinstance(n, ast.Call):
            if n.keywords:
                raise TranslateError("keyword arguments in %s" % ast.unparse(n))
            f = ast.unparse(n.func)
            args = [self.expr(a) for a in n.args]
            tys = [t for _, t in args]
            txt = [t for t, _ in args]
            if f == "np.sum" and tys == [VB]:
                return "(count_true %s)" % txt[0], Z
            if f == "int" and tys == [Z]:
                return txt[0], Z
            if f == "len" and tys == [VQ]:
                return "(py_len %s)" % txt[0], Z
            if f in ("max", "min") and tys == [Z, Z]:
                return "(Z.%s %s %s)" % (f, txt[0], txt[1]), Z
            if f.startswith("self.") and f[5:] in self.methods:
                params, rty = self.methods[f[5:]]
                want = [PARAM_TYPES[p][1] for p in params]
                if tys != want or [ast.unparse(a) for a in n.args] != params:
                    raise TranslateError("call %s with arguments %s" % (f, [ast.unparse(a) for a in n.args]))
                return "(%s self %s)" % (f[5:].lstrip("_"), " ".join(txt)), rty
            raise TranslateError("call %s on %s" % (f, tys))
        raise TranslateError("expression %s" % ast.dump(n)[:100])

    # -------------------------------------------------------------- statements
    def crit_test(self, t):
        if (isinstance(t, ast.Compare) and len(t.ops) == 1 and isinstance(t.ops[0], ast.Is)
                and ast.unparse(t.left) == "self.criteria"
                and isinstance(t.comparators[0], ast.Attribute)
                and ast.unparse(t.comparators[0].value) == "CompressCriteria"):
            m = t.comparators[0].attr
            if m not in self.enum:
                raise TranslateError("unknown criteria member %s" % m)
            return m
        raise TranslateError("if-test %s" % ast.unparse(t))

    def crit_chain(self, s):
        """if self.criteria is X: v = e ... elif ...: else: assert False   ->  (var, match text, type)"""
        arms = {}
        var = None
        ty = None
        cur = s
        while True:
            m = self.crit_test(cur.test)
            if m in arms:
                raise TranslateError("criteria member %s tested twice" % m)
            if len(cur.body) != 1 or not isinstance(cur.body[0], ast.Assign) or len(cur.body[0].targets) != 1 \
                    or not isinstance(cur.body[0].targets[0], ast.Name):
                raise TranslateError("criteria branch is not a single assignment")
            v = cur.body[0].targets[0].id
            if var is not None and v != var:
                raise TranslateError("criteria branches assign different names")
            var = v
            e, t = self.expr(cur.body[0].value)
            if ty is not None and t != ty:
                raise TranslateError("criteria branches of different type")
            ty = t
            arms[m] = e
            if len(cur.orelse) == 1 and isinstance(cur.orelse[0], ast.If):
                cur = cur.orelse[0]
                continue
            if not (len(cur.orelse) == 1 and isinstance(cur.orelse[0], ast.Assert)
                    and ast.unparse(cur.orelse[0].test) == "False"):
                raise TranslateError("criteria chain does not end with `else: assert False`")
            break
        if set(arms) != set(self.enum):
            raise TranslateError("criteria chain covers %s, enum has %s" % (sorted(arms), self.enum))
        txt = "match cfg_criteria self with\n" + "".join("  | %s => %s\n" % (cname(m), arms[m]) for m in self.enum) + "  end"
        return var, txt, ty

    def body(self, stmts):
        """returns (coq term text, type)"""
        if not stmts:
            raise TranslateError("function body falls off the end")
        s, rest = stmts[0], stmts[1:]
        if isinstance(s, ast.Expr) and isinstance(s.value, ast.Constant) and isinstance(s.value.value, str):
            return self.body(rest)
        if isinstance(s, ast.Assert):
            t = ast.unparse(s.test)
            if t not in ("0 < self.threshold < 1", "self.max_dims is not None"):
                raise TranslateError("assert %s" % t)
            self.pre.append(t)
            return self.body(rest)
        if isinstance(s, ast.Assign):
            if len(s.targets) != 1 or not isinstance(s.targets[0], ast.Name):
                raise TranslateError("assignment target")
            e, t = self.expr(s.value)
            name = s.targets[0].id
            if name in self.env:
                raise TranslateError("re-assignment of %s" % name)
            self.env[name] = t
            b, bt = self.body(rest)
            return "let %s := %s in\n  %s" % (name, e, b), bt
        if isinstance(s, ast.If):
            var, txt, ty = self.crit_chain(s)
            if var in self.env:
                raise TranslateError("re-assignment of %s" % var)
            self.env[var] = ty
            b, bt = self.body(rest)
            return "let %s := %s in\n  %s" % (var, txt.replace("\n", "\n  "), b), bt
        if isinstance(s, ast.Return):
            if rest:
                raise TranslateError("statements after return")
            return self.expr(s.value)
        raise TranslateError("statement %s" % type(s).__name__)


def cname(member):
    return member[0].upper() + member[1:]


def get_enum(tree):
    for node in tree.body:
        if isinstance(node, ast.ClassDef) and node.name == "CompressCriteria":
            if [ast.unparse(b) for b in node.bases] != ["Enum"]:
                raise TranslateError("CompressCriteria is not an Enum")
            members = []
            for s in node.body:
                if isinstance(s, ast.Expr) and isinstance(s.value, ast.Constant) and isinstance(s.value.value, str):
                    continue
                if isinstance(s, ast.Assign) and len(s.targets) == 1 and isinstance(s.targets[0], ast.Name) \
                        and isinstance(s.value, ast.Constant) and isinstance(s.value.value, str):
                    members.append(s.targets[0].id)
                    continue
                raise TranslateError("unexpected statement in CompressCriteria")
            if not members:
                raise TranslateError("empty enum")
            return members
    raise TranslateError("class CompressCriteria not found")


def get_methods(tree):
    for node in tree.body:
        if isinstance(node, ast.ClassDef) and node.name == "CompressConfig":
            return {f.name: f for f in node.body if isinstance(f, ast.FunctionDef)}
    raise TranslateError("class CompressConfig not found")


def signature(f, want):
    a = f.args
    if a.vararg or a.kwarg or a.kwonlyargs or a.defaults or a.posonlyargs or f.decorator_list:
        raise TranslateError("signature of %s" % f.name)
    names = [x.arg for x in a.args]
    if names != ["self"] + want:
        raise TranslateError("parameters of %s are %s" % (f.name, names))
    for x in a.args[1:]:
        ann = ast.unparse(x.annotation) if x.annotation is not None else None
        if ann != PARAM_TYPES[x.arg][0]:
            raise TranslateError("annotation of %s.%s is %s" % (f.name, x.arg, ann))
    if f.returns is not None and ast.unparse(f.returns) != "int":
        raise TranslateError("return annotation of %s" % f.name)


def translate(src):
    tree = ast.parse(src)
    enum = get_enum(tree)
    meths = get_methods(tree)
    out = []
    info = {"enum": enum, "preconditions": {}, "source": {}}
    out.append("(* GENERATED by tx/trunc.py from renormalizer/utils/configs.py -- do not edit.\n"
               "   sigma_i / ||sigma|| OP thr is rendered square-root free (see Model/Trunc.v: nv_cmp):\n"
               "   sigma_i^2 OP thr^2 * sum sigma^2, false when the sum is zero (nan); valid for sigma_i >= 0, thr > 0. *)\n"
               "From Coq Require Import QArith ZArith List Bool.\nImport ListNotations.\n"
               "From RV Require Import Model.Trunc.\nLocal Open Scope Z_scope.\n")
    out.append("(* class CompressCriteria(Enum) *)\nInductive criteria := %s.\n" % " | ".join(cname(m) for m in enum))
    out.append("Definition criteria_members : list criteria := [%s].\n" % "; ".join(cname(m) for m in enum))
    out.append("(* the attributes of `self` read by the translated methods *)\n"
               "Record config := mk_config { cfg_criteria : criteria; cfg_threshold : Q; cfg_max_dims : list Z }.\n")
    done = {}
    for name, params in (("_threshold_m_trunc", ["sigma"]), ("_fixed_m_trunc", ["sigma", "idx", "left"]),
                         ("compute_m_trunc", ["sigma", "idx", "left"])):
        if name not in meths:
            raise TranslateError("method %s not found" % name)
        f = meths[name]
        signature(f, params)
        fn = Fn(enum, done)
        for p in params:
            fn.env[p] = PARAM_TYPES[p][1]
        term, ty = fn.body(f.body)
        if ty != Z:
            raise TranslateError("%s does not return an integer" % name)
        cn = name.lstrip("_")
        src_txt = ast.unparse(f)
        out.append("(* %s\n*)" % src_txt.replace("(*", "( *").replace("*)", "* )"))
        for p in fn.pre:
            out.append("(* precondition (python assert): %s *)" % p)
        out.append("Definition %s (self : config) %s : Z :=\n  %s.\n" % (
            cn, " ".join("(%s : %s)" % (p, PARAM_TYPES[p][1]) for p in params), term))
        done[name] = (params, Z)
        info["preconditions"][cn] = fn.pre
        info["source"][cn] = src_txt
    # set_bonddim: fixed shape
    if "set_bonddim" not in meths:
        raise TranslateError("method set_bonddim not found")
    sb = meths["set_bonddim"]
    want = "def set_bonddim(self, length):\n    if self.max_dims is None:\n        self.max_dims = np.full(length, self.bond_dim_max_value, dtype=int)"
    if ast.unparse(sb).strip() != want:
        raise TranslateError("set_bonddim changed shape:\n" + ast.unparse(sb))
    out.append("(* %s\n*)" % want)
    out.append("Definition set_bonddim (old : option (list Z)) (bond_dim_max_value : Z) (length : nat) : list Z :=\n"
               "  match old with None => repeat bond_dim_max_value length | Some md => md end.\n")
    return "\n".join(out), info


# =====================================================================================================
# Part 2: the sweeps.  mps/mp.py: iter_idx_list, compress (loop header, kept-count selection incl. the
# temp_m_trunc branch), _update_ms (which bond receives the kept count), bond_dims convention;
# utils/configs.py: bonddim_should_set, bond_dim_max_value; tn/tree.py: TTNS.compress, compress_node
# (kept-count selection, which bond), compress_recursion (traversal).
# =====================================================================================================
OPTZ, TEMP = "option Z", "temp_arg"
ISINSTANCE_SEQ = "isinstance(temp_m_trunc, (list, tuple, np.ndarray))"


class SweepFn(Fn):
    """expressions/statements of the MatrixProduct / TTNS methods; `self.x` are plain variables"""

    def __init__(self, attrs):
        super().__init__([], {})
        self.attrs = attrs                     # attr -> (coq name, type)
        self.temp_kind = None                  # None | "none" | "int" | "list"  (static knowledge about temp_m_trunc)

    def self_attr(self, attr):
        if attr not in self.attrs:
            raise TranslateError("unknown attribute self.%s" % attr)
        return self.attrs[attr]

    def expr(self, n):
        if isinstance(n, ast.Constant) and isinstance(n.value, bool):
            return ("true" if n.value else "false"), B
        if isinstance(n, ast.UnaryOp) and isinstance(n.op, ast.USub) and isinstance(n.operand, ast.Constant) \
                and isinstance(n.operand.value, int) and not isinstance(n.operand.value, bool):
            return "(-%d)" % n.operand.value, Z
        if isinstance(n, ast.Name) and n.id == "temp_m_trunc":
            if self.temp_kind == "int":
                return "temp_i", Z
            if self.temp_kind == "list":
                return "temp_l", LZ
            raise TranslateError("temp_m_trunc used where it may be None")
        if isinstance(n, ast.Call) and ast.unparse(n.func) == "self.compress_config.compute_m_trunc":
            args = list(n.args)
            kw = {k.arg: k.value for k in n.keywords}
            if len(args) == 2 and set(kw) == {"left"}:
                args.append(kw["left"])
            elif not (len(args) == 3 and not kw):
                raise TranslateError("call %s" % ast.unparse(n))
            tr = [self.expr(a) for a in args]
            if [t for _, t in tr] != [VQ, Z, B]:
                raise TranslateError("argument types of %s" % ast.unparse(n))
            return "(compute_m_trunc cc %s %s %s)" % tuple(t for t, _ in tr), Z
        if isinstance(n, ast.Call) and ast.unparse(n.func) == "range" and not n.keywords:
            tr = [self.expr(a) for a in n.args]
            if len(tr) == 2 and [t for _, t in tr] == [Z, Z]:
                return "(py_range %s %s)" % (tr[0][0], tr[1][0]), LZ
            if len(tr) == 3 and [t for _, t in tr] == [Z, Z, Z] and tr[2][0] == "(-1)":
                return "(py_range_down %s %s)" % (tr[0][0], tr[1][0]), LZ
            raise TranslateError("range call %s" % ast.unparse(n))
        return super().expr(n)

    def block(self, stmts):
        """statement list -> (term, type); `if` duplicates the continuation into both branches"""
        if not stmts:
            raise TranslateError("block falls off the end")
        s, rest = stmts[0], list(stmts[1:])
        if isinstance(s, ast.Return):
            if rest:
                raise TranslateError("statements after return")
            return self.expr(s.value)
        if isinstance(s, ast.Assign) and len(s.targets) == 1 and isinstance(s.targets[0], ast.Name):
            e, t = self.expr(s.value)
            name = s.targets[0].id
            saved = dict(self.env)
            self.env[name] = t
            b, bt = self.block(rest)
            self.env = saved
            return "(let %s := %s in %s)" % (name, e, b), bt
        if isinstance(s, ast.If):
            test = ast.unparse(s.test)
            # static resolution of the kind of temp_m_trunc
            if test == "temp_m_trunc is None":
                if self.temp_kind is not None:
                    raise TranslateError("nested test of temp_m_trunc")
                arms = []
                for kind, pat, branch in (("none", "TNone", s.body), ("int", "TInt temp_i", s.orelse), ("list", "TList temp_l", s.orelse)):
                    self.temp_kind = kind
                    b, bt = self.block(list(branch) + rest)
                    arms.append((pat, b, bt))
                self.temp_kind = None
                if len({bt for _, _, bt in arms}) != 1:
                    raise TranslateError("branches of different type")
                return "match temp_m_trunc with\n" + "".join("  | %s => %s\n" % (p, b) for p, b, _ in arms) + "  end", arms[0][2]
            if test == ISINSTANCE_SEQ:
                if self.temp_kind not in ("int", "list"):
                    raise TranslateError("isinstance test outside the `temp_m_trunc is not None` branch")
                return self.block(list(s.body if self.temp_kind == "list" else s.orelse) + rest)
            if test.startswith("isinstance("):
                raise TranslateError("isinstance test %s" % test)
            # option tests
            m = None
            if isinstance(s.test, ast.Compare) and len(s.test.ops) == 1 and isinstance(s.test.left, ast.Name) \
                    and isinstance(s.test.comparators[0], ast.Constant) and s.test.comparators[0].value is None \
                    and self.env.get(s.test.left.id) == OPTZ:
                name = s.test.left.id
                some, none = (s.body, s.orelse) if isinstance(s.test.ops[0], ast.IsNot) else (s.orelse, s.body)
                if not isinstance(s.test.ops[0], (ast.IsNot, ast.Is)):
                    raise TranslateError("option test %s" % test)
                saved = dict(self.env)
                self.env[name] = Z
                a, at = self.block(list(some) + rest)
                self.env = saved
                b, bt = self.block(list(none) + rest)
                if at != bt:
                    raise TranslateError("branches of different type")
                return "(match %s with Some %s => %s | None => %s end)" % (name, name, a, b), at
            c, ct = self.expr(s.test)
            if ct != B:
                raise TranslateError("if-test %s" % test)
            a, at = self.block(list(s.body) + rest)
            b, bt = self.block(list(s.orelse) + rest)
            if at != bt:
                raise TranslateError("branches of different type")
            return "(if %s then %s else %s)" % (c, a, b), at
        raise TranslateError("statement %s: %s" % (type(s).__name__, ast.unparse(s)[:80]))


def find_class(tree, name):
    for node in tree.body:
        if isinstance(node, ast.ClassDef) and node.name == name:
            return node
    raise TranslateError("class %s not found" % name)


def find_def(body, name):
    fs = [f for f in body if isinstance(f, ast.FunctionDef) and f.name == name]
    if len(fs) != 1:
        raise TranslateError("function %s not found exactly once" % name)
    return fs[0]


def strip_doc(stmts):
    return [x for x in stmts if not (isinstance(x, ast.Expr) and isinstance(x.value, ast.Constant) and isinstance(x.value.value, str))]


def params(f):
    a = f.args
    if a.vararg or a.kwarg or a.kwonlyargs or a.posonlyargs:
        raise TranslateError("signature of %s" % f.name)
    return [x.arg for x in a.args], [ast.unparse(d) for d in a.defaults]


def comment(src):
    return "(* %s\n*)" % src.replace("(*", "( *").replace("*)", "* )")


def m_trunc_definition(name, stmt, sigma_name, extra_params, attrs):
    """the `if temp_m_trunc is None: ... else: ...` statement -> Definition returning m_trunc"""
    if not (isinstance(stmt, ast.If) and ast.unparse(stmt.test) == "temp_m_trunc is None"):
        raise TranslateError("kept-count selection of %s changed shape: %s" % (name, ast.unparse(stmt)[:100]))
    fn = SweepFn(attrs)
    fn.env = {sigma_name: VQ, "idx": Z}
    fn.rename = {sigma_name: "sigma"}
    term, ty = fn.block([stmt, ast.Return(value=ast.Name(id="m_trunc", ctx=ast.Load()))])
    if ty != Z:
        raise TranslateError("m_trunc of %s is not an integer" % name)
    return "Definition %s (cc : config) %s(temp_m_trunc : temp_arg) (sigma : list Q) (idx : Z) : Z :=\n  %s.\n" % (
        name, extra_params, term.replace("\n", "\n  "))


def translate_sweeps(repo):
    out = []
    info = {}
    with open(os.path.join(repo, "renormalizer", "utils", "configs.py")) as f:
        cfg_tree = ast.parse(f.read())
    with open(os.path.join(repo, "renormalizer", "mps", "mp.py")) as f:
        mp_tree = ast.parse(f.read())
    with open(os.path.join(repo, "renormalizer", "tn", "tree.py")) as f:
        tn_tree = ast.parse(f.read())
    out.append("\n(* ============================ Part 2: sweeps (mps/mp.py, tn/tree.py, utils/configs.py) ============================ *)")
    # ---- configs: bonddim_should_set, bond_dim_max_value
    cc = find_class(cfg_tree, "CompressConfig")
    bs = find_def(cc.body, "bonddim_should_set")
    want = "return self.criteria is not CompressCriteria.threshold and self.max_dims is None"
    body = strip_doc(bs.body)
    if len(body) != 1 or ast.unparse(body[0]) != want or [ast.unparse(d) for d in bs.decorator_list] != ["property"]:
        raise TranslateError("bonddim_should_set changed: %s" % ast.unparse(bs))
    out.append(comment(ast.unparse(bs)))
    out.append("Definition bonddim_should_set (crit : criteria) (old : option (list Z)) : bool :=\n"
               "  negb (match crit with Threshold => true | _ => false end) && is_none old.\n")
    init = find_def(cc.body, "__init__")
    assigns = [ast.unparse(x) for x in ast.walk(init) if isinstance(x, ast.Assign) and ast.unparse(x.targets[0]) == "self.bond_dim_max_value"]
    if not assigns or assigns[0] != "self.bond_dim_max_value = max_bonddim":
        raise TranslateError("bond_dim_max_value is not initialised from max_bonddim: %s" % assigns)
    mdinit = [ast.unparse(x) for x in init.body if isinstance(x, (ast.Assign, ast.AnnAssign)) and ast.unparse(x.targets[0] if isinstance(x, ast.Assign) else x.target) == "self.max_dims"]
    if mdinit != ["self.max_dims: np.ndarray = None"]:
        raise TranslateError("CompressConfig.__init__ sets max_dims: %s" % mdinit)
    out.append("(* __init__: self.bond_dim_max_value = max_bonddim ; self.max_dims = None ; compress(): set_bonddim(length) when bonddim_should_set *)\n"
               "Definition effective_max_dims (crit : criteria) (old : option (list Z)) (max_bonddim : Z) (length : Z) : list Z :=\n"
               "  if bonddim_should_set crit old then set_bonddim old max_bonddim (Z.to_nat length)\n"
               "  else match old with Some md => md | None => [] end.\n")
    # ---- MatrixProduct
    mp = find_class(mp_tree, "MatrixProduct")
    attrs = {"to_right": ("to_right", B), "site_num": ("site_num", Z), "qnidx": ("qnidx", Z)}
    it = find_def(mp.body, "iter_idx_list")
    names, defaults = params(it)
    if names != ["self", "full", "stop_idx"] or defaults != ["None"]:
        raise TranslateError("signature of iter_idx_list: %s %s" % (names, defaults))
    fn = SweepFn(attrs)
    fn.env = {"full": B, "stop_idx": OPTZ}
    term, ty = fn.block(strip_doc(it.body))
    if ty != LZ:
        raise TranslateError("iter_idx_list does not return a range")
    out.append(comment(ast.unparse(it)))
    out.append("Definition mp_iter_idx_list (site_num qnidx : Z) (to_right : bool) (full : bool) (stop_idx : option Z) : list Z :=\n  %s.\n" % term)
    # bond_dims convention: entry k is the FIRST virtual index of site k, plus the last index of the last site
    bd = find_def(mp.body, "bond_dims")
    bd_body = strip_doc(bd.body)
    if not (len(bd_body) == 2 and ast.unparse(bd_body[0]) ==
            "bond_dims = [mt.bond_dim[0] for mt in self] + [self[-1].bond_dim[-1]] if self.site_num else []"
            and ast.unparse(bd_body[1]) == "return bond_dims"):
        raise TranslateError("bond_dims changed: %s" % ast.unparse(bd))
    # _update_ms: the kept count becomes the last index of site idx (to_right) or its first index
    um = find_def(mp.body, "_update_ms")
    um_names, _ = params(um)
    if um_names != ["self", "idx", "u", "vt", "sigma", "qnlset", "qnrset", "m_trunc"]:
        raise TranslateError("signature of _update_ms: %s" % um_names)
    um_body = strip_doc(um.body)
    texts = [ast.unparse(x) for x in um_body]
    for need in ("u = u[:, :m_trunc]", "vt = vt[:m_trunc, :]", "self[idx] = ret_mpsi"):
        if texts.count(need) != 1:
            raise TranslateError("_update_ms: statement `%s` not found exactly once" % need)
    if not (texts.index("u = u[:, :m_trunc]") < texts.index("self[idx] = ret_mpsi") and texts.index("vt = vt[:m_trunc, :]") < texts.index("self[idx] = ret_mpsi")):
        raise TranslateError("_update_ms: statement order")
    dir_ifs = [x for x in um_body if isinstance(x, ast.If) and ast.unparse(x.test) == "self.to_right"]
    if len(dir_ifs) != 1:
        raise TranslateError("_update_ms: direction test")
    def ret_assign(stmts):
        r = [ast.unparse(x) for x in stmts if isinstance(x, ast.Assign) and ast.unparse(x.targets[0]) == "ret_mpsi"]
        if len(r) != 1:
            raise TranslateError("_update_ms: ret_mpsi assignment")
        return r[0]
    right = ret_assign(dir_ifs[0].body)
    left = ret_assign(dir_ifs[0].orelse)
    if right != "ret_mpsi = u.reshape([u.shape[0] // self[idx].pdim_prod] + list(self[idx].pdim) + [m_trunc])":
        raise TranslateError("_update_ms (to_right): %s" % right)
    if left != "ret_mpsi = vt.reshape([m_trunc] + list(self[idx].pdim) + [vt.shape[1] // self[idx].pdim_prod])":
        raise TranslateError("_update_ms (to left): %s" % left)
    for x in um_body[texts.index("self[idx] = ret_mpsi") + 1:]:
        raise TranslateError("_update_ms: statements after the site is stored")
    out.append("(* _update_ms: u = u[:, :m_trunc]; vt = vt[:m_trunc, :]; to_right: site idx := u.reshape([...] + [m_trunc])  -- its LAST\n"
               "   index, which is bond idx+1 in the bond_dims convention (entry k = first index of site k);\n"
               "   otherwise site idx := vt.reshape([m_trunc] + [...]) -- its FIRST index, bond idx *)\n"
               "Definition update_ms_bond (idx : Z) (to_right : bool) : Z := if to_right then idx + 1 else idx.\n")
    # compress
    cp = find_def(mp.body, "compress")
    cp_names, cp_defaults = params(cp)
    if cp_names != ["self", "temp_m_trunc", "ret_s"] or cp_defaults != ["None", "False"]:
        raise TranslateError("signature of compress: %s" % cp_names)
    cbody = strip_doc(cp.body)
    first = cbody[0]
    if not (isinstance(first, ast.If) and ast.unparse(first.test) == "self.to_right" and len(first.body) == 1 and len(first.orelse) == 1
            and isinstance(first.body[0], ast.Assert) and isinstance(first.orelse[0], ast.Assert)):
        raise TranslateError("compress: entry asserts changed")
    fn = SweepFn(attrs)
    vals = []
    for a in (first.body[0], first.orelse[0]):
        t = a.test
        if not (isinstance(t, ast.Compare) and len(t.ops) == 1 and isinstance(t.ops[0], ast.Eq) and ast.unparse(t.left) == "self.qnidx"):
            raise TranslateError("compress: entry assert %s" % ast.unparse(t))
        e, ty = fn.expr(t.comparators[0])
        if ty != Z:
            raise TranslateError("compress: entry assert type")
        vals.append(e)
    out.append(comment("compress(): " + ast.unparse(first)))
    out.append("Definition compress_qnidx (site_num : Z) (to_right : bool) : Z := if to_right then %s else %s.\n" % (vals[0], vals[1]))
    sb = [x for x in cbody if isinstance(x, ast.If) and ast.unparse(x.test) == "self.compress_config.bonddim_should_set"]
    if len(sb) != 1 or [ast.unparse(x) for x in sb[0].body] != ["self.compress_config.set_bonddim(len(self) + 1)"] or sb[0].orelse:
        raise TranslateError("compress: set_bonddim call changed")
    out.append("(* compress(): if self.compress_config.bonddim_should_set: self.compress_config.set_bonddim(len(self) + 1) *)\n"
               "Definition compress_max_dims (crit : criteria) (old : option (list Z)) (max_bonddim : Z) (site_num : Z) : list Z :=\n"
               "  effective_max_dims crit old max_bonddim (site_num + 1).\n")
    loops = [x for x in cbody if isinstance(x, ast.For)]
    if len(loops) != 1:
        raise TranslateError("compress: expected exactly one loop")
    lp = loops[0]
    if not (isinstance(lp.target, ast.Name) and lp.target.id == "idx" and ast.unparse(lp.iter) == "self.iter_idx_list(full=False)" and not lp.orelse):
        raise TranslateError("compress: loop header %s" % ast.unparse(lp.iter))
    if cbody.index(lp) < cbody.index(sb[0]):
        raise TranslateError("compress: set_bonddim after the loop")
    lb = strip_doc(lp.body)
    ltxt = [ast.unparse(x) for x in lb]
    allowed_prefix = ["mt: Matrix = self[idx]", "qnbigl, qnbigr, _ = self._get_big_qn([idx])",
                      "u, sigma, qnlset, v, sigma, qnrset = svd_qn.svd_qn(mt.array, qnbigl, qnbigr, self.qntot, system=system, full_matrices=False)",
                      "vt = v.T", "s_list.append(sigma)"]
    if ltxt[:5] != allowed_prefix or len(lb) != 7:
        raise TranslateError("compress: loop body changed: %s" % ltxt)
    if ltxt[6] != "self._update_ms(idx, u, vt, sigma, qnlset, qnrset, m_trunc)":
        raise TranslateError("compress: _update_ms call changed: %s" % ltxt[6])
    out.append(comment("compress(), loop body:\n" + ast.unparse(lb[5])))
    out.append(m_trunc_definition("compress_m_trunc", lb[5], "sigma", "(to_right : bool) ", attrs))
    out.append("(* for idx in self.iter_idx_list(full=False): ... self._update_ms(idx, u, vt, sigma, qnlset, qnrset, m_trunc) *)\n"
               "Definition compress_idx_list (site_num : Z) (to_right : bool) : list Z :=\n"
               "  mp_iter_idx_list site_num (compress_qnidx site_num to_right) to_right false None.\n"
               "(* dimension received by the cut bond: the columns of u[:, :m_trunc] (slicing clips at len sigma) *)\n"
               "Definition compress_step_dim (cc : config) (to_right : bool) (temp_m_trunc : temp_arg) (sigma : list Q) (idx : Z) : Z :=\n"
               "  Z.min (compress_m_trunc cc to_right temp_m_trunc sigma idx) (py_len sigma).\n"
               "Definition compress_dims (cc : config) (site_num : Z) (to_right : bool) (temp_m_trunc : temp_arg)\n"
               "           (spectrum : Z -> list Q) (dims : list Z) : list Z :=\n"
               "  fold_left (fun d idx => set_nth (Z.to_nat (update_ms_bond idx to_right))\n"
               "                                  (compress_step_dim cc to_right temp_m_trunc (spectrum idx) idx) d)\n"
               "            (compress_idx_list site_num to_right) dims.\n"
               "(* (idx, bond cut, m_trunc) per step, in order *)\n"
               "Definition compress_trace (cc : config) (site_num : Z) (to_right : bool) (temp_m_trunc : temp_arg)\n"
               "           (spectrum : Z -> list Q) : list Z :=\n"
               "  flat_map (fun idx => [idx; update_ms_bond idx to_right; compress_m_trunc cc to_right temp_m_trunc (spectrum idx) idx])\n"
               "           (compress_idx_list site_num to_right).\n")
    # ---- TTNS
    ttns = find_class(tn_tree, "TTNS")
    cn = find_def(ttns.body, "compress_node")
    cn_names, _ = params(cn)
    if cn_names != ["self", "node", "ichild", "temp_m_trunc", "cano_child"]:
        raise TranslateError("signature of compress_node: %s" % cn_names)
    nb = strip_doc(cn.body)
    ntxt = [ast.unparse(x) for x in nb]
    want_seq = ["qnbigl, qnbigr, tensor, shape = moveaxis(self, node, ichild)",
                "u, s, qnl, v, s, qnr = svd_qn(tensor, qnbigl, qnbigr, self.qntot, full_matrices=False)",
                "idx = self.node_idx[node.children[ichild]]", None, "orig_s = s.copy()",
                "u, s, v, qnl, qnr = truncate_tensors(u, s, v, qnl, qnr, m_trunc)", None,
                "shape[-1] = min(m_trunc, u.shape[-1])", "node.tensor = np.moveaxis(u.reshape(shape), -1, ichild)",
                "child = node.children[ichild]", "child.tensor = tensordot(child.tensor, v, axes=[-1, 0])", "child.qn = qnr", "return orig_s"]
    if len(ntxt) != len(want_seq) or any(w is not None and w != t for w, t in zip(want_seq, ntxt)):
        raise TranslateError("compress_node changed: %s" % ntxt)
    tt = find_def(tn_tree.body, "truncate_tensors")
    if [ast.unparse(x) for x in strip_doc(tt.body)] != ["u = u[:, :m]", "s = s[:m]", "v = v[:, :m]", "qnl = qnl[:m]", "qnr = qnr[:m]", "return (u, s, v, qnl, qnr)"]:
        raise TranslateError("truncate_tensors changed")
    out.append(comment("TTNS.compress_node: idx = self.node_idx[node.children[ichild]]\n" + ast.unparse(nb[3])))
    out.append(m_trunc_definition("compress_node_m_trunc", nb[3], "s", "", {}))
    out.append("(* shape[-1] = min(m_trunc, u.shape[-1]); node.tensor = np.moveaxis(u.reshape(shape), -1, ichild): the bond\n"
               "   between node and its ichild-th child, i.e. the bond above the node whose index is idx *)\n"
               "Definition compress_node_dim (cc : config) (temp_m_trunc : temp_arg) (sigma : list Q) (idx : Z) : Z :=\n"
               "  Z.min (compress_node_m_trunc cc temp_m_trunc sigma idx) (py_len sigma).\n")
    # compress_recursion: statement-by-statement event translation
    cr = find_def(tn_tree.body, "compress_recursion")
    cr_names, _ = params(cr)
    if cr_names != ["snode", "ttns", "s_dict", "temp_m_trunc"]:
        raise TranslateError("signature of compress_recursion: %s" % cr_names)
    rb = strip_doc(cr.body)
    if not (len(rb) == 2 and isinstance(rb[0], ast.Assert) and ast.unparse(rb[0].test) == "snode.children" and isinstance(rb[1], ast.For)
            and ast.unparse(rb[1].target) == "(ichild, child)" and ast.unparse(rb[1].iter) == "enumerate(snode.children)" and not rb[1].orelse):
        raise TranslateError("compress_recursion: header changed")

    def events(stmts, env):
        parts = []
        lets = []
        for x in stmts:
            t = ast.unparse(x)
            if t == "cano_child = bool(child.children)":
                lets.append("let cano_child := negb (is_nil (tchildren c)) in")
                env = env | {"cano_child"}
            elif t == "s = ttns.compress_node(snode, ichild, temp_m_trunc, cano_child)":
                if "cano_child" not in env:
                    raise TranslateError("compress_recursion: cano_child used before assignment")
                parts.append("[EvTrunc p (tid c) cano_child]")
            elif t == "s_dict[child] = s":
                parts.append("[]")
            elif t == "compress_recursion(child, ttns, s_dict, temp_m_trunc)":
                parts.append("tree_compress_events c")
            elif t == "ttns.push_cano_to_parent(child)":
                parts.append("[EvPush (tid c)]")
            elif isinstance(x, ast.If) and ast.unparse(x.test) == "cano_child" and not x.orelse:
                if "cano_child" not in env:
                    raise TranslateError("compress_recursion: cano_child used before assignment")
                parts.append("(if cano_child then %s else [])" % events(x.body, env))
            else:
                raise TranslateError("compress_recursion: statement %s" % t[:100])
            if lets and len(lets) > 1:
                raise TranslateError("compress_recursion: more than one binding")
        body = " ++ ".join(parts) if parts else "[]"
        return "(%s %s)" % (lets[0], body) if lets else "(%s)" % body

    ev_term = events(strip_doc(rb[1].body), frozenset())
    out.append(comment(ast.unparse(cr)))
    out.append("Fixpoint tree_compress_events (t : tree) : list event :=\n  match t with\n  | Node p cs =>\n"
               "    (fix over (l : list tree) : list event :=\n       match l with\n       | [] => []\n       | c :: r =>\n"
               "         %s ++ over r\n       end) cs\n  end.\n" % ev_term)
    tc = find_def(ttns.body, "compress")
    tb = strip_doc(tc.body)
    ttxt = [ast.unparse(x) for x in tb]
    if ttxt[0] != "if self.compress_config.bonddim_should_set:\n    self.compress_config.set_bonddim(len(self.node_list) + 1)" \
            or ttxt[2] != "compress_recursion(self.root, self, s_dict, temp_m_trunc)":
        raise TranslateError("TTNS.compress changed: %s" % ttxt[:3])
    out.append("(* TTNS.compress: set_bonddim(len(self.node_list) + 1); compress_recursion(self.root, self, s_dict, temp_m_trunc) *)\n"
               "Definition tree_max_dims (crit : criteria) (old : option (list Z)) (max_bonddim : Z) (n_nodes : Z) : list Z :=\n"
               "  effective_max_dims crit old max_bonddim (n_nodes + 1).\n"
               "Definition tree_compress_dims (cc : config) (temp_m_trunc : temp_arg) (spectrum : nat -> list Q) (qr_dim : nat -> Z -> Z)\n"
               "           (t : tree) (dims : nat -> Z) : nat -> Z :=\n"
               "  fold_left (fun d e => match e with\n"
               "                        | EvTrunc _ c _ => upd d c (compress_node_dim cc temp_m_trunc (spectrum c) (Z.of_nat c))\n"
               "                        | EvPush c => upd d c (qr_dim c (d c))\n"
               "                        end) (tree_compress_events t) dims.\n"
               "(* (parent, child, m_trunc) per truncation, in order *)\n"
               "Definition tree_compress_trace (cc : config) (temp_m_trunc : temp_arg) (spectrum : nat -> list Q) (t : tree) : list Z :=\n"
               "  flat_map (fun e => match e with\n"
               "                     | EvTrunc p c _ => [Z.of_nat p; Z.of_nat c; compress_node_m_trunc cc temp_m_trunc (spectrum c) (Z.of_nat c)]\n"
               "                     | EvPush c => [(-1); Z.of_nat c; (-1)]\n"
               "                     end) (tree_compress_events t).\n")
    return "\n".join(out), info


# =====================================================================================================
# Part 3: copies.  CompressConfig.copy and what MatrixProduct.metacopy / TTNS.metacopy do with compress_config.
# =====================================================================================================
def translate_copies(repo):
    out = ["\n(* ============================ Part 3: copies of configurations ============================ *)"]
    with open(os.path.join(repo, "renormalizer", "utils", "configs.py")) as f:
        cfg_tree = ast.parse(f.read())
    with open(os.path.join(repo, "renormalizer", "mps", "mp.py")) as f:
        mp_tree = ast.parse(f.read())
    with open(os.path.join(repo, "renormalizer", "tn", "tree.py")) as f:
        tn_tree = ast.parse(f.read())
    cc = find_class(cfg_tree, "CompressConfig")
    cp = find_def(cc.body, "copy")
    names, _ = params(cp)
    if names != ["self"]:
        raise TranslateError("signature of CompressConfig.copy")
    body = strip_doc(cp.body)
    if not body or ast.unparse(body[0]) != "new = self.__class__.__new__(self.__class__)":
        raise TranslateError("CompressConfig.copy: the result is not a fresh object: %s" % (ast.unparse(body[0]) if body else ""))
    if not (isinstance(body[-1], ast.Return) and ast.unparse(body[-1].value) == "new"):
        raise TranslateError("CompressConfig.copy: does not return `new`")
    dict_b = None
    arr_b = "ArrAlias"
    for x in body[1:-1]:
        t = ast.unparse(x)
        if isinstance(x, ast.Assign) and ast.unparse(x.targets[0]) == "new.__dict__" and dict_b is None:
            v = ast.unparse(x.value)
            if v in ("self.__dict__.copy()", "dict(self.__dict__)", "{**self.__dict__}", "copy.copy(self.__dict__)"):
                dict_b = "DictFreshCopy"
            elif v == "self.__dict__":
                dict_b = "DictAlias"
            else:
                raise TranslateError("CompressConfig.copy: new.__dict__ = %s" % v)
        elif t == "if self.max_dims is not None:\n    new.max_dims = self.max_dims.copy()" and dict_b is not None:
            arr_b = "ArrFreshCopy"
        else:
            raise TranslateError("CompressConfig.copy: statement %s" % t[:100])
    if dict_b is None:
        raise TranslateError("CompressConfig.copy: attribute namespace of the result is never set")
    out.append(comment(ast.unparse(cp)))
    out.append("Definition config_copy_dict : dict_binding := %s.\nDefinition config_copy_max_dims : array_binding := %s.\n" % (dict_b, arr_b))
    # every attribute store into self.* of CompressConfig outside __init__ / property setters: where the cache is written
    writers = {}
    for f in cc.body:
        if isinstance(f, ast.FunctionDef):
            for x in ast.walk(f):
                if isinstance(x, (ast.Assign, ast.AugAssign, ast.AnnAssign)):
                    for tg in (x.targets if isinstance(x, ast.Assign) else [x.target]):
                        if ast.unparse(tg) == "self.max_dims":
                            writers.setdefault(f.name, 0)
                            writers[f.name] += 1
    if sorted(writers) != ["__init__", "relax", "set_bonddim", "update"]:
        raise TranslateError("max_dims is written in %s" % sorted(writers))
    out.append("(* self.max_dims is assigned only in: __init__ (None), set_bonddim (the cache fill), update, relax *)\n"
               "Definition max_dims_writers : list Z := [%s].\n" % "; ".join(str(writers[k]) for k in sorted(writers)))

    def config_binding(cls_tree, cls, label):
        mc = find_def(find_class(cls_tree, cls).body, "metacopy")
        hits = [x for x in ast.walk(mc) if isinstance(x, ast.Assign) and ast.unparse(x.targets[0]) == "new.compress_config"]
        if len(hits) != 1:
            raise TranslateError("%s.metacopy: compress_config assigned %d times" % (cls, len(hits)))
        v = ast.unparse(hits[0].value)
        if v == "self.compress_config.copy()":
            b = "AttrCopyMethod"
        elif v == "self.compress_config":
            b = "AttrShare"
        else:
            raise TranslateError("%s.metacopy: new.compress_config = %s" % (cls, v))
        first = ast.unparse(strip_doc(mc.body)[0])
        if first not in ("new = self.__class__.__new__(self.__class__)", "new = self.__class__(self.basis)"):
            raise TranslateError("%s.metacopy: result object: %s" % (cls, first))
        cpy = find_def(find_class(cls_tree, cls).body, "copy")
        if ast.unparse(strip_doc(cpy.body)[0]) != "new = self.metacopy()":
            raise TranslateError("%s.copy does not start from metacopy()" % cls)
        for x in ast.walk(cpy):
            if isinstance(x, ast.Assign) and "compress_config" in ast.unparse(x.targets[0]):
                raise TranslateError("%s.copy assigns compress_config" % cls)
        out.append("(* %s.metacopy: %s ; %s.copy: new = self.metacopy() + data *)\nDefinition %s_metacopy_config : attr_binding := %s.\n"
                   % (cls, ast.unparse(hits[0]), cls, label, b))

    config_binding(mp_tree, "MatrixProduct", "mp")
    config_binding(tn_tree, "TTNS", "ttns")
    # subclasses of MatrixProduct must go through super().metacopy() and not touch compress_config
    for fn, cls in (("mps.py", "Mps"), ("mpo.py", "Mpo")):
        with open(os.path.join(repo, "renormalizer", "mps", fn)) as f:
            t = ast.parse(f.read())
        mc = find_def(find_class(t, cls).body, "metacopy")
        b = strip_doc(mc.body)
        if ast.unparse(b[0]) not in ("new = super().metacopy()", "new: %s = super().metacopy()" % cls):
            raise TranslateError("%s.metacopy does not start from super().metacopy()" % cls)
        for x in ast.walk(mc):
            if isinstance(x, ast.Assign) and "compress_config" in ast.unparse(x.targets[0]):
                raise TranslateError("%s.metacopy assigns compress_config" % cls)
    out.append("(* Mps.metacopy / Mpo.metacopy: new = super().metacopy(), compress_config untouched *)\n"
               "(* heap semantics of one configuration, instantiated with the generated criteria / rules *)\n"
               "Definition cfg_dflt : cfields criteria := mk_cfields Threshold 0%Q 0 None.\n"
               "Definition mp_copy_config (h : heap criteria) (r : nat) : heap criteria * nat :=\n"
               "  metacopy_config mp_metacopy_config config_copy_dict cfg_dflt h r.\n"
               "Definition ttns_copy_config (h : heap criteria) (r : nat) : heap criteria * nat :=\n"
               "  metacopy_config ttns_metacopy_config config_copy_dict cfg_dflt h r.\n"
               "(* compress(): if bonddim_should_set: set_bonddim(length) *)\n"
               "Definition compress_ensure_max_dims (h : heap criteria) (r : nat) (length : nat) : heap criteria :=\n"
               "  ensure_max_dims bonddim_should_set set_bonddim cfg_dflt h r length.\n")
    return "\n".join(out)


def main(repo):
    path = os.path.join(repo, "renormalizer", "utils", "configs.py")
    with open(path) as f:
        src = f.read()
    text, info = translate(src)
    text2, info2 = translate_sweeps(repo)
    info.update(info2)
    return text + "\n" + text2 + "\n" + translate_copies(repo), info


if __name__ == "__main__":
    print(main(sys.argv[1] if len(sys.argv) > 1 else "/repo")[0])
