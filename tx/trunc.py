"""Translator: /repo/renormalizer/utils/configs.py  ->  coq/Gen/Trunc.v   (fail-closed)

Translates, with python's `ast`,
    class CompressCriteria(Enum)                       -> Inductive criteria
    CompressConfig._threshold_m_trunc(self, sigma)     -> threshold_m_trunc
    CompressConfig._fixed_m_trunc(self, sigma, idx, left) -> fixed_m_trunc
    CompressConfig.compute_m_trunc(self, sigma, idx, left) -> compute_m_trunc
    CompressConfig.set_bonddim(self, length)           -> set_bonddim   (fixed statement shape)
into Gallina over exact rationals, in terms of the NumPy-fragment semantics of Model/Trunc.v.

Typed expression subset (anything else raises TranslateError; the check then reports the translator
as broken):
    names of parameters / earlier assignments, `self.threshold|max_dims|criteria`,
    integer constants, `a + b`, `a - b` on integers,
    `x / scipy.linalg.norm(x)`   (x a vector; same expression on both sides)   -> normalised x
    `<normalised vector> OP <scalar>`, OP in > >= < <=                          -> nv_cmp Op.. v t
    `np.sum(<bool vector>)` -> count_true,  `int(e)` on an integer -> e,  `len(v)` -> py_len v,
    `max(a, b)`, `min(a, b)` on integers, `v[i]` on an integer list -> py_index,
    `a if <bool name> else b`, calls of the two sibling methods on `self`,
    `self.criteria is CompressCriteria.<member>` only as the test of an if/elif chain.

The square-root-free comparison: `sigma / norm(sigma) > thr` is rendered as `nv_cmp OpGt (normalised sigma) thr`
whose meaning (Model/Trunc.v) is  sigma_i^2 > thr^2 * sum sigma^2  (false when the sum is 0, as nan compares
False); equivalent for sigma_i >= 0 and thr > 0.  The `assert 0 < self.threshold < 1` and
`assert self.max_dims is not None` statements are emitted as recorded preconditions.
"""
import ast
import os
import sys

TARGET = "Gen/Trunc.v"


class TranslateError(Exception):
    pass


# types
Z, Q, VQ, NV, VB, LZ, B, CRIT = "Z", "Q", "list Q", "normvec", "list bool", "list Z", "bool", "criteria"
SELF_ATTRS = {"threshold": Q, "max_dims": LZ, "criteria": CRIT}
PARAM_TYPES = {"sigma": ("np.ndarray", VQ), "idx": ("int", Z), "left": ("bool", B), "length": (None, "nat")}
CMPOPS = {ast.Gt: "OpGt", ast.GtE: "OpGe", ast.Lt: "OpLt", ast.LtE: "OpLe"}


class Fn:
    def __init__(self, enum_members, methods):
        self.enum = enum_members
        self.methods = methods          # name -> (param names, return type) of already translated methods
        self.env = {}
        self.pre = []

    # -------------------------------------------------------------- expressions
    def expr(self, n):
        """returns (coq_text, type)"""
        if isinstance(n, ast.Constant):
            if isinstance(n.value, bool) or not isinstance(n.value, int):
                raise TranslateError("unsupported constant %r" % (n.value,))
            return ("%d" % n.value if n.value >= 0 else "(%d)" % n.value), Z
        if isinstance(n, ast.Name):
            if n.id not in self.env:
                raise TranslateError("unbound name %s" % n.id)
            return n.id, self.env[n.id]
        if isinstance(n, ast.Attribute) and isinstance(n.value, ast.Name) and n.value.id == "self":
            if n.attr not in SELF_ATTRS:
                raise TranslateError("unknown attribute self.%s" % n.attr)
            return "(cfg_%s self)" % n.attr, SELF_ATTRS[n.attr]
        if isinstance(n, ast.BinOp):
            if isinstance(n.op, ast.Div):
                # x / scipy.linalg.norm(x)
                r = n.right
                if (isinstance(r, ast.Call) and ast.unparse(r.func) in ("scipy.linalg.norm", "np.linalg.norm")
                        and len(r.args) == 1 and not r.keywords and ast.dump(r.args[0]) == ast.dump(n.left)):
                    t, ty = self.expr(n.left)
                    if ty != VQ:
                        raise TranslateError("normalising a non-vector")
                    return "(normalised %s)" % t, NV
                raise TranslateError("division other than x / norm(x): %s" % ast.unparse(n))
            l, lt = self.expr(n.left)
            r, rt = self.expr(n.right)
            if lt != Z or rt != Z:
                raise TranslateError("arithmetic on non-integers: %s" % ast.unparse(n))
            if isinstance(n.op, ast.Add):
                return "(%s + %s)" % (l, r), Z
            if isinstance(n.op, ast.Sub):
                return "(%s - %s)" % (l, r), Z
            raise TranslateError("operator %s" % type(n.op).__name__)
        if isinstance(n, ast.Compare):
            if len(n.ops) != 1 or type(n.ops[0]) not in CMPOPS:
                raise TranslateError("comparison %s" % ast.unparse(n))
            l, lt = self.expr(n.left)
            r, rt = self.expr(n.comparators[0])
            if lt == NV and rt == Q:
                return "(nv_cmp %s %s %s)" % (CMPOPS[type(n.ops[0])], l, r), VB
            raise TranslateError("comparison of %s with %s" % (lt, rt))
        if isinstance(n, ast.IfExp):
            c, ct = self.expr(n.test)
            if ct != B or not isinstance(n.test, ast.Name):
                raise TranslateError("conditional expression test %s" % ast.unparse(n.test))
            a, at = self.expr(n.body)
            b, bt = self.expr(n.orelse)
            if at != bt:
                raise TranslateError("branches of different type")
            return "(if %s then %s else %s)" % (c, a, b), at
        if isinstance(n, ast.Subscript):
            v, vt = self.expr(n.value)
            i, it = self.expr(n.slice)
            if vt != LZ or it != Z:
                raise TranslateError("subscript %s" % ast.unparse(n))
            return "(py_index %s %s)" % (v, i), Z
        if isinstance(n, ast.Call):
            if n.keywords:
                raise TranslateError("keyword arguments in %s" % ast.unparse(n))
            f = ast.unparse(n.func)
            args = [self.expr(a) for a in n.args]
            tys = [t for _, t in args]
            txt = [t for t, _ in args]
            if f == "np.sum" and tys == [VB]:
                return "(count_true %s)" % txt[0], Z
            if f == "int" and tys == [Z]:
                return txt[0], Z
            if f == "len" and tys == [VQ]:
                return "(py_len %s)" % txt[0], Z
            if f in ("max", "min") and tys == [Z, Z]:
                return "(Z.%s %s %s)" % (f, txt[0], txt[1]), Z
            if f.startswith("self.") and f[5:] in self.methods:
                params, rty = self.methods[f[5:]]
                want = [PARAM_TYPES[p][1] for p in params]
                if tys != want or [ast.unparse(a) for a in n.args] != params:
                    raise TranslateError("call %s with arguments %s" % (f, [ast.unparse(a) for a in n.args]))
                return "(%s self %s)" % (f[5:].lstrip("_"), " ".join(txt)), rty
            raise TranslateError("call %s on %s" % (f, tys))
        raise TranslateError("expression %s" % ast.dump(n)[:100])

    # -------------------------------------------------------------- statements
    def crit_test(self, t):
        if (isinstance(t, ast.Compare) and len(t.ops) == 1 and isinstance(t.ops[0], ast.Is)
                and ast.unparse(t.left) == "self.criteria"
                and isinstance(t.comparators[0], ast.Attribute)
                and ast.unparse(t.comparators[0].value) == "CompressCriteria"):
            m = t.comparators[0].attr
            if m not in self.enum:
                raise TranslateError("unknown criteria member %s" % m)
            return m
        raise TranslateError("if-test %s" % ast.unparse(t))

    def crit_chain(self, s):
        """if self.criteria is X: v = e ... elif ...: else: assert False   ->  (var, match text, type)"""
        arms = {}
        var = None
        ty = None
        cur = s
        while True:
            m = self.crit_test(cur.test)
            if m in arms:
                raise TranslateError("criteria member %s tested twice" % m)
            if len(cur.body) != 1 or not isinstance(cur.body[0], ast.Assign) or len(cur.body[0].targets) != 1 \
                    or not isinstance(cur.body[0].targets[0], ast.Name):
                raise TranslateError("criteria branch is not a single assignment")
            v = cur.body[0].targets[0].id
            if var is not None and v != var:
                raise TranslateError("criteria branches assign different names")
            var = v
            e, t = self.expr(cur.body[0].value)
            if ty is not None and t != ty:
                raise TranslateError("criteria branches of different type")
            ty = t
            arms[m] = e
            if len(cur.orelse) == 1 and isinstance(cur.orelse[0], ast.If):
                cur = cur.orelse[0]
                continue
            if not (len(cur.orelse) == 1 and isinstance(cur.orelse[0], ast.Assert)
                    and ast.unparse(cur.orelse[0].test) == "False"):
                raise TranslateError("criteria chain does not end with `else: assert False`")
            break
        if set(arms) != set(self.enum):
            raise TranslateError("criteria chain covers %s, enum has %s" % (sorted(arms), self.enum))
        txt = "match cfg_criteria self with\n" + "".join("  | %s => %s\n" % (cname(m), arms[m]) for m in self.enum) + "  end"
        return var, txt, ty

    def body(self, stmts):
        """returns (coq term text, type)"""
        if not stmts:
            raise TranslateError("function body falls off the end")
        s, rest = stmts[0], stmts[1:]
        if isinstance(s, ast.Expr) and isinstance(s.value, ast.Constant) and isinstance(s.value.value, str):
            return self.body(rest)
        if isinstance(s, ast.Assert):
            t = ast.unparse(s.test)
            if t not in ("0 < self.threshold < 1", "self.max_dims is not None"):
                raise TranslateError("assert %s" % t)
            self.pre.append(t)
            return self.body(rest)
        if isinstance(s, ast.Assign):
            if len(s.targets) != 1 or not isinstance(s.targets[0], ast.Name):
                raise TranslateError("assignment target")
            e, t = self.expr(s.value)
            name = s.targets[0].id
            if name in self.env:
                raise TranslateError("re-assignment of %s" % name)
            self.env[name] = t
            b, bt = self.body(rest)
            return "let %s := %s in\n  %s" % (name, e, b), bt
        if isinstance(s, ast.If):
            var, txt, ty = self.crit_chain(s)
            if var in self.env:
                raise TranslateError("re-assignment of %s" % var)
            self.env[var] = ty
            b, bt = self.body(rest)
            return "let %s := %s in\n  %s" % (var, txt.replace("\n", "\n  "), b), bt
        if isinstance(s, ast.Return):
            if rest:
                raise TranslateError("statements after return")
            return self.expr(s.value)
        raise TranslateError("statement %s" % type(s).__name__)


def cname(member):
    return member[0].upper() + member[1:]


def get_enum(tree):
    for node in tree.body:
        if isinstance(node, ast.ClassDef) and node.name == "CompressCriteria":
            if [ast.unparse(b) for b in node.bases] != ["Enum"]:
                raise TranslateError("CompressCriteria is not an Enum")
            members = []
            for s in node.body:
                if isinstance(s, ast.Expr) and isinstance(s.value, ast.Constant) and isinstance(s.value.value, str):
                    continue
                if isinstance(s, ast.Assign) and len(s.targets) == 1 and isinstance(s.targets[0], ast.Name) \
                        and isinstance(s.value, ast.Constant) and isinstance(s.value.value, str):
                    members.append(s.targets[0].id)
                    continue
                raise TranslateError("unexpected statement in CompressCriteria")
            if not members:
                raise TranslateError("empty enum")
            return members
    raise TranslateError("class CompressCriteria not found")


def get_methods(tree):
    for node in tree.body:
        if isinstance(node, ast.ClassDef) and node.name == "CompressConfig":
            return {f.name: f for f in node.body if isinstance(f, ast.FunctionDef)}
    raise TranslateError("class CompressConfig not found")


def signature(f, want):
    a = f.args
    if a.vararg or a.kwarg or a.kwonlyargs or a.defaults or a.posonlyargs or f.decorator_list:
        raise TranslateError("signature of %s" % f.name)
    names = [x.arg for x in a.args]
    if names != ["self"] + want:
        raise TranslateError("parameters of %s are %s" % (f.name, names))
    for x in a.args[1:]:
        ann = ast.unparse(x.annotation) if x.annotation is not None else None
        if ann != PARAM_TYPES[x.arg][0]:
            raise TranslateError("annotation of %s.%s is %s" % (f.name, x.arg, ann))
    if f.returns is not None and ast.unparse(f.returns) != "int":
        raise TranslateError("return annotation of %s" % f.name)


def translate(src):
    tree = ast.parse(src)
    enum = get_enum(tree)
    meths = get_methods(tree)
    out = []
    info = {"enum": enum, "preconditions": {}, "source": {}}
    out.append("(* GENERATED by tx/trunc.py from renormalizer/utils/configs.py -- do not edit.\n"
               "   sigma_i / ||sigma|| OP thr is rendered square-root free (see Model/Trunc.v: nv_cmp):\n"
               "   sigma_i^2 OP thr^2 * sum sigma^2, false when the sum is zero (nan); valid for sigma_i >= 0, thr > 0. *)\n"
               "From Coq Require Import QArith ZArith List Bool.\nImport ListNotations.\n"
               "From RV Require Import Model.Trunc.\nLocal Open Scope Z_scope.\n")
    out.append("(* class CompressCriteria(Enum) *)\nInductive criteria := %s.\n" % " | ".join(cname(m) for m in enum))
    out.append("Definition criteria_members : list criteria := [%s].\n" % "; ".join(cname(m) for m in enum))
    out.append("(* the attributes of `self` read by the translated methods *)\n"
               "Record config := mk_config { cfg_criteria : criteria; cfg_threshold : Q; cfg_max_dims : list Z }.\n")
    done = {}
    for name, params in (("_threshold_m_trunc", ["sigma"]), ("_fixed_m_trunc", ["sigma", "idx", "left"]),
                         ("compute_m_trunc", ["sigma", "idx", "left"])):
        if name not in meths:
            raise TranslateError("method %s not found" % name)
        f = meths[name]
        signature(f, params)
        fn = Fn(enum, done)
        for p in params:
            fn.env[p] = PARAM_TYPES[p][1]
        term, ty = fn.body(f.body)
        if ty != Z:
            raise TranslateError("%s does not return an integer" % name)
        cn = name.lstrip("_")
        src_txt = ast.unparse(f)
        out.append("(* %s\n*)" % src_txt.replace("(*", "( *").replace("*)", "* )"))
        for p in fn.pre:
            out.append("(* precondition (python assert): %s *)" % p)
        out.append("Definition %s (self : config) %s : Z :=\n  %s.\n" % (
            cn, " ".join("(%s : %s)" % (p, PARAM_TYPES[p][1]) for p in params), term))
        done[name] = (params, Z)
        info["preconditions"][cn] = fn.pre
        info["source"][cn] = src_txt
    # set_bonddim: fixed shape
    if "set_bonddim" not in meths:
        raise TranslateError("method set_bonddim not found")
    sb = meths["set_bonddim"]
    want = "def set_bonddim(self, length):\n    if self.max_dims is None:\n        self.max_dims = np.full(length, self.bond_dim_max_value, dtype=int)"
    if ast.unparse(sb).strip() != want:
        raise TranslateError("set_bonddim changed shape:\n" + ast.unparse(sb))
    out.append("(* %s\n*)" % want)
    out.append("Definition set_bonddim (old : option (list Z)) (bond_dim_max_value : Z) (length : nat) : list Z :=\n"
               "  match old with None => repeat bond_dim_max_value length | Some md => md end.\n")
    return "\n".join(out), info


def main(repo):
    path = os.path.join(repo, "renormalizer", "utils", "configs.py")
    with open(path) as f:
        src = f.read()
    return translate(src)


if __name__ == "__main__":
    print(main(sys.argv[1] if len(sys.argv) > 1 else "/repo")[0])
