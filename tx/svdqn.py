"""Translator: structural facts of renormalizer/mps/svd_qn.py  ->  coq/Gen/SvdQnShape.v   (fail-closed)

The hand-written model coq/Model/SvdQn.v relies on a number of structural facts of svd_qn / eigh_qn /
blockappend / blockrecover / get_qn_mask.  This translator reads the source statement by statement (python ast,
every statement compared as canonical text `ast.unparse`) and emits them as one record `src_shape : shape`
(boolean / enum constants).  The proofs require `src_shape = ref_shape` (Proofs/SvdQnProofs.v: shape_ok) and the
theorems of Props/C18.v are stated about the model instantiated with `src_shape`.

Every statement of the two functions must be one of the statements known to this translator (in the known order).
For a handful of statements a *recognised alternative* exists (statement absent, operands swapped, ...): it changes a
constant (and thereby breaks `shape_ok`).  Anything else raises TranslateError.
"""
import ast
import sys

TARGET = "Gen/SvdQnShape.v"
FILE = "renormalizer/mps/svd_qn.py"


class TranslateError(Exception):
    pass


def U(n):
    return ast.unparse(n)


def strip_doc(body):
    if body and isinstance(body[0], ast.Expr) and isinstance(body[0].value, ast.Constant) and isinstance(body[0].value.value, str):
        return body[1:]
    return body


def expect_seq(stmts, expected, where):
    got = [U(s) for s in stmts]
    if got != expected:
        for i, (g, e) in enumerate(zip(got + ["<missing>"] * len(expected), expected + ["<missing>"] * len(got))):
            if g != e:
                raise TranslateError("%s: statement %d is\n    %s\nexpected\n    %s" % (where, i, g[:200], e[:200]))
        raise TranslateError("%s: statement list differs" % where)


class Cursor:
    def __init__(self, stmts, where):
        self.s = list(stmts)
        self.i = 0
        self.where = where

    def peek(self):
        return U(self.s[self.i]) if self.i < len(self.s) else None

    def take(self, text):
        """the next statement must be exactly `text`"""
        if self.peek() != text:
            raise TranslateError("%s: statement %d is\n    %s\nexpected\n    %s" % (self.where, self.i, (self.peek() or "<end>")[:300], text[:300]))
        self.i += 1

    def alt(self, options):
        """options: {text: value}; the next statement must be one of them; returns the value"""
        p = self.peek()
        if p in options:
            self.i += 1
            return options[p]
        raise TranslateError("%s: statement %d is\n    %s\nnot one of the recognised forms %s" % (self.where, self.i, (p or "<end>")[:300], list(options)))

    def optional(self, text):
        if self.peek() == text:
            self.i += 1
            return True
        return False

    def end(self):
        if self.i != len(self.s):
            raise TranslateError("%s: unexpected statement\n    %s" % (self.where, self.peek()[:300]))


def funcs(tree):
    return {n.name: n for n in tree.body if isinstance(n, ast.FunctionDef)}


BLOCKAPPEND = [
    "block_v_list.append(blockrecover(indice, v[:, :dim], shape))",
    "qn_list += [n] * dim",
    "if full_matrices:\n    block_v_list0.append(blockrecover(indice, v[:, dim:], shape))\n    qn_list0 += [n] * (v.shape[1] - dim)\n    sv_list0.append(np.zeros(v.shape[1] - dim))",
    "return (block_v_list, block_v_list0, qn_list, qn_list0, sv_list0)",
]
BLOCKAPPEND_ARGS = ["block_v_list", "block_v_list0", "qn_list", "qn_list0", "sv_list0", "v", "n", "dim", "indice", "shape", "full_matrices"]
BLOCKRECOVER = ["resortU = np.zeros([dim, U.shape[1]], dtype=U.dtype)", "resortU[indices, :] = U", "return resortU"]
GETMASK = ["return np.all(qnmat == np.array(qntot), axis=-1)"]


def parse_append(call_text_node, which):
    """blockappend(list, list0, qn_list, qn_list0, s_list0, v, n, dim, indice, shape, full_matrices=...)"""
    c = call_text_node
    if not (isinstance(c, ast.Expr) and isinstance(c.value, ast.Call) and isinstance(c.value.func, ast.Name) and c.value.func.id == "blockappend"):
        raise TranslateError("svd_qn: expected a blockappend(...) statement, got %s" % U(c)[:100])
    call = c.value
    a = [U(x) for x in call.args]
    kw = {k.arg: U(k.value) for k in call.keywords}
    if len(a) != 10 or kw != {"full_matrices": "full_matrices"}:
        raise TranslateError("svd_qn: blockappend argument form: %s" % U(c)[:200])
    side = {"u": ("block_u_list", "block_u_list0", "qnl_list", "qnl_list0", "block_su_list0"),
            "v": ("block_v_list", "block_v_list0", "qnr_list", "qnr_list0", "block_sv_list0")}[which]
    if tuple(a[:5]) != side:
        raise TranslateError("svd_qn: blockappend for %s appends to %s" % (which, a[:5]))
    if a[7] != "dim":
        raise TranslateError("svd_qn: blockappend split point is %s, not dim" % a[7])
    mat = a[5]
    lab = {"nl": "LabNl", "nr": "LabNr"}.get(a[6])
    idx = {"lset": "IdxL", "rset": "IdxR"}.get(a[8])
    if lab is None or idx is None:
        raise TranslateError("svd_qn: blockappend label/index arguments %s / %s" % (a[6], a[8]))
    want_shape = {"IdxL": "coef_matrix.shape[0]", "IdxR": "coef_matrix.shape[1]"}[idx]
    if a[9] != want_shape:
        raise TranslateError("svd_qn: blockappend scatters %s into %s rows" % (a[8], a[9]))
    return mat, lab, idx


def svd_facts(f):
    sh = {}
    body = strip_doc(f.body)
    argnames = [a.arg for a in f.args.args]
    if argnames != ["coef_array", "qnbigl", "qnbigr", "qntot", "QR", "system", "full_matrices", "opt_full_matrices"]:
        raise TranslateError("svd_qn: signature %s" % argnames)
    c = Cursor(body, "svd_qn")
    c.take("SVD = not QR")
    c.take("coef_matrix = coef_array.reshape((np.prod(qnbigl.shape[:-1]), np.prod(qnbigr.shape[:-1])))")
    c.take("assert qntot.ndim == 1")
    c.take("qn_size = len(qntot)")
    c.take("localqnl = qnbigl.reshape(-1, qn_size)")
    c.take("localqnr = qnbigr.reshape(-1, qn_size)")
    for nm in ("block_u_list", "block_u_list0", "block_v_list", "block_v_list0", "block_s_list", "block_su_list0", "block_sv_list0",
               "qnl_list", "qnl_list0", "qnr_list", "qnr_list0"):
        c.take("%s = []" % nm)
    # ---- the loop
    loop = c.s[c.i] if c.i < len(c.s) else None
    if not (isinstance(loop, ast.For) and not loop.orelse and U(loop.target) == "nl"):
        raise TranslateError("svd_qn: expected the loop over the label set")
    it = U(loop.iter)
    if it == "set([tuple(t) for t in localqnl])":
        sh["sh_loop_left"] = True
    elif it == "set([tuple(t) for t in localqnr])":
        sh["sh_loop_left"] = False
    else:
        raise TranslateError("svd_qn: loop iterates over %s" % it)
    c.i += 1
    b = Cursor(loop.body, "svd_qn loop")
    b.take("nr = qntot - nl")
    b.take("rset = np.where(get_qn_mask(localqnr, nr))[0]")
    sh["sh_svd_skip_empty"] = b.optional("if len(rset) == 0:\n    continue")
    b.take("lset = np.where(get_qn_mask(localqnl, nl))[0]")
    sh["sh_gather_rowmajor"] = b.alt({
        "block = coef_matrix.ravel().take((lset * coef_matrix.shape[1]).reshape(-1, 1) + rset)": True,
        "block = coef_matrix.ravel().take((lset * coef_matrix.shape[0]).reshape(-1, 1) + rset)": False})
    sh["sh_dim_min"] = b.alt({"dim = min(block.shape)": True, "dim = max(block.shape)": False, "dim = block.shape[0]": False, "dim = block.shape[1]": False})
    # the decomposition branch
    dec = b.s[b.i] if b.i < len(b.s) else None
    if not (isinstance(dec, ast.If) and U(dec.test) == "SVD"):
        raise TranslateError("svd_qn loop: expected `if SVD:`")
    b.i += 1
    expect_seq(dec.body, ["block_u, block_s, block_vt = optimized_svd(block, full_matrices=full_matrices, opt_full_matrices=opt_full_matrices)",
                          "block_s_list.append(block_s)"], "svd_qn SVD branch")
    q = Cursor(dec.orelse, "svd_qn QR branch")
    q.take("if full_matrices:\n    mode = 'full'\nelse:\n    mode = 'economic'")
    sysif = q.s[q.i] if q.i < len(q.s) else None
    q.i += 1
    q.end()
    forms = {
        "if system == 'R':\n    block_u, block_vt = scipy.linalg.rq(block, mode=mode)\nelif system == 'L':\n    block_u, block_vt = scipy.linalg.qr(block, mode=mode)\nelse:\n    assert False": (True, True),
        "if system == 'L':\n    block_u, block_vt = scipy.linalg.qr(block, mode=mode)\nelif system == 'R':\n    block_u, block_vt = scipy.linalg.rq(block, mode=mode)\nelse:\n    assert False": (True, True),
        "if system == 'R':\n    block_u, block_vt = scipy.linalg.qr(block, mode=mode)\nelif system == 'L':\n    block_u, block_vt = scipy.linalg.rq(block, mode=mode)\nelse:\n    assert False": (False, False),
    }
    if sysif is None or U(sysif) not in forms:
        raise TranslateError("svd_qn QR branch: system dispatch not recognised: %s" % (U(sysif)[:200] if sysif is not None else None))
    sh["sh_qr_L_is_qr"], sh["sh_qr_R_is_rq"] = forms[U(sysif)]
    # the two blockappend calls
    if b.i + 2 != len(b.s):
        raise TranslateError("svd_qn loop: expected exactly two blockappend statements at the end of the loop body")
    mat_u, sh["sh_u_label"], sh["sh_u_index"] = parse_append(b.s[b.i], "u")
    mat_v, sh["sh_v_label"], sh["sh_v_index"] = parse_append(b.s[b.i + 1], "v")
    if mat_u != "block_u":
        raise TranslateError("svd_qn: U columns are taken from %s" % mat_u)
    if mat_v == "block_vt.T":
        sh["sh_v_transposed"] = True
    elif mat_v == "block_vt":
        sh["sh_v_transposed"] = False
    else:
        raise TranslateError("svd_qn: V columns are taken from %s" % mat_v)
    # ---- after the loop
    c.take("if not full_matrices:\n    for l in [block_u_list0, block_v_list0, block_su_list0, block_sv_list0, qnl_list0, qnr_list0]:\n        assert len(l) == 0")
    c.take("if len(block_u_list) + len(block_u_list0) == 0 or len(block_v_list) + len(block_v_list0) == 0:\n    raise ValueError('Invalid quantum number')")
    order = []
    order.append(c.alt({"u = np.concatenate(block_u_list + block_u_list0, axis=1)": True, "u = np.concatenate(block_u_list0 + block_u_list, axis=1)": False}))
    order.append(c.alt({"v = np.concatenate(block_v_list + block_v_list0, axis=1)": True, "v = np.concatenate(block_v_list0 + block_v_list, axis=1)": False}))
    order.append(c.alt({"new_qnl = qnl_list + qnl_list0": True, "new_qnl = qnl_list0 + qnl_list": False}))
    order.append(c.alt({"new_qnr = qnr_list + qnr_list0": True, "new_qnr = qnr_list0 + qnr_list": False}))
    c.take("if QR:\n    return (u, new_qnl, v, new_qnr)")
    order.append(c.alt({"su = np.concatenate(block_s_list + block_su_list0)": True, "su = np.concatenate(block_su_list0 + block_s_list)": False}))
    order.append(c.alt({"sv = np.concatenate(block_s_list + block_sv_list0)": True, "sv = np.concatenate(block_sv_list0 + block_s_list)": False}))
    if len(set(order)) != 1:
        raise TranslateError("svd_qn: main/extra lists concatenated in inconsistent orders")
    sh["sh_main_before_extra"] = order[0]
    # the sort
    srt = c.s[c.i] if c.i < len(c.s) else None
    sort_tail = ["u = u[:, s_order]", "v = v[:, s_order]", "su = sv = su[s_order]",
                 "new_qnl = np.array(new_qnl)[s_order].tolist()", "new_qnr = np.array(new_qnr)[s_order].tolist()"]
    def sort_body(stmts, where):
        k = Cursor(stmts, where)
        k.take("assert np.allclose(su, sv)")
        desc = k.alt({"s_order = np.argsort(su)[::-1]": True, "s_order = np.argsort(sv)[::-1]": True,
                      "s_order = np.argsort(su)": False, "s_order = np.argsort(-su)": True})
        for t in sort_tail:
            k.take(t)
        k.end()
        return desc
    if isinstance(srt, ast.If) and U(srt.test) == "not full_matrices" and not srt.orelse:
        sh["sh_sort_econ_only"] = True
        sh["sh_sort_desc"] = sort_body(srt.body, "svd_qn sort")
        c.i += 1
    elif U(srt) == "assert np.allclose(su, sv)":
        sh["sh_sort_econ_only"] = False                           # unconditional sort
        sh["sh_sort_desc"] = sort_body(c.s[c.i:c.i + 7], "svd_qn sort")
        c.i += 7
    elif U(srt) == "return (u, su, new_qnl, v, sv, new_qnr)":
        raise TranslateError("svd_qn: the economic-mode sort is missing")
    else:
        raise TranslateError("svd_qn: sort block not recognised: %s" % U(srt)[:200])
    c.take("return (u, su, new_qnl, v, sv, new_qnr)")
    c.end()
    return sh


def eigh_facts(f):
    sh = {}
    if [a.arg for a in f.args.args] != ["dm", "qnbigl", "qnbigr", "qntot", "system"]:
        raise TranslateError("eigh_qn: signature")
    c = Cursor(strip_doc(f.body), "eigh_qn")
    c.take("assert system in ['L', 'R']")
    sh["sh_eigh_system_L_is_left"] = c.alt({
        "if system == 'L':\n    qnbig, comp_qnbig = (qnbigl, qnbigr)\nelse:\n    qnbig, comp_qnbig = (qnbigr, qnbigl)": True,
        "if system == 'R':\n    qnbig, comp_qnbig = (qnbigr, qnbigl)\nelse:\n    qnbig, comp_qnbig = (qnbigl, qnbigr)": True,
        "if system == 'L':\n    qnbig, comp_qnbig = (qnbigr, qnbigl)\nelse:\n    qnbig, comp_qnbig = (qnbigl, qnbigr)": False})
    c.take("del qnbigl, qnbigr")
    c.take("qn_size = len(qntot)")
    c.take("localqn = qnbig.reshape(-1, qn_size)")
    c.take("block_u_list = []")
    c.take("block_s_list = []")
    c.take("new_qn = []")
    loop = c.s[c.i] if c.i < len(c.s) else None
    if not (isinstance(loop, ast.For) and not loop.orelse and U(loop.target) == "nl" and U(loop.iter) == "set([tuple(t) for t in localqn])"):
        raise TranslateError("eigh_qn: expected the loop over the label set of the system side")
    c.i += 1
    b = Cursor(loop.body, "eigh_qn loop")
    has_nr = b.optional("nr = qntot - nl")
    skip = b.optional("if np.sum(get_qn_mask(comp_qnbig, nr)) == 0:\n    continue")
    if skip and not has_nr:
        raise TranslateError("eigh_qn loop: skip test uses nr before it is bound")
    sh["sh_eigh_skip_no_partner"] = skip
    b.take("lset = rset = np.where(get_qn_mask(localqn, nl))[0]")
    b.take("block = dm.ravel().take((lset * len(localqn)).reshape(-1, 1) + rset)")
    b.take("block_s2, block_u = scipy.linalg.eigh(block)")
    sh["sh_eigh_clip_negative"] = b.optional("block_s2[block_s2 < 0] = 0")
    sh["sh_eigh_sqrt"] = b.alt({"block_s = np.sqrt(block_s2)": True, "block_s = block_s2": False})
    b.take("block_s_list.append(block_s)")
    b.take("blockappend(block_u_list, [], new_qn, [], [], block_u, nl, len(lset), lset, len(localqn), full_matrices=False)")
    b.end()
    c.take("u = np.concatenate(block_u_list, axis=1)")
    c.take("s = np.concatenate(block_s_list)")
    c.take("return (u, s, new_qn)")
    c.end()
    return sh


FIELDS = ["sh_loop_left", "sh_svd_skip_empty", "sh_gather_rowmajor", "sh_dim_min", "sh_u_label", "sh_u_index", "sh_v_label", "sh_v_index",
          "sh_v_transposed", "sh_qr_L_is_qr", "sh_qr_R_is_rq", "sh_append_split_at_dim", "sh_scatter_by_index", "sh_mask_all_components",
          "sh_main_before_extra", "sh_sort_econ_only", "sh_sort_desc", "sh_eigh_skip_no_partner", "sh_eigh_system_L_is_left",
          "sh_eigh_clip_negative", "sh_eigh_sqrt"]


def extract(src):
    tree = ast.parse(src)
    fs = funcs(tree)
    for nm in ("svd_qn", "eigh_qn", "blockappend", "blockrecover", "get_qn_mask"):
        if nm not in fs:
            raise TranslateError("function %s not found" % nm)
    sh = {}
    sh.update(svd_facts(fs["svd_qn"]))
    sh.update(eigh_facts(fs["eigh_qn"]))
    # helpers: must be exactly the known text (no recognised alternative)
    ba = fs["blockappend"]
    if [a.arg for a in ba.args.args] != BLOCKAPPEND_ARGS or [U(d) for d in ba.args.defaults] != ["True"]:
        raise TranslateError("blockappend: signature")
    expect_seq(strip_doc(ba.body), BLOCKAPPEND, "blockappend")
    sh["sh_append_split_at_dim"] = True
    br = fs["blockrecover"]
    if [a.arg for a in br.args.args] != ["indices", "U", "dim"]:
        raise TranslateError("blockrecover: signature")
    expect_seq(strip_doc(br.body), BLOCKRECOVER, "blockrecover")
    sh["sh_scatter_by_index"] = True
    gm = fs["get_qn_mask"]
    if [a.arg for a in gm.args.args] != ["qnmat", "qntot"]:
        raise TranslateError("get_qn_mask: signature")
    expect_seq(strip_doc(gm.body), GETMASK, "get_qn_mask")
    sh["sh_mask_all_components"] = True
    # nobody rebinds the helpers
    for n in ast.walk(tree):
        if isinstance(n, ast.Assign):
            for t in n.targets:
                if isinstance(t, ast.Name) and t.id in ("blockappend", "blockrecover", "get_qn_mask", "svd_qn", "eigh_qn"):
                    raise TranslateError("%s is rebound at line %d" % (t.id, n.lineno))
    if sorted(sh) != sorted(FIELDS):
        raise TranslateError("internal: field set %s" % sorted(set(FIELDS) ^ set(sh)))
    return sh


def render(sh):
    def val(v):
        return {True: "true", False: "false"}.get(v, v) if isinstance(v, bool) else v
    out = ["(* GENERATED by tx/svdqn.py from renormalizer/mps/svd_qn.py -- do not edit *)",
           "From RV Require Import Model.SvdQn.", "",
           "Definition src_shape : shape := {|"]
    out.append(";\n".join("  %s := %s" % (k, val(sh[k])) for k in FIELDS))
    out.append("|}.")
    out.append("")
    return "\n".join(out)


def render_failed(msg):
    """Written when the source could not be read (fail-closed): the reference values for every fact the model's
    semantics depends on, but sh_loop_left := false, so that src_shape = ref_shape does NOT hold."""
    sh = {k: True for k in FIELDS}
    sh.update({"sh_u_label": "LabNl", "sh_u_index": "IdxL", "sh_v_label": "LabNr", "sh_v_index": "IdxR", "sh_loop_left": False})
    head = "(* TRANSLATION FAILED: %s\n   sh_loop_left is set to false on purpose: the obligation src_shape = ref_shape must not hold. *)\n" % msg.replace("*)", "* )")[:600]
    return head + render(sh)


def main(repo="/repo"):
    src = open(repo + "/" + FILE).read()
    sh = extract(src)
    return render(sh), sh


if __name__ == "__main__":
    text, sh = main(sys.argv[1] if len(sys.argv) > 1 else "/repo")
    sys.stdout.write(text)
