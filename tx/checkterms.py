"""Translator (fail-closed): renormalizer/model/model.py  Model.check_operator_terms  ->  coq/Gen/CheckTerms.v

Only python `ast` is used, nothing is executed.  The method must consist of exactly

    new_terms = []
    for term_op in terms:                              # stage 1: ravel
        if isinstance(term_op, Op):      new_terms.append(term_op)
        elif isinstance(term_op, OpSum): new_terms.extend(term_op)
        else:                            raise ...
    terms = new_terms
    new_terms = []
    dofs = set(self.dofs)
    for term_op in terms:                              # stage 2: validate and filter
        for name in term_op.dofs:
            if name not in dofs: raise ...
        if <DISCARD TEST>: continue
        new_terms.append(term_op)
    return new_terms

(docstring and comments ignored).  <DISCARD TEST> is rendered from its syntax tree; the only form understood is the
exact comparison of the term's factor with the literal zero (`term_op.factor == 0`, `0 == term_op.factor`, `0.0`
allowed) -> `reqb ra (factor o) (r0 ra)`.  Any other statement shape or test (a tolerance, `abs(...) < eps`,
`np.isclose`, ...) aborts the translation: the property allows only exactly-zero terms to be dropped, and a threshold
is not expressible over the abstract scalar structure of Model/OpAlg.v.
"""
import ast
import os
import sys

TARGET = "Gen/CheckTerms.v"


class TranslateError(Exception):
    pass


def _is_name(n, name):
    return isinstance(n, ast.Name) and n.id == name


def _call_on(n, obj, meth, arg):
    """n is the statement  obj.meth(arg)"""
    return (isinstance(n, ast.Expr) and isinstance(n.value, ast.Call) and isinstance(n.value.func, ast.Attribute)
            and _is_name(n.value.func.value, obj) and n.value.func.attr == meth and len(n.value.args) == 1
            and not n.value.keywords and _is_name(n.value.args[0], arg))


def _isinstance_of(test, var, cls):
    return (isinstance(test, ast.Call) and _is_name(test.func, "isinstance") and len(test.args) == 2 and not test.keywords
            and _is_name(test.args[0], var) and _is_name(test.args[1], cls))


def _assign_empty(n, name):
    return (isinstance(n, ast.Assign) and len(n.targets) == 1 and _is_name(n.targets[0], name)
            and isinstance(n.value, ast.List) and not n.value.elts)


def _is_zero_literal(n):
    return isinstance(n, ast.Constant) and not isinstance(n.value, bool) and isinstance(n.value, (int, float)) and n.value == 0 \
        and repr(n.value) in ("0", "0.0")


def _is_factor(n, var):
    return isinstance(n, ast.Attribute) and n.attr == "factor" and _is_name(n.value, var)


def render_discard(test, var):
    """-> (Coq boolean expression over `o`, source text)"""
    if isinstance(test, ast.Compare) and len(test.ops) == 1 and isinstance(test.ops[0], ast.Eq) and len(test.comparators) == 1:
        l, r = test.left, test.comparators[0]
        if (_is_factor(l, var) and _is_zero_literal(r)) or (_is_zero_literal(l) and _is_factor(r, var)):
            return "reqb ra (factor o) (r0 ra)", ast.unparse(test)
    raise TranslateError("discard test `%s` is not the exact comparison of the factor with 0" % ast.unparse(test))


def find_method(tree):
    for node in tree.body:
        if isinstance(node, ast.ClassDef) and node.name == "Model":
            for f in node.body:
                if isinstance(f, ast.FunctionDef) and f.name == "check_operator_terms":
                    return f
    raise TranslateError("Model.check_operator_terms not found")


def translate(fn):
    if [a.arg for a in fn.args.args] != ["self", "terms"] or fn.args.vararg or fn.args.kwarg or fn.args.kwonlyargs:
        raise TranslateError("signature of check_operator_terms changed: %s" % ast.unparse(fn.args))
    body = list(fn.body)
    if body and isinstance(body[0], ast.Expr) and isinstance(body[0].value, ast.Constant) and isinstance(body[0].value.value, str):
        body = body[1:]
    if len(body) != 7:
        raise TranslateError("check_operator_terms has %d statements, expected 7" % len(body))
    s0, loop1, s2, s3, s4, loop2, ret = body
    if not _assign_empty(s0, "new_terms"):
        raise TranslateError("statement 1 is not `new_terms = []`")
    # ---- stage 1
    if not (isinstance(loop1, ast.For) and _is_name(loop1.target, "term_op") and _is_name(loop1.iter, "terms")
            and not loop1.orelse and len(loop1.body) == 1 and isinstance(loop1.body[0], ast.If)):
        raise TranslateError("ravel loop not understood")
    i1 = loop1.body[0]
    if not (_isinstance_of(i1.test, "term_op", "Op") and len(i1.body) == 1 and _call_on(i1.body[0], "new_terms", "append", "term_op")
            and len(i1.orelse) == 1 and isinstance(i1.orelse[0], ast.If)):
        raise TranslateError("ravel loop: Op branch not understood")
    i2 = i1.orelse[0]
    if not (_isinstance_of(i2.test, "term_op", "OpSum") and len(i2.body) == 1 and _call_on(i2.body[0], "new_terms", "extend", "term_op")
            and len(i2.orelse) == 1 and isinstance(i2.orelse[0], ast.Raise)):
        raise TranslateError("ravel loop: OpSum / else branch not understood")
    # ---- between
    if not (isinstance(s2, ast.Assign) and len(s2.targets) == 1 and _is_name(s2.targets[0], "terms") and _is_name(s2.value, "new_terms")):
        raise TranslateError("statement 3 is not `terms = new_terms`")
    if not _assign_empty(s3, "new_terms"):
        raise TranslateError("statement 4 is not `new_terms = []`")
    if not (isinstance(s4, ast.Assign) and len(s4.targets) == 1 and _is_name(s4.targets[0], "dofs")
            and ast.unparse(s4.value).replace(" ", "") == "set(self.dofs)"):
        raise TranslateError("statement 5 is not `dofs = set(self.dofs)`")
    # ---- stage 2
    if not (isinstance(loop2, ast.For) and _is_name(loop2.target, "term_op") and _is_name(loop2.iter, "terms")
            and not loop2.orelse and len(loop2.body) == 3):
        raise TranslateError("filter loop not understood")
    chk, flt, app = loop2.body
    if not (isinstance(chk, ast.For) and _is_name(chk.target, "name") and ast.unparse(chk.iter).replace(" ", "") == "term_op.dofs"
            and not chk.orelse and len(chk.body) == 1 and isinstance(chk.body[0], ast.If)
            and ast.unparse(chk.body[0].test).replace(" ", "") == "namenotindofs"
            and len(chk.body[0].body) == 1 and isinstance(chk.body[0].body[0], ast.Raise) and not chk.body[0].orelse):
        raise TranslateError("dof validation not understood")
    if not (isinstance(flt, ast.If) and len(flt.body) == 1 and isinstance(flt.body[0], ast.Continue) and not flt.orelse):
        raise TranslateError("discard statement is not `if <test>: continue`")
    discard, src = render_discard(flt.test, "term_op")
    if not _call_on(app, "new_terms", "append", "term_op"):
        raise TranslateError("kept terms are not appended unchanged")
    if not (isinstance(ret, ast.Return) and _is_name(ret.value, "new_terms")):
        raise TranslateError("return value is not new_terms")
    return discard, src


def main(repo="/repo"):
    path = os.path.join(repo, "renormalizer", "model", "model.py")
    fn = find_method(ast.parse(open(path).read()))
    discard, src = translate(fn)
    out = [
        "(* GENERATED by tx/checkterms.py from renormalizer/model/model.py:Model.check_operator_terms -- do not edit *)",
        "From Coq Require Import ZArith List Bool String.",
        "Import ListNotations.",
        "From RV Require Import Model.OpAlg.",
        "",
        "(* source text of the discard test *)",
        "Definition ct_discard_source : string := \"%s\"%%string." % src.replace('"', "'"),
        "",
        "Section CheckTerms.",
        "Variable ra : ralg.",
        "(* stage 1: an Op is appended, an OpSum is extended, anything else raises *)",
        "Definition ct_item (v : val ra) : option (list (op ra)) :=",
        "  match v with VO o => Some [o] | VSum l => Some l | _ => None end.",
        "Fixpoint ct_ravel (l : list (val ra)) : option (list (op ra)) :=",
        "  match l with",
        "  | [] => Some []",
        "  | v :: t => match ct_item v, ct_ravel t with Some a, Some r => Some (a ++ r) | _, _ => None end",
        "  end.",
        "(* stage 2: every dof must be known (else raise); the term is discarded iff the test holds *)",
        "Definition ct_discard (o : op ra) : bool := %s." % discard,
        "Definition ct_dofs_known (known : dof -> bool) (o : op ra) : bool := forallb (fun l => known (l_dof l)) (word o).",
        "Fixpoint ct_filter (known : dof -> bool) (s : list (op ra)) : option (list (op ra)) :=",
        "  match s with",
        "  | [] => Some []",
        "  | o :: t =>",
        "    if ct_dofs_known known o",
        "    then match ct_filter known t with",
        "         | Some r => Some (if ct_discard o then r else o :: r)",
        "         | None => None",
        "         end",
        "    else None",
        "  end.",
        "Definition check_operator_terms (known : dof -> bool) (l : list (val ra)) : option (list (op ra)) :=",
        "  obind (ct_ravel l) (ct_filter known).",
        "End CheckTerms.",
        ""]
    return "\n".join(out), {"discard": discard, "source": src}


if __name__ == "__main__":
    text, info = main(sys.argv[1] if len(sys.argv) > 1 else "/repo")
    sys.stdout.write(text)
