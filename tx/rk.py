"""Translator: /repo/renormalizer/utils/rk.py  ->  coq/Gen/RkTableaux.v   (fail-closed)

Interprets `RungeKutta.get_tableau` symbolically for every name in `method_list`, with exact
rational arithmetic (a float literal is read as the decimal it is written as; `1932.0/2197` is the
rational 1932/2197), and renders `TaylorExpansion.coeff`'s generator expression.
Anything outside the small statement/expression subset handled here raises TranslateError.
"""
import ast
import sys
from fractions import Fraction


class TranslateError(Exception):
    pass


def _lit(node):
    if isinstance(node.value, bool) or not isinstance(node.value, (int, float)):
        raise TranslateError("unsupported constant %r" % (node.value,))
    if isinstance(node.value, int):
        return Fraction(node.value)
    return Fraction(repr(node.value))


class Interp:
    def __init__(self, method):
        self.method = method
        self.env = {}

    def expr(self, n):
        if isinstance(n, ast.Constant):
            if isinstance(n.value, str):
                return n.value
            return _lit(n)
        if isinstance(n, ast.Name):
            if n.id not in self.env:
                raise TranslateError("unbound name %s" % n.id)
            return self.env[n.id]
        if isinstance(n, ast.UnaryOp) and isinstance(n.op, ast.USub):
            return -self.expr(n.operand)
        if isinstance(n, ast.BinOp):
            l, r = self.expr(n.left), self.expr(n.right)
            if not isinstance(l, Fraction) or not isinstance(r, Fraction):
                raise TranslateError("non-scalar arithmetic")
            if isinstance(n.op, ast.Add):
                return l + r
            if isinstance(n.op, ast.Sub):
                return l - r
            if isinstance(n.op, ast.Mult):
                return l * r
            if isinstance(n.op, ast.Div):
                return l / r
            raise TranslateError("operator %s" % type(n.op).__name__)
        if isinstance(n, (ast.List, ast.Tuple)):
            return [self.expr(e) for e in n.elts]
        if isinstance(n, ast.Attribute) and isinstance(n.value, ast.Name) and n.value.id == "self" and n.attr == "method":
            return self.method
        if isinstance(n, ast.Call):
            f = ast.unparse(n.func)
            if f == "np.array" and len(n.args) == 1 and not n.keywords:
                return self.expr(n.args[0])
            if f.endswith(".astype") and ast.unparse(n.args[0]) == "np.float64":
                return self.expr(n.func.value)
            if f.endswith(".reshape"):
                base = self.expr(n.func.value)
                args = [ast.unparse(a) for a in n.args]
                if args != ["-1", "Nstage"]:
                    raise TranslateError("reshape args %s" % args)
                ns = int(self.env["Nstage"])
                if base and not isinstance(base[0], list):
                    base = [base]
                for row in base:
                    if len(row) != ns:
                        raise TranslateError("b row length")
                return base
            raise TranslateError("call %s" % f)
        raise TranslateError("expression %s" % ast.dump(n)[:80])

    def test(self, n):
        if isinstance(n, ast.Compare) and len(n.ops) == 1:
            l = self.expr(n.left)
            r = self.expr(n.comparators[0])
            if isinstance(n.ops[0], ast.Eq):
                return l == r
            if isinstance(n.ops[0], ast.In):
                return l in r
        raise TranslateError("test %s" % ast.unparse(n))

    def block(self, stmts):
        for s in stmts:
            if isinstance(s, ast.Expr) and isinstance(s.value, ast.Constant) and isinstance(s.value.value, str):
                continue
            if isinstance(s, ast.If):
                if self.test(s.test):
                    r = self.block(s.body)
                else:
                    r = self.block(s.orelse)
                if r is not None:
                    return r
                continue
            if isinstance(s, ast.Assign) and len(s.targets) == 1 and isinstance(s.targets[0], ast.Name):
                self.env[s.targets[0].id] = self.expr(s.value)
                continue
            if isinstance(s, ast.Assert):
                if ast.unparse(s.test) == "False":
                    raise TranslateError("assert False reached for method %s" % self.method)
                raise TranslateError("assert")
            if isinstance(s, ast.Return):
                return self.expr(s.value)
            raise TranslateError("statement %s" % type(s).__name__)
        return None


def q(fr):
    fr = Fraction(fr)
    return "(%d # %d)" % (fr.numerator, fr.denominator) if fr.numerator >= 0 else "(- (%d # %d))" % (-fr.numerator, fr.denominator)


def qlist(xs):
    return "[" + "; ".join(q(x) for x in xs) + "]"


def coq_expr(n, var):
    """Generator expression of TaylorExpansion.coeff as a Coq Q term in the nat variable `var`."""
    if isinstance(n, ast.Constant):
        return q(_lit(n))
    if isinstance(n, ast.BinOp):
        op = {ast.Add: "+", ast.Sub: "-", ast.Mult: "*", ast.Div: "/"}.get(type(n.op))
        if op is None:
            raise TranslateError("taylor operator")
        return "(%s %s %s)" % (coq_expr(n.left, var), op, coq_expr(n.right, var))
    if isinstance(n, ast.Call) and ast.unparse(n.func) == "factorial" and len(n.args) == 1 \
            and isinstance(n.args[0], ast.Name) and n.args[0].id == var:
        return "(inject_Z (Z.of_nat (fact %s)))" % var
    raise TranslateError("taylor expression %s" % ast.unparse(n))


def extract(src):
    tree = ast.parse(src)
    method_list = None
    get_tableau = None
    taylor = None
    for node in tree.body:
        if isinstance(node, ast.Assign) and ast.unparse(node.targets[0]) == "method_list":
            method_list = [e.value for e in node.value.elts]
        if isinstance(node, ast.ClassDef) and node.name == "RungeKutta":
            for f in node.body:
                if isinstance(f, ast.FunctionDef) and f.name == "get_tableau":
                    get_tableau = f
        if isinstance(node, ast.ClassDef) and node.name == "TaylorExpansion":
            for f in node.body:
                if isinstance(f, ast.FunctionDef) and f.name == "__init__":
                    for s in f.body:
                        if isinstance(s, ast.Assign) and ast.unparse(s.targets[0]) == "self.coeff":
                            v = s.value
                            if not (isinstance(v, ast.Call) and ast.unparse(v.func) == "np.array"
                                    and isinstance(v.args[0], ast.ListComp)):
                                raise TranslateError("TaylorExpansion.coeff shape")
                            lc = v.args[0]
                            g = lc.generators[0]
                            if len(lc.generators) != 1 or g.ifs or ast.unparse(g.iter) != "range(self.order + 1)":
                                raise TranslateError("TaylorExpansion range")
                            taylor = coq_expr(lc.elt, g.target.id), g.target.id
    if method_list is None or get_tableau is None or taylor is None:
        raise TranslateError("method_list / get_tableau / TaylorExpansion not found")
    tabs = []
    for m in method_list:
        it = Interp(m)
        r = it.block(get_tableau.body)
        if r is None:
            raise TranslateError("no return for %s" % m)
        (a, b, c), ns, order = r
        ns = int(ns)
        if len(a) != ns or any(len(row) != ns for row in a) or len(c) != ns:
            raise TranslateError("shape of tableau %s" % m)
        order = [int(o) for o in order]
        if len(order) != len(b):
            raise TranslateError("order tuple vs rows of b for %s" % m)
        tabs.append({"name": m, "a": a, "b": b, "c": c, "nstage": ns, "order": order})
    return tabs, taylor


def render(tabs, taylor):
    out = ["(* GENERATED by tx/rk.py from renormalizer/utils/rk.py -- do not edit *)",
           "From Coq Require Import QArith ZArith List Arith.", "Import ListNotations.", "Local Open Scope Q_scope.", "",
           "Record tableau := { t_a : list (list Q); t_b : list (list Q); t_c : list Q; t_stage : nat; t_order : list nat }.", ""]
    names = []
    for i, t in enumerate(tabs):
        nm = "tab_%d" % i
        names.append(nm)
        out.append("(* %s *)" % t["name"])
        out.append("Definition %s : tableau := {|" % nm)
        out.append("  t_a := [" + ";\n          ".join(qlist(r) for r in t["a"]) + "];")
        out.append("  t_b := [" + ";\n          ".join(qlist(r) for r in t["b"]) + "];")
        out.append("  t_c := " + qlist(t["c"]) + ";")
        out.append("  t_stage := %d;" % t["nstage"])
        out.append("  t_order := [" + "; ".join("%d%%nat" % o for o in t["order"]) + "] |}.")
        out.append("")
    out.append("Definition methods : list tableau := [" + "; ".join(names) + "].")
    out.append("")
    expr, var = taylor
    out.append("Definition taylor_coeff (%s : nat) : Q := %s." % (var, expr))
    out.append("")
    return "\n".join(out)


def check_config_forwarding(src):
    """EvolveConfig is how the propagators receive the tables.  Fail closed unless the class touches them in exactly
    two statements, the plain constructions; anything else (re-slicing rows, re-labelling orders, ...) is not modelled."""
    tree = ast.parse(src)
    cls = [n for n in tree.body if isinstance(n, ast.ClassDef) and n.name == "EvolveConfig"]
    if len(cls) != 1:
        raise TranslateError("EvolveConfig not found in configs.py")
    seen = []
    for f in cls[0].body:
        for st in ast.walk(f):
            if isinstance(st, ast.stmt) and not isinstance(st, (ast.FunctionDef, ast.If, ast.For, ast.While, ast.With, ast.Try)):
                txt = ast.unparse(st)
                if "rk_config" in txt or "taylor_config" in txt or "RungeKutta" in txt or "TaylorExpansion" in txt:
                    seen.append(txt)
            elif isinstance(st, (ast.If, ast.While)):
                txt = ast.unparse(st.test)
                if "rk_config" in txt or "taylor_config" in txt:
                    seen.append("test: " + txt)
    want = ["self.rk_config = RungeKutta(rk_solver)", "self.taylor_config = TaylorExpansion(taylor_order)"]
    if sorted(seen) != sorted(want):
        raise TranslateError("EvolveConfig handles the coefficient tables in statements that are not modelled: %r" % (seen,))
    imp = [ast.unparse(n) for n in tree.body if isinstance(n, ast.ImportFrom) and n.module and n.module.endswith("utils.rk")]
    if imp != ["from renormalizer.utils.rk import RungeKutta, TaylorExpansion"]:
        raise TranslateError("configs.py imports of utils.rk: %r" % (imp,))


def main(repo="/repo"):
    src = open(repo + "/renormalizer/utils/rk.py").read()
    tabs, taylor = extract(src)
    check_config_forwarding(open(repo + "/renormalizer/utils/configs.py").read())
    return render(tabs, taylor), tabs


if __name__ == "__main__":
    text, tabs = main(sys.argv[1] if len(sys.argv) > 1 else "/repo")
    sys.stdout.write(text)
