"""Translator: term-generation code of the packaged models  ->  coq/Gen/Builders.v   (fail-closed)

Sources (all under /repo/renormalizer/model):
  model.py : TI1DModel.__init__ (Hamiltonian loop), construct_j_matrix, heisenberg_ops,
             HolsteinModel.__init__ (site list for schemes 1-4, the three term loops),
             SpinBosonModel.__init__ (site list, terms)
  mol.py   : Mol.__init__   (elocalex, e0 = sum of the reorganisation energies)
  phonon.py: Phonon.__init__ (omega, dis, n_phys_dim), Phonon.reorganization_energy

A small python subset is translated structurally into Gallina:
  accumulator lists (`x = []`, `.append`, `.extend([..])`, `.insert(n, e)`), counters (`n = 0`, `n += 1`),
  `for v in range(e)` / `for i, o in enumerate(objs)` / `for v in <list>`  ->  flat_map over zrange0 / the list,
  `if / elif / else`, local assignments -> let, list comprehensions -> map, integer arithmetic incl. `%` and `//`
  (Z.modulo / Z.div: python's sign conventions), float literals as exact rationals, `Op(...)`, `Op * Op`,
  `Op * scalar`, basis constructors, attribute access on Mol / Phonon objects (resolved through the translated
  bodies of Mol.__init__ / Phonon.reorganization_energy, `.as_au()` and `Quantity(.)` being the identity on
  values already in atomic units).
Statements of the constructors that do not generate terms / sites are compared with a whitelist of their exact
text.  Anything else raises TranslateError.
"""
import ast
import os
import sys
from fractions import Fraction

TARGET = "Gen/Builders.v"


class TranslateError(Exception):
    pass


def canon(src):
    return ast.unparse(ast.parse(src).body[0])


def qlit(fr):
    fr = Fraction(fr)
    return "(%d # %d)" % (fr.numerator, fr.denominator) if fr >= 0 else "(- (%d # %d))" % (-fr.numerator, fr.denominator)


def zlit(n):
    return "%d" % n if n >= 0 else "(%d)" % n


def cstr(s):
    return '"' + s.replace('"', '""') + '"'


def find_class(tree, name):
    r = [n for n in tree.body if isinstance(n, ast.ClassDef) and n.name == name]
    if len(r) != 1:
        raise TranslateError("class %s not found" % name)
    return r[0]


def find_def(body, name):
    r = [n for n in body if isinstance(n, ast.FunctionDef) and n.name == name]
    if len(r) != 1:
        raise TranslateError("def %s not found" % name)
    return r[0]


def strip_doc(body):
    return [s for s in body if not (isinstance(s, ast.Expr) and isinstance(s.value, ast.Constant) and isinstance(s.value.value, str))]


class Frame:
    def __init__(self, acc):
        self.acc = acc
        self.lets = []
        self.inner = {}      # name -> {"kind": "list"|"counter", "pieces": [...], "frozen": bool}


class Tr:
    """expression / block translator; `mode` selects the name and attribute dialect"""

    def __init__(self, mode, sources):
        self.mode = mode
        self.src = sources           # {"mol": ast Module, "phonon": ast Module}
        self.types = {}              # python name -> type
        self.objs = {}               # python name -> ("mol", i) | ("ph", i, l) | ("sph", l)
        self.frames = []
        self.outer = []              # accumulators of enclosing frames
        self.fresh = 0

    # ------------------------------------------------------------------ helpers
    def err(self, what, node=None):
        raise TranslateError("%s%s" % (what, (": " + ast.unparse(node)[:120]) if node is not None else ""))

    def toQ(self, c, t):
        if t == "Q":
            return c
        if t == "Z":
            return "(inject_Z %s)" % c
        self.err("cannot use a %s as a number (%s)" % (t, c))

    # ------------------------------------------------------------------ names
    def name(self, n):
        nm = n.id
        for fr in reversed(self.frames):
            if nm in fr.inner:
                ent = fr.inner[nm]
                if not ent["frozen"]:
                    if fr is not self.frames[-1]:
                        self.err("accumulator used from an inner block", n)
                    body = " ++ ".join(ent["pieces"]) if ent["pieces"] else "[]"
                    if ent["kind"] == "counter":
                        fr.lets.append((nm, "(Z.of_nat (List.length (%s)))" % body))
                        self.types[nm] = "Z"
                    else:
                        fr.lets.append((nm, "(%s)" % body))
                        self.types[nm] = "list"
                    ent["frozen"] = True
                return nm, self.types[nm]
        if nm in self.objs:
            return self.objs[nm], "obj"
        if nm in self.types:
            return self.global_name(nm), self.types[nm]
        self.err("unbound name %s" % nm, n)

    def global_name(self, nm):
        return {"mol_num": "(nmol P)"}.get(nm, nm) if self.mode == "holstein" else nm

    # ------------------------------------------------------------------ object attributes (Mol / Phonon)
    def ph_param(self, obj, what):
        if obj[0] == "ph":
            return "(%s P %s %s)" % ({"omega0": "omega_g", "omega1": "omega_e", "dis0": "dis_g", "dis1": "dis_e", "nlev": "nlev"}[what], obj[1], obj[2])
        if obj[0] == "sph":
            if what == "dis0":
                self.err("spin-boson model uses dis[0]")
            return "(%s S %s)" % ({"omega0": "sb_omega_g", "omega1": "sb_omega_e", "dis1": "sb_dis_e", "nlev": "sb_nlev"}[what], obj[1])
        self.err("not a phonon object %r" % (obj,))

    def attr(self, n):
        if isinstance(n.value, ast.Name) and n.value.id == "self" and self.mode == "spinboson":
            if n.attr == "epsilon":
                return "(sb_eps S)", "Q"
            if n.attr == "delta":
                return "(sb_delta S)", "Q"
        if isinstance(n.value, ast.Name) and n.value.id == "self" and self.mode == "phonon_prop":
            return ("selfattr", n.attr), "selfattr"
        base, t = self.expr(n.value)
        if t == "obj":
            if base[0] == "mol":
                if n.attr == "elocalex":
                    self.check_mol_init()
                    return "(elocalex P %s)" % base[1], "Q"
                if n.attr == "e0":
                    return self.mol_e0(base), "Q"
                if n.attr == "ph_list":
                    return ("phlist", base[1]), "phlist"
            if base[0] in ("ph", "sph"):
                self.check_phonon_init()
                if n.attr in ("omega", "dis"):
                    return ("pharr", base, n.attr), "pharr"
                if n.attr == "n_phys_dim":
                    return self.ph_param(base, "nlev"), "Z"
                if n.attr == "reorganization_energy":
                    return self.ph_reorg(base), "Q"
        if t == "lop" and n.attr == "dofs":
            return "(snd %s)" % base, "list"
        if t == "nop" and n.attr == "dofs":
            return "(snd %s)" % base, "listpair"
        self.err("attribute", n)

    def check_mol_init(self):
        body = strip_doc(find_def(find_class(self.src["mol"], "Mol").body, "__init__").body)
        txt = [ast.unparse(s) for s in body]
        for need in ("self.elocalex = elocalex.as_au()", "self.ph_list = ph_list"):
            if canon(need) not in txt:
                self.err("Mol.__init__ no longer contains `%s`" % need)

    def check_phonon_init(self):
        body = strip_doc(find_def(find_class(self.src["phonon"], "Phonon").body, "__init__").body)
        txt = [ast.unparse(s) for s in body]
        for need in ("self.omega = [o.as_au() for o in omega]", "self.dis = [d.as_au() for d in displacement]", "self.n_phys_dim: int = n_phys_dim"):
            if canon(need) not in txt:
                self.err("Phonon.__init__ no longer contains `%s`" % need)

    def mol_e0(self, mol):
        """Mol.__init__:  self.e0 = sum([ph.reorganization_energy.as_au() for ph in ph_list])"""
        self.check_mol_init()
        body = strip_doc(find_def(find_class(self.src["mol"], "Mol").body, "__init__").body)
        st = [s for s in body if isinstance(s, ast.Assign) and ast.unparse(s.targets[0]) == "self.e0"]
        if len(st) != 1:
            self.err("Mol.__init__: assignment of self.e0")
        v = st[0].value
        if not (isinstance(v, ast.Call) and ast.unparse(v.func) == "sum" and len(v.args) == 1 and isinstance(v.args[0], ast.ListComp)):
            self.err("Mol.e0 is not a sum over a comprehension", v)
        lc = v.args[0]
        g = lc.generators[0]
        if len(lc.generators) != 1 or g.ifs or not isinstance(g.target, ast.Name) or ast.unparse(g.iter) != "ph_list":
            self.err("Mol.e0 comprehension", lc)
        self.fresh += 1
        idx = "iph_%d" % self.fresh
        saved = dict(self.objs)
        self.objs[g.target.id] = ("ph", mol[1], idx)
        c, t = self.expr(lc.elt)
        self.objs = saved
        return "(qsumz (nmodes P %s) (fun %s => %s))" % (mol[1], idx, self.toQ(c, t))

    def ph_reorg(self, ph):
        """Phonon.reorganization_energy (a property): straight-line body ending in `return Quantity(expr)`"""
        cls = find_class(self.src["phonon"], "Phonon")
        fn = find_def(cls.body, "reorganization_energy")
        if [ast.unparse(d) for d in fn.decorator_list] != ["property"]:
            self.err("reorganization_energy is not a property")
        sub = Tr("phonon_prop", self.src)
        sub.self_obj = ph
        sub.parent = self
        lets = []
        body = strip_doc(fn.body)
        for s in body[:-1]:
            if not (isinstance(s, ast.Assign) and len(s.targets) == 1 and isinstance(s.targets[0], ast.Name)):
                sub.err("statement in reorganization_energy", s)
            c, t = sub.expr(s.value)
            sub.types[s.targets[0].id] = t
            lets.append((s.targets[0].id + "_", c))
            sub.rename = getattr(sub, "rename", {})
            sub.rename[s.targets[0].id] = s.targets[0].id + "_"
        if not isinstance(body[-1], ast.Return):
            sub.err("reorganization_energy does not end in return")
        c, t = sub.expr(body[-1].value)
        out = self.toQ(c, t)
        for nm, code in reversed(lets):
            out = "(let %s := %s in %s)" % (nm, code, out)
        return out

    # ------------------------------------------------------------------ expressions
    def expr(self, n):
        if isinstance(n, ast.Constant):
            v = n.value
            if isinstance(v, bool):
                return ("true" if v else "false"), "bool"
            if isinstance(v, int):
                return zlit(v), "Z"
            if isinstance(v, float):
                return qlit(Fraction(repr(v))), "Q"
            if isinstance(v, str):
                return v, "str"
            self.err("constant", n)
        if isinstance(n, ast.Name):
            if self.mode == "phonon_prop":
                nm = getattr(self, "rename", {}).get(n.id)
                if nm is None:
                    self.err("unbound name in property", n)
                return nm, self.types[n.id]
            return self.name(n)
        if isinstance(n, ast.Attribute):
            return self.attr(n)
        if isinstance(n, ast.UnaryOp) and isinstance(n.op, ast.USub):
            c, t = self.expr(n.operand)
            if t == "Z":
                return "(- %s)%%Z" % c, "Z"
            if t == "Q":
                return "(- %s)" % c, "Q"
            self.err("negation of a %s" % t, n)
        if isinstance(n, ast.BinOp):
            return self.binop(n)
        if isinstance(n, ast.Compare) and len(n.ops) == 1:
            a, ta = self.expr(n.left)
            b, tb = self.expr(n.comparators[0])
            if ta != "Z" or tb != "Z":
                self.err("comparison of non-integers", n)
            op = {ast.Eq: "=?", ast.Lt: "<?", ast.LtE: "<=?"}.get(type(n.ops[0]))
            if op is None:
                self.err("comparison operator", n)
            return "(%s %s %s)%%Z" % (a, op, b), "bool"
        if isinstance(n, ast.Subscript):
            return self.subscript(n)
        if isinstance(n, ast.Tuple):
            return self.tuple_(n)
        if isinstance(n, ast.List):
            items = [self.expr(e) for e in n.elts]
            return "[" + "; ".join(c for c, _ in items) + "]", "list:" + (items[0][1] if items else "any")
        if isinstance(n, ast.ListComp):
            return self.listcomp(n)
        if isinstance(n, ast.Call):
            return self.call(n)
        self.err("expression", n)

    def binop(self, n):
        # constant folding of float / int literals (e.g. 1.0 / 4)
        if isinstance(n.left, ast.Constant) and isinstance(n.right, ast.Constant) and isinstance(n.op, ast.Div):
            l, r = n.left.value, n.right.value
            if all(isinstance(x, (int, float)) and not isinstance(x, bool) for x in (l, r)) and r != 0:
                return qlit(Fraction(repr(l)) / Fraction(repr(r))), "Q"
        if isinstance(n.op, ast.Pow):
            b, tb = self.expr(n.left)
            if not (isinstance(n.right, ast.Constant) and isinstance(n.right.value, int) and 1 <= n.right.value <= 4):
                self.err("power with a non-constant exponent", n)
            if tb not in ("Q", "Z"):
                self.err("power of a %s" % tb, n)
            return "(" + " * ".join([b] * n.right.value) + ")" + ("%Z" if tb == "Z" else ""), tb
        a, ta = self.expr(n.left)
        b, tb = self.expr(n.right)
        if ta == "term" or tb == "term":
            if not isinstance(n.op, ast.Mult):
                self.err("operator on terms", n)
            if ta == "term" and tb == "term":
                return "(tmul %s %s)" % (a, b), "term"
            if ta == "term":
                return "(tscale %s %s)" % (a, self.toQ(b, tb)), "term"
            self.err("scalar * Op", n)
        if ta == "Z" and tb == "Z":
            op = {ast.Add: "+", ast.Sub: "-", ast.Mult: "*", ast.Mod: "mod", ast.FloorDiv: "/"}.get(type(n.op))
            if op is None:
                self.err("integer operator", n)
            return "(%s %s %s)%%Z" % (a, op, b), "Z"
        if ta in ("Z", "Q") and tb in ("Z", "Q"):
            op = {ast.Add: "+", ast.Sub: "-", ast.Mult: "*", ast.Div: "/"}.get(type(n.op))
            if op is None:
                self.err("rational operator", n)
            return "(%s %s %s)" % (self.toQ(a, ta), op, self.toQ(b, tb)), "Q"
        self.err("operands %s, %s" % (ta, tb), n)

    def subscript(self, n):
        base, t = self.expr(n.value)
        sl = n.slice
        if t == "pharr":
            if not (isinstance(sl, ast.Constant) and sl.value in (0, 1)):
                self.err("index of omega / dis", n)
            return self.ph_param(base[1], base[2].replace("omega", "omega").replace("dis", "dis") + str(sl.value)), "Q"
        if t == "selfattr":
            if base[1] in ("omega", "dis") and isinstance(sl, ast.Constant) and sl.value in (0, 1):
                self.parent.check_phonon_init()
                return self.parent.ph_param(self.self_obj, base[1] + str(sl.value)), "Q"
            self.err("self attribute", n)
        if t == "mollist":
            i, ti = self.expr(sl)
            if ti != "Z":
                self.err("index", n)
            return ("mol", i), "obj"
        if t == "jmat":
            if not (isinstance(sl, ast.Tuple) and len(sl.elts) == 2):
                self.err("j_matrix index", n)
            (i, ti), (j, tj) = self.expr(sl.elts[0]), self.expr(sl.elts[1])
            if ti != "Z" or tj != "Z":
                self.err("j_matrix index", n)
            return "(jmat P %s %s)" % (i, j), "Q"
        if t == "pairZn" and isinstance(sl, ast.Constant) and sl.value in (0, 1):
            return ("(fst %s)" % base, "Z") if sl.value == 0 else ("(snd %s)" % base, "ucdof")
        self.err("subscript", n)

    def cellname(self, n):
        """f"cell{expr}" -> expr : Z"""
        if isinstance(n, ast.JoinedStr) and len(n.values) == 2 and isinstance(n.values[0], ast.Constant) and n.values[0].value == "cell" \
                and isinstance(n.values[1], ast.FormattedValue) and n.values[1].conversion == -1 and n.values[1].format_spec is None:
            c, t = self.expr(n.values[1].value)
            if t != "Z":
                self.err("cell index", n)
            return c
        self.err("cell name", n)

    def tuple_(self, n):
        if self.mode == "ti1d" and len(n.elts) == 2:
            c = self.cellname(n.elts[0])
            d, td = self.expr(n.elts[1])
            if td != "ucdof":
                self.err("dof of a unit cell expected", n)
            return "(%s, %s)" % (c, d), "gdof"
        self.err("tuple", n)

    def listcomp(self, n):
        if len(n.generators) != 1 or n.generators[0].ifs or not isinstance(n.generators[0].target, ast.Name):
            self.err("comprehension", n)
        g = n.generators[0]
        L, tl = self.expr(g.iter)
        v = g.target.id
        if self.mode == "ti1d" and tl == "list":
            self.types[v] = "ucdof"
        else:
            self.err("comprehension over a %s" % tl, n)
        c, t = self.expr(n.elt)
        return "(map (fun %s => %s) %s)" % (v, c, L), "list:" + t

    def dof_of(self, n):
        """python dof name -> Gallina dof / list of dofs"""
        if isinstance(n, ast.List):
            return "[" + "; ".join(self.dof_of(e)[0] for e in n.elts) + "]", "dofs"
        if isinstance(n, ast.Tuple) and len(n.elts) == 2 and self.mode == "holstein":
            (a, ta), (b, tb) = self.expr(n.elts[0]), self.expr(n.elts[1])
            if ta != "Z" or tb != "Z":
                self.err("vibrational dof", n)
            return "(DV %s %s)" % (a, b), "dof"
        if isinstance(n, ast.Constant) and n.value == "spin" and self.mode == "spinboson":
            return "DSpin", "dof"
        c, t = self.expr(n)
        if t != "Z":
            self.err("dof name", n)
        return ("(DE %s)" % c if self.mode == "holstein" else "(DIdx %s)" % c), "dof"

    def call(self, n):
        f = ast.unparse(n.func)
        if n.keywords:
            self.err("keyword arguments", n)
        if f == "Op":
            if not (2 <= len(n.args) <= 3 and isinstance(n.args[0], ast.Constant) and isinstance(n.args[0].value, str)):
                self.err("Op(...)", n)
            sym = n.args[0].value
            d, td = self.dof_of(n.args[1])
            if len(n.args) == 3:
                c, tc = self.expr(n.args[2])
                c = self.toQ(c, tc)
            else:
                c = "1"
            return "(%s %s %s %s)" % ("op_list" if td == "dofs" else "op_single", cstr(sym), d, c), "term"
        if isinstance(n.func, ast.Attribute) and n.func.attr == "as_au" and not n.args:
            c, t = self.expr(n.func.value)
            if t != "Q":
                self.err(".as_au() of a %s" % t, n)
            return c, "Q"
        if f == "Quantity" and len(n.args) == 1:
            c, t = self.expr(n.args[0])
            return self.toQ(c, t), "Q"
        if f == "np.allclose" and len(n.args) == 2 and self.mode == "holstein":
            a, b = n.args
            if ast.unparse(a).endswith(".omega[0]") and ast.unparse(b).endswith(".omega[1]") and ast.unparse(a)[:-9] == ast.unparse(b)[:-9]:
                o, t = self.expr(a.value.value)
                if t == "obj" and o[0] == "ph":
                    return "(same_freq P %s %s)" % (o[1], o[2]), "bool"
            self.err("np.allclose", n)
        if f == "BasisSimpleElectron" and len(n.args) == 1:
            c, t = self.expr(n.args[0])
            return "(SElec %s)" % c, "site"
        if f == "BasisSHO" and len(n.args) == 3:
            w, tw = self.expr(n.args[1])
            k, tk = self.expr(n.args[2])
            if tw != "Q" or tk != "Z":
                self.err("BasisSHO arguments", n)
            a0 = n.args[0]
            if isinstance(a0, ast.Tuple) and len(a0.elts) == 2:
                (i, ti), (l, tl) = self.expr(a0.elts[0]), self.expr(a0.elts[1])
                return "(SVib %s %s %s %s)" % (i, l, w, k), "site"
            i, ti = self.expr(a0)
            if ti != "Z":
                self.err("BasisSHO dof", n)
            return "(SVibI %s %s %s)" % (i, w, k), "site"
        if f == "BasisMultiElectronVac" and len(n.args) == 1 and ast.unparse(n.args[0]) == "list(range(len(mol_list)))":
            return "(SMultiVac (zrange0 (nmol P)))", "site"
        if f == "BasisHalfSpin" and len(n.args) == 1 and isinstance(n.args[0], ast.Constant) and n.args[0].value == "spin":
            return "SSpin", "site"
        if f == "len" and len(n.args) == 1 and ast.unparse(n.args[0]) == "mol_list" and self.mode == "holstein":
            return "(nmol P)", "Z"
        self.err("call", n)

    # ------------------------------------------------------------------ iterables
    def iterable(self, it, target):
        """-> (Gallina list, binder name); binds python names"""
        if isinstance(it, ast.Call) and ast.unparse(it.func) == "range" and len(it.args) == 1 and isinstance(target, ast.Name):
            c, t = self.expr(it.args[0])
            if t != "Z":
                self.err("range bound", it)
            self.types[target.id] = "Z"
            return "(zrange0 %s)" % c, target.id
        if isinstance(it, ast.Call) and ast.unparse(it.func) == "enumerate" and len(it.args) == 1 and isinstance(target, ast.Tuple) \
                and len(target.elts) == 2 and all(isinstance(e, ast.Name) for e in target.elts):
            idx, obj = target.elts[0].id, target.elts[1].id
            c, t = self.expr(it.args[0])
            self.types[idx] = "Z"
            if t == "mollist":
                self.objs[obj] = ("mol", idx)
                return "(zrange0 (nmol P))", idx
            if t == "phlist":
                self.objs[obj] = ("ph", c[1], idx)
                return "(zrange0 (nmodes P %s))" % c[1], idx
            if t == "sphlist":
                self.objs[obj] = ("sph", idx)
                return "(zrange0 (nph S))", idx
            self.err("enumerate over a %s" % t, it)
        if isinstance(target, ast.Name):
            c, t = self.expr(it)
            if t == "loplist":
                self.types[target.id] = "lop"
                return c, target.id
            if t == "noplist":
                self.types[target.id] = "nop"
                return c, target.id
            if t == "listpair":
                self.types[target.id] = "pairZn"
                return c, target.id
        self.err("iterable", it)

    # ------------------------------------------------------------------ blocks
    ASSERTS = ["assert isinstance(old_dof, tuple) and len(old_dof) == 2 and isinstance(old_dof[0], int)", "assert ph.is_simple"]

    def acc_call(self, s):
        """x.append(e) / x.extend([..]) / x.insert(n, e)  ->  (x, kind, args)"""
        if isinstance(s, ast.Expr) and isinstance(s.value, ast.Call) and isinstance(s.value.func, ast.Attribute) \
                and isinstance(s.value.func.value, ast.Name) and s.value.func.attr in ("append", "extend", "insert") and not s.value.keywords:
            return s.value.func.value.id, s.value.func.attr, s.value.args
        return None

    def contrib(self, stmts, acc):
        """Gallina list expression: what executing `stmts` appends to the accumulator `acc`, in order"""
        fr = Frame(acc)
        self.frames.append(fr)
        cur = []

        def known_acc(x):
            return x == acc or x in fr.inner or x in self.outer or any(x in f.inner or x == f.acc for f in self.frames[:-1])

        def pieces_of(x):
            if x == acc:
                return cur
            if x in fr.inner:
                if fr.inner[x]["frozen"]:
                    self.err("accumulator %s modified after use" % x)
                return fr.inner[x]["pieces"]
            return None       # accumulator of an enclosing frame: not our business

        for s in stmts:
            if isinstance(s, ast.Assert):
                if ast.unparse(s) not in [canon(a) for a in self.ASSERTS]:
                    self.err("assert", s)
                continue
            if isinstance(s, ast.Raise):
                if cur:
                    self.err("raise after appends", s)
                continue
            ac = self.acc_call(s)
            if ac is not None:
                x, kind, args = ac
                if not known_acc(x):
                    self.err("call on an unknown list", s)
                ps = pieces_of(x)
                if ps is None:
                    continue
                if kind == "append" and len(args) == 1:
                    c, t = self.expr(args[0])
                    ps.append("[%s]" % c)
                elif kind == "extend" and len(args) == 1 and isinstance(args[0], ast.List):
                    c, t = self.expr(args[0])
                    ps.append(c)
                elif kind == "insert" and len(args) == 2:
                    pos, tp = self.expr(args[0])
                    c, t = self.expr(args[1])
                    if tp != "Z":
                        self.err("insert position", s)
                    whole = " ++ ".join(ps) if ps else "[]"
                    ps[:] = ["(insert_at %s %s (%s))" % (pos, c, whole)]
                else:
                    self.err("list call", s)
                continue
            if isinstance(s, ast.AugAssign) and isinstance(s.target, ast.Name) and isinstance(s.op, ast.Add) \
                    and isinstance(s.value, ast.Constant) and s.value.value == 1:
                x = s.target.id
                if not known_acc(x):
                    self.err("+= on an unknown counter", s)
                ps = pieces_of(x)
                if ps is not None:
                    ps.append("[tt]")
                continue
            if isinstance(s, ast.Assign) and len(s.targets) == 1 and isinstance(s.targets[0], ast.Name):
                nm = s.targets[0].id
                if isinstance(s.value, ast.List) and not s.value.elts:
                    fr.inner[nm] = {"kind": "list", "pieces": [], "frozen": False}
                    continue
                if isinstance(s.value, ast.Constant) and s.value.value == 0 and not isinstance(s.value.value, bool):
                    fr.inner[nm] = {"kind": "counter", "pieces": [], "frozen": False}
                    continue
                c, t = self.expr(s.value)
                fr.lets.append((nm, c))
                self.types[nm] = t
                self.objs.pop(nm, None)
                continue
            if isinstance(s, ast.If):
                # `if c: x = a else: x = b`  ->  let
                if len(s.body) == 1 and len(s.orelse) == 1 and all(isinstance(b, ast.Assign) and len(b.targets) == 1 and isinstance(b.targets[0], ast.Name) for b in (s.body[0], s.orelse[0])) \
                        and s.body[0].targets[0].id == s.orelse[0].targets[0].id:
                    c, tc = self.expr(s.test)
                    a, ta = self.expr(s.body[0].value)
                    b, tb = self.expr(s.orelse[0].value)
                    if tc != "bool" or ta != tb:
                        self.err("conditional assignment", s)
                    nm = s.body[0].targets[0].id
                    fr.lets.append((nm, "(if %s then %s else %s)" % (c, a, b)))
                    self.types[nm] = ta
                    continue
                c, tc = self.expr(s.test)
                if tc != "bool":
                    self.err("condition", s.test)
                for x in [acc] + [k for k in fr.inner if not fr.inner[k]["frozen"]]:
                    self.outer.append(acc)
                    a = self.contrib(s.body, x)
                    b = self.contrib(s.orelse, x)
                    self.outer.pop()
                    if a != "[]" or b != "[]":
                        pieces_of(x).append("(if %s then %s else %s)" % (c, a, b))
                continue
            if isinstance(s, ast.For) and not s.orelse:
                L, v = self.iterable(s.iter, s.target)
                for x in [acc] + [k for k in fr.inner if not fr.inner[k]["frozen"]]:
                    self.outer.append(acc)
                    body = self.contrib(s.body, x)
                    self.outer.pop()
                    if body != "[]":
                        pieces_of(x).append("(flat_map (fun %s => %s) %s)" % (v, body, L))
                continue
            self.err("statement", s)
        self.frames.pop()
        if not cur:
            return "[]"
        out = " ++ ".join(cur)
        if len(cur) > 1:
            out = "(" + out + ")"
        for nm, code in reversed(fr.lets):
            out = "(let %s := %s in %s)" % (nm, code, out)
        return out


# ---------------------------------------------------------------------------------------------------- drivers
def whitelist(stmts, allowed, what):
    for s in stmts:
        if ast.unparse(s) not in [canon(a) for a in allowed]:
            raise TranslateError("%s: unexpected statement `%s`" % (what, ast.unparse(s)[:160]))


def tr_ti1d(tree, src):
    fn = find_def(find_class(tree, "TI1DModel").body, "__init__")
    if [a.arg for a in fn.args.args] != ["self", "basis", "local_ham_terms", "nonlocal_ham_terms", "ncell"]:
        raise TranslateError("TI1DModel.__init__ signature")
    body = strip_doc(fn.body)
    if len(body) != 5:
        raise TranslateError("TI1DModel.__init__ has %d statements" % len(body))
    whitelist([body[0], body[2], body[4]], ["full_basis = []", "full_ham_terms = []", "super().__init__(full_basis, full_ham_terms)"], "TI1DModel.__init__")
    basis_loop = ('for i in range(ncell):\n    for local_basis in basis:\n        new_dofs = [(f"cell{i}", dof) for dof in local_basis.dofs]\n'
                  '        if local_basis.multi_dof:\n            new_basis = local_basis.copy(new_dofs)\n        else:\n            new_basis = local_basis.copy(new_dofs[0])\n'
                  '        full_basis.append(new_basis)')
    whitelist([body[1]], [basis_loop], "TI1DModel.__init__ basis loop")
    t = Tr("ti1d", src)
    t.types.update({"ncell": "Z", "local_ham_terms": "loplist", "nonlocal_ham_terms": "noplist"})
    # Op(old_op.symbol, new_dofs, old_op.factor, old_op.qn_list) passes symbol, factor, qn through unchanged
    orig_call = t.call

    def call(n):
        if ast.unparse(n.func) == "Op" and [ast.unparse(a) for i, a in enumerate(n.args) if i != 1] == ["old_op.symbol", "old_op.factor", "old_op.qn_list"] and not n.keywords:
            c, ty = t.expr(n.args[1])
            o, to = t.expr(ast.Name("old_op", ast.Load()))
            return "(fst %s, %s)" % (o, c), "gop"
        return orig_call(n)
    t.call = call
    code = t.contrib([body[3]], "full_ham_terms")
    return ("(* TI1DModel.__init__: the Hamiltonian loop.  A unit-cell operator is (payload, dofs): the payload stands for\n"
            "   (symbol, factor, qn_list), which the source passes to Op(...) unchanged; a generated dof is (cell index, dof). *)\n"
            "Definition ti1d_terms (ncell : Z) (local_ham_terms : list lop) (nonlocal_ham_terms : list nop) : list gop :=\n  %s.\n" % code)


def tr_heisenberg(tree, src):
    fn = find_def(tree.body, "heisenberg_ops")
    if [a.arg for a in fn.args.args] != ["nspin"]:
        raise TranslateError("heisenberg_ops signature")
    body = strip_doc(fn.body)
    whitelist([body[0], body[-1]], ["ham_terms = []", "return ham_terms"], "heisenberg_ops")
    t = Tr("heisenberg", src)
    t.types["nspin"] = "Z"
    code = t.contrib(body[1:-1], "ham_terms")
    return "(* heisenberg_ops(nspin) *)\nDefinition heisenberg_terms (nspin : Z) : list term :=\n  %s.\n" % code


def tr_jmatrix(tree, src):
    """construct_j_matrix: straight-line numpy code, translated statement by statement"""
    fn = find_def(tree.body, "construct_j_matrix")
    if [a.arg for a in fn.args.args] != ["mol_num", "j_constant", "periodic"]:
        raise TranslateError("construct_j_matrix signature")
    body = strip_doc(fn.body)
    t = Tr("jmatrix", src)
    t.types.update({"mol_num": "Z", "j_constant": "Q"})
    env = {}          # name -> ("Q", code) | ("vec", code, len) | ("mat", code, size)
    lets = []

    def ex(n):
        if isinstance(n, ast.Name) and n.id in env:
            return env[n.id][:1] + (n.id,) + env[n.id][2:]
        if isinstance(n, ast.Call) and ast.unparse(n.func) == "np.ones" and len(n.args) == 1 and not n.keywords:
            c, ty = t.expr(n.args[0])
            if ty != "Z":
                raise TranslateError("np.ones argument")
            return ("vec", "(np_vec %s 1)" % c, c)
        if isinstance(n, ast.BinOp) and isinstance(n.op, ast.Mult):
            a, b = ex(n.left), ex(n.right)
            if a[0] == "vec" and b[0] == "Q":
                return ("vec", "(vec_scale %s %s)" % (a[1], b[1]), a[2])
            raise TranslateError("product in construct_j_matrix: %s" % ast.unparse(n))
        if isinstance(n, ast.BinOp) and isinstance(n.op, ast.Add):
            a, b = ex(n.left), ex(n.right)
            if a[0] == "mat" and b[0] == "mat" and a[2] == b[2]:
                return ("mat", "(mat_add %s %s)" % (a[1], b[1]), a[2])
            raise TranslateError("sum in construct_j_matrix: %s" % ast.unparse(n))
        if isinstance(n, ast.Call) and ast.unparse(n.func) == "np.diag" and len(n.args) == 1 and [k.arg for k in n.keywords] == ["k"]:
            v = ex(n.args[0])
            kk = n.keywords[0].value
            kv = ast.literal_eval(ast.unparse(kk))
            if v[0] != "vec" or kv not in (1, -1):
                raise TranslateError("np.diag in construct_j_matrix")
            return ("mat", "(np_diag %s %s)" % (v[1], zlit(kv)), "(%s + 1)%%Z" % v[2])
        if isinstance(n, ast.Call) and isinstance(n.func, ast.Attribute) and n.func.attr == "as_au" and not n.args:
            c, ty = t.expr(n.func.value)
            return ("Q", c)
        raise TranslateError("expression in construct_j_matrix: %s" % ast.unparse(n))

    def bind(nm, val):
        lets.append((nm, val[1]))
        env[nm] = val

    result = None
    for s in body:
        if isinstance(s, ast.Assign) and len(s.targets) == 1 and isinstance(s.targets[0], ast.Name):
            bind(s.targets[0].id, ex(s.value))
        elif isinstance(s, ast.If) and ast.unparse(s.test) == "periodic" and not s.orelse:
            # chained item assignment  M[a, b] = M[c, d] = v   (targets are assigned left to right)
            upd = None
            for st in s.body:
                if not (isinstance(st, ast.Assign) and all(isinstance(tg, ast.Subscript) and isinstance(tg.value, ast.Name) for tg in st.targets)):
                    raise TranslateError("statement under `if periodic`: %s" % ast.unparse(st))
                v = ex(st.value)
                if v[0] != "Q":
                    raise TranslateError("assigned value")
                for tg in st.targets:
                    m = tg.value.id
                    if env.get(m, ("",))[0] != "mat" or not (isinstance(tg.slice, ast.Tuple) and len(tg.slice.elts) == 2):
                        raise TranslateError("item assignment target %s" % ast.unparse(tg))
                    a, b = [ast.literal_eval(ast.unparse(e)) for e in tg.slice.elts]
                    if not (isinstance(a, int) and isinstance(b, int)):
                        raise TranslateError("item assignment index")
                    upd = (m, "(mat_set %s %s %s %s %s)" % (env[m][2], upd[1] if upd else m, zlit(a), zlit(b), v[1]))
            if upd is None:
                raise TranslateError("empty `if periodic`")
            m = upd[0]
            bind(m, ("mat", "(if periodic then %s else %s)" % (upd[1], m), env[m][2]))
        elif isinstance(s, ast.Return) and isinstance(s.value, ast.Name) and env.get(s.value.id, ("",))[0] == "mat":
            result = s.value.id
        else:
            raise TranslateError("statement in construct_j_matrix: %s" % ast.unparse(s))
    if result is None:
        raise TranslateError("construct_j_matrix returns nothing")
    out = result
    for nm, code in reversed(lets):
        out = "let %s := %s in\n  %s" % (nm, code, out)
    return ("(* construct_j_matrix(mol_num, j_constant, periodic): entry (i, j) of the returned matrix *)\n"
            "Definition construct_j_matrix (mol_num : Z) (j_constant : Q) (periodic : bool) : Z -> Z -> Q :=\n  %s.\n" % out)


def tr_holstein(tree, src):
    fn = find_def(find_class(tree, "HolsteinModel").body, "__init__")
    if [a.arg for a in fn.args.args] != ["self", "mol_list", "j_matrix", "scheme", "periodic"]:
        raise TranslateError("HolsteinModel.__init__ signature")
    body = strip_doc(fn.body)
    fors = [s for s in body if isinstance(s, ast.For)]
    sch = [s for s in body if isinstance(s, ast.If) and ast.unparse(s.test) == "scheme < 4"]
    if len(sch) != 1 or len(fors) != 4:
        raise TranslateError("HolsteinModel.__init__: expected the scheme switch and four loops (three term loops, dipole)")
    dip = "for imol, mol in enumerate(mol_list):\n    dipole[imol] = mol.dipole"
    whitelist([fors[3]], [dip], "HolsteinModel.__init__ dipole loop")
    rest = [s for s in body if s is not sch[0] and s not in fors]
    whitelist(rest, ["mol_num = len(mol_list)", "self.mol_list = mol_list",
                     "if isinstance(j_matrix, Quantity):\n    j_matrix = construct_j_matrix(mol_num, j_matrix, periodic)\nelse:\n    if periodic:\n        assert j_matrix[0][-1] != 0 and j_matrix[-1][0] != 0\n    assert j_matrix.shape[0] == mol_num",
                     "self.j_matrix = j_matrix", "self.scheme = scheme", "basis = []", "ham = []", "dipole = {}",
                     "super().__init__(basis, ham, dipole=dipole)", "self.mol_num = self.n_edofs"], "HolsteinModel.__init__")
    order = [ast.unparse(s)[:12] for s in body]
    if body.index(sch[0]) > body.index(fors[0]):
        raise TranslateError("term loops before the scheme switch")

    def new():
        t = Tr("holstein", src)
        t.types.update({"mol_list": "mollist", "j_matrix": "jmat", "scheme": "Z", "mol_num": "Z"})
        return t
    basis = new().contrib([sch[0]], "basis")
    ham = new().contrib(fors[:3], "ham")
    return ("(* HolsteinModel.__init__: site list (schemes 1-4) *)\n"
            "Definition holstein_basis (scheme : Z) (P : hpar) : list site :=\n  %s.\n\n"
            "(* HolsteinModel.__init__: the three term loops (they do not depend on the scheme).\n"
            "   mol.e0 is expanded through Mol.__init__ and Phonon.reorganization_energy *)\n"
            "Definition holstein_ham (P : hpar) : list term :=\n  %s.\n" % (basis, ham))


def tr_spinboson(tree, src):
    fn = find_def(find_class(tree, "SpinBosonModel").body, "__init__")
    if [a.arg for a in fn.args.args] != ["self", "epsilon", "delta", "ph_list", "dipole"]:
        raise TranslateError("SpinBosonModel.__init__ signature")
    body = strip_doc(fn.body)
    fors = [s for s in body if isinstance(s, ast.For)]
    inits = {}
    for s in body:
        if isinstance(s, ast.Assign) and isinstance(s.targets[0], ast.Name) and s.targets[0].id in ("basis", "ham") and isinstance(s.value, ast.List):
            inits[s.targets[0].id] = s
    if len(fors) != 2 or set(inits) != {"basis", "ham"}:
        raise TranslateError("SpinBosonModel.__init__ structure")
    rest = [s for s in body if s not in fors and s not in inits.values()]
    whitelist(rest, ["self.epsilon = epsilon.as_au()", "self.delta = delta.as_au()", "self.ph_list = ph_list",
                     "if dipole is None:\n    dipole = 0", "super().__init__(basis, ham, dipole={'spin': dipole})"], "SpinBosonModel.__init__")
    if not (body.index(inits["basis"]) < body.index(fors[0]) < body.index(inits["ham"]) < body.index(fors[1])):
        raise TranslateError("SpinBosonModel.__init__ statement order")

    def new():
        t = Tr("spinboson", src)
        t.types.update({"ph_list": "sphlist"})
        return t
    t = new()
    b0, _ = t.expr(inits["basis"].value)
    t.outer.append("basis")
    b1 = t.contrib([fors[0]], "basis")
    t = new()
    h0, _ = t.expr(inits["ham"].value)
    h1 = t.contrib([fors[1]], "ham")
    return ("(* SpinBosonModel.__init__ *)\nDefinition spinboson_basis (S : spar) : list site :=\n  %s ++ %s.\n\n"
            "Definition spinboson_ham (S : spar) : list term :=\n  %s ++ %s.\n" % (b0, b1, h0, h1))


def main(repo):
    base = os.path.join(repo, "renormalizer", "model")
    tree = ast.parse(open(os.path.join(base, "model.py")).read())
    src = {"mol": ast.parse(open(os.path.join(base, "mol.py")).read()), "phonon": ast.parse(open(os.path.join(base, "phonon.py")).read())}
    parts = [tr_ti1d(tree, src), tr_jmatrix(tree, src), tr_heisenberg(tree, src), tr_holstein(tree, src), tr_spinboson(tree, src)]
    hdr = ("(* GENERATED by tx/builders.py from renormalizer/model/{model,mol,phonon}.py -- do not edit. *)\n"
           "From Coq Require Import QArith ZArith List String Bool.\nImport ListNotations.\nFrom RV Require Import Model.Builders.\n"
           "Local Open Scope Q_scope.\nLocal Open Scope string_scope.\nLocal Open Scope list_scope.\n\n")
    return hdr + "\n".join(parts)


if __name__ == "__main__":
    sys.stdout.write(main(sys.argv[1] if len(sys.argv) > 1 else "/repo"))
