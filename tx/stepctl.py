"""Translator (fail-closed, partial): step-size controllers of renormalizer/mps/mps.py -> coq/Gen/StepCtlConsts.v

What is translated from the source (python `ast`, nothing is executed):
  * the three safeguard constants  p_restart / p_min / p_max  of each of the three controllers
      adaptive_tdvp (decorator)                         -> tdvp_*
      Mps._evolve_prop_and_compress (adaptive branch)    -> pc_*
      Mps._evolve_prop_and_compress_tdrk (adaptive)      -> tdrk_*
    (each must be assigned exactly once in its function, to a numeric literal);
  * the exponents' denominators are NOT translated (the error estimate is an arbitrary function in the model);
  * for the general-RK controller: which variable receives the trial result of `sub_time_step_evolve`.
    If the trial result is bound to the *same* name that is passed in as the state (the loop-carried
    state), a rejected trial replaces the state: tdrk_carry_rejected := true.  If it is bound to a
    fresh name that is copied to the carried name only on the two accepting paths: false.
    Every other shape aborts the translation.

The control flow itself (order of tests, update formulas) is modelled by hand in Model/StepCtl.v and tied
to the code by trace correspondence (harness/c09.py); see notes/C09.md.
"""
import ast
import sys
from fractions import Fraction

TARGET = "Gen/StepCtlConsts.v"


class TranslateError(Exception):
    pass


def _num(node):
    if isinstance(node, ast.Constant) and isinstance(node.value, (int, float)) and not isinstance(node.value, bool):
        return Fraction(repr(node.value)) if isinstance(node.value, float) else Fraction(node.value)
    raise TranslateError("safeguard constant is not a numeric literal: %s" % ast.unparse(node))


def _consts(fn, label):
    found = {}
    for node in ast.walk(fn):
        if isinstance(node, ast.Assign) and len(node.targets) == 1 and isinstance(node.targets[0], ast.Name) \
                and node.targets[0].id in ("p_restart", "p_min", "p_max"):
            nm = node.targets[0].id
            if nm in found:
                raise TranslateError("%s: %s assigned more than once" % (label, nm))
            found[nm] = _num(node.value)
        # any other kind of store to these names is not understood
        if isinstance(node, (ast.AugAssign, ast.AnnAssign)) and isinstance(node.target, ast.Name) \
                and node.target.id in ("p_restart", "p_min", "p_max"):
            raise TranslateError("%s: unsupported store to %s" % (label, node.target.id))
    if set(found) != {"p_restart", "p_min", "p_max"}:
        raise TranslateError("%s: constants found %s" % (label, sorted(found)))
    if not (0 < found["p_min"] < found["p_restart"] <= 1 <= found["p_max"]):
        # the theorems need 0 < p_min < p_restart <= 1 <= p_max; they are stated over the generated values and
        # would fail to compile otherwise -- report it here with a readable message instead
        raise TranslateError("%s: constants out of the range the model supports: %s" % (label, found))
    return found


def _find_func(tree, name, cls=None):
    for node in ast.walk(tree):
        if cls is not None:
            if isinstance(node, ast.ClassDef) and node.name == cls:
                for f in node.body:
                    if isinstance(f, ast.FunctionDef) and f.name == name:
                        return f
        elif isinstance(node, ast.FunctionDef) and node.name == name:
            return node
    raise TranslateError("function %s not found" % name)


def _stores_to(stmts, name):
    """all statements (recursively) that bind `name`"""
    out = []
    for s in stmts:
        for node in ast.walk(s):
            if isinstance(node, ast.Assign):
                for t in node.targets:
                    for n in ast.walk(t):
                        if isinstance(n, ast.Name) and n.id == name and isinstance(n.ctx, ast.Store):
                            out.append(node)
            elif isinstance(node, (ast.AugAssign, ast.AnnAssign, ast.For, ast.With, ast.NamedExpr)):
                tgt = getattr(node, "target", None)
                if tgt is not None:
                    for n in ast.walk(tgt):
                        if isinstance(n, ast.Name) and n.id == name and isinstance(n.ctx, ast.Store):
                            out.append(node)
    return out


def _carry_flag(fn):
    # the adaptive `while True:` loop
    loops = [n for n in ast.walk(fn) if isinstance(n, ast.While)]
    if len(loops) != 1:
        raise TranslateError("tdrk: expected exactly one while loop, found %d" % len(loops))
    loop = loops[0]
    if not (isinstance(loop.test, ast.Constant) and loop.test.value is True):
        raise TranslateError("tdrk: loop test is not `True`")
    calls = []
    for s in loop.body:
        if isinstance(s, ast.Assign) and isinstance(s.value, ast.Call) and ast.unparse(s.value.func) == "sub_time_step_evolve":
            calls.append(s)
    if len(calls) != 1:
        raise TranslateError("tdrk: expected one top-level `... = sub_time_step_evolve(...)` in the loop, found %d" % len(calls))
    call = calls[0]
    if len(call.targets) != 1 or not isinstance(call.targets[0], ast.Tuple) or len(call.targets[0].elts) != 2 \
            or not all(isinstance(e, ast.Name) for e in call.targets[0].elts):
        raise TranslateError("tdrk: trial result is not bound to a pair of names")
    trial = call.targets[0].elts[0].id
    if len(call.value.args) != 3 or call.value.keywords or not isinstance(call.value.args[0], ast.Name):
        raise TranslateError("tdrk: argument shape of sub_time_step_evolve")
    carried = call.value.args[0].id
    if ast.unparse(call.value.args[1]) != "dt" or ast.unparse(call.value.args[2]) != "evolved_dt":
        raise TranslateError("tdrk: sub_time_step_evolve is not called with (state, dt, evolved_dt)")
    # the accept / reject test
    ifs = [s for s in loop.body if isinstance(s, ast.If)]
    if len(ifs) != 1 or ast.unparse(ifs[0].test) != "p < p_restart":
        raise TranslateError("tdrk: expected a single top-level `if p < p_restart:` in the loop")
    rej, acc = ifs[0].body, ifs[0].orelse
    if not acc or not isinstance(acc[-1], ast.If) or any(isinstance(x, (ast.If, ast.While, ast.For)) for x in acc[:-1]):
        raise TranslateError("tdrk: accept branch is not (simple statements; if final: ... else: ...)")
    prefix, fin, sub = acc[:-1], acc[-1].body, acc[-1].orelse
    if not any(isinstance(s, ast.Break) for s in fin) or any(isinstance(n, ast.Break) for s in sub for n in ast.walk(s)) \
            or any(isinstance(n, ast.Break) for s in rej + prefix for n in ast.walk(s)):
        raise TranslateError("tdrk: `break` is expected in the final-step branch only")
    if trial == carried:
        # the carried state is overwritten before the test: no further store may exist
        others = [s for s in _stores_to(loop.body, carried) if s is not call]
        if others:
            raise TranslateError("tdrk: unexpected additional store to %s" % carried)
        return True, carried, trial
    # fresh name: it must be copied to the carried name on every accepting path and never on the rejecting path
    def copies(stmts):
        return [s for s in stmts if isinstance(s, ast.Assign) and len(s.targets) == 1 and isinstance(s.targets[0], ast.Name)
                and s.targets[0].id == carried and isinstance(s.value, ast.Name) and s.value.id == trial]
    if _stores_to(rej, carried):
        raise TranslateError("tdrk: the rejecting path stores to the carried state")
    shape = (len(copies(prefix)), len(copies(fin)), len(copies(sub)))
    if shape not in ((1, 0, 0), (0, 1, 1)):
        raise TranslateError("tdrk: the trial result is not copied to the carried state exactly once on each accepting path %r" % (shape,))
    if len(_stores_to(loop.body, carried)) != sum(shape):
        raise TranslateError("tdrk: unexpected stores to the carried state")
    # the stores of the trial name itself: only the call
    if len(_stores_to(loop.body, trial)) != 1:
        raise TranslateError("tdrk: unexpected stores to the trial state")
    return False, carried, trial


def q(fr):
    return "(%d # %d)" % (fr.numerator, fr.denominator)


def main(repo="/repo"):
    src = open(repo + "/renormalizer/mps/mps.py").read()
    tree = ast.parse(src)
    c_tdvp = _consts(_find_func(tree, "adaptive_tdvp"), "adaptive_tdvp")
    c_pc = _consts(_find_func(tree, "_evolve_prop_and_compress", "Mps"), "_evolve_prop_and_compress")
    f_rk = _find_func(tree, "_evolve_prop_and_compress_tdrk", "Mps")
    c_rk = _consts(f_rk, "_evolve_prop_and_compress_tdrk")
    carry, carried, trial = _carry_flag(f_rk)
    out = ["(* GENERATED by tx/stepctl.py from renormalizer/mps/mps.py -- do not edit *)",
           "From Coq Require Import QArith.", "Local Open Scope Q_scope.", ""]
    for label, c in (("tdvp", c_tdvp), ("pc", c_pc), ("tdrk", c_rk)):
        for nm in ("p_restart", "p_min", "p_max"):
            out.append("Definition %s_%s : Q := %s." % (label, nm, q(c[nm])))
        out.append("")
    out.append("(* general-RK adaptive loop: `%s, error = sub_time_step_evolve(%s, dt, evolved_dt)` *)" % (trial, carried))
    out.append("Definition tdrk_carry_rejected : bool := %s." % ("true" if carry else "false"))
    out.append("")
    info = {"tdvp": {k: str(v) for k, v in c_tdvp.items()}, "pc": {k: str(v) for k, v in c_pc.items()},
            "tdrk": {k: str(v) for k, v in c_rk.items()}, "tdrk_carry_rejected": carry}
    return "\n".join(out), info


if __name__ == "__main__":
    text, info = main(sys.argv[1] if len(sys.argv) > 1 else "/repo")
    sys.stdout.write(text)
