"""Translator: how renormalizer/lib/krylov/krylov.py:expm_krylov normalises its start vector
->  coq/Gen/KrylovNorm.v   (fail-closed; sibling of tx/krylovsites.py, whose output is unchanged)

The Lanczos recursion assumes a unit first basis vector and the result is multiplied by the norm once, in
_expm_krylov.  Extracted (python ast, canonical statement text):

  ns_two_norm       nrmv = float(xp.linalg.norm(vstart))                     (and `assert nrmv > 0`)
  ns_unconditional  the division by nrmv is a plain top-level statement       (false: it sits under an `if`)
  ns_out_of_place   `vstart = vstart / nrmv`                                   (false: `vstart /= nrmv`, the caller's array)
  ns_first_row      `V[0] = vstart` follows, and neither vstart nor nrmv is bound anywhere else in the function
  ns_scale_once     every `_expm_krylov(...)` call passes (alpha[:j+1], beta[:j], V[:j+1...].T, nrmv, dt) and the kernel returns
                    V @ xp.asarray(u_hess @ (v_norm * np.exp(dt * w_hess) * u_hess[0]))
  ns_atol_scaled    the convergence test is xp.allclose(res, new_res, atol=1e-8 * nrmv)   (false: default absolute tolerance)
  ns_fallback_consistent   _expm_krylov: `try: w_hess, u_hess = eigh_tridiagonal(alpha, beta)  except np.linalg.LinAlgError:` builds the dense
                    matrix h as a sum of np.diag(alpha), np.diag(beta, k=-1), np.diag(beta, k=1) and calls np.linalg.eigh(h[, UPLO=..]):
                    true iff both off-diagonals are present, or exactly the triangle that eigh reads (UPLO, default 'L' = k=-1) is filled

The prologue of expm_krylov (everything before the `for`) must consist of exactly the known statements; for the
normalisation statement a few alternatives are recognised (they flip a constant, so that `src_norm = ref_norm`
stops compiling); anything else raises TranslateError.
"""
import ast
import sys

TARGET = "Gen/KrylovNorm.v"
FILE = "renormalizer/lib/krylov/krylov.py"
FIELDS = ["ns_two_norm", "ns_unconditional", "ns_out_of_place", "ns_first_row", "ns_scale_once", "ns_atol_scaled", "ns_fallback_consistent"]


class TranslateError(Exception):
    pass


def U(n):
    return ast.unparse(n)


def strip_doc(body):
    if body and isinstance(body[0], ast.Expr) and isinstance(body[0].value, ast.Constant) and isinstance(body[0].value.value, str):
        return body[1:]
    return body


def extract(src):
    tree = ast.parse(src)
    fs = {n.name: n for n in tree.body if isinstance(n, ast.FunctionDef)}
    if "expm_krylov" not in fs or "_expm_krylov" not in fs:
        raise TranslateError("expm_krylov / _expm_krylov not found")
    f = fs["expm_krylov"]
    if [a.arg for a in f.args.args] != ["Afunc", "dt", "vstart", "block_size"]:
        raise TranslateError("expm_krylov: signature")
    body = strip_doc(f.body)
    loops = [i for i, s in enumerate(body) if isinstance(s, ast.For)]
    if len(loops) != 1 or loops[0] != len(body) - 1:
        raise TranslateError("expm_krylov: expected the prologue followed by the single Lanczos loop")
    pro = [U(s) for s in body[:-1]]
    sh = {}
    norm_forms = {
        "vstart = vstart / nrmv": (True, True),
        "vstart /= nrmv": (True, False),
        "if not np.isclose(nrmv, 1):\n    vstart = vstart / nrmv": (False, True),
        "if not np.isclose(nrmv, 1.0):\n    vstart = vstart / nrmv": (False, True),
        "if nrmv != 1:\n    vstart = vstart / nrmv": (False, True),
        "if nrmv != 1.0:\n    vstart = vstart / nrmv": (False, True),
    }
    expected_before = ["if not np.iscomplex(dt):\n    dt = dt.real", "vstart = xp.asarray(vstart)", "nrmv = float(xp.linalg.norm(vstart))", "assert nrmv > 0"]
    expected_after = ["alpha = np.zeros(block_size)", "beta = np.zeros(block_size - 1)",
                      "V = xp.empty((block_size, len(vstart)), dtype=vstart.dtype)", "V[0] = vstart", "res = None"]
    if len(pro) != 10:
        raise TranslateError("expm_krylov prologue has %d statements (expected 10): %s" % (len(pro), [x[:60] for x in pro]))
    if pro[:4] != expected_before:
        raise TranslateError("expm_krylov prologue: %s\nexpected %s" % (pro[:4], expected_before))
    if pro[5:] != expected_after:
        raise TranslateError("expm_krylov prologue after the normalisation: %s\nexpected %s" % (pro[5:], expected_after))
    nstmt = pro[4]
    node = body[4]
    if nstmt in norm_forms:
        sh["ns_unconditional"], sh["ns_out_of_place"] = norm_forms[nstmt]
    elif isinstance(node, ast.If) and not node.orelse and [U(x) for x in node.body] == ["vstart = vstart / nrmv"]:
        sh["ns_unconditional"], sh["ns_out_of_place"] = False, True          # any conditional normalisation
    else:
        raise TranslateError("expm_krylov: normalisation statement not recognised: %s" % nstmt[:200])
    sh["ns_two_norm"] = True
    # vstart / nrmv bound nowhere else
    binds = {"vstart": 0, "nrmv": 0}
    for n in ast.walk(f):
        targets = []
        if isinstance(n, ast.Assign):
            targets = n.targets
        elif isinstance(n, (ast.AugAssign, ast.AnnAssign)):
            targets = [n.target]
        elif isinstance(n, (ast.For, ast.comprehension)):
            targets = [n.target]
        for t in targets:
            for e in ast.walk(t):
                if isinstance(e, ast.Name) and e.id in binds and isinstance(e.ctx, ast.Store):
                    binds[e.id] += 1
    if binds != {"vstart": 2, "nrmv": 1}:
        raise TranslateError("expm_krylov: vstart / nrmv are bound %s times (expected vstart twice, nrmv once)" % binds)
    sh["ns_first_row"] = True
    # the kernel calls and the convergence test
    calls = [n for n in ast.walk(f) if isinstance(n, ast.Call) and isinstance(n.func, ast.Name) and n.func.id == "_expm_krylov"]
    if len(calls) != 3:
        raise TranslateError("expm_krylov: %d calls of _expm_krylov (expected 3)" % len(calls))
    for c in calls:
        a = [U(x) for x in c.args]
        if c.keywords or len(a) != 5 or a[0] != "alpha[:j + 1]" or a[1] != "beta[:j]" or a[2] not in ("V[:j + 1, :].T", "V[:j + 1].T") or a[4] != "dt":
            raise TranslateError("expm_krylov: _expm_krylov call %s" % U(c)[:120])
        if a[3] != "nrmv":
            raise TranslateError("expm_krylov: _expm_krylov is scaled by %s, not nrmv" % a[3])
    k = fs["_expm_krylov"]
    if [a.arg for a in k.args.args] != ["alpha", "beta", "V", "v_norm", "dt"]:
        raise TranslateError("_expm_krylov: signature")
    rets = [n for n in ast.walk(k) if isinstance(n, ast.Return)]
    if len(rets) != 1 or U(rets[0]) != "return V @ xp.asarray(u_hess @ (v_norm * np.exp(dt * w_hess) * u_hess[0]))":
        raise TranslateError("_expm_krylov: return statement %s" % [U(r)[:120] for r in rets])
    for n in ast.walk(k):
        if isinstance(n, (ast.Assign, ast.AugAssign)):
            for t in (n.targets if isinstance(n, ast.Assign) else [n.target]):
                if any(isinstance(e, ast.Name) and e.id in ("v_norm", "V", "dt") for e in ast.walk(t)):
                    raise TranslateError("_expm_krylov rebinds v_norm / V / dt")
    sh["ns_scale_once"] = True
    # the fallback branch of the kernel
    kb = strip_doc(k.body)
    tries = [x for x in kb if isinstance(x, ast.Try)]
    if len(tries) != 1 or len(kb) != 2 or kb[0] is not tries[0]:
        raise TranslateError("_expm_krylov: expected `try: ... except ...` followed by the return")
    t = tries[0]
    if [U(x) for x in t.body] != ["w_hess, u_hess = eigh_tridiagonal(alpha, beta)"] or t.orelse or t.finalbody or len(t.handlers) != 1:
        raise TranslateError("_expm_krylov: try body / handlers")
    h = t.handlers[0]
    if h.type is None or U(h.type) != "np.linalg.LinAlgError":
        raise TranslateError("_expm_krylov: the handler catches %s" % (U(h.type) if h.type is not None else "everything"))
    hb = [x for x in h.body if not (isinstance(x, ast.Expr) and isinstance(x.value, ast.Call) and U(x.value.func).startswith("logger."))]
    if len(hb) != 2 or not (isinstance(hb[0], ast.Assign) and U(hb[0].targets[0]) == "h") or not isinstance(hb[1], ast.Assign) or U(hb[1].targets[0]) not in ("w_hess, u_hess", "(w_hess, u_hess)"):
        raise TranslateError("_expm_krylov: fallback statements %s" % [U(x)[:80] for x in h.body])
    terms = []
    def flat(e):
        if isinstance(e, ast.BinOp) and isinstance(e.op, ast.Add):
            flat(e.left); flat(e.right)
        else:
            terms.append(U(e))
    flat(hb[0].value)
    known = {"np.diag(alpha)": "d", "np.diag(beta, k=-1)": "l", "np.diag(beta, -1)": "l", "np.diag(beta, k=1)": "u", "np.diag(beta, 1)": "u"}
    if any(x not in known for x in terms) or sorted(known[x] for x in terms) not in (["d", "l", "u"], ["d", "l"], ["d", "u"]):
        raise TranslateError("_expm_krylov: fallback matrix %s" % U(hb[0].value)[:200])
    parts = {known[x] for x in terms}
    call = hb[1].value
    if not (isinstance(call, ast.Call) and U(call.func) == "np.linalg.eigh" and [U(a) for a in call.args] == ["h"]):
        raise TranslateError("_expm_krylov: fallback solver %s" % U(call)[:120])
    kw = {q.arg: U(q.value) for q in call.keywords}
    if set(kw) - {"UPLO"} or kw.get("UPLO", "'L'") not in ("'L'", "'U'"):
        raise TranslateError("_expm_krylov: np.linalg.eigh keywords %s" % kw)
    reads = "l" if kw.get("UPLO", "'L'") == "'L'" else "u"
    sh["ns_fallback_consistent"] = parts == {"d", "l", "u"} or parts == {"d", reads}
    tests = [n for n in ast.walk(f) if isinstance(n, ast.Call) and U(n.func) == "xp.allclose"]
    if len(tests) != 1:
        raise TranslateError("expm_krylov: %d xp.allclose calls (expected the convergence test only)" % len(tests))
    t = U(tests[0])
    if t == "xp.allclose(res, new_res, atol=1e-08 * nrmv)":
        sh["ns_atol_scaled"] = True
    elif t == "xp.allclose(res, new_res)":
        sh["ns_atol_scaled"] = False
    else:
        raise TranslateError("expm_krylov: convergence test %s" % t)
    if sorted(sh) != sorted(FIELDS):
        raise TranslateError("internal: fields")
    return sh


def render(sh, head=""):
    out = [head + "(* GENERATED by tx/krylovnorm.py from renormalizer/lib/krylov/krylov.py -- do not edit *)",
           "From RV Require Import Model.Krylov.", "", "Definition src_norm : normshape := {|"]
    out.append(";\n".join("  %s := %s" % (k, "true" if sh[k] else "false") for k in FIELDS))
    out.append("|}.")
    out.append("")
    return "\n".join(out)


def render_failed(msg):
    """fail-closed: the obligation src_norm = ref_norm must not hold when the source could not be read"""
    sh = {k: True for k in FIELDS}
    sh["ns_two_norm"] = False
    return render(sh, "(* TRANSLATION FAILED: %s\n   ns_two_norm is set to false on purpose. *)\n" % msg.replace("*)", "* )")[:600])


def main(repo="/repo"):
    sh = extract(open(repo + "/" + FILE).read())
    return render(sh), sh


if __name__ == "__main__":
    text, sh = main(sys.argv[1] if len(sys.argv) > 1 else "/repo")
    sys.stdout.write(text)
