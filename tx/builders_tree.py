"""Translator: the tree constructors of renormalizer/tn/treebase.py  ->  coq/Gen/TreeBuilders.v   (fail-closed)

BasisTree.linear / binary / general_mctdh / t3ns build mutable node objects with `add_child`; Gallina
trees are values.  The translation therefore works on *loop / recursion skeletons*:

  * every builder has a PATTERN below: its source text with the parts that carry the index arithmetic
    replaced by holes `H_...` (loop bounds, indices, slice bounds, comparison tests, counter
    initialisations and increments, arguments of approximate_partition);
  * the source function (docstrings, comments, annotations and decorators removed) must unify with the
    pattern node by node: same statements, same calls, same names, same nesting (= the recursion
    structure).  A hole binds an arbitrary expression; a hole used twice must bind the same expression
    (e.g. the node handed to the recursive call must be the node that was added as a child);
  * the bound expressions are compiled to Gallina over Z (`+ - * //`, unary -, min/max, `len(x)`,
    comparisons, and/or/not, `contract_label[e]`) and put into a Gallina TEMPLATE whose shape is the
    functional reading of the pattern: `node.add_child(x)` + recursive call on x = the subtree of x is
    the recursive result; `nonlocal dummy_i` = a counter threaded through the calls; python
    recursion on list lengths = structural recursion on a fuel argument (None when it runs out);
    an IndexError = None.
Anything that does not unify, or an expression outside the subset, raises TranslateError.
An edit of a loop bound, a slice bound, an index or a test therefore changes the generated definitions
(the objects the theorems of Props/C02.v are about); an edit of the statement structure stops the
translation.  `TreeNodeBasis([])` (an implicit virtual DoF) is not reachable in the shipped builders and
is rendered as a node without basis sets.
"""
import ast
import sys

TARGET = "Gen/TreeBuilders.v"


class TranslateError(Exception):
    pass


# ------------------------------------------------------------------------------------------------ patterns
PATTERNS = {
    "linear": '''
def linear(cls, basis_list):
    node_list = [TreeNodeBasis([basis]) for basis in basis_list]
    for i in range(H_LIN_N):
        node_list[H_LIN_P].add_child(node_list[H_LIN_C])
    return cls(node_list[H_LIN_ROOT])
''',
    "binary": '''
def binary(cls, basis_list):
    node_list = [TreeNodeBasis([basis]) for basis in basis_list]

    def binary_recursion(node, offspring):
        if H_BIN_T0:
            return
        node.add_child(offspring[H_BIN_I0])
        if H_BIN_T1:
            return
        node.add_child(offspring[H_BIN_I1])
        new_offspring = offspring[H_BIN_S0:]
        mid_idx = H_BIN_MID
        binary_recursion(offspring[H_BIN_I0], new_offspring[:H_BIN_E0])
        binary_recursion(offspring[H_BIN_I1], new_offspring[H_BIN_E1:])
    binary_recursion(node_list[H_BIN_ROOT], node_list[H_BIN_REST:])
    return cls(node_list[H_BIN_ROOT])
''',
    "general_mctdh": '''
def general_mctdh(cls, basis_list, tree_order, contract_primitive=False, contract_label=None, dummy_label="MCTDH virtual"):
    assert H_M_ASSERT
    elementary_nodes = []
    if not contract_primitive:
        assert contract_label is None, "providing label makes sense only when primitives are contracted"
        while H_M_W1:
            node = TreeNodeBasis(basis_list[:H_M_S1])
            elementary_nodes.append(node)
            basis_list = basis_list[H_M_S2:]
        elementary_nodes.append(TreeNodeBasis(basis_list))
    else:
        if contract_label is None:
            for basis in basis_list:
                node1 = TreeNodeBasis([basis])
                elementary_nodes.append(node1)
        else:
            assert H_M_LASSERT
            i = H_M_I0
            while H_M_W2:
                if contract_label[H_M_L1]:
                    elementary_nodes.append(TreeNodeBasis([basis_list[H_M_B1]]))
                    i += H_M_INC1
                else:
                    for j in range(H_M_RLO, H_M_RHI):
                        if H_M_BREAK:
                            break
                    elementary_nodes.append(TreeNodeBasis(basis_list[H_M_SLO:H_M_SHI]))
                    i += H_M_INC2

    def recursion(elementary_nodes_):
        nonlocal dummy_i
        node = TreeNodeBasis([BasisDummy((dummy_label, dummy_i))])
        dummy_i += H_M_DINC
        if H_M_LEAFTEST:
            node.add_child(elementary_nodes_)
            return node
        for group in approximate_partition(elementary_nodes_, H_M_PARTN):
            node.add_child(recursion(group))
        return node
    dummy_i = H_M_D0
    root = recursion(elementary_nodes)
    return cls(root)
''',
    "t3ns": '''
def t3ns(cls, basis_list, t3ns_label="T3NS virtual"):
    def recursion(parent, basis_list_):
        nonlocal dummy_i
        if H_T_T0:
            return
        if H_T_T1:
            parent.add_child(TreeNodeBasis(basis_list_))
            return
        if H_T_T2:
            node1 = TreeNodeBasis(basis_list_[:H_T_A])
            parent.add_child(node1)
            node2 = TreeNodeBasis(basis_list_[H_T_B:])
            node1.add_child(node2)
            return
        node1 = TreeNodeBasis(basis_list_[:H_T_C])
        parent.add_child(node1)
        node2 = TreeNodeBasis([BasisDummy((t3ns_label, dummy_i))])
        dummy_i += H_T_DINC
        node1.add_child(node2)
        for partition_ in approximate_partition(basis_list_[H_T_E:], H_T_PN):
            recursion(node2, partition_)
    dummy_i = H_T_D0
    root = TreeNodeBasis([BasisDummy((t3ns_label, dummy_i))])
    dummy_i += H_T_RINC
    for partition in approximate_partition(basis_list, H_T_RPN):
        recursion(root, partition)
    return cls(root)
''',
}

# kind of every hole and the python names it may mention: name -> (gallina term, type)
LISTS_LIN = {"node_list": ("basis_list", "list"), "basis_list": ("basis_list", "list"), "i": ("i", "int")}
LISTS_BIN_IN = {"offspring": ("offspring", "list"), "new_offspring": ("new_offspring", "list"), "mid_idx": ("mid_idx", "int")}
LISTS_BIN_TOP = {"node_list": ("basis_list", "list"), "basis_list": ("basis_list", "list")}
M_ENV = {"basis_list": ("basis_list", "list"), "tree_order": ("tree_order", "int"), "contract_label": ("contract_label", "blist"),
         "i": ("i", "int"), "j": ("j", "int")}
M_REC = {"elementary_nodes_": ("elementary_nodes_", "list"), "tree_order": ("tree_order", "int"), "dummy_i": ("dummy_i", "int")}
T_REC = {"basis_list_": ("basis_list_", "list"), "dummy_i": ("dummy_i", "int")}
T_TOP = {"basis_list": ("basis_list", "list"), "dummy_i": ("dummy_i", "int")}
HOLES = {
    "H_LIN_N": ("int", LISTS_LIN), "H_LIN_P": ("int", LISTS_LIN), "H_LIN_C": ("int", LISTS_LIN), "H_LIN_ROOT": ("int", LISTS_LIN),
    "H_BIN_T0": ("cond", LISTS_BIN_IN), "H_BIN_T1": ("cond", LISTS_BIN_IN), "H_BIN_I0": ("int", LISTS_BIN_IN), "H_BIN_I1": ("int", LISTS_BIN_IN),
    "H_BIN_S0": ("int", LISTS_BIN_IN), "H_BIN_MID": ("int", LISTS_BIN_IN), "H_BIN_E0": ("int", LISTS_BIN_IN), "H_BIN_E1": ("int", LISTS_BIN_IN),
    "H_BIN_ROOT": ("int", LISTS_BIN_TOP), "H_BIN_REST": ("int", LISTS_BIN_TOP),
    "H_M_ASSERT": ("cond", M_ENV), "H_M_W1": ("cond", M_ENV), "H_M_S1": ("int", M_ENV), "H_M_S2": ("int", M_ENV),
    "H_M_LASSERT": ("cond", M_ENV), "H_M_I0": ("int", M_ENV), "H_M_W2": ("cond", M_ENV), "H_M_L1": ("int", M_ENV), "H_M_B1": ("int", M_ENV),
    "H_M_INC1": ("int", M_ENV), "H_M_RLO": ("int", M_ENV), "H_M_RHI": ("int", M_ENV), "H_M_BREAK": ("cond", M_ENV),
    "H_M_SLO": ("int", M_ENV), "H_M_SHI": ("int", M_ENV), "H_M_INC2": ("int", M_ENV),
    "H_M_DINC": ("int", M_REC), "H_M_LEAFTEST": ("cond", M_REC), "H_M_PARTN": ("int", M_REC), "H_M_D0": ("int", {}),
    "H_T_T0": ("cond", T_REC), "H_T_T1": ("cond", T_REC), "H_T_T2": ("cond", T_REC), "H_T_A": ("int", T_REC), "H_T_B": ("int", T_REC),
    "H_T_C": ("int", T_REC), "H_T_DINC": ("int", T_REC), "H_T_E": ("int", T_REC), "H_T_PN": ("int", T_REC),
    "H_T_D0": ("int", {}), "H_T_RINC": ("int", T_TOP), "H_T_RPN": ("int", T_TOP),
}


# ------------------------------------------------------------------------------------------------ unification
SKIP_FIELDS = {"annotation", "returns", "type_comment", "decorator_list", "ctx", "kind", "type_params"}


def normalise(fdef):
    """drop docstrings / bare string statements, turn annotated assignments into plain ones"""
    class N(ast.NodeTransformer):
        def visit_AnnAssign(self, n):
            self.generic_visit(n)
            if n.value is None:
                raise TranslateError("annotation without value")
            return ast.copy_location(ast.Assign(targets=[n.target], value=n.value), n)

        def generic_visit(self, n):
            super().generic_visit(n)
            if hasattr(n, "body") and isinstance(n.body, list):
                n.body = [s for s in n.body if not (isinstance(s, ast.Expr) and isinstance(s.value, ast.Constant) and isinstance(s.value.value, str))]
            return n
    return N().visit(fdef)


def unify(pat, src, env, where):
    if isinstance(pat, ast.Name) and pat.id.startswith("H_"):
        if not isinstance(src, ast.expr):
            raise TranslateError("%s: hole %s against a non-expression" % (where, pat.id))
        if pat.id in env:
            if ast.dump(env[pat.id]) != ast.dump(src):
                raise TranslateError("%s: hole %s bound to two different expressions: %s / %s" % (where, pat.id, ast.unparse(env[pat.id]), ast.unparse(src)))
        env[pat.id] = src
        return
    if type(pat) is not type(src):
        raise TranslateError("%s: expected %s, found %s (%s)" % (where, type(pat).__name__, type(src).__name__,
                                                               ast.unparse(src)[:80] if isinstance(src, ast.AST) else src))
    if isinstance(pat, ast.AST):
        for f in pat._fields:
            if f in SKIP_FIELDS:
                continue
            unify(getattr(pat, f, None), getattr(src, f, None), env, where + "." + f)
    elif isinstance(pat, list):
        if len(pat) != len(src):
            raise TranslateError("%s: %d items expected, %d found" % (where, len(pat), len(src)))
        for i, (a, b) in enumerate(zip(pat, src)):
            unify(a, b, env, "%s[%d]" % (where, i))
    elif pat != src:
        raise TranslateError("%s: expected %r, found %r" % (where, pat, src))


# ------------------------------------------------------------------------------------------------ expressions
def zlit(v):
    return "%d" % v if v >= 0 else "(%d)" % v


def int_expr(n, names):
    if isinstance(n, ast.Constant):
        if isinstance(n.value, bool) or not isinstance(n.value, int):
            raise TranslateError("constant %r" % (n.value,))
        return zlit(n.value)
    if isinstance(n, ast.Name):
        if n.id in names and names[n.id][1] == "int":
            return names[n.id][0]
        raise TranslateError("name %s is not an integer here" % n.id)
    if isinstance(n, ast.UnaryOp) and isinstance(n.op, ast.USub):
        return "(- %s)" % int_expr(n.operand, names)
    if isinstance(n, ast.BinOp):
        l, r = int_expr(n.left, names), int_expr(n.right, names)
        op = {ast.Add: "(%s + %s)", ast.Sub: "(%s - %s)", ast.Mult: "(%s * %s)", ast.FloorDiv: "(py_floordiv %s %s)"}.get(type(n.op))
        if op is None:
            raise TranslateError("operator %s" % type(n.op).__name__)
        return op % (l, r)
    if isinstance(n, ast.Call) and isinstance(n.func, ast.Name) and not n.keywords:
        if n.func.id in ("min", "max") and len(n.args) == 2:
            return "(Z.%s %s %s)" % (n.func.id, int_expr(n.args[0], names), int_expr(n.args[1], names))
        if n.func.id == "len" and len(n.args) == 1 and isinstance(n.args[0], ast.Name) \
                and n.args[0].id in names and names[n.args[0].id][1] in ("list", "blist"):
            return "(py_len %s)" % names[n.args[0].id][0]
    raise TranslateError("integer expression %s" % ast.unparse(n))


def cond_expr(n, names):
    if isinstance(n, ast.Compare) and len(n.ops) == 1:
        l, r = int_expr(n.left, names), int_expr(n.comparators[0], names)
        f = {ast.Eq: "(Z.eqb %s %s)", ast.NotEq: "(negb (Z.eqb %s %s))", ast.Lt: "(Z.ltb %s %s)", ast.LtE: "(Z.leb %s %s)",
             ast.Gt: "(Z.gtb %s %s)", ast.GtE: "(Z.geb %s %s)"}.get(type(n.ops[0]))
        if f is None:
            raise TranslateError("comparison %s" % ast.unparse(n))
        return f % (l, r)
    if isinstance(n, ast.BoolOp):
        parts = [cond_expr(v, names) for v in n.values]
        op = "orb" if isinstance(n.op, ast.Or) else "andb"
        out = parts[-1]
        for p in reversed(parts[:-1]):
            out = "(%s %s %s)" % (op, p, out)
        return out
    if isinstance(n, ast.UnaryOp) and isinstance(n.op, ast.Not):
        return "(negb %s)" % cond_expr(n.operand, names)
    if isinstance(n, ast.Subscript) and isinstance(n.value, ast.Name) and n.value.id in names and names[n.value.id][1] == "blist" \
            and not isinstance(n.slice, ast.Slice):
        return "(py_getb %s %s)" % (names[n.value.id][0], int_expr(n.slice, names))
    raise TranslateError("test %s" % ast.unparse(n))


# ------------------------------------------------------------------------------------------------ templates
PRELUDE = r"""(* GENERATED by tx/builders_tree.py from renormalizer/tn/treebase.py (BasisTree.linear / binary /
   general_mctdh / t3ns) -- do not edit.  Holes of the skeletons are shown as comments. *)
From Coq Require Import ZArith List Arith Bool.
Import ListNotations.
From RV Require Import Gen.Partition Model.TreeTopo.
Local Open Scope Z_scope.

(* ---- prelude: python indexing *)
Definition py_index (len : nat) (i : Z) : option nat :=
  if (0 <=? i) && (i <? Z.of_nat len) then Some (Z.to_nat i)
  else if (- Z.of_nat len <=? i) && (i <? 0) then Some (Z.to_nat (Z.of_nat len + i))
  else None.                                                         (* IndexError *)
Definition py_get {A : Type} (l : list A) (i : Z) : option A :=
  match py_index (length l) i with Some k => nth_error l k | None => None end.
Definition py_getb (l : list bool) (i : Z) : bool := match py_get l i with Some b => b | None => true end.
Definition py_range2 (lo hi : Z) : list Z := map (fun k => lo + Z.of_nat k) (seq 0 (Z.to_nat (hi - lo))).
(* `for j in range(lo, hi): if test(j): break` and j used afterwards: the first j with test, else the last *)
Fixpoint py_for_break (js : list Z) (test : Z -> bool) : option Z :=
  match js with
  | [] => None                                                       (* j unbound *)
  | [j] => Some j
  | j :: js' => if test j then Some j else py_for_break js' test
  end.
Fixpoint opt_thread {X Y : Type} (f : X -> Z -> option (Y * Z)) (xs : list X) (c : Z) : option (list Y * Z) :=
  match xs with
  | [] => Some ([], c)
  | x :: xs' => match f x c with
                | Some (y, c1) => match opt_thread f xs' c1 with Some (ys, c2) => Some (y :: ys, c2) | None => None end
                | None => None
                end
  end.
Fixpoint opt_thread_cat {X Y : Type} (f : X -> Z -> option (list Y * Z)) (xs : list X) (c : Z) : option (list Y * Z) :=
  match xs with
  | [] => Some ([], c)
  | x :: xs' => match f x c with
                | Some (y, c1) => match opt_thread_cat f xs' c1 with Some (ys, c2) => Some (y ++ ys, c2) | None => None end
                | None => None
                end
  end.
Fixpoint opt_all {X : Type} (l : list (option X)) : option (list X) :=
  match l with
  | [] => Some []
  | Some x :: l' => option_map (cons x) (opt_all l')
  | None :: _ => None
  end.
Definition mknode {A : Type} (l : list A) : btree A := BNode (map Real l) [].
Definition zdummy {A : Type} (d : Z) : basis A := Dummy (Z.to_nat d).

Section Builders.
Context {A : Type}.
"""

TEMPLATE = r"""
(* ---------------------------------------------------------------- linear *)
(* for i in range(N): node_list[P].add_child(node_list[C]);  return cls(node_list[ROOT]) *)
Definition linear_edges (basis_list : list A) : list (Z * Z) :=
  map (fun i => ({H_LIN_P}, {H_LIN_C})) (py_range {H_LIN_N}).
Definition linear_root (basis_list : list A) : Z := {H_LIN_ROOT}.
Definition linear_g (basis_list : list A) : option (btree A) :=
  let n := length basis_list in
  match py_index n (linear_root basis_list),
        opt_all (map (fun e => match py_index n (fst e), py_index n (snd e) with
                               | Some p, Some c => Some (p, c) | _, _ => None end) (linear_edges basis_list)) with
  | Some r, Some es => tree_of_edges n (map (fun a => [Real a]) basis_list) es r
  | _, _ => None
  end.

(* ---------------------------------------------------------------- binary *)
Fixpoint binary_recursion_g (fuel : nat) (node : A) (offspring : list A) : option (btree A) :=
  match fuel with
  | O => None
  | S fuel' =>
    if {H_BIN_T0} then Some (BNode [Real node] [])
    else match py_get offspring {H_BIN_I0} with
    | None => None
    | Some child0 =>
      if {H_BIN_T1} then Some (BNode [Real node] [BNode [Real child0] []])
      else match py_get offspring {H_BIN_I1} with
      | None => None
      | Some child1 =>
        let new_offspring := py_slice offspring {H_BIN_S0} (py_len offspring) in
        let mid_idx := {H_BIN_MID} in
        match binary_recursion_g fuel' child0 (py_slice new_offspring 0 {H_BIN_E0}),
              binary_recursion_g fuel' child1 (py_slice new_offspring {H_BIN_E1} (py_len new_offspring)) with
        | Some t0, Some t1 => Some (BNode [Real node] [t0; t1])
        | _, _ => None
        end
      end
    end
  end.
Definition binary_g (basis_list : list A) : option (btree A) :=
  match py_get basis_list {H_BIN_ROOT} with
  | None => None
  | Some root => binary_recursion_g (S (length basis_list)) root (py_slice basis_list {H_BIN_REST} (py_len basis_list))
  end.

(* ---------------------------------------------------------------- general_mctdh *)
(* while W1: node(basis_list[:S1]); basis_list = basis_list[S2:]   then node(basis_list) *)
Fixpoint mctdh_chunks_g (fuel : nat) (tree_order : Z) (basis_list : list A) : option (list (list A)) :=
  match fuel with
  | O => None
  | S fuel' =>
    if {H_M_W1}
    then option_map (cons (py_slice basis_list 0 {H_M_S1}))
                    (mctdh_chunks_g fuel' tree_order (py_slice basis_list {H_M_S2} (py_len basis_list)))
    else Some [basis_list]
  end.
(* i = I0; while W2: if contract_label[L1]: node([basis_list[B1]]); i += INC1
                     else: for j in range(RLO, RHI): if BREAK: break;  node(basis_list[SLO:SHI]); i += INC2 *)
Fixpoint mctdh_labels_g (fuel : nat) (tree_order : Z) (basis_list : list A) (contract_label : list bool) (i : Z)
  : option (list (list A)) :=
  match fuel with
  | O => None
  | S fuel' =>
    if {H_M_W2} then
      if py_getb contract_label {H_M_L1} then
        match py_get basis_list {H_M_B1} with
        | None => None
        | Some b => option_map (cons [b]) (mctdh_labels_g fuel' tree_order basis_list contract_label (i + {H_M_INC1}))
        end
      else
        match py_for_break (py_range2 {H_M_RLO} {H_M_RHI}) (fun j => {H_M_BREAK}) with
        | None => None
        | Some j => option_map (cons (py_slice basis_list {H_M_SLO} {H_M_SHI}))
                               (mctdh_labels_g fuel' tree_order basis_list contract_label (i + {H_M_INC2}))
        end
    else Some []
  end.
(* node = dummy(dummy_i); dummy_i += DINC; if LEAFTEST: children = elementary_nodes_
   else children = [recursion(group) for group in approximate_partition(elementary_nodes_, PARTN)] *)
Fixpoint mctdh_recursion_g (fuel : nat) (tree_order : Z) (elementary_nodes_ : list (btree A)) (dummy_i : Z)
  : option (btree A * Z) :=
  match fuel with
  | O => None
  | S fuel' =>
    let d := dummy_i in
    let dummy_i := dummy_i + {H_M_DINC} in
    if {H_M_LEAFTEST} then Some (BNode [zdummy d] elementary_nodes_, dummy_i)
    else match opt_thread (mctdh_recursion_g fuel' tree_order) (approximate_partition elementary_nodes_ {H_M_PARTN}) dummy_i with
         | Some (ts, dummy_i') => Some (BNode [zdummy d] ts, dummy_i')
         | None => None
         end
  end.
Definition general_mctdh_g (basis_list : list A) (tree_order : Z) (mode : mctdh_mode) : option (btree A) :=
  let contract_label := match mode with ContractLabel lab => lab | _ => [] end in
  if negb {H_M_ASSERT} then None
  else
    let fuel := S (length basis_list) in
    let els :=
      match mode with
      | NoContract => mctdh_chunks_g fuel tree_order basis_list
      | ContractAll => Some (map (fun basis => [basis]) basis_list)
      | ContractLabel _ =>
          if negb {H_M_LASSERT} then None
          else mctdh_labels_g fuel tree_order basis_list contract_label {H_M_I0}
      end in
    match els with
    | None => None
    | Some gs => option_map fst (mctdh_recursion_g fuel tree_order (map mknode gs) {H_M_D0})
    end.

(* ---------------------------------------------------------------- t3ns *)
(* recursion(parent, basis_list_): the children it adds to parent, and the counter *)
Fixpoint t3ns_recursion_g (fuel : nat) (basis_list_ : list A) (dummy_i : Z) : option (list (btree A) * Z) :=
  match fuel with
  | O => None
  | S fuel' =>
    if {H_T_T0} then Some ([], dummy_i)
    else if {H_T_T1} then Some ([mknode basis_list_], dummy_i)
    else if {H_T_T2} then
      Some ([BNode (map Real (py_slice basis_list_ 0 {H_T_A}))
                   [mknode (py_slice basis_list_ {H_T_B} (py_len basis_list_))]], dummy_i)
    else
      let node1 := py_slice basis_list_ 0 {H_T_C} in
      let d := dummy_i in
      let dummy_i := dummy_i + {H_T_DINC} in
      match opt_thread_cat (t3ns_recursion_g fuel')
              (approximate_partition (py_slice basis_list_ {H_T_E} (py_len basis_list_)) {H_T_PN}) dummy_i with
      | Some (ts, dummy_i') => Some ([BNode (map Real node1) [BNode [zdummy d] ts]], dummy_i')
      | None => None
      end
  end.
Definition t3ns_g (basis_list : list A) : option (btree A) :=
  let dummy_i := {H_T_D0} in
  let d := dummy_i in
  let dummy_i := dummy_i + {H_T_RINC} in
  match opt_thread_cat (t3ns_recursion_g (S (length basis_list))) (approximate_partition basis_list {H_T_RPN}) dummy_i with
  | Some (ts, _) => Some (BNode [zdummy d] ts)
  | None => None
  end.

End Builders.
"""


def get_method(tree, name):
    for node in tree.body:
        if isinstance(node, ast.ClassDef) and node.name == "BasisTree":
            hits = [f for f in node.body if isinstance(f, ast.FunctionDef) and f.name == name]
            if len(hits) != 1:
                raise TranslateError("BasisTree.%s: %d definitions" % (name, len(hits)))
            if [ast.unparse(d) for d in hits[0].decorator_list] != ["classmethod"]:
                raise TranslateError("BasisTree.%s is not a plain classmethod" % name)
            return hits[0]
    raise TranslateError("class BasisTree not found")


def check_defaults(f, name):
    got = [ast.unparse(d) for d in f.args.defaults]
    want = {"linear": [], "binary": [], "general_mctdh": ["False", "None", "'MCTDH virtual'"], "t3ns": ["'T3NS virtual'"]}[name]
    if got != want or f.args.vararg or f.args.kwarg or f.args.kwonlyargs:
        raise TranslateError("BasisTree.%s: signature defaults %s" % (name, got))


def extract(src):
    tree = ast.parse(src)
    env = {}
    for name, ptxt in PATTERNS.items():
        f = normalise(get_method(tree, name))
        check_defaults(f, name)
        pat = normalise(ast.parse(ptxt).body[0])
        if [a.arg for a in f.args.args] != [a.arg for a in pat.args.args]:
            raise TranslateError("BasisTree.%s: parameters %s" % (name, [a.arg for a in f.args.args]))
        unify(pat.body, f.body, env, name)
    out = {}
    for h, (kind, names) in HOLES.items():
        if h not in env:
            raise TranslateError("hole %s not bound" % h)
        out[h] = (cond_expr if kind == "cond" else int_expr)(env[h], names)
    missing = set(env) - set(HOLES)
    if missing:
        raise TranslateError("unknown holes %s" % missing)
    return out, {h: ast.unparse(e) for h, e in env.items()}


def render(holes, srcs):
    body = TEMPLATE
    for h, g in holes.items():
        body = body.replace("{" + h + "}", "%s (* %s: %s *)" % (g, h, srcs[h].replace("*)", "* )")))
    if "{H_" in body:
        raise TranslateError("template hole left open")
    return PRELUDE + body


def main(repo="/repo"):
    src = open(repo + "/renormalizer/tn/treebase.py").read()
    holes, srcs = extract(src)
    return render(holes, srcs), srcs


if __name__ == "__main__":
    sys.stdout.write(main(sys.argv[1] if len(sys.argv) > 1 else "/repo")[0])
