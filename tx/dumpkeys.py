"""Translator: key sets of the state serialisers  ->  coq/Gen/DumpKeys.v   (fail-closed)

Sources (python `ast`, nothing is executed):
  renormalizer/mps/mp.py    MatrixProduct.dump, MatrixProduct.load
  renormalizer/mps/mps.py   Mps.dump (delegation with other_attrs), Mps.load (per version)
  renormalizer/mps/mpdm.py  MpDm must not override dump/load (it inherits Mps')
  renormalizer/mps/mpo.py   Mpo must not override dump/load (it inherits MatrixProduct's)
  renormalizer/tn/tree.py   TTNBase.dump, TTNBase.load, TTNS.dump, TTNS.load (delegation with other_attrs)

A key family is a constant key ("qnidx") or an indexed family (prefix "mt_", offset o) standing for
prefix_0 ... prefix_{n+o-1}, n = number of sites/nodes.  Inside a dump function EVERY occurrence of the
dictionary variable must be one of: creation (dict() / literal), `d[K] = v`, `x = d['const']`,
`np.savez(fname, **d)` with fname the function's parameter (so the write is in place: tx/dumpproto.py
relies on it); inside a load function every occurrence of the np.load result must be `npload[K]`.
K is a string literal, an f-string "<prefix>{loopvar}" inside `for v in range(<n or n+1>)` /
`for v, _ in enumerate(self | self.node_list)`, or the loop variable of `for a in [literals] + other_attrs`.
Anything else raises TranslateError.
"""
import ast
import os

TARGET = "Gen/DumpKeys.v"


class TranslateError(Exception):
    pass


def get_method(tree, cls, name, required=True):
    for node in tree.body:
        if isinstance(node, ast.ClassDef) and node.name == cls:
            for f in node.body:
                if isinstance(f, ast.FunctionDef) and f.name == name:
                    return f
            if required:
                raise TranslateError("%s.%s not found" % (cls, name))
            return None
    raise TranslateError("class %s not found" % cls)


def size_offset(n, nvars):
    """expression for the number of indices of a loop -> offset relative to the number of sites"""
    s = ast.unparse(n)
    for v in nvars:
        if s == v:
            return 0
        if s in (v + " + 1", "1 + " + v):
            return 1
    raise TranslateError("loop bound %s" % s)


class Walker:
    """collects key families used with the dictionary variable `dvar` in a function body"""

    def __init__(self, fn, mode):
        self.fn = fn
        self.mode = mode                      # "dump" | "load"
        self.dvar = None
        self.nvars = ["self.site_num", "len(self)"]   # expressions meaning "number of sites"
        self.param_attrs = None               # name of the other_attrs parameter if used
        self.version_written = None
        self.version_var = None
        self.version_assert = None            # versions accepted by an assert
        self.savez_inplace = False
        self.savez_swallow = False
        self.uses = 0                         # recognised occurrences of dvar
        self.common = []                      # (fam) outside version branches
        self.branches = []                    # (set of versions | None for else, [fam])
        self.listvars = {}                    # name -> (const list, uses_param)

    # ------------------------------------------------------------ helpers
    def key_of(self, sl, loops):
        if isinstance(sl, ast.Constant) and isinstance(sl.value, str):
            return [("const", sl.value)]
        if isinstance(sl, ast.JoinedStr):
            if len(sl.values) == 2 and isinstance(sl.values[0], ast.Constant) and isinstance(sl.values[1], ast.FormattedValue) \
                    and isinstance(sl.values[1].value, ast.Name) and sl.values[1].conversion == -1 and sl.values[1].format_spec is None:
                v = sl.values[1].value.id
                if v in loops and loops[v][0] == "idx":
                    return [("idx", sl.values[0].value, loops[v][1])]
            raise TranslateError("f-string key %s" % ast.unparse(sl))
        if isinstance(sl, ast.Name) and sl.id in loops and loops[sl.id][0] == "attrs":
            consts, par = loops[sl.id][1]
            out = [("const", c) for c in consts]
            if par:
                out.append(("param",))
            return out
        raise TranslateError("key expression %s" % ast.unparse(sl))

    def list_expr(self, n):
        """[literals] (+ other_attrs) (+ [literals])  ->  (consts, uses_param)"""
        if isinstance(n, ast.List) and all(isinstance(e, ast.Constant) and isinstance(e.value, str) for e in n.elts):
            return [e.value for e in n.elts], False
        if isinstance(n, ast.Name) and n.id == "other_attrs":
            return [], True
        if isinstance(n, ast.Name) and n.id in self.listvars:
            return self.listvars[n.id]
        if isinstance(n, ast.BinOp) and isinstance(n.op, ast.Add):
            a, pa = self.list_expr(n.left)
            b, pb = self.list_expr(n.right)
            return a + b, pa or pb
        raise TranslateError("list expression %s" % ast.unparse(n))

    def count_dvar(self, node):
        return sum(1 for x in ast.walk(node) if isinstance(x, ast.Name) and x.id == self.dvar) if self.dvar else 0

    def add(self, fams, sink):
        for f in fams:
            if f not in sink:
                sink.append(f)

    # ------------------------------------------------------------ walk
    def walk(self):
        self.block(self.fn.body, {}, self.common)
        total = self.count_dvar(self.fn)
        if self.dvar is None:
            raise TranslateError("%s: dictionary variable not found" % self.fn.name)
        if total != self.uses:
            raise TranslateError("%s: %d occurrence(s) of `%s` in unrecognised positions" % (self.fn.name, total - self.uses, self.dvar))
        return self

    def reads_in(self, expr, loops, sink):
        """record every  dvar[K]  (Load) inside an expression"""
        for x in ast.walk(expr):
            if isinstance(x, ast.Subscript) and isinstance(x.value, ast.Name) and x.value.id == self.dvar and isinstance(x.ctx, ast.Load):
                self.uses += 1
                if self.mode == "load":
                    self.add(self.key_of(x.slice, loops), sink)
                else:
                    self.key_of(x.slice, loops)     # must be well-formed, but a read inside dump is not a written key

    def block(self, stmts, loops, sink):
        for s in stmts:
            self.stmt(s, loops, sink)

    def stmt(self, s, loops, sink):
        d = self.dvar
        # creation of the dictionary / np.load
        if isinstance(s, ast.Assign) and len(s.targets) == 1 and isinstance(s.targets[0], ast.Name):
            tgt = s.targets[0].id
            v = s.value
            if self.mode == "dump" and d is None:
                if isinstance(v, ast.Call) and ast.unparse(v) == "dict()":
                    self.dvar = tgt
                    self.uses += 1
                    return
                if isinstance(v, ast.Dict):
                    self.dvar = tgt
                    self.uses += 1
                    for k, val in zip(v.keys, v.values):
                        if not (isinstance(k, ast.Constant) and isinstance(k.value, str)):
                            raise TranslateError("dict literal key")
                        self.add([("const", k.value)], sink)
                        if k.value == "version":
                            if not (isinstance(val, ast.Constant) and isinstance(val.value, str)):
                                raise TranslateError("version value")
                            self.version_written = val.value
                    return
            if self.mode == "load" and d is None and isinstance(v, ast.Call) and ast.unparse(v.func) == "np.load":
                if ast.unparse(v.args[0]) != "fname":
                    raise TranslateError("np.load argument")
                self.dvar = tgt
                self.uses += 1
                return
            if tgt == "other_attrs" or tgt in self.listvars:
                try:
                    self.listvars[tgt] = self.list_expr(v)
                    if tgt == "other_attrs":
                        raise TranslateError("rebinding other_attrs inside the base dump/load is not supported")
                    return
                except TranslateError:
                    if tgt == "other_attrs" and self.count_dvar(s) == 0:
                        # normalisation `other_attrs = []` / `[other_attrs]` of the parameter: keeps meaning "the parameter"
                        return
                    raise
            if self.mode == "load" and d and isinstance(v, ast.Subscript) and ast.unparse(v) == "%s['version']" % d:
                self.version_var = tgt
            if self.mode == "load" and ast.unparse(v) in ("int(%s['nsites'])" % d,):
                self.nvars.append(tgt)
        if isinstance(s, ast.Assign) and len(s.targets) == 1 and isinstance(s.targets[0], ast.Subscript) \
                and isinstance(s.targets[0].value, ast.Name) and s.targets[0].value.id == d and d is not None:
            if self.mode != "dump":
                raise TranslateError("store into the loaded file object")
            self.uses += 1
            keys = self.key_of(s.targets[0].slice, loops)
            self.add(keys, sink)
            if keys == [("const", "version")]:
                if not (isinstance(s.value, ast.Constant) and isinstance(s.value.value, str)):
                    raise TranslateError("version value")
                self.version_written = s.value.value
            self.reads_in(s.value, loops, sink)
            return
        if isinstance(s, ast.For):
            it = ast.unparse(s.iter)
            new = dict(loops)
            if isinstance(s.iter, ast.Call) and ast.unparse(s.iter.func) == "range" and len(s.iter.args) == 1 and isinstance(s.target, ast.Name):
                new[s.target.id] = ("idx", size_offset(s.iter.args[0], self.nvars))
            elif it in ("enumerate(self)", "enumerate(self.node_list)") and isinstance(s.target, ast.Tuple) and isinstance(s.target.elts[0], ast.Name):
                new[s.target.elts[0].id] = ("idx", 0)
            elif isinstance(s.target, ast.Name) and s.target.id in ("attr",):
                new[s.target.id] = ("attrs", self.list_expr(s.iter))
                if new[s.target.id][1][1]:
                    self.param_attrs = "other_attrs"
            elif self.count_dvar(s) == 0:
                return
            else:
                raise TranslateError("for loop over %s touches the dictionary" % it)
            if s.orelse:
                raise TranslateError("for-else")
            self.block(s.body, new, sink)
            return
        if isinstance(s, ast.If):
            vs = self.version_test(s.test)
            if vs is not None:
                cur = s
                seen_else = False
                while True:
                    vs = self.version_test(cur.test)
                    if vs is None:
                        raise TranslateError("mixed version test")
                    br = []
                    self.block(cur.body, loops, br)
                    self.branches.append((vs, br))
                    if len(cur.orelse) == 1 and isinstance(cur.orelse[0], ast.If):
                        cur = cur.orelse[0]
                        continue
                    if cur.orelse:
                        if not all(isinstance(x, ast.Raise) for x in cur.orelse):
                            raise TranslateError("else-branch of the version dispatch must raise")
                    break
                return
            if self.count_dvar(s) == 0:
                return
            raise TranslateError("if statement touching the dictionary: %s" % ast.unparse(s.test))
        if isinstance(s, ast.Assert) and d and self.count_dvar(s):
            t = s.test
            if isinstance(t, ast.Compare) and ast.unparse(t.left) == "%s['version']" % d and len(t.ops) == 1 \
                    and isinstance(t.ops[0], ast.Eq) and isinstance(t.comparators[0], ast.Constant):
                self.uses += 1
                self.add([("const", "version")], sink)
                self.version_assert = [t.comparators[0].value]
                return
            raise TranslateError("assert touching the dictionary")
        if isinstance(s, ast.Try) and self.mode == "dump":
            # try: np.savez(fname, **d)  except Exception: log
            if len(s.body) == 1 and self.is_savez(s.body[0]):
                self.uses += 1
                self.savez_inplace = True
                self.savez_swallow = all(not any(isinstance(x, ast.Raise) for x in ast.walk(h)) for h in s.handlers)
                return
            if self.count_dvar(s) == 0:
                return
            raise TranslateError("try block touching the dictionary")
        if self.mode == "dump" and self.is_savez(s):
            self.uses += 1
            self.savez_inplace = True
            return
        # any other statement: reads are recorded, other occurrences stay unrecognised (-> error in walk())
        if d:
            self.reads_in(s, loops, sink)

    def is_savez(self, s):
        if isinstance(s, ast.Expr) and isinstance(s.value, ast.Call) and ast.unparse(s.value.func) == "np.savez":
            c = s.value
            if len(c.args) == 1 and ast.unparse(c.args[0]) == "fname" and len(c.keywords) == 1 and c.keywords[0].arg is None \
                    and ast.unparse(c.keywords[0].value) == self.dvar:
                return True
            raise TranslateError("np.savez arguments: %s" % ast.unparse(c))
        return False

    def version_test(self, t):
        if self.version_var and isinstance(t, ast.Compare) and isinstance(t.left, ast.Name) and t.left.id == self.version_var and len(t.ops) == 1:
            c = t.comparators[0]
            if isinstance(t.ops[0], ast.Eq) and isinstance(c, ast.Constant):
                return [c.value]
            if isinstance(t.ops[0], ast.In) and isinstance(c, (ast.List, ast.Tuple)) and all(isinstance(e, ast.Constant) for e in c.elts):
                return [e.value for e in c.elts]
            raise TranslateError("version test %s" % ast.unparse(t))
        return None


def delegation(fn, kind):
    """Mps.dump / TTNS.dump / TTNS.load: a super() call that adds attributes. Returns the list of added constants."""
    added = []
    call = None
    lv = {}
    for s in fn.body:
        if isinstance(s, ast.Expr) and isinstance(s.value, ast.Constant):
            continue
        if isinstance(s, ast.If) and ast.unparse(s.test) == "other_attrs is None" and len(s.body) == 1 \
                and ast.unparse(s.body[0]) == "other_attrs = []" and not s.orelse:
            continue
        if isinstance(s, ast.Assign) and ast.unparse(s.targets[0]) == "other_attrs" and isinstance(s.value, ast.BinOp) \
                and isinstance(s.value.op, ast.Add) and ast.unparse(s.value.left) == "other_attrs" and isinstance(s.value.right, ast.List):
            for e in s.value.right.elts:
                if not (isinstance(e, ast.Constant) and isinstance(e.value, str)):
                    raise TranslateError("delegation list")
                added.append(e.value)
            continue
        v = s.value if isinstance(s, (ast.Expr, ast.Return)) else None
        if isinstance(v, ast.Call) and ast.unparse(v.func) == "super().%s" % kind and call is None:
            call = v
            continue
        raise TranslateError("%s: unexpected statement in delegating %s: %s" % (fn.name, kind, ast.unparse(s)[:60]))
    if call is None:
        raise TranslateError("no super().%s call" % kind)
    args = [ast.unparse(a) for a in call.args]
    kws = {k.arg: k.value for k in call.keywords}
    want = ["fname"] if kind == "dump" else ["basis", "fname"]
    if args[:len(want)] != want:
        raise TranslateError("super().%s arguments %s" % (kind, args))
    rest = args[len(want):]
    if rest == ["other_attrs"] and not kws:
        return added, True          # parameter passed through (plus `added`)
    if not rest and list(kws) == ["other_attrs"] and isinstance(kws["other_attrs"], ast.List):
        return [e.value for e in kws["other_attrs"].elts], False
    raise TranslateError("super().%s other_attrs: %s" % (kind, ast.unparse(call)))


def subst(fams, attrs):
    out = []
    for f in fams:
        if f == ("param",):
            for a in attrs:
                if ("const", a) not in out:
                    out.append(("const", a))
        elif f not in out:
            out.append(f)
    return out


def no_override(tree, cls, names):
    for n in names:
        if get_method(tree, cls, n, required=False) is not None:
            raise TranslateError("%s now overrides %s" % (cls, n))


def coq_fam(f):
    if f[0] == "const":
        return 'FConst "%s"' % f[1]
    return 'FIdx "%s" %d' % (f[1], f[2])


# ---------------------------------------------------------------------------------------------------
# FIELD MAPS (strict): which attribute goes under which key (dentry of Model/DumpProto.v) and which key
# is read into which attribute through which conversion (lentry).  Every statement of the five
# functions must match one of the patterns below (on ast.unparse text); anything else -> TranslateError.
import re

CONV_SUFFIX = {"": "CNone", ".astype(int)": "CAstypeInt", ".item(0)": "CItem0",
               ".astype(int).tolist()": "CAstypeIntTolist", "[-1]": "CLast"}
LABEL_ATTR = "qn"


def read_expr(text, d="npload"):
    """expression reading one constant key of the loaded file -> (key, conv)"""
    m = re.fullmatch(r"int\(%s\['(\w+)'\]\)" % d, text)
    if m:
        return m.group(1), "CInt"
    m = re.fullmatch(r"bool\(%s\['(\w+)'\]\)" % d, text)
    if m:
        return m.group(1), "CBool"
    m = re.fullmatch(r"%s\['(\w+)'\](.*)" % d, text)
    if m and m.group(2) in CONV_SUFFIX:
        return m.group(1), CONV_SUFFIX[m.group(2)]
    raise TranslateError("read expression %s" % text)


def fm_chain_dump(fn, extra_attrs):
    out = []
    stmts = [ast.unparse(x) for x in fn.body]
    idiom = 0
    for t in stmts:
        if t in ("if other_attrs is None:\n    other_attrs = []\nelif isinstance(other_attrs, str):\n    other_attrs = [other_attrs]",
                 "assert isinstance(other_attrs, list)", "data_dict = dict()"):
            continue
        m = re.fullmatch(r"data_dict\['(\w+)'\] = '([^']*)'", t)
        if m:
            out.append(("DConstStr", m.group(1), m.group(2)))
            continue
        m = re.fullmatch(r"data_dict\['(\w+)'\] = self\.site_num", t)
        if m:
            out.append(("DNSites", m.group(1)))
            continue
        m = re.fullmatch(r"for idx, mt in enumerate\(self\):\n    data_dict\[f'(\w+)\{idx\}'\] = mt\.array", t)
        if m:
            out.append(("DTensorFam", m.group(1)))
            continue
        m = re.fullmatch(r"for attr in (\[[^\]]*\]) \+ other_attrs:\n    data_dict\[attr\] = getattr\(self, attr\)", t)
        if m:
            attrs = ast.literal_eval(m.group(1)) + list(extra_attrs)
            for a in attrs:
                if not isinstance(a, str):
                    raise TranslateError("attribute list")
                out.append(("DLabelList", a) if a == LABEL_ATTR else ("DScalar", a, a))
            continue
        if t == "qn = data_dict['%s']" % LABEL_ATTR and idiom == 0:
            idiom = 1
            continue
        if t == "arr = np.empty(len(qn), object)" and idiom == 1:
            idiom = 2
            continue
        if t == "arr[:] = qn" and idiom == 2:
            idiom = 3
            continue
        if t == "data_dict['%s'] = arr" % LABEL_ATTR and idiom == 3:
            idiom = 4
            out.append(("DLabelList", LABEL_ATTR))
            continue
        m = re.fullmatch(r"for i in range\(self\.site_num \+ 1\):\n    data_dict\[f'(\w+)\{i\}'\] = qn\[i\]", t)
        if m and idiom >= 1:
            out.append(("DLabelFam", m.group(1), 1))
            continue
        if re.fullmatch(r"try:\n    np\.savez\(fname, \*\*data_dict\)\nexcept Exception:\n    logger\.exception\(.*\)", t):
            continue
        raise TranslateError("MatrixProduct.dump: unrecognised statement: %s" % t[:90])
    if idiom not in (0, 4):
        raise TranslateError("MatrixProduct.dump: incomplete object-array re-wrap of qn")
    return out


def fm_scalar_stmt(t, obj="mp"):
    m = re.fullmatch(r"%s\.(\w+) = (.+)" % obj, t)
    if not m:
        return None
    k, c = read_expr(m.group(2))
    if m.group(1) == LABEL_ATTR:
        return ("LLabelList", k, c)
    return ("LScalar", m.group(1), k, c)


def fm_chain_load(fn, written_version):
    out = []
    version_var = None
    for node in fn.body:
        t = ast.unparse(node)
        if t in ("npload = np.load(fname, allow_pickle=True)", "mp = cls()", "mp.model = model", "return mp", "mp.%s = []" % LABEL_ATTR):
            continue
        m = re.fullmatch(r"nsites = (.+)", t)
        if m:
            k, c = read_expr(m.group(1))
            out.append(("LNSites", k, c))
            continue
        m = re.fullmatch(r"for i in range\(nsites\):\n    mt = npload\[f'(\w+)\{i\}'\]\n    if np\.iscomplexobj\(mt\):\n        mp\.dtype = backend\.complex_dtype\n"
                         r"    else:\n        mp\.dtype = backend\.real_dtype\n    mp\.append\(mt\)", t)
        if m:
            out.append(("LTensorFam", m.group(1)))
            continue
        m = re.fullmatch(r"for i in range\(nsites \+ 1\):\n    subqn = npload\[f'(\w+)\{i\}'\](.*)\n    mp\.%s\.append\(subqn\)" % LABEL_ATTR, t)
        if m and m.group(2) in CONV_SUFFIX:
            out.append(("LLabelFam", m.group(1), 1, CONV_SUFFIX[m.group(2)]))
            continue
        m = re.fullmatch(r"(\w+) = npload\['version'\]", t)
        if m:
            version_var = m.group(1)
            continue
        if isinstance(node, ast.If) and version_var and ast.unparse(node.test).startswith(version_var + " "):
            cur = node
            taken = None
            while True:
                tt = ast.unparse(cur.test)
                m1 = re.fullmatch(r"%s == '([^']*)'" % version_var, tt)
                m2 = re.fullmatch(r"%s in (\[[^\]]*\])" % version_var, tt)
                if m1:
                    vs = [m1.group(1)]
                elif m2:
                    vs = list(ast.literal_eval(m2.group(1)))
                else:
                    raise TranslateError("version test %s" % tt)
                if written_version in vs and taken is None:
                    taken = (vs, cur.body)
                if len(cur.orelse) == 1 and isinstance(cur.orelse[0], ast.If):
                    cur = cur.orelse[0]
                    continue
                if cur.orelse and not all(isinstance(x, ast.Raise) for x in cur.orelse):
                    raise TranslateError("else-branch of the version dispatch must raise")
                break
            if taken is None:
                return None
            out.append(("LVersionIn", "version", taken[0]))
            for b in taken[1]:
                bt = ast.unparse(b)
                if bt.startswith("logger."):
                    continue
                e = fm_scalar_stmt(bt)
                if e is None:
                    raise TranslateError("Mps.load version branch: %s" % bt[:80])
                out.append(e)
            continue
        e = fm_scalar_stmt(t)
        if e is not None:
            out.append(e)
            continue
        raise TranslateError("%s: unrecognised statement: %s" % (fn.name, t[:90]))
    return out


def fm_tree_dump(fn, extra_attrs):
    out = []
    for node in fn.body:
        t = ast.unparse(node)
        if t == "if other_attrs is None:\n    other_attrs = []":
            continue
        m = re.fullmatch(r"data_dict = \{'version': '([^']*)', 'nsites': len\(self\)\}", t)
        if m:
            out += [("DConstStr", "version", m.group(1)), ("DNSites", "nsites")]
            continue
        if t == "for attr in other_attrs:\n    data_dict[attr] = getattr(self, attr)":
            out += [("DScalar", a, a) for a in extra_attrs]
            continue
        m = re.fullmatch(r"for i, node in enumerate\(self\.node_list\):\n    data_dict\[f'(\w+)\{i\}'\] = node\.tensor\n    data_dict\[f'(\w+)\{i\}'\] = node\.qn", t)
        if m:
            out += [("DTensorFam", m.group(1)), ("DLabelFam", m.group(2), 0)]
            continue
        if re.fullmatch(r"try:\n    np\.savez\(fname, \*\*data_dict\)\nexcept Exception:\n    logger\.exception\(.*\)", t):
            continue
        raise TranslateError("TTNBase.dump: unrecognised statement: %s" % t[:90])
    return out


def fm_tree_load(fn, extra_attrs):
    out = []
    for node in fn.body:
        t = ast.unparse(node)
        if t in ("npload = np.load(fname, allow_pickle=True)", "nodes = []", "copy_connection(basis.node_list, nodes)",
                 "instance = cls(basis, root=nodes[0])", "return instance"):
            continue
        m = re.fullmatch(r"assert npload\['version'\] == '([^']*)'", t)
        if m:
            out.append(("LVersionIn", "version", [m.group(1)]))
            continue
        m = re.fullmatch(r"nsites = (.+)", t)
        if m:
            k, c = read_expr(m.group(1))
            out.append(("LNSites", k, c))
            continue
        m = re.fullmatch(r"for i in range\(nsites\):\n    tensor = npload\[f'(\w+)\{i\}'\]\n    qn = npload\[f'(\w+)\{i\}'\]\n    nodes\.append\(TreeNodeTensor\(tensor, qn\)\)", t)
        if m:
            out += [("LTensorFam", m.group(1)), ("LLabelFam", m.group(2), 0, "CNone")]
            continue
        if t == "for attr in other_attrs:\n    setattr(instance, attr, npload[attr])":
            out += [("LScalar", a, a, "CNone") for a in extra_attrs]
            continue
        raise TranslateError("TTNBase.load: unrecognised statement: %s" % t[:90])
    return out


def coq_str(x):
    return '"%s"' % x


def coq_entry(e):
    tag = e[0]
    if tag in ("DConstStr", "DScalar"):
        return "%s %s %s" % (tag, coq_str(e[1]), coq_str(e[2]))
    if tag in ("DNSites", "DLabelList", "DTensorFam", "LTensorFam"):
        return "%s %s" % (tag, coq_str(e[1]))
    if tag == "DLabelFam":
        return "DLabelFam %s %d" % (coq_str(e[1]), e[2])
    if tag == "LVersionIn":
        return "LVersionIn %s [%s]" % (coq_str(e[1]), "; ".join(coq_str(v) for v in e[2]))
    if tag in ("LNSites", "LLabelList"):
        return "%s %s %s" % (tag, coq_str(e[1]), e[2])
    if tag == "LLabelFam":
        return "LLabelFam %s %d %s" % (coq_str(e[1]), e[2], e[3])
    if tag == "LScalar":
        return "LScalar %s %s %s" % (coq_str(e[1]), coq_str(e[2]), e[3])
    raise TranslateError("render %r" % (e,))


def main(repo):
    rd = lambda *p: ast.parse(open(os.path.join(repo, "renormalizer", *p)).read())
    mp_t, mps_t, mpdm_t, mpo_t, tree_t = rd("mps", "mp.py"), rd("mps", "mps.py"), rd("mps", "mpdm.py"), rd("mps", "mpo.py"), rd("tn", "tree.py")

    w_mp = Walker(get_method(mp_t, "MatrixProduct", "dump"), "dump").walk()
    r_mp = Walker(get_method(mp_t, "MatrixProduct", "load"), "load").walk()
    r_mps = Walker(get_method(mps_t, "Mps", "load"), "load").walk()
    mps_attrs, passthrough = delegation(get_method(mps_t, "Mps", "dump"), "dump")
    if passthrough:
        raise TranslateError("Mps.dump passes a parameter through")
    no_override(mpdm_t, "MpDm", ["dump", "load"])
    no_override(mpo_t, "Mpo", ["dump", "load"])
    w_tn = Walker(get_method(tree_t, "TTNBase", "dump"), "dump")
    w_tn.nvars = ["len(self)"]
    w_tn.walk()
    r_tn = Walker(get_method(tree_t, "TTNBase", "load"), "load").walk()
    ttns_dump_attrs, pt1 = delegation(get_method(tree_t, "TTNS", "dump"), "dump")
    ttns_load_attrs, pt2 = delegation(get_method(tree_t, "TTNS", "load"), "load")
    if not (pt1 and pt2):
        raise TranslateError("TTNS.dump/load no longer pass other_attrs through")
    for w in (w_mp, w_tn):
        if not w.savez_inplace:
            raise TranslateError("%s: np.savez(fname, **dict) not found" % w.fn.name)
        if w.version_written is None:
            raise TranslateError("%s: version literal not found" % w.fn.name)
    if r_mp.branches or r_tn.branches:
        raise TranslateError("unexpected version dispatch")

    def reads_for(r, version, attrs):
        fams = list(r.common)
        hit = False
        for vs, br in r.branches:
            if version in vs:
                hit = True
                for f in br:
                    if f not in fams:
                        fams.append(f)
        if r.branches and not hit:
            return None
        if r.version_assert is not None and version not in r.version_assert:
            return None
        return subst(fams, attrs)

    pairs = []   # (label, version written, written fams, read fams, accepted)
    # chain operator: MatrixProduct.dump(fname) -> MatrixProduct.load
    rf = reads_for(r_mp, w_mp.version_written, [])
    pairs.append(("Mpo", w_mp.version_written, subst(w_mp.common, []), rf))
    # chain state / density operator: Mps.dump -> Mps.load
    rf = reads_for(r_mps, w_mp.version_written, [])
    pairs.append(("Mps", w_mp.version_written, subst(w_mp.common, mps_attrs), rf))
    pairs.append(("MpDm", w_mp.version_written, subst(w_mp.common, mps_attrs), rf))
    # tree state
    rf = reads_for(r_tn, w_tn.version_written, ttns_load_attrs)
    pairs.append(("TTNS", w_tn.version_written, subst(w_tn.common, ttns_dump_attrs), rf))

    legacy = []
    allv = []
    for vs, _ in r_mps.branches:
        for v in vs:
            if v not in allv:
                allv.append(v)
    for v in allv:
        if v != w_mp.version_written:
            legacy.append((v, reads_for(r_mps, v, [])))

    lines = ["(* GENERATED by tx/dumpkeys.py from mps/mp.py, mps/mps.py, mps/mpdm.py, mps/mpo.py, tn/tree.py -- do not edit. *)",
             "From Coq Require Import List String.",
             "Import ListNotations.",
             "From RV Require Import Model.DumpProto.",
             "Open Scope string_scope.",
             ""]
    for label, ver, wf, rf in pairs:
        lines.append('Definition written_%s : list fam := [%s].' % (label.lower(), "; ".join(coq_fam(f) for f in wf)))
        if rf is None:
            lines.append('(* the loader rejects the version written by the dumper *)')
            lines.append('Definition read_%s : option (list fam) := None.' % label.lower())
        else:
            lines.append('Definition read_%s : option (list fam) := Some [%s].' % (label.lower(), "; ".join(coq_fam(f) for f in rf)))
        lines.append("")
    lines.append("(* (object kind, format version the library writes, keys written, keys read by the loader for that version) *)")
    lines.append("Definition kinds : list (string * string * list fam * option (list fam)) :=\n  [%s]." %
                 ";\n   ".join('("%s", "%s", written_%s, read_%s)' % (l, v, l.lower(), l.lower()) for l, v, _, _ in pairs))
    lines.append("")
    lines.append("(* keys Mps.load reads for format versions that only older releases wrote (informative; no writer in the source) *)")
    lines.append("Definition legacy_reads_mps : list (string * list fam) :=\n  [%s]." %
                 ";\n   ".join('("%s", [%s])' % (v, "; ".join(coq_fam(f) for f in rf)) for v, rf in legacy))
    lines.append("")
    # ---- field maps
    d_mp = get_method(mp_t, "MatrixProduct", "dump")
    fm = {
        "mps": (fm_chain_dump(d_mp, mps_attrs), fm_chain_load(get_method(mps_t, "Mps", "load"), w_mp.version_written), 1),
        "mpo": (fm_chain_dump(d_mp, []), fm_chain_load(get_method(mp_t, "MatrixProduct", "load"), w_mp.version_written), 1),
        "ttns": (fm_tree_dump(get_method(tree_t, "TTNBase", "dump"), ttns_dump_attrs),
                 fm_tree_load(get_method(tree_t, "TTNBase", "load"), ttns_load_attrs), 0),
    }
    lines.append("(* FIELD MAPS: dentry = what the dumper stores under a key, lentry = what the loader reads into which attribute (see Model/DumpProto.v) *)")
    for nm, (dmap, lmap, loff) in fm.items():
        lines.append("Definition dmap_%s : list dentry :=\n  [%s]." % (nm, ";\n   ".join(coq_entry(e) for e in dmap)))
        lines.append("Definition lmap_%s : list lentry :=\n  [%s]." % (nm, ";\n   ".join(coq_entry(e) for e in (lmap or []))))
        lines.append("")
    lines.append("(* object kinds of the property: (kind, dump map, load map, number of label arrays minus number of tensors) *)")
    lines.append("Definition field_kinds : list (string * list dentry * list lentry * nat) :=\n"
                 "  [(\"Mps\", dmap_mps, lmap_mps, 1); (\"MpDm\", dmap_mps, lmap_mps, 1); (\"TTNS\", dmap_ttns, lmap_ttns, 0)].")
    lines.append("")
    lines.append("(* does the dumper swallow every exception of np.savez (try/except Exception without re-raise)? *)")
    lines.append("Definition dump_swallows_savez_errors : list (string * bool) := [(\"MatrixProduct.dump\", %s); (\"TTNBase.dump\", %s)]." %
                 (str(w_mp.savez_swallow).lower(), str(w_tn.savez_swallow).lower()))
    text = "\n".join(lines) + "\n"
    info = {"pairs": [{"kind": l, "version": v, "written": wf, "read": rf} for l, v, wf, rf in pairs],
            "legacy": [{"version": v, "read": rf} for v, rf in legacy],
            "swallow": {"MatrixProduct.dump": w_mp.savez_swallow, "TTNBase.dump": w_tn.savez_swallow},
            "fieldmaps": {k: {"dump": v[0], "load": v[1], "loff": v[2]} for k, v in fm.items()}}
    return text, info


if __name__ == "__main__":
    import sys
    print(main(sys.argv[1] if len(sys.argv) > 1 else "/repo")[0])
