"""Translator: public state-producing / measuring / in-place operations of chains and trees -> coq/Gen/OpEntries.v

Second wave of C13: the effect signatures of the NON-evolution operations are derived from the source instead of
being declared by hand.  For every listed method (and variant `inplace=True/False`) and every object parameter it
emits one row:
  * may the returned object be the parameter itself,
  * SHARE: fields (FSite / FLabel / FQntot) in which an object built by the method receives a buffer of the
    parameter (a value reached from the parameter through view-preserving expressions only: attribute access,
    indexing, `.conj()`, `.reshape`, `np.asarray`, `moveaxis`, ... -- not `.copy()`, `np.array`, arithmetic),
  * WRITES to the parameter with kind and FIELDS: attribute stores, augmented assignments, `x[idx] = ...` on the
    parameter's containers, in-place ufuncs (`root.tensor *= val`), and calls of methods of the same class family
    on the parameter, whose own write sets are computed from their bodies (call-graph fix point, union over the
    definitions of a name in the family).  A call of `ensure_left/right_canonical` / `canonicalise` is of kind
    gauge (fields from the source); the pair `p.scale(p.coeff, inplace=True)` + `p.coeff = 1` is of kind fold;
    every other write is a value store / destructive; anything not understood is an escape.
Built on the flow-sensitive scanner of tx/evolveentry.py (same fail-closed statement subset).
Trusted: the purity of constructors (capitalised callees), the view / copy classification lists below, property
getters are not followed (`mp_norm`, `ttns_norm`, `bond_dims`, ...).
"""
import ast
import os
import sys

sys.path.insert(0, os.path.dirname(os.path.abspath(__file__)))
import evolveentry as ee
from evolveentry import fs, EMPTY, flat, is_obj, has_list, TranslateError

TARGET = "Gen/OpEntries.v"

FIELD_OF_ATTR = {"_mp": "FSite", "tensor": "FSite", "_tensor": "FSite", "array": "FSite",
                 "qn": "FLabel", "_qn": "FLabel", "qntot": "FQntot", "coeff": "FCoeff",
                 "qnidx": "FMeta", "to_right": "FMeta", "dtype": "FMeta"}
BUFFER_FIELDS = ("FSite", "FLabel", "FQntot", "FCoeff")     # coeff: a 0-d ndarray after TTNBase.load
CONFIG = set(ee.CONFIG_ATTRS) | {"parent", "children", "scheme", "offset", "symbolic_out_ops_list", "primary_ops",
                                 "mpos", "tn2bn", "tn2dofs", "node_idx"}
# methods of arrays / Matrix that return a view of (or the very) buffer
VIEW_METHODS = {"conj", "conjugate", "reshape", "ravel", "transpose", "l_combine", "r_combine", "astype", "view",
                "squeeze", "swapaxes", "real"}
COPY_METHODS = {"copy", "to_complex", "flatten", "tolist", "tobytes", "any", "all", "sum", "min", "max", "norm",
                "abs", "item", "var", "check_lortho", "check_rortho", "nearly_zero", "dot", "check_canonical"}
VIEW_FUNCS = {"asarray", "ascontiguousarray", "moveaxis", "transpose", "reshape", "conj", "conjugate", "real",
              "squeeze", "swapaxes", "asnumpy", "asxp", "Matrix", "atleast_2d", "atleast_1d"}
PART_RETURNING = {"postorder_list": "site", "get_children": "site"}     # tree methods returning nodes of self
NODE_PARAM_NAMES = {"node", "snode", "child"}
WK = {"value_store": "WValue", "config_store": "WConfig", "config_share": "WConfig", "gauge": "WGauge", "fold": "WFold",
      "scale_identity": "WScaleIdentity", "destructive": "WDestructive", "helper_inplace": "WHelperInplace",
      "escape": "WEscape"}
BENIGN = {"config_store", "config_share", "gauge", "fold"}


def part_tags(t):
    """tags under which a value may be (a view of) a buffer of the tracked parameter"""
    out = set()
    for x in flat(t):
        if x == "site":
            out.add(x)
        elif x.startswith("sub:"):
            a = x[4:]
            if a not in CONFIG and FIELD_OF_ATTR.get(a) not in ("FMeta",):
                out.add(x)
    return frozenset(out)


def related(t):
    t = flat(t)
    return is_obj(t) or "site" in t or any(x.startswith("sub:") for x in t)


class Family:
    """the classes / module functions of one world"""

    def __init__(self, repo, world, class_files, func_files, copy_setters):
        self.world = world
        self.methods = {}          # name -> [(label, FunctionDef, is_tree_class)]
        self.funcs = {}            # name -> [(label, FunctionDef)]
        self.copy_setters = copy_setters
        self.cache = {}
        self.in_progress = set()
        self.changed = False
        for rel, classes in class_files:
            tree = ast.parse(open(os.path.join(repo, "renormalizer", rel)).read())
            for n in tree.body:
                if isinstance(n, ast.ClassDef) and n.name in classes:
                    for f in n.body:
                        if isinstance(f, ast.FunctionDef):
                            deco = [ast.unparse(d) for d in f.decorator_list]
                            if any(d.endswith(".setter") or d == "property" for d in deco):
                                continue
                            self.methods.setdefault(f.name, []).append((n.name + "." + f.name, f, rel))
        for rel, names in func_files:
            tree = ast.parse(open(os.path.join(repo, "renormalizer", rel)).read())
            for n in tree.body:
                if isinstance(n, ast.FunctionDef) and (names is None or n.name in names):
                    self.funcs.setdefault(n.name, []).append((n.name, n, rel))

    def find(self, qual):
        if "@" in qual:
            name = qual.split("@")[1]
            for label, f, rel in self.funcs.get(name, []):
                return f, rel
            raise TranslateError("function %s not found" % qual)
        cls, name = qual.split(".")
        for label, f, rel in self.methods.get(name, []):
            if label == qual:
                return f, rel
        raise TranslateError("method %s not found" % qual)

    # ------------------------------------------------------------------ summaries (union over the definitions)
    def summary(self, kind, name, idx, consts):
        key = (kind, name, idx, tuple(sorted(consts.items())))
        if key in self.in_progress:
            return self.cache.get(key, empty_summary())
        defs = self.methods.get(name, []) if kind == "m" else self.funcs.get(name, [])
        self.in_progress.add(key)
        out = empty_summary()
        for label, f, rel in defs:
            try:
                r = scan_def(self, label, f, idx, consts, kind == "m")
            except TranslateError as e:
                r = empty_summary()
                r["writes"].append({"kind": "escape", "what": "cannot analyse %s: %s" % (label, str(e)[:80]), "line": f.lineno, "fields": []})
            if r is None:
                continue
            merge_summary(out, r)
        self.in_progress.discard(key)
        old = self.cache.get(key)
        if old is None or summary_key(old) != summary_key(out):
            self.changed = True
        self.cache[key] = out
        return out


def empty_summary():
    return {"writes": [], "ret_in": False, "ret_fresh": False, "shares": set()}


def merge_summary(a, b):
    for w in b["writes"]:
        if w not in a["writes"]:
            a["writes"].append(w)
    a["ret_in"] = a["ret_in"] or b["ret_in"]
    a["ret_fresh"] = a["ret_fresh"] or b["ret_fresh"]
    a["shares"] |= set(b["shares"])


def summary_key(s):
    return (sorted((w["kind"], tuple(w["fields"]), tuple(w.get("inplace", ())), w["what"], w["line"]) for w in s["writes"]), s["ret_in"], s["ret_fresh"], sorted(s["shares"]))


class OpScan(ee.Scan):
    def __init__(self, family, label, consts):
        super().__init__(label, "Public")
        self.family = family
        self.consts = dict(consts)
        self.shares = set()
        self.fold_scale = {}       # parameter-alias name -> write record
        self.fold_reset = {}

    # ------------------------------------------------------------------ recording with fields
    def write(self, kind, what, node, fields=(), inplace=None):
        w = {"kind": kind, "what": what, "line": getattr(node, "lineno", 0), "fields": sorted(set(fields))}
        ip = set(inplace or ())
        if getattr(self, "_augassign", False) and kind == "value_store":
            ip |= set(fields)           # `x.f op= e`: the existing container is updated in place, not rebound
        w["inplace"] = sorted(ip)
        if w not in self.writes:
            self.writes.append(w)
        return w

    def fields_of_store(self, base_tags, attr):
        """fields (or 'config' / None=unknown) written by `B.attr = ...` (attr given) or `B[i] = ...` (attr None)"""
        bt = flat(base_tags)
        if attr is not None:
            if attr in FIELD_OF_ATTR:
                return {FIELD_OF_ATTR[attr]}
            if attr in CONFIG:
                return "config"
            subs = [x[4:] for x in bt if x.startswith("sub:")]
            if subs and all(a in CONFIG for a in subs):
                return "config"
            return None
        out = set()
        for x in bt:
            if x == "in" or x.startswith("in0:") or x == "site":
                out.add("FSite")
            elif x.startswith("sub:"):
                a = x[4:]
                if a in CONFIG:
                    return "config"
                if a in FIELD_OF_ATTR:
                    out.add(FIELD_OF_ATTR[a])
                else:
                    return None
        return out or None

    def store_through(self, base_tags, attr, node, what):
        if not related(base_tags):
            return
        f = self.fields_of_store(base_tags, attr)
        if f == "config":
            self.write("config_store", what, node)
        elif f is None:
            self.write("escape", "store to an unknown part of the input: " + what, node)
        else:
            self.write("value_store", what, node, f)

    def share(self, field, node, what):
        if field in BUFFER_FIELDS:
            self.shares.add(field)

    # ------------------------------------------------------------------ statements
    def const_test(self, test):
        if isinstance(test, ast.Name) and test.id in self.consts:
            return self.consts[test.id]
        if isinstance(test, ast.UnaryOp) and isinstance(test.op, ast.Not) and isinstance(test.operand, ast.Name) \
                and test.operand.id in self.consts:
            return not self.consts[test.operand.id]
        return None

    def stmt(self, s, env, rlist):
        if isinstance(s, ast.Return) and flat(env.get("$attached", EMPTY)):
            # TTNS.expectation attaches self.root / ttno.root to temporary dummy nodes: every return must come after the reset
            self.write("value_store", "return while the root of the input is still attached to a temporary node (" +
                       ", ".join(sorted(flat(env["$attached"]))) + ")", s, {"FMeta"})
        if isinstance(s, ast.For) and isinstance(s.iter, (ast.List, ast.Tuple)) and s.iter.elts and not s.orelse \
                and not any(isinstance(x, (ast.Break, ast.Continue)) for x in ast.walk(s)):
            for e in s.iter.elts:           # a loop over a literal runs once per element: unrolled (no zero-trip path)
                self._bind_simple(s.target, flat(self.ev(e, env)), env)
                if self.block(s.body, env, rlist) == "stop":
                    return "stop"
            return "fall"
        if isinstance(s, ast.AugAssign) and not isinstance(s.target, ast.Name):
            self._augassign = True
            try:
                return super().stmt(s, env, rlist)
            finally:
                self._augassign = False
        if isinstance(s, ast.If):
            c = self.const_test(s.test)
            if c is not None:
                return self.block(s.body if c else s.orelse, env, rlist)
        if isinstance(s, ast.Assign) and len(s.targets) == 1 and isinstance(s.targets[0], ast.Attribute) \
                and s.targets[0].attr == "coeff" and isinstance(s.targets[0].value, ast.Name) \
                and isinstance(s.value, ast.Constant) and s.value.value == 1 \
                and is_obj(flat(env.get(s.targets[0].value.id, EMPTY))):
            w = self.write("fold_reset", ast.unparse(s), s, {"FCoeff"})
            self.fold_reset[s.targets[0].value.id] = w
            return "fall"
        return super().stmt(s, env, rlist)

    def ev_IfExp(self, n, env):
        c = self.const_test(n.test)
        if c is not None:
            return flat(self.ev(n.body if c else n.orelse, env))
        return super().ev_IfExp(n, env)

    def bind(self, target, val, env, node):
        if isinstance(target, ast.Attribute):
            b = flat(self.ev(target.value, env))
            if target.attr == "parent" and "sub:root" in b and isinstance(getattr(node, "value", None), ast.Constant) \
                    and node.value.value is None:
                env["$attached"] = EMPTY
            v = flat(val) if not isinstance(val, tuple) else flat(val)
            what = ast.unparse(target) + " = ..."
            if related(b):
                self.store_through(b, target.attr, node, what)
            else:
                pv = part_tags(v)
                if pv or is_obj(v):
                    f = FIELD_OF_ATTR.get(target.attr)
                    if target.attr in CONFIG:
                        self.write("config_share", ast.unparse(node)[:70], node)
                    elif is_obj(v):
                        self.write("escape", "input stored into an attribute: " + ast.unparse(node)[:60], node)
                    elif target.attr in self.family.copy_setters:
                        pass                      # the property setter copies (np.array)
                    elif f is not None:
                        self.share(f, node, what)
                    else:
                        self.write("escape", "buffer of the input stored into unknown attribute: " + ast.unparse(node)[:60], node)
                elif any(x.startswith("sub:") and x[4:] in CONFIG for x in v):
                    self.write("config_share", ast.unparse(node)[:70], node)
            return
        if isinstance(target, ast.Subscript):
            bt = flat(self.ev(target.value, env))
            self.ev(target.slice, env)
            v = flat(val)
            what = ast.unparse(target) + " = ..."
            if has_list(bt) and not is_obj(bt):
                if isinstance(target.value, ast.Name) and (is_obj(v) or has_list(v)):
                    env[target.value.id] = frozenset((bt - {"inlist0"}) | {"inlist"})
                return
            if related(bt):
                self.store_through(bt, None, node, what)
                return
            pv = part_tags(v)
            if pv:
                if isinstance(target.value, ast.Name) and (bt & (ee.FRESH | {"ctor"})):
                    self.share("FSite", node, what)          # new[i] = <buffer of the input>
                elif isinstance(target.value, ast.Attribute):
                    f = FIELD_OF_ATTR.get(target.value.attr)
                    if f:
                        self.share(f, node, what)            # new.qn[i] = <buffer of the input>
                    elif target.value.attr not in CONFIG:
                        self.write("escape", "buffer of the input stored into unknown container: " + what, node)
                # a plain array on the left: element-wise copy
            return
        return super().bind(target, val, env, node)

    def _comp(self, n, env, elts):
        env2 = dict(env)
        for g in n.generators:
            it = self.ev(g.iter, env2)
            self.bind_loop_target(g.target, g.iter, it, env2)
            for c in g.ifs:
                self.ev(c, env2)
        r = set()
        for e in elts:
            r |= flat(self.ev(e, env2))
        if is_obj(r) or has_list(r):
            return fs("inlist")
        return part_tags(r)

    def ev_List(self, n, env):
        ts = [flat(self.ev(e, env)) for e in n.elts]
        if any(is_obj(t) or has_list(t) for t in ts):
            if ts and ts[0] == fs("in") and not any(is_obj(t) or has_list(t) for t in ts[1:]):
                return fs("inlist0")
            return fs("inlist")
        r = set()
        for t in ts:
            r |= part_tags(t)
        return frozenset(r)

    ev_Set = ev_List

    def ev_BinOp(self, n, env):
        l = flat(self.ev(n.left, env))
        r = flat(self.ev(n.right, env))
        if (is_obj(l) or is_obj(r)) and not has_list(l) and not has_list(r) and isinstance(n.op, (ast.Add, ast.Sub)) \
                and "add" in self.family.methods:
            src = ast.unparse(n)[:70]
            out = {"derived"}
            for idx, t in ((0, l), (1, r)):
                if is_obj(t):
                    summ = self.summaries_for("m", "add", idx, {})
                    self.apply_summary(summ, "add", src, n)
                    out |= {"shr:" + x for x in summ["shares"]}
            return frozenset(out)
        if (is_obj(l) or is_obj(r)) and isinstance(n.op, (ast.MatMult, ast.Mult)) and not has_list(l) and not has_list(r):
            return fs("derived")          # __matmul__ = apply, __mul__ = scale (not in place)
        if has_list(l) or has_list(r):
            if "inlist0" in l and not has_list(r) and not is_obj(r):
                return fs("inlist0")
            return fs("inlist")
        if (l | r) & (ee.FRESH | {"ctor"}):
            return fs("derived")
        return EMPTY

    # ------------------------------------------------------------------ calls
    def call_consts(self, n):
        c = {}
        for k in n.keywords:
            if k.arg == "inplace":
                if isinstance(k.value, ast.Constant):
                    c["inplace"] = bool(k.value.value)
                elif isinstance(k.value, ast.Name) and k.value.id in self.consts:
                    c["inplace"] = self.consts[k.value.id]
                else:
                    c["inplace"] = None
        return c

    def apply_summary(self, summ, m, src, n, recv_name=None, recv_is_attr_coeff=False):
        """record the writes of a callee on the tracked parameter at this call site"""
        ws = [w for w in summ["writes"]]
        if not ws:
            return
        fields = set()
        ipf = set()
        for w in ws:
            fields |= set(w["fields"])
            ipf |= set(w.get("inplace", ()))
        kinds = {w["kind"] for w in ws}
        if any(w["kind"] == "escape" for w in ws):
            for w in ws:
                if w["kind"] == "escape":
                    self.write("escape", w["what"], n)
        value_ws = [w for w in ws if w["kind"] not in ("config_store", "config_share", "escape")]
        if any(w["kind"] in ("config_store", "config_share") for w in ws):
            self.write("config_store", "configuration written by " + src, n)
        if not value_ws:
            return
        if m in ee.GAUGE:
            self.write("gauge", src, n, fields, inplace=ipf)
        elif recv_is_attr_coeff and recv_name is not None:
            w = self.write("fold_scale", src, n, fields, inplace=ipf)
            self.fold_scale[recv_name] = w
        elif all(w["kind"] in BENIGN for w in value_ws):
            seen = set()
            for w in value_ws:
                k = (w["kind"], tuple(w["fields"]))
                if k in seen:
                    continue
                seen.add(k)
                self.write(w["kind"], src + " -> " + w["what"].split(" -> ")[-1][:40], n, w["fields"], inplace=w.get("inplace", ()))
        else:
            self.write("destructive", src, n, fields, inplace=ipf)

    def summaries_for(self, kind, name, idx, consts):
        if consts.get("inplace", 0) is None:          # not a literal: both variants
            a = self.family.summary(kind, name, idx, {"inplace": True})
            b = self.family.summary(kind, name, idx, {"inplace": False})
            out = empty_summary()
            merge_summary(out, a)
            merge_summary(out, b)
            return out
        return self.family.summary(kind, name, idx, {k: v for k, v in consts.items() if v is not None})

    def ev_Call(self, n, env):
        f = n.func
        src = ast.unparse(n)[:70]
        fam = self.family
        if isinstance(f, ast.Attribute):
            m = f.attr
            is_super = isinstance(f.value, ast.Call) and isinstance(f.value.func, ast.Name) and f.value.func.id == "super"
            if m in ("__class__",) or (isinstance(f.value, ast.Attribute) and f.value.attr == "__class__"):
                for a in n.args:
                    self.ev(a, env)
                return fs("ctor")
            recv = flat(env.get("self", EMPTY)) if is_super else flat(self.ev(f.value, env))
            if is_obj(recv) and m in fam.methods:
                args = [flat(self.ev(a, env)) for a in n.args]
                for k in n.keywords:
                    self.ev(k.value, env)
                summ = self.summaries_for("m", m, 0, self.call_consts(n))
                recv_name = f.value.id if isinstance(f.value, ast.Name) else None
                fold = (m == "scale" and self.call_consts(n).get("inplace") is True and len(n.args) == 1
                        and isinstance(n.args[0], ast.Attribute) and n.args[0].attr == "coeff"
                        and isinstance(n.args[0].value, ast.Name) and n.args[0].value.id == recv_name)
                self.apply_summary(summ, m, src, n, recv_name, fold)
                r = set()
                if summ["ret_in"]:
                    r |= set(recv)
                if summ["ret_fresh"]:
                    r.add("derived")
                    r |= {"shr:" + x for x in summ["shares"]}
                return frozenset(r)
            if not related(recv) and m in fam.methods:
                args = [flat(self.ev(a, env)) for a in n.args]
                kws = {k.arg: flat(self.ev(k.value, env)) for k in n.keywords}
                r = set()
                hit = False
                for pos, t in enumerate(args):
                    if is_obj(t):
                        hit = True
                        summ = self.summaries_for("m", m, pos + 1, self.call_consts(n))
                        self.apply_summary(summ, m, src, n)
                        r |= {"shr:" + x for x in summ["shares"]}
                        if summ["ret_in"]:
                            r |= set(t)
                for kname, t in kws.items():
                    if is_obj(t):
                        hit = True
                        for label, fd, rel in fam.methods[m]:
                            names = [a.arg for a in fd.args.args]
                            if kname in names:
                                summ = self.summaries_for("m", m, names.index(kname), self.call_consts(n))
                                self.apply_summary(summ, m, src, n)
                                r |= {"shr:" + x for x in summ["shares"]}
                                if summ["ret_in"]:
                                    r |= set(t)
                if hit:
                    r.add("derived")
                    return frozenset(r)
                if recv & (ee.FRESH | {"ctor"}):
                    if m in ee.GAUGE or m in ee.DESTRUCTIVE or m in ee.INPLACE_KW:
                        return frozenset(recv & (ee.FRESH | {"ctor"}))
                    if m == "append" and any(part_tags(t) for t in args):
                        self.share("FSite", n, src)
                    return fs("derived")
                return EMPTY
            if m == "add_child" and not related(recv):
                ts = [flat(self.ev(a, env)) for a in n.args]
                if any("sub:root" in t for t in ts):
                    env["$attached"] = fs("attached at line %d" % n.lineno)
                    self.write("config_store", "temporary re-parenting: " + src, n)
                return EMPTY
            pr = part_tags(recv)
            if pr and not is_obj(recv):
                for a in n.args:
                    self.ev(a, env)
                for k in n.keywords:
                    self.ev(k.value, env)
                if m in VIEW_METHODS:
                    return pr
                if m in COPY_METHODS:
                    return EMPTY
            if is_obj(recv) and m in PART_RETURNING:
                return fs(PART_RETURNING[m])
            if isinstance(f.value, ast.Name) and f.value.id in ("np", "xp", "numpy") and f.value.id not in env:
                ts = [flat(self.ev(a, env)) for a in n.args]
                for k in n.keywords:
                    self.ev(k.value, env)
                if any(is_obj(t) for t in ts):
                    self.write("escape", "input passed to a numpy function: " + src, n)
                if m in VIEW_FUNCS and ts:
                    return part_tags(ts[0])
                return EMPTY
            if recv & (ee.FRESH | {"ctor"}) and m == "append":
                args = [flat(self.ev(a, env)) for a in n.args]
                if any(part_tags(t) for t in args):
                    self.share("FSite", n, src)
                return EMPTY
            return super().ev_Call(n, env)
        if isinstance(f, ast.Name):
            name = f.id
            if name in ("cls",) and name not in self.funcs:
                for a in n.args:
                    self.ev(a, env)
                return fs("ctor")
            if name == "deepcopy":
                for a in n.args:
                    self.ev(a, env)
                return EMPTY
            if name == "getattr":
                args = [flat(self.ev(a, env)) for a in n.args]
                return fs("sub:_dynamic") if args and is_obj(args[0]) else EMPTY
            if name == "setattr":
                args = [flat(self.ev(a, env)) for a in n.args]
                if args and related(args[0]):
                    self.write("escape", "setattr on the input: " + src, n)
                elif len(args) == 3 and (part_tags(args[2]) or is_obj(args[2])):
                    self.write("escape", "setattr of a buffer of the input: " + src, n)
                return EMPTY
            if name in fam.funcs and name not in env and name not in self.funcs:
                args = [flat(self.ev(a, env)) for a in n.args]
                for k in n.keywords:
                    self.ev(k.value, env)
                r = set()
                hit = False
                for pos, t in enumerate(args):
                    if is_obj(t):
                        hit = True
                        summ = self.summaries_for("f", name, pos, self.call_consts(n))
                        self.apply_summary(summ, name, src, n)
                        r |= {"shr:" + x for x in summ["shares"]}
                        if summ["ret_in"]:
                            r |= set(t)
                        if summ["ret_fresh"]:
                            r.add("derived")
                if hit:
                    return frozenset(r)
                if any(part_tags(t) or has_list(t) for t in args) and name not in VIEW_FUNCS:
                    return EMPTY          # parts of the input handed to a module function: reads (trusted)
            if name in VIEW_FUNCS:
                r = set()
                for a in n.args:
                    r |= part_tags(self.ev(a, env))
                for k in n.keywords:
                    self.ev(k.value, env)
                return frozenset(r)
            if name[:1].isupper() and name not in self.funcs:
                args = [flat(self.ev(a, env)) for a in n.args]
                for k in n.keywords:
                    self.ev(k.value, env)
                return fs("ctor")
            if name not in self.funcs and not (flat(env.get(name, EMPTY)) & {"entrydict", "helpertable"}) \
                    and name not in ("compressed_sum", "_sum", "reduce", "normalize") \
                    and name not in ee.LIST_FUNCS and name not in ee.INPLACE_FUNCS:
                args = [flat(self.ev(a, env)) for a in n.args]
                kws = [flat(self.ev(k.value, env)) for k in n.keywords]
                if not any(is_obj(t) or has_list(t) for t in args + kws):
                    return EMPTY          # only parts of the input are handed over: a read (library functions are trusted
                                          # not to write into their array arguments)
                if name in ee.PURE_FUNCS:
                    return EMPTY
                self.write("escape", "input passed to unknown function: " + src, n)
                return EMPTY
        return super().ev_Call(n, env)


def scan_def(family, label, f, idx, consts, is_method):
    params = [a.arg for a in f.args.args]
    deco = [ast.unparse(d) for d in f.decorator_list]
    if is_method and ("classmethod" in deco or "staticmethod" in deco) and idx == 0:
        return None
    if is_method and "staticmethod" in deco:
        idx = idx - 1
    if idx < 0 or idx >= len(params):
        return None
    sc = OpScan(family, label, consts)
    env = {p: EMPTY for p in params}
    env[params[idx]] = fs("in")
    if family.world == "tree" and idx == 0:
        for a in f.args.args[1:]:
            ann = ast.unparse(a.annotation) if a.annotation is not None else ""
            if "TreeNodeTensor" in ann or a.arg in NODE_PARAM_NAMES:
                env[a.arg] = fs("site")             # a node of the tree that is being tracked
    for a in f.args.args:
        if a.arg in consts:
            pass
    sc._breaks, sc._conts = [], []
    rlist = []
    sc.block(f.body, env, rlist)
    ret = set()
    for r in rlist:
        ret |= flat(r[0] if isinstance(r, tuple) and r else r) if isinstance(r, tuple) else flat(r)
    # fold pairing: p.scale(p.coeff, inplace=True) together with p.coeff = 1
    for nm, w in list(sc.fold_scale.items()):
        if nm in sc.fold_reset:
            w["kind"] = "fold"
            sc.fold_reset[nm]["kind"] = "fold"
        else:
            w["kind"] = "destructive"
    for w in sc.writes:
        if w["kind"] == "fold_reset":
            w["kind"] = "value_store"
        if w["kind"] == "fold_scale":
            w["kind"] = "destructive"
    shares = set(sc.shares) | {x[4:] for x in ret if x.startswith("shr:")}
    return {"writes": sc.writes, "ret_in": is_obj(ret), "ret_fresh": bool(ret & (ee.FRESH | {"ctor"})) or not is_obj(ret),
            "shares": shares}


# ---------------------------------------------------------------------------------------------------
# rows: (world, qualified method or @function, variant consts, tracked parameter)
CHAIN_ROWS = [
    ("MatrixProduct.copy", {}, "self"), ("MatrixProduct.metacopy", {}, "self"), ("Mps.metacopy", {}, "self"),
    ("Mpo.metacopy", {}, "self"),
    ("MatrixProduct.to_complex", {"inplace": False}, "self"), ("MatrixProduct.to_complex", {"inplace": True}, "self"),
    ("Mps.to_complex", {"inplace": False}, "self"), ("Mps.to_complex", {"inplace": True}, "self"),
    ("MatrixProduct.conj", {}, "self"), ("Mps.conj", {}, "self"),
    ("MatrixProduct.scale", {"inplace": False}, "self"), ("MatrixProduct.scale", {"inplace": True}, "self"),
    ("MatrixProduct.add", {}, "self"), ("MatrixProduct.add", {}, "other"), ("Mps.add", {}, "self"), ("Mps.add", {}, "other"),
    ("MatrixProduct.distance", {}, "self"), ("MatrixProduct.distance", {}, "other"),
    ("Mps.distance", {}, "self"), ("Mps.distance", {}, "other"),
    ("MatrixProduct.canonicalise", {}, "self"), ("MatrixProduct.ensure_left_canonical", {}, "self"),
    ("MatrixProduct.ensure_right_canonical", {}, "self"), ("MatrixProduct.compress", {}, "self"),
    ("Mps.normalize", {}, "self"),
    ("Mps.expectation", {}, "self"), ("Mps.expectation", {}, "mpo"), ("Mps.expectations", {}, "self"),
    ("Mps.calc_1site_rdm", {}, "self"), ("Mps.calc_2site_rdm", {}, "self"), ("Mps.calc_edof_rdm", {}, "self"),
    ("Mps.calc_entropy", {}, "self"), ("Mps.calc_bond_entropy", {}, "self"), ("Mps.calc_bond_singular_values", {}, "self"),
    ("Mps.calc_2site_mutual_entropy", {}, "self"),
    ("Mpo.apply", {}, "self"), ("Mpo.apply", {}, "mp"), ("Mpo.contract", {}, "self"), ("Mpo.contract", {}, "mps"),
    ("Mpo.conj_trans", {}, "self"), ("MpDm.apply", {}, "self"), ("MpDm.apply", {}, "mp"),
    ("MpDm.from_mps", {}, "mps"),
    ("Mps.expand_bond_dimension", {}, "self"), ("Mps.expand_bond_dimension", {}, "hint_mpo"),
    ("@expand_bond_dimension", {}, "mps"), ("@expand_bond_dimension", {}, "hint_mpo"),
    ("@expand_bond_dimension_general", {}, "mps"), ("@expand_bond_dimension_general", {}, "hint_mpo"),
    ("@expand_bond_dimension_general", {}, "ex_mps"),
]
TREE_ROWS = [
    ("TTNS.copy", {}, "self"), ("TTNS.metacopy", {}, "self"),
    ("TTNS.to_complex", {"inplace": False}, "self"), ("TTNS.to_complex", {"inplace": True}, "self"),
    ("TTNS.add", {}, "self"), ("TTNS.add", {}, "other"),
    ("TTNS.scale", {"inplace": False}, "self"), ("TTNS.scale", {"inplace": True}, "self"),
    ("TTNO.apply", {}, "self"), ("TTNO.apply", {}, "ttns"), ("TTNO.contract", {}, "self"), ("TTNO.contract", {}, "ttns"),
    ("TTNS.canonicalise", {}, "self"), ("TTNS.compress", {}, "self"), ("TTNS.normalize", {}, "self"),
    ("TTNS.expectation", {}, "self"), ("TTNS.expectation", {}, "ttno"),
    ("TTNS.calc_1site_rdm", {}, "self"), ("TTNS.calc_2site_rdm", {}, "self"), ("TTNS.calc_1dof_rdm", {}, "self"),
    ("TTNS.calc_bond_entropy", {}, "self"), ("TTNS.calc_bond_singular_values", {}, "self"), ("TTNS.calc_1site_entropy", {}, "self"),
    ("tree@expand_bond_dimension_general", {}, "mps"), ("tree@expand_bond_dimension_general", {}, "hint_mpo"),
]


def copy_setters(repo):
    """property setters of TreeNodeTensor whose body stores np.array(<argument>) (a copy)"""
    tree = ast.parse(open(os.path.join(repo, "renormalizer/tn/node.py")).read())
    out = set()
    for n in tree.body:
        if isinstance(n, ast.ClassDef) and n.name == "TreeNodeTensor":
            for f in n.body:
                if isinstance(f, ast.FunctionDef) and any(ast.unparse(d).endswith(".setter") for d in f.decorator_list):
                    arg = f.args.args[1].arg
                    ok = len(f.body) == 1 and isinstance(f.body[0], ast.Assign) and isinstance(f.body[0].value, ast.Call) \
                        and ast.unparse(f.body[0].value.func) == "np.array" and len(f.body[0].value.args) == 1 \
                        and ast.unparse(f.body[0].value.args[0]) == arg and not f.body[0].value.keywords
                    if ok:
                        out.add(f.name)
    return out


def families(repo):
    chain = Family(repo, "chain",
                   [("mps/mp.py", {"MatrixProduct"}), ("mps/mps.py", {"Mps"}), ("mps/mpo.py", {"Mpo"}), ("mps/mpdm.py", {"MpDm"})],
                   [("mps/mps.py", None), ("mps/lib.py", {"compressed_sum", "_sum"})], set())
    tree = Family(repo, "tree", [("tn/tree.py", {"TTNBase", "TTNS", "TTNO"}), ("tn/treebase.py", {"Tree"})],
                  [("tn/tree.py", None), ("mps/mps.py", {"normalize", "expand_bond_dimension_general"})], copy_setters(repo))
    return chain, tree


def extract(repo):
    rows = []
    for fam, spec in zip(families(repo), (CHAIN_ROWS, TREE_ROWS)):
        for it in range(8):
            fam.changed = False
            cur = []
            for qual, consts, param in spec:
                f, rel = fam.find(qual)
                params = [a.arg for a in f.args.args]
                if param not in params:
                    raise TranslateError("%s has no parameter %s" % (qual, param))
                r = scan_def(fam, qual, f, params.index(param), consts, "@" not in qual)
                r.update({"fn": qual, "file": rel, "world": fam.world, "param": param,
                          "variant": ",".join("%s=%s" % kv for kv in sorted(consts.items()))})
                cur.append(r)
            for key in list(fam.cache):
                fam.summary(key[0], key[1], key[2], dict(key[3]))
            if not fam.changed:
                break
        else:
            raise TranslateError("summaries of the %s family did not stabilise" % fam.world)
        rows += cur
    return rows


def cs(s):
    return '"' + s.replace('"', "'").replace("\n", " ") + '"'


def render(rows):
    o = ["(* GENERATED by tx/opentries.py from renormalizer/mps/{mp,mps,mpo,mpdm,lib}.py, tn/{tree,node}.py -- do not edit *)",
         "From Coq Require Import List String.", "Import ListNotations.", "Local Open Scope string_scope.",
         "From RV Require Import Gen.EvolveEntry.", "",
         "Inductive field := FSite | FLabel | FQntot | FCoeff | FMeta.",
         "Record pwrite := mkPW { pw_kind : wkind; pw_fields : list field; pw_what : string; pw_line : nat }.",
         "(* one row per (method, variant, tracked parameter) *)",
         "Record oprow := mkOp { o_fn : string; o_variant : string; o_param : string;",
         "                       o_ret_is_param : bool;     (* the returned object may be the parameter itself *)",
         "                       o_share : list field;      (* a built object receives a buffer of the parameter in these fields *)",
         "                       o_inplace : list field;    (* fields whose EXISTING container is updated in place (x.f op= e), not rebound *)",
         "                       o_writes : list pwrite }.", ""]
    names = []
    for i, r in enumerate(rows):
        nm = "op_%d" % i
        names.append(nm)
        o.append("(* %s :: %s [%s] parameter %s *)" % (r["file"], r["fn"], r["variant"] or "-", r["param"]))
        ws = ["mkPW %s [%s] %s %d" % (WK[w["kind"]], "; ".join(w["fields"]), cs(w["what"][:90]), w["line"]) for w in r["writes"]]
        ipf = sorted({f for w in r["writes"] for f in w.get("inplace", ())})
        o.append("Definition %s : oprow := mkOp %s %s %s %s [%s] [%s]" % (
            nm, cs(r["fn"]), cs(r["variant"]), cs(r["param"]), "true" if r["ret_in"] else "false",
            "; ".join(sorted(r["shares"])), "; ".join(ipf)))
        o.append("  [" + ";\n   ".join(ws) + "].")
        o.append("")
    o.append("Definition oprows : list oprow := [" + "; ".join(names) + "].")
    o.append("")
    return "\n".join(o)


def main(repo="/repo"):
    rows = extract(repo)
    return render(rows), rows


if __name__ == "__main__":
    text, rows = main(sys.argv[1] if len(sys.argv) > 1 else "/repo")
    sys.stdout.write(text)
