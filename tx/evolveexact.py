"""Translator (fail-closed): phase / offset bookkeeping of the closed-form propagation -> coq/Gen/EvolveExact.v

Sources (python `ast`, nothing executed):
  renormalizer/mps/mps.py    Mps.evolve_exact
  renormalizer/mps/mpdm.py   MpDm.evolve_exact
  renormalizer/mps/thermalprop.py  ThermalProp.evolve_exact
  renormalizer/mps/mpo.py    Mpo.exact_propagator: the GS-space diagonal `np.exp(x * ph.omega[0] * np.arange(ph_pbond))`
                             and the final `mpo.scale(np.exp(shift * x), inplace=True)`

Each evolve_exact body must be exactly
    P = Mpo.exact_propagator(<model>, <x>, <space>, <shift>)        (positional or space=/shift= keywords)
    R = P.apply(self, canonicalise=True)   |   R = self.apply(P, canonicalise=True)   | (ThermalProp: old_mpdm instead of self)
    <T>.coeff *= np.exp(<phase>)                                       (Mps / MpDm)
    | R.normalize("mps_and_coeff")                                     (ThermalProp)
    return R
and the scalar expressions must be one of the recognised forms; they are rendered over the abstract
constants  mi (= -1j), dt (= evolve_dt), off (= h_mpo.offset / self.energies[-1]), one:
    x      :  -1j * evolve_dt | -1.0j * evolve_dt  -> XMiDt ;   evolve_dt.imag -> XImagPart
    shift  :  -h_mpo.offset | -self.energies[-1]   -> ShiftNegOff
    phase  :  -1j * h_mpo.offset * evolve_dt       -> PhaseMiOffDt
    <T>    :  R -> OnResult ;  self -> OnInput
Everything else raises TranslateError.
"""
import ast
import sys

TARGET = "Gen/EvolveExact.v"


class TranslateError(Exception):
    pass


def _find_method(tree, cls, name):
    for node in tree.body:
        if isinstance(node, ast.ClassDef) and node.name == cls:
            for f in node.body:
                if isinstance(f, ast.FunctionDef) and f.name == name:
                    return f
    raise TranslateError("%s.%s not found" % (cls, name))


def _norm(e):
    return ast.unparse(e).replace(" ", "")


def _x_form(e):
    s = _norm(e)
    if s in ("-1j*evolve_dt", "-1.0j*evolve_dt"):
        return "XMiDt"
    if s == "evolve_dt.imag":
        return "XImagPart"
    raise TranslateError("unrecognised propagator argument x: %s" % s)


def _shift_form(e):
    s = _norm(e)
    if s in ("-h_mpo.offset", "-self.energies[-1]"):
        return "ShiftNegOff"
    raise TranslateError("unrecognised shift: %s" % s)


def _phase_form(e):
    s = _norm(e)
    if s in ("-1j*h_mpo.offset*evolve_dt", "-1.0j*h_mpo.offset*evolve_dt"):
        return "PhaseMiOffDt"
    raise TranslateError("unrecognised phase: %s" % s)


def _body(fn):
    return [s for s in fn.body if not (isinstance(s, ast.Expr) and isinstance(s.value, ast.Constant))
            and not isinstance(s, ast.Pass)]


def _strip_comments(stmts):
    return stmts


def _parse_evolve_exact(fn, input_name, thermal=False):
    stmts = _body(fn)
    if len(stmts) != 4:
        raise TranslateError("%s: expected 4 statements, found %d" % (fn.name, len(stmts)))
    s0, s1, s2, s3 = stmts
    # 1. propagator
    if not (isinstance(s0, ast.Assign) and len(s0.targets) == 1 and isinstance(s0.targets[0], ast.Name)
            and isinstance(s0.value, ast.Call) and _norm(s0.value.func) == "Mpo.exact_propagator"):
        raise TranslateError("%s: first statement is not P = Mpo.exact_propagator(...)" % fn.name)
    pname = s0.targets[0].id
    args = list(s0.value.args)
    kw = {k.arg: k.value for k in s0.value.keywords}
    if any(k is None for k in kw) or set(kw) - {"space", "shift"}:
        raise TranslateError("%s: keywords of exact_propagator: %s" % (fn.name, sorted(kw)))
    if len(args) + len(kw) != 4 or len(args) < 2:
        raise TranslateError("%s: exact_propagator argument count" % fn.name)
    x = _x_form(args[1])
    space = args[2] if len(args) > 2 else kw.get("space")
    shift = args[3] if len(args) > 3 else kw.get("shift")
    if space is None or shift is None:
        raise TranslateError("%s: space / shift missing" % fn.name)
    if _norm(space) not in ("space", "self.space"):
        raise TranslateError("%s: space argument %s" % (fn.name, _norm(space)))
    shift = _shift_form(shift)
    # 2. application
    if not (isinstance(s1, ast.Assign) and len(s1.targets) == 1 and isinstance(s1.targets[0], ast.Name)
            and isinstance(s1.value, ast.Call) and isinstance(s1.value.func, ast.Attribute) and s1.value.func.attr == "apply"
            and len(s1.value.args) == 1 and [k.arg for k in s1.value.keywords] == ["canonicalise"]
            and _norm(s1.value.keywords[0].value) == "True"):
        raise TranslateError("%s: second statement is not R = A.apply(B, canonicalise=True)" % fn.name)
    rname = s1.targets[0].id
    recv, arg = _norm(s1.value.func.value), _norm(s1.value.args[0])
    if (recv, arg) == (pname, input_name):
        order = "PropOnState"
    elif (recv, arg) == (input_name, pname):
        order = "StateOnProp"
    else:
        raise TranslateError("%s: apply(%s, %s)" % (fn.name, recv, arg))
    if rname in (pname, input_name):
        raise TranslateError("%s: result name clashes" % fn.name)
    # 3. prefactor
    if thermal:
        if not (isinstance(s2, ast.Expr) and isinstance(s2.value, ast.Call) and _norm(s2.value.func) == rname + ".normalize"
                and len(s2.value.args) == 1 and _norm(s2.value.args[0]) in ("'mps_and_coeff'", '"mps_and_coeff"')):
            raise TranslateError("%s: third statement is not R.normalize('mps_and_coeff')" % fn.name)
        target, phase = "OnResult", "Normalise"
    else:
        if not (isinstance(s2, ast.AugAssign) and isinstance(s2.op, ast.Mult) and isinstance(s2.target, ast.Attribute)
                and s2.target.attr == "coeff" and isinstance(s2.target.value, ast.Name)
                and isinstance(s2.value, ast.Call) and _norm(s2.value.func) == "np.exp" and len(s2.value.args) == 1
                and not s2.value.keywords):
            raise TranslateError("%s: third statement is not T.coeff *= np.exp(...)" % fn.name)
        tname = s2.target.value.id
        if tname == rname:
            target = "OnResult"
        elif tname == input_name:
            target = "OnInput"
        else:
            raise TranslateError("%s: phase applied to %s" % (fn.name, tname))
        phase = _phase_form(s2.value.args[0])
    # 4. return
    if not (isinstance(s3, ast.Return) and isinstance(s3.value, ast.Name) and s3.value.id == rname):
        raise TranslateError("%s: does not return the result of apply" % fn.name)
    return {"x": x, "shift": shift, "order": order, "target": target, "phase": phase}


def _parse_exact_propagator(fn):
    """GS branch: d = np.exp(x * ph.omega[0] * np.arange(ph_pbond)); mo = np.diag(d)...; final scale(np.exp(shift * x), inplace=True)."""
    gs_exp = None
    scale = None
    for node in ast.walk(fn):
        if isinstance(node, ast.If) and _norm(node.test) in ("space=='GS'", 'space=="GS"'):
            for s in node.body:
                if isinstance(s, ast.Assign) and _norm(s.targets[0]) == "d":
                    gs_exp = _norm(s.value)
            names = [_norm(s.targets[0]) for s in node.body if isinstance(s, ast.Assign)]
            if "mo" not in names:
                raise TranslateError("exact_propagator: GS branch does not build `mo`")
            for s in node.body:
                if isinstance(s, ast.Assign) and _norm(s.targets[0]) == "mo" and _norm(s.value) != "np.diag(d).reshape(1,ph_pbond,ph_pbond,1)":
                    raise TranslateError("exact_propagator: GS local tensor is %s" % _norm(s.value))
        if isinstance(node, ast.Assign) and isinstance(node.value, ast.Call) and _norm(node.value.func) == "mpo.scale":
            if scale is not None:
                raise TranslateError("exact_propagator: more than one scale")
            scale = node
    if gs_exp != "np.exp(x*ph.omega[0]*np.arange(ph_pbond))":
        raise TranslateError("exact_propagator: GS diagonal is %s" % gs_exp)
    if scale is None or _norm(scale.value.args[0]) != "np.exp(shift*x)" or _norm(scale.targets[0]) != "mpo":
        raise TranslateError("exact_propagator: final scale is not mpo = mpo.scale(np.exp(shift * x), ...)")
    # electronic sites are identities
    eyes = [n for n in ast.walk(fn) if isinstance(n, ast.Call) and _norm(n.func) == "np.eye"]
    if len(eyes) != 2:
        raise TranslateError("exact_propagator: expected two identity (electronic) site builders")
    # qnidx = last site, which is where scale() multiplies
    qn = [n for n in ast.walk(fn) if isinstance(n, ast.Assign) and _norm(n.targets[0]) == "mpo.qnidx"]
    if len(qn) != 1 or _norm(qn[0].value) != "len(mpo)-1":
        raise TranslateError("exact_propagator: qnidx is not the last site")
    return {"gs_diag": "ExpXOmegaN", "scale": "ExpShiftX", "scaled_site": "Last"}


def main(repo="/repo"):
    t_mps = ast.parse(open(repo + "/renormalizer/mps/mps.py").read())
    t_mpdm = ast.parse(open(repo + "/renormalizer/mps/mpdm.py").read())
    t_th = ast.parse(open(repo + "/renormalizer/mps/thermalprop.py").read())
    t_mpo = ast.parse(open(repo + "/renormalizer/mps/mpo.py").read())
    e_mps = _parse_evolve_exact(_find_method(t_mps, "Mps", "evolve_exact"), "self")
    e_mpdm = _parse_evolve_exact(_find_method(t_mpdm, "MpDm", "evolve_exact"), "self")
    e_th = _parse_evolve_exact(_find_method(t_th, "ThermalProp", "evolve_exact"), "old_mpdm", thermal=True)
    ep = _parse_exact_propagator(_find_method(t_mpo, "Mpo", "exact_propagator"))
    out = ["(* GENERATED by tx/evolveexact.py from renormalizer/mps/{mps,mpdm,thermalprop,mpo}.py -- do not edit *)",
           "Inductive xform := XMiDt | XImagPart.            (* -1j * evolve_dt | evolve_dt.imag *)",
           "Inductive shiftform := ShiftNegOff.             (* -offset *)",
           "Inductive applyorder := PropOnState | StateOnProp.",
           "Inductive phasetarget := OnResult | OnInput.",
           "Inductive phaseform := PhaseMiOffDt | Normalise. (* coeff *= exp(-1j * offset * evolve_dt) | normalize('mps_and_coeff') *)",
           "Record ee_code := { ee_x : xform; ee_shift : shiftform; ee_order : applyorder; ee_target : phasetarget; ee_phase : phaseform }.",
           ""]
    for nm, e in (("ee_mps", e_mps), ("ee_mpdm", e_mpdm), ("ee_thermal", e_th)):
        out.append("Definition %s : ee_code := {| ee_x := %s; ee_shift := %s; ee_order := %s; ee_target := %s; ee_phase := %s |}."
                   % (nm, e["x"], e["shift"], e["order"], e["target"], e["phase"]))
    out.append("")
    out.append("(* Mpo.exact_propagator, GS space: diagonal exp(x * omega * n), identities on electronic sites,")
    out.append("   last site (qnidx) scaled by exp(shift * x) *)")
    out.append("Inductive gsdiag := ExpXOmegaN.  Inductive epscale := ExpShiftX.  Inductive scaledsite := Last.")
    out.append("Definition ep_gs_diag : gsdiag := %s.  Definition ep_scale : epscale := %s.  Definition ep_scaled_site : scaledsite := %s."
               % (ep["gs_diag"], ep["scale"], ep["scaled_site"]))
    out.append("")
    return "\n".join(out), {"mps": e_mps, "mpdm": e_mpdm, "thermal": e_th, "exact_propagator": ep}


if __name__ == "__main__":
    text, info = main(sys.argv[1] if len(sys.argv) > 1 else "/repo")
    sys.stdout.write(text)
