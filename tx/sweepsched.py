"""Translator (fail-closed): the index / environment bookkeeping of the chain DMRG sweep -> coq/Gen/SweepSched.v

Sources (read with python `ast`, nothing is executed):
  renormalizer/mps/gs.py   optimize_mps   which environment domain is built for which input gauge
                           single_sweep   loop header, the 2-site `break`, lmethod/rmethod, lidx/cidx/ridx,
                                          the order and arguments of the two GetLR calls, the single
                                          `_update_mps` call, the trailing `_switch_direction`
  renormalizer/mps/mp.py   iter_idx_list (full=True, stop_idx=None), _switch_direction,
                           _update_mps "step 2" (which site tensors are stored, in which order; new qnidx)
  renormalizer/mps/lib.py  Environ._construct (+ write_l_sentinel / write_r_sentinel), Environ.GetLR
                           (range test, "Enviro" = read, "System" = read neighbour / contract one site / write)

The result is a set of closed Coq definitions over Z and bool (no proofs).  Model/Sweep.v interprets
them over a version-stamped store; Proofs/SweepProofs.v proves freshness for all n about *these*
definitions, so a change of an offset, an index, the order of two stores, a dropped write ... either
aborts the translation (TranslateError) or changes the generated text and breaks the proof.

Symbol table:  mps.to_right/self.to_right -> to_right : bool;  mps.site_num/self.site_num/len(mps) -> n : Z;
self.qnidx -> qnidx : Z;  method == "2site" -> two : bool;  domain == "L" -> isL : bool;
method == "System" (GetLR) -> system : bool ("Enviro" -> negb system; "Scratch" is never passed by
single_sweep, which is checked).
"""
import ast
import sys

TARGET = "Gen/SweepSched.v"


class TranslateError(Exception):
    pass


def fail(msg, node=None):
    where = " (line %s)" % node.lineno if node is not None and hasattr(node, "lineno") else ""
    raise TranslateError(msg + where)


# ----------------------------------------------------------------------------- values
def Zv(s):
    return ("Z", s)


def Bv(s):
    return ("B", s)


NONE = ("None",)


def ite(c, a, b):
    if c == "true":
        return a
    if c == "false":
        return b
    if a == b:
        return a
    return "(if %s then %s else %s)" % (c, a, b)


def merge_val(c, a, b, what):
    if a == b:
        return a
    if a[0] != b[0]:
        fail("cannot merge %s: %r / %r" % (what, a, b))
    k = a[0]
    if k in ("Z", "B", "OPS", "ZL"):
        return (k, ite(c, a[1], b[1]))
    if k == "T":
        if len(a[1]) != len(b[1]):
            # lists of different length (cidx): render as Coq list expressions
            return ("ZL", ite(c, zlist(a), zlist(b)))
        return ("T", [merge_val(c, x, y, what) for x, y in zip(a[1], b[1])])
    if k == "RANGE":
        return ("RANGE", [merge_val(c, x, y, what) for x, y in zip(a[1], b[1])])
    fail("cannot merge %s of kind %s" % (what, k))


def zlist(v):
    if v[0] == "ZL":
        return v[1]
    if v[0] == "T":
        items = []
        for x in v[1]:
            if x[0] != "Z":
                fail("list element is not an integer: %r" % (x,))
            items.append(x[1])
        return "[" + "; ".join(items) + "]"
    fail("not a list: %r" % (v,))


class Sym:
    """symbol table of one translation unit"""

    def __init__(self, names=None, attrs=None, syms=None, calls=None):
        self.names = dict(names or {})      # python Name -> value
        self.attrs = dict(attrs or {})      # unparsed attribute text -> value
        self.syms = dict(syms or {})        # symbolic string variable -> {literal: coq bool}
        self.calls = dict(calls or {})      # unparsed call text -> value


class Ex:
    """state of a symbolic execution: variables, op list, control"""

    def __init__(self, sym):
        self.sym = sym
        self.env = {}
        self.dead = False
        self.ret = None

    def copy(self):
        e = self.__class__(self.sym)
        e.env = dict(self.env)
        e.dead = self.dead
        e.ret = self.ret
        return e

    # ------------------------------------------------------------------ expressions
    def expr(self, n):
        if isinstance(n, ast.Constant):
            if n.value is None:
                return NONE
            if isinstance(n.value, bool):
                return Bv("true" if n.value else "false")
            if isinstance(n.value, int):
                return Zv(str(n.value) if n.value >= 0 else "(%d)" % n.value)
            if isinstance(n.value, str):
                return ("S", n.value)
            fail("constant %r" % (n.value,), n)
        if isinstance(n, ast.Name):
            if n.id in self.env:
                v = self.env[n.id]
                if v is None:
                    fail("use of a variable that is not defined on every path: %s" % n.id, n)
                return v
            if n.id in self.sym.names:
                return self.sym.names[n.id]
            fail("unbound name %s" % n.id, n)
        if isinstance(n, ast.Attribute):
            t = ast.unparse(n)
            if t in self.env:
                return self.env[t]
            if t in self.sym.attrs:
                return self.sym.attrs[t]
            fail("unknown attribute %s" % t, n)
        if isinstance(n, ast.UnaryOp):
            v = self.expr(n.operand)
            if isinstance(n.op, ast.USub) and v[0] == "Z":
                if v[1].isdigit():
                    return Zv("(-%s)" % v[1])
                return Zv("(- %s)" % v[1])
            if isinstance(n.op, ast.Not) and v[0] == "B":
                if v[1] in ("true", "false"):
                    return Bv("false" if v[1] == "true" else "true")
                return Bv("(negb %s)" % v[1])
            fail("unary operator", n)
        if isinstance(n, ast.BinOp):
            l, r = self.expr(n.left), self.expr(n.right)
            if l[0] != "Z" or r[0] != "Z":
                fail("non-integer arithmetic", n)
            op = {ast.Add: "+", ast.Sub: "-"}.get(type(n.op))
            if op is None:
                fail("operator %s" % type(n.op).__name__, n)
            return Zv("(%s %s %s)" % (l[1], op, r[1]))
        if isinstance(n, ast.BoolOp):
            vs = [self.expr(v) for v in n.values]
            if any(v[0] != "B" for v in vs):
                fail("non-boolean operand of and/or", n)
            op = "&&" if isinstance(n.op, ast.And) else "||"
            out = vs[0][1]
            for v in vs[1:]:
                out = "(%s %s %s)" % (out, op, v[1])
            return Bv(out)
        if isinstance(n, ast.Compare):
            if len(n.ops) != 1:
                fail("chained comparison", n)
            return self.compare(n, n.left, n.ops[0], n.comparators[0])
        if isinstance(n, ast.IfExp):
            c = self.expr(n.test)
            if c[0] != "B":
                fail("non-boolean test", n)
            if c[1] == "true":
                return self.expr(n.body)
            if c[1] == "false":
                return self.expr(n.orelse)
            return merge_val(c[1], self.expr(n.body), self.expr(n.orelse), "conditional expression")
        if isinstance(n, (ast.List, ast.Tuple)):
            return ("T", [self.expr(e) for e in n.elts])
        if isinstance(n, ast.Subscript):
            base = self.expr(n.value)
            idx = n.slice
            if base[0] in ("ZL", "T") and isinstance(idx, ast.Constant) and isinstance(idx.value, int) and idx.value >= 0:
                if base[0] == "T":
                    if idx.value >= len(base[1]):
                        fail("index out of range", n)
                    return base[1][idx.value]
                return Zv("(nth %d %s dead)" % (idx.value, base[1]))
            fail("subscript %s" % ast.unparse(n), n)
        if isinstance(n, ast.Call):
            t = ast.unparse(n)
            if t in self.sym.calls:
                return self.sym.calls[t]
            f = ast.unparse(n.func)
            if f == "len" and len(n.args) == 1:
                v = self.expr(n.args[0])
                if v[0] == "ZL":
                    return Zv("(Z.of_nat (List.length %s))" % v[1])
                if v[0] == "T":
                    return Zv(str(len(v[1])))
            if f == "range" and not n.keywords and 1 <= len(n.args) <= 3:
                a = [self.expr(x) for x in n.args]
                if any(x[0] != "Z" for x in a):
                    fail("range of non-integers", n)
                if len(a) == 1:
                    a = [Zv("0"), a[0], Zv("1")]
                elif len(a) == 2:
                    a = [a[0], a[1], Zv("1")]
                return ("RANGE", a)
            fail("call %s" % t, n)
        fail("expression %s" % type(n).__name__, n)

    def compare(self, n, left, op, right):
        lt = ast.unparse(left)
        # identity tests against None
        if isinstance(op, (ast.Is, ast.IsNot)):
            l = self.expr(left)
            r = self.expr(right)
            if r != NONE:
                fail("`is` against something other than None", n)
            isnone = l == NONE
            if l[0] not in ("None", "Z", "B", "S", "T", "ZL", "OBJ"):
                fail("`is None` on %r" % (l,), n)
            res = isnone if isinstance(op, ast.Is) else not isnone
            return Bv("true" if res else "false")
        # symbolic string variables
        if lt in self.sym.syms:
            r = self.expr(right)
            if r[0] != "S" or r[1] not in self.sym.syms[lt]:
                fail("comparison of %s with %r" % (lt, r), n)
            b = self.sym.syms[lt][r[1]]
            if isinstance(op, ast.Eq):
                return Bv(b)
            if isinstance(op, ast.NotEq):
                return self.expr_not(b)
            fail("string comparison operator", n)
        l, r = self.expr(left), self.expr(right)
        if isinstance(op, (ast.In, ast.NotIn)) and l[0] == "Z" and r[0] == "RANGE":
            a, b, s = r[1]
            if s != Zv("1"):
                fail("membership in a stepped range", n)
            res = "((%s <=? %s) && (%s <? %s))" % (a[1], l[1], l[1], b[1])
            return Bv(res) if isinstance(op, ast.In) else Bv("(negb %s)" % res)
        if l[0] == "Z" and r[0] == "Z":
            tab = {ast.Eq: "(%s =? %s)", ast.NotEq: "(negb (%s =? %s))", ast.Lt: "(%s <? %s)", ast.LtE: "(%s <=? %s)",
                   ast.Gt: "(%s >? %s)", ast.GtE: "(%s >=? %s)"}
            f = tab.get(type(op))
            if f is None:
                fail("comparison operator", n)
            return Bv(f % (l[1], r[1]))
        fail("comparison %s" % ast.unparse(n), n)

    @staticmethod
    def expr_not(b):
        if b == "true":
            return Bv("false")
        if b == "false":
            return Bv("true")
        return Bv("(negb %s)" % b)

    # ------------------------------------------------------------------ statements
    def assign(self, target, val, node):
        if isinstance(target, ast.Name):
            self.env[target.id] = val
        elif isinstance(target, ast.Attribute):
            self.env[ast.unparse(target)] = val
        elif isinstance(target, ast.Tuple):
            if val[0] != "T" or len(val[1]) != len(target.elts):
                fail("tuple assignment shape", node)
            for t, v in zip(target.elts, val[1]):
                self.assign(t, v, node)
        else:
            fail("assignment target %s" % ast.unparse(target), node)

    def stmt(self, s):
        """generic statements; subclasses hook `special` first"""
        if self.special(s):
            return
        if isinstance(s, ast.Expr) and isinstance(s.value, ast.Constant) and isinstance(s.value.value, str):
            return
        if isinstance(s, ast.Assert):
            if ast.unparse(s.test) == "False":
                self.dead = True
                return
            if ast.unparse(s.test) in self.allowed_asserts():
                return
            fail("assert %s" % ast.unparse(s.test), s)
        if isinstance(s, ast.Assign) and len(s.targets) == 1:
            self.assign(s.targets[0], self.expr(s.value), s)
            return
        if isinstance(s, ast.Return):
            if self.ret is not None:
                fail("second return on one path", s)
            self.ret = self.expr(s.value) if s.value is not None else NONE
            return
        if isinstance(s, ast.If):
            c = self.expr(s.test)
            if c[0] != "B":
                fail("non-boolean test %s" % ast.unparse(s.test), s)
            if c[1] == "true":
                self.block(s.body)
                return
            if c[1] == "false":
                self.block(s.orelse)
                return
            a = self.copy()
            a.block(s.body)
            b = self.copy()
            b.block(s.orelse)
            self.merge(c[1], a, b, s)
            return
        fail("statement %s" % type(s).__name__, s)

    def special(self, s):
        return False

    def allowed_asserts(self):
        return ()

    def block(self, stmts):
        for s in stmts:
            if self.dead:
                return
            if self.ret is not None:
                fail("statement after return", s)
            self.stmt(s)

    def merge(self, c, a, b, node):
        if a.dead and b.dead:
            self.dead = True
            return
        if a.dead:
            self.env, self.ret = b.env, b.ret
            return
        if b.dead:
            self.env, self.ret = a.env, a.ret
            return
        if (a.ret is None) != (b.ret is None):
            fail("return on one branch only", node)
        if a.ret is not None:
            self.ret = merge_val(c, a.ret, b.ret, "return value")
        env = {}
        for k in set(a.env) | set(b.env):
            if k in a.env and k in b.env and a.env[k] is not None and b.env[k] is not None:
                env[k] = merge_val(c, a.env[k], b.env[k], k)
            else:
                env[k] = None          # defined on one path only: using it later is an error
        self.env = env


# ----------------------------------------------------------------------------- helpers on the AST
def find_class(tree, name):
    for n in tree.body:
        if isinstance(n, ast.ClassDef) and n.name == name:
            return n
    fail("class %s not found" % name)


def find_func(container, name):
    body = container.body
    for n in body:
        if isinstance(n, ast.FunctionDef) and n.name == name:
            return n
    fail("function %s not found" % name)


def strip_doc(body):
    if body and isinstance(body[0], ast.Expr) and isinstance(body[0].value, ast.Constant) and isinstance(body[0].value.value, str):
        return body[1:]
    return body


def argnames(f):
    return [a.arg for a in f.args.args]


def calls_in(node, attr):
    return [c for c in ast.walk(node) if isinstance(c, ast.Call) and isinstance(c.func, ast.Attribute) and c.func.attr == attr]


def stores_in(node):
    """(kind, text) of every store in node: names, attributes, subscripts"""
    out = []
    for n in ast.walk(node):
        tg = []
        if isinstance(n, ast.Assign):
            tg = n.targets
        elif isinstance(n, (ast.AugAssign, ast.AnnAssign)):
            tg = [n.target]
        elif isinstance(n, (ast.For, ast.comprehension)):
            tg = [n.target]
        for t in tg:
            for e in ([t] if not isinstance(t, ast.Tuple) else t.elts):
                out.append(ast.unparse(e))
    return out


# ----------------------------------------------------------------------------- mp.py
MP_ATTRS = {"self.to_right": Bv("to_right"), "self.site_num": Zv("n"), "self.qnidx": Zv("qnidx")}


def tx_iter_idx_list(cls):
    f = find_func(cls, "iter_idx_list")
    if argnames(f) != ["self", "full", "stop_idx"]:
        fail("iter_idx_list signature", f)
    ex = Ex(Sym(names={"full": Bv("true"), "stop_idx": NONE}, attrs=MP_ATTRS))
    ex.block(strip_doc(f.body))
    if ex.ret is None or ex.ret[0] != "RANGE":
        fail("iter_idx_list does not return a range", f)
    return [v[1] for v in ex.ret[1]]


def tx_switch_direction(cls):
    f = find_func(cls, "_switch_direction")

    class E(Ex):
        def allowed_asserts(self):
            return ("self.to_right is not None",)
    ex = E(Sym(attrs=MP_ATTRS))
    ex.block(strip_doc(f.body))
    if ex.ret is not None:
        fail("_switch_direction returns", f)
    extra = set(ex.env) - {"self.qnidx", "self.to_right"}
    if extra or ex.env.get("self.qnidx") is None or ex.env.get("self.to_right") is None:
        fail("_switch_direction assigns %s" % sorted(ex.env), f)
    return ex.env["self.qnidx"][1], ex.env["self.to_right"][1]


def tx_update_mps(cls):
    f = find_func(cls, "_update_mps")
    if argnames(f) != ["self", "cstruct", "cidx", "qnbigl", "qnbigr", "percent"]:
        fail("_update_mps signature", f)
    body = strip_doc(f.body)
    # step 2 = the last top-level `if len(cidx) == 1:`; before it no site tensor / gauge bookkeeping may be stored
    idx = [i for i, s in enumerate(body) if isinstance(s, ast.If) and ast.unparse(s.test) == "len(cidx) == 1"]
    if len(idx) != 1:
        fail("_update_mps: expected exactly one top-level `if len(cidx) == 1`", f)
    k = idx[0]
    for s in body[:k]:
        for t in stores_in(s):
            if t.startswith("self[") or t in ("self.qnidx", "self.to_right") or t.startswith("self.qn["):
                fail("_update_mps step 1 stores %s" % t, s)
        for c in calls_in(s, "_switch_direction") + calls_in(s, "__setitem__") + calls_in(s, "move_qnidx"):
            fail("_update_mps step 1 calls %s" % ast.unparse(c), s)
    tail = body[k + 1:]
    ok_tail = len(tail) == 1 and isinstance(tail[0], ast.If) and ast.unparse(tail[0].test) == "type(cstruct) is list" \
        and all(isinstance(x, ast.Return) for x in tail[0].body + tail[0].orelse)
    if not ok_tail:
        fail("_update_mps: unexpected statements after step 2", f)

    class E(Ex):
        def special(self, s):
            # stores of site tensors:  self[<int expr>] = <anything>
            if isinstance(s, ast.Assign) and len(s.targets) == 1 and isinstance(s.targets[0], ast.Subscript):
                t = s.targets[0]
                base = ast.unparse(t.value)
                if base == "self":
                    i = self.expr(t.slice)
                    if i[0] != "Z":
                        fail("site index", s)
                    w = self.env["__writes__"][1]
                    self.env["__writes__"] = ("ZL", "(%s ++ [%s])" % (w, i[1]))
                    return True
                if base == "self.qn":
                    return True            # bond labels: C06's business, no tensor store
                fail("store to %s" % ast.unparse(t), s)
            # state-averaged bookkeeping: may not store tensors or move the gauge centre
            if isinstance(s, ast.If) and ast.unparse(s.test) == "type(cstruct) is list":
                for t in stores_in(s):
                    if t not in ("averaged_ms", "c"):
                        fail("state-averaged branch stores %s" % t, s)
                for c in ast.walk(s):
                    if isinstance(c, ast.Call) and ast.unparse(c.func) not in ("averaged_ms.append", "tensordot", "type"):
                        fail("state-averaged branch calls %s" % ast.unparse(c.func), s)
                return True
            return False
    sym = Sym(names={"cidx": ("ZL", "cidx")}, attrs=MP_ATTRS)
    ex = E(sym)
    ex.env["__writes__"] = ("ZL", "[]")
    ex.env["self.qnidx"] = Zv("qnidx")
    ex.stmt(body[k])
    if ex.dead or ex.ret is not None:
        fail("_update_mps step 2 control flow", f)
    extra = set(ex.env) - {"__writes__", "self.qnidx"}
    if extra:
        fail("_update_mps step 2 assigns %s" % sorted(extra), f)
    return ex.env["__writes__"][1], ex.env["self.qnidx"][1]


# ----------------------------------------------------------------------------- lib.py
class OpsEx(Ex):
    """Environ methods: the state is a list of disk operations on the current tensor `cur`
       OpSentinel | OpRead d i | OpExtend d site | OpWrite d i      (d : bool, true = "L")"""
    tensor_names = ("itensor", "tensor")

    def dom(self, n):
        if isinstance(n, ast.Constant) and n.value in ("L", "R"):
            return "true" if n.value == "L" else "false"
        if isinstance(n, ast.Name) and n.id == "domain":
            return "isL"
        fail("domain argument %s" % ast.unparse(n), n)

    def emit(self, op):
        w = self.env["__ops__"][1]
        self.env["__ops__"] = ("OPS", "(%s ++ [%s])" % (w, op))

    def special(self, s):
        # X = self.sentinel
        if isinstance(s, ast.Assign) and len(s.targets) == 1 and isinstance(s.targets[0], ast.Name) \
                and s.targets[0].id in self.tensor_names:
            v = s.value
            cur = s.targets[0].id
            if ast.unparse(v) == "self.sentinel":
                self.emit("OpSentinel")
                self.env["__cur__"] = ("S", cur)
                return True
            if isinstance(v, ast.Call) and ast.unparse(v.func) == "self.read":
                if len(v.args) != 2 or v.keywords:
                    fail("self.read arguments", s)
                i = self.expr(v.args[1])
                if i[0] != "Z":
                    fail("self.read index", s)
                self.emit("OpRead %s %s" % (self.dom(v.args[0]), i[1]))
                self.env["__cur__"] = ("S", cur)
                return True
            if isinstance(v, ast.Call) and ast.unparse(v.func) in ("contract_one_site", "contract_one_site_multi_mpo"):
                multi = ast.unparse(v.func).endswith("multi_mpo")
                if len(v.args) < 4 or not (isinstance(v.args[0], ast.Name) and self.env.get("__cur__") == ("S", v.args[0].id)):
                    fail("contract: first argument is not the current tensor", s)
                a1 = v.args[1]
                if not (isinstance(a1, ast.Subscript) and ast.unparse(a1.value) == "mps"):
                    fail("contract: second argument is not mps[...]", s)
                site = self.expr(a1.slice)
                a2 = v.args[2]
                if multi:
                    ok = isinstance(a2, ast.ListComp) and isinstance(a2.elt, ast.Subscript) and \
                        ast.unparse(a2.elt.slice) == ast.unparse(a1.slice) and ast.unparse(a2.generators[0].iter) == "mpo"
                else:
                    ok = isinstance(a2, ast.Subscript) and ast.unparse(a2.value) == "mpo" and ast.unparse(a2.slice) == ast.unparse(a1.slice)
                if not ok:
                    fail("contract: operator site differs from state site", s)
                d = self.dom(v.args[3])
                rest = list(v.args[4:]) + [k.value for k in v.keywords]
                if len(rest) != 1 or not (isinstance(rest[0], ast.Subscript) and ast.unparse(rest[0].value) == "mps_conj"
                                          and ast.unparse(rest[0].slice) == ast.unparse(a1.slice)):
                    fail("contract: conjugate site argument", s)
                if site[0] != "Z":
                    fail("contract: site index", s)
                self.emit("OpExtend %s %s" % (d, site[1]))
                self.env["__cur__"] = ("S", cur)
                return True
            fail("assignment to tensor %s" % ast.unparse(v), s)
        # self.write(d, i, X)
        if isinstance(s, ast.Expr) and isinstance(s.value, ast.Call):
            c = s.value
            f = ast.unparse(c.func)
            if f == "self.write":
                if len(c.args) != 3 or c.keywords:
                    fail("self.write arguments", s)
                a2 = c.args[2]
                if ast.unparse(a2) == "self.sentinel":
                    self.emit("OpSentinel")
                elif not (isinstance(a2, ast.Name) and self.env.get("__cur__") == ("S", a2.id)):
                    fail("self.write: third argument is not the current tensor", s)
                i = self.expr(c.args[1])
                if i[0] != "Z":
                    fail("self.write index", s)
                self.emit("OpWrite %s %s" % (self.dom(c.args[0]), i[1]))
                return True
        # `if type(mpo) is list:` -- one or several operators: both branches must do the same disk operations
        if isinstance(s, ast.If) and ast.unparse(s.test) == "type(mpo) is list":
            a = self.copy()
            a.block(s.body)
            b = self.copy()
            b.block(s.orelse)
            if a.env != b.env or a.ret != b.ret or a.dead or b.dead:
                fail("list-of-operators branch differs from the single-operator branch", s)
            self.env, self.ret = a.env, a.ret
            return True
        return False


def tx_getlr(cls):
    f = find_func(cls, "GetLR")
    if argnames(f) != ["self", "domain", "siteidx", "mps", "mpo", "itensor", "method", "mps_conj"]:
        fail("GetLR signature", f)
    body = strip_doc(f.body)
    # 0-2: asserts and the mps_conj default
    pre = [ast.unparse(s) for s in body[:3]]
    want = ["assert domain in ['L', 'R']", "assert method in ['Enviro', 'System', 'Scratch']",
            "if mps_conj is None:\n    mps_conj = [None] * len(mps)"]
    if pre != want:
        fail("GetLR preamble changed: %r" % pre, f)
    s3 = body[3]
    if not (isinstance(s3, ast.If) and not s3.orelse and len(s3.body) == 1 and ast.unparse(s3.body[0]) == "return self.sentinel"):
        fail("GetLR range guard", s3)
    sym = Sym(names={"siteidx": Zv("siteidx"), "itensor": NONE},
              syms={"method": {"Scratch": "false", "Enviro": "(negb system)", "System": "system"},
                    "domain": {"L": "isL", "R": "(negb isL)"}},
              calls={"len(mps)": Zv("n")})
    g = OpsEx(sym)
    t3 = s3.test
    if not (isinstance(t3, ast.Compare) and len(t3.ops) == 1 and isinstance(t3.ops[0], ast.NotIn)):
        fail("GetLR range guard test", s3)
    guard = g.compare(t3, t3.left, ast.In(), t3.comparators[0])
    if len(body) != 6 or ast.unparse(body[5]) != "return itensor":
        fail("GetLR tail", f)
    main = body[4]
    if not isinstance(main, ast.If):
        fail("GetLR method dispatch", main)

    # dispatch chain  Scratch / Enviro / System  (no final else).  single_sweep never passes "Scratch"
    # (checked there), so the result is  if system then <System body> else <Enviro body>.
    chain = []
    cur = main
    while True:
        chain.append((ast.unparse(cur.test), cur.body))
        if len(cur.orelse) == 1 and isinstance(cur.orelse[0], ast.If):
            cur = cur.orelse[0]
            continue
        if cur.orelse:
            fail("GetLR method dispatch has a final else", cur)
        break
    if [c[0] for c in chain] != ["method == 'Scratch'", "method == 'Enviro'", "method == 'System'"]:
        fail("GetLR method dispatch: %r" % [c[0] for c in chain], main)
    runs = []
    for _, blk in chain[1:]:
        e = OpsEx(sym)
        e.env["__ops__"] = ("OPS", "[]")
        e.env["itensor"] = NONE
        e.block(blk)
        if e.dead or e.ret is not None or e.env.get("__cur__") != ("S", "itensor"):
            fail("GetLR branch does not end with the tensor it read/contracted in hand", main)
        extra = set(e.env) - {"__ops__", "__cur__", "itensor", "offset"}
        if extra:
            fail("GetLR branch assigns %s" % sorted(extra), main)
        runs.append(e.env["__ops__"][1])
    ex = OpsEx(sym)
    ex.env["__ops__"] = ("OPS", ite("system", runs[1], runs[0]))
    ex.env["__cur__"] = ("S", "itensor")
    if ex.dead or ex.ret is not None:
        fail("GetLR control flow", f)
    if ex.env.get("__cur__") != ("S", "itensor"):
        fail("GetLR does not return the tensor it read/contracted", f)
    return guard[1], ex.env["__ops__"][1]


def tx_construct(cls):
    f = find_func(cls, "_construct")
    if argnames(f) != ["self", "mps", "mpo", "domain", "mps_conj"]:
        fail("_construct signature", f)
    body = strip_doc(f.body)
    texts = [ast.unparse(s) for s in body]
    if texts[0] != "assert domain in ['L', 'R', None]" or texts[1] != "if mps_conj is None:\n    mps_conj = mps.conj()":
        fail("_construct preamble", f)
    if not (isinstance(body[2], ast.If) and ast.unparse(body[2].test) == "domain is None" and isinstance(body[2].body[-1], ast.Return)
            and not body[2].orelse):
        fail("_construct: `domain is None` branch", body[2])
    sent = {}
    for nm in ("write_l_sentinel", "write_r_sentinel"):
        g = find_func(cls, nm)
        b = strip_doc(g.body)
        if len(b) != 1:
            fail(nm, g)
        sent["self.%s(mps)" % nm] = b[0]
    sym = Sym(syms={"domain": {"L": "isL", "R": "(negb isL)"}}, calls={"len(mps)": Zv("n")})

    class C(OpsEx):
        loop = None

        def special(self, s):
            t = ast.unparse(s)
            if t in sent:
                return OpsEx.special(self, sent[t])
            if isinstance(s, ast.For):
                if C.loop is not None or s.orelse or not isinstance(s.target, ast.Name):
                    fail("_construct loop", s)
                rng = self.expr(s.iter)
                if rng[0] != "RANGE":
                    fail("_construct loop range", s)
                inner = C(Sym(names={s.target.id: Zv("idx")}, syms=sym.syms, calls=sym.calls))
                inner.env["__ops__"] = ("OPS", "[]")
                inner.env["__cur__"] = self.env.get("__cur__")
                inner.block(s.body)
                if inner.dead or inner.ret is not None or inner.env.get("__cur__") != self.env.get("__cur__"):
                    fail("_construct loop body", s)
                C.loop = ([v[1] for v in rng[1]], inner.env["__ops__"][1])
                return True
            return OpsEx.special(self, s)
    ex = C(sym)
    ex.env["__ops__"] = ("OPS", "[]")
    ex.block(body[3:])
    if ex.dead or ex.ret is not None or C.loop is None:
        fail("_construct control flow", f)
    if not isinstance(body[-1], ast.For):
        fail("_construct: statements after the loop", f)
    return ex.env["__ops__"][1], C.loop[0], C.loop[1]


# ----------------------------------------------------------------------------- gs.py
class MethodEx(Ex):
    """lmethod/rmethod are string constants: carry them as the boolean `== "System"`"""

    def expr(self, n):
        if isinstance(n, ast.Constant) and isinstance(n.value, str) and n.value in ("System", "Enviro"):
            return Bv("true" if n.value == "System" else "false")
        return Ex.expr(self, n)


def tx_single_sweep(tree):
    f = find_func(tree, "single_sweep")
    if argnames(f) != ["mps", "mpo", "environ", "omega", "percent", "last_opt_e_idx"]:
        fail("single_sweep signature", f)
    body = strip_doc(f.body)
    pre = {ast.unparse(s) for s in body if isinstance(s, ast.Assign)}
    if "method = mps.optimize_config.method" not in pre:
        fail("single_sweep: `method` is not mps.optimize_config.method", f)
    loops = [s for s in body if isinstance(s, ast.For)]
    if len(loops) != 1:
        fail("single_sweep: expected one loop", f)
    loop = loops[0]
    if ast.unparse(loop.target) != "imps" or ast.unparse(loop.iter) != "mps.iter_idx_list(full=True)" or loop.orelse:
        fail("single_sweep loop header: %s" % ast.unparse(loop.iter), loop)
    k = body.index(loop)
    if k + 1 >= len(body) or ast.unparse(body[k + 1]) != "mps._switch_direction()":
        fail("single_sweep: no _switch_direction right after the loop", f)
    for s in body[:k] + body[k + 2:]:
        for t in stores_in(s):
            if t.startswith("mps[") or t.startswith("mps."):
                fail("single_sweep stores %s outside the loop" % t, s)
        for nm in ("GetLR", "read", "write", "_update_mps", "_switch_direction", "_construct"):
            if calls_in(s, nm):
                fail("single_sweep calls %s outside the loop" % nm, s)
    tracked = ("lmethod", "rmethod", "lidx", "cidx", "ridx")
    lb = loop.body
    # no continue / return / nested break except the first statement
    for s in lb[1:]:
        for n in ast.walk(s):
            if isinstance(n, (ast.Break, ast.Continue, ast.Return)):
                fail("control transfer inside the sweep loop", n)
    first = lb[0]
    if not (isinstance(first, ast.If) and not first.orelse and len(first.body) == 1 and isinstance(first.body[0], ast.Break)):
        fail("first loop statement is not `if ...: break`", first)
    sym = Sym(names={"imps": Zv("imps")}, attrs={"mps.to_right": Bv("to_right"), "mps.site_num": Zv("n")},
              syms={"method": {"1site": "(negb two)", "2site": "two"}})
    ex = MethodEx(sym)
    brk = ex.expr(first.test)
    if brk[0] != "B":
        fail("break condition", first)
    getlr_stmt = None
    upd_seen = False
    solve_seen = False
    for s in lb[1:]:
        st = stores_in(s)
        touches = [t for t in st if t in tracked]
        gl = calls_in(s, "GetLR")
        up = calls_in(s, "_update_mps")
        if any(t.startswith("mps[") or t in ("mps.qnidx", "mps.to_right") or t == "environ" or t.startswith("environ[") or t.startswith("environ.") for t in st):
            fail("loop body stores %s" % st, s)
        if calls_in(s, "read") or calls_in(s, "write") or calls_in(s, "_switch_direction") or calls_in(s, "__setitem__"):
            fail("loop body touches the environment store / gauge directly", s)
        if gl:
            if getlr_stmt is not None or touches or upd_seen:
                fail("GetLR calls in more than one statement", s)
            getlr_stmt = s
            continue
        if touches:
            if getlr_stmt is not None:
                fail("%s reassigned after the environments were fetched" % touches, s)
            ex.stmt(s)
            continue
        if any(isinstance(c, ast.Call) and ast.unparse(c.func) in ("eigh_direct", "eigh_iterative") for c in ast.walk(s)):
            if getlr_stmt is None or upd_seen:
                fail("eigensolver call out of place", s)
            solve_seen = True
        if up:
            # the result copy (res_mps = mps.copy(); res_mps._update_mps) works on copies; the sweep state is updated once
            mine = [c for c in up if ast.unparse(c.func.value) == "mps"]
            for c in up:
                if ast.unparse(c.func.value) not in ("mps", "res_mps", "res_mps[iroot]"):
                    fail("_update_mps on %s" % ast.unparse(c.func.value), s)
            if mine:
                if upd_seen or len(mine) != 1 or not solve_seen or not isinstance(s, ast.Assign):
                    fail("_update_mps of the sweep state called more than once / before the solve", s)
                a = [ast.unparse(x) for x in mine[0].args]
                if a[:2] != ["cstruct", "cidx"] or mine[0].keywords:
                    fail("_update_mps arguments %s" % a, s)
                upd_seen = True
    if getlr_stmt is None or not upd_seen or not solve_seen:
        fail("single_sweep: GetLR / solve / _update_mps not found", loop)
    for v in tracked:
        if ex.env.get(v) is None:
            fail("%s not defined on every path" % v, loop)
    # the GetLR statement: if isinstance(mpo, StackedMpo): [list comps] else: two plain calls
    s = getlr_stmt
    if not (isinstance(s, ast.If) and ast.unparse(s.test) == "isinstance(mpo, StackedMpo)"):
        fail("GetLR statement shape", s)

    def seq(stmts):
        out = []
        for st_ in stmts:
            if not (isinstance(st_, ast.Assign) and len(st_.targets) == 1):
                fail("GetLR branch statement", st_)
            cs = calls_in(st_, "GetLR")
            if len(cs) != 1:
                fail("GetLR calls per statement", st_)
            c = cs[0]
            kw = {k.arg: ast.unparse(k.value) for k in c.keywords}
            if len(c.args) != 4 or set(kw) != {"itensor", "method"} or kw["itensor"] != "None":
                fail("GetLR call arguments", c)
            if ast.unparse(c.args[2]) != "mps":
                fail("GetLR state argument", c)
            d = c.args[0]
            if not (isinstance(d, ast.Constant) and d.value in ("L", "R")):
                fail("GetLR domain literal", c)
            out.append((ast.unparse(st_.targets[0]), d.value, ast.unparse(c.args[1]), kw["method"]))
        return out
    a, b = seq(s.body), seq(s.orelse)
    if a != b:
        fail("stacked / plain GetLR sequences differ", s)
    if sorted(x[0] for x in b) != ["ltensor", "rtensor"]:
        fail("GetLR targets", s)
    order = []
    for tgt, d, iv, mv in b:
        if (tgt, d, iv, mv) not in (("ltensor", "L", "lidx", "lmethod"), ("rtensor", "R", "ridx", "rmethod")):
            fail("GetLR call %r" % ((tgt, d, iv, mv),), s)
        order.append("true" if d == "L" else "false")
    res = {"break": brk[1], "order": order}
    for nm in ("lmethod", "rmethod"):
        if ex.env[nm][0] != "B":
            fail("%s is not a System/Enviro constant on every path" % nm, loop)
        res[nm] = ex.env[nm][1]
    res["lidx"], res["ridx"] = ex.env["lidx"], ex.env["ridx"]
    res["cidx"] = ex.env["cidx"]
    return res


def tx_optimize_mps(tree):
    f = find_func(tree, "optimize_mps")
    body = strip_doc(f.body)
    gauge = [s for s in body if isinstance(s, ast.If) and ast.unparse(s.test) == "mps.is_left_canonical"]
    if len(gauge) != 1:
        fail("optimize_mps: gauge preparation", f)
    g = gauge[0]
    if [ast.unparse(s) for s in g.body] != ["mps.ensure_right_canonical()", "env = 'R'"] or \
            [ast.unparse(s) for s in g.orelse] != ["mps.ensure_left_canonical()", "env = 'L'"]:
        fail("optimize_mps: gauge branches changed", g)
    k = body.index(g)
    envs = [c for s in body[k + 1:] for c in ast.walk(s) if isinstance(c, ast.Call) and ast.unparse(c.func) == "Environ"]
    if not envs:
        fail("optimize_mps: no Environ constructed", f)
    for c in envs:
        if len(c.args) != 3 or ast.unparse(c.args[0]) != "mps" or ast.unparse(c.args[2]) != "env" or c.keywords:
            fail("Environ(...) arguments: %s" % ast.unparse(c), c)
    for s in body[k + 1:]:
        if "env" in stores_in(s):
            fail("env reassigned", s)
    loops = [s for s in body if isinstance(s, ast.For)]
    if len(loops) != 1 or "mps.optimize_config.procedure" not in ast.unparse(loops[0].iter):
        fail("optimize_mps: sweep loop", f)
    calls = [c for c in ast.walk(loops[0]) if isinstance(c, ast.Call) and ast.unparse(c.func) == "single_sweep"]
    if len(calls) != 1 or [ast.unparse(a) for a in calls[0].args][:3] != ["mps", "mpo", "environ"]:
        fail("optimize_mps: single_sweep call", loops[0])
    for s in loops[0].body:
        for t in stores_in(s):
            if t.startswith("mps[") or t in ("mps.qnidx", "mps.to_right"):
                fail("optimize_mps loop stores %s" % t, s)
        for nm in ("_switch_direction", "canonicalise", "ensure_left_canonical", "ensure_right_canonical", "GetLR", "write"):
            if calls_in(s, nm):
                fail("optimize_mps loop calls %s" % nm, s)
    # Environ.__init__ -> _construct(mps, mpo, domain, mps_conj)
    return "(if input_left_canonical then false else true)"


def tx_environ_init(cls):
    f = find_func(cls, "__init__")
    if argnames(f) != ["self", "mps", "mpo", "domain", "mps_conj"]:
        fail("Environ.__init__ signature", f)
    cs = calls_in(f, "_construct")
    if len(cs) != 1 or [ast.unparse(a) for a in cs[0].args] != ["mps", "mpo", "domain", "mps_conj"]:
        fail("Environ.__init__ does not call _construct(mps, mpo, domain, mps_conj) once", f)
    for c in calls_in(f, "write") + calls_in(f, "read"):
        fail("Environ.__init__ touches the store directly", c)


# ----------------------------------------------------------------------------- tree optimiser: pinned sources
# Model/TreeOpt.v is a hand model of these functions (tied by event traces).  Their statement structure is pinned:
# any change makes the translation fail closed, so that the model is looked at again.
import hashlib

TREE_PINS = {
    "gs.optimize_recursion": "4781d9225458c0cf",
    "tree.TTNEnviron.__init__": "f8f631fe561a1d64",
    "tree.TTNEnviron.build_children_environ": "e07383636bdb794d",
    "tree.TTNEnviron.build_parent_environ": "82cb96e35b0f2bca",
    "tree.TTNEnviron.update_2site": "6e12b4125237be57",
    "tree.TTNEnviron.build_children_environ_node": "83601f664f03322d",
    "tree.TTNEnviron.build_parent_environ_node": "f6a15cebb4c2c507",
    "hop_expr.hop_expr2": "f27d4752172baf22",
    "treebase.Tree.__init__": "867c65a07f3379c8",
    "treebase.Tree.preorder_list": "c596630c9aefa1ad",
    "treebase.Tree.postorder_list": "aeef8deb561a51da",
}


def body_hash(f):
    return hashlib.sha1("\n".join(ast.dump(st) for st in strip_doc(f.body)).encode()).hexdigest()[:16]


def pin_tree(repo):
    base = repo + "/renormalizer/tn/"
    mods = {nm: ast.parse(open(base + nm + ".py").read()) for nm in ("gs", "tree", "hop_expr", "treebase")}
    changed = []
    for key, want in TREE_PINS.items():
        parts = key.split(".")
        mod = mods[parts[0]]
        f = find_func(find_class(mod, parts[1]), parts[2]) if len(parts) == 3 else find_func(mod, parts[1])
        if body_hash(f) != want:
            changed.append(key)
    if changed:
        fail("tree optimiser sources changed (Model/TreeOpt.v must be re-validated): " + ", ".join(changed))
    # optimize_ttns: one cache, built before the loop; one optimize_recursion(root) per procedure entry; nothing else touches the cache
    f = find_func(mods["gs"], "optimize_ttns")
    body = strip_doc(f.body)
    loops = [st for st in body if isinstance(st, ast.For)]
    if len(loops) != 1 or ast.unparse(loops[0].iter) != "procedure":
        fail("optimize_ttns: sweep loop", f)
    k = body.index(loops[0])
    cons = [c for st in body[:k] for c in ast.walk(st) if isinstance(c, ast.Call) and ast.unparse(c.func) == "TTNEnviron"]
    if len(cons) != 1 or [ast.unparse(a) for a in cons[0].args] != ["ttns", "ttno"] or cons[0].keywords:
        fail("optimize_ttns: TTNEnviron(ttns, ttno) must be built once before the loop", f)
    rec = [c for c in ast.walk(loops[0]) if isinstance(c, ast.Call) and ast.unparse(c.func) == "optimize_recursion"]
    if len(rec) != 1 or [ast.unparse(a) for a in rec[0].args][:4] != ["ttns.root", "ttns", "ttno", "ttne"]:
        fail("optimize_ttns: optimize_recursion call", loops[0])
    for st in body:
        for c in ast.walk(st):
            if isinstance(c, ast.Call) and isinstance(c.func, ast.Attribute) and ast.unparse(c.func.value) == "ttne":
                fail("optimize_ttns touches the environment cache directly: %s" % ast.unparse(c), c)
            if isinstance(c, ast.Call) and ast.unparse(c.func) in ("TTNEnviron",) and st in body[k:]:
                fail("optimize_ttns rebuilds the cache inside / after the loop", c)
    # optimize_2site reads the cache only through hop_expr2
    f = find_func(mods["gs"], "optimize_2site")
    hops = [c for c in ast.walk(f) if isinstance(c, ast.Call) and ast.unparse(c.func) == "hop_expr2"]
    if len(hops) != 1 or [ast.unparse(a) for a in hops[0].args] != ["snode", "ttns", "ttno", "ttne"]:
        fail("optimize_2site: hop_expr2(snode, ttns, ttno, ttne)", f)
    for c in ast.walk(f):
        if isinstance(c, ast.Attribute) and ast.unparse(c.value) == "ttne":
            fail("optimize_2site touches the cache directly", c)
    # TTNS.update_2site stores the node tensor, then the parent tensor
    f = find_func(find_class(mods["tree"], "TTNS"), "update_2site")
    stores = [ast.unparse(t) for st in ast.walk(f) if isinstance(st, ast.Assign) for t in st.targets if isinstance(t, ast.Attribute) and t.attr == "tensor"]
    if stores != ["node.tensor", "parent.tensor"]:
        fail("TTNS.update_2site tensor stores: %r" % stores, f)


# ----------------------------------------------------------------------------- eigen-solver dispatch
# Which eigenpair does every solver branch ask for?  algo string -> routine and its selection argument:
#   davidson(...)                 the package's Davidson: eigh of the subspace matrix, `e = w[:nroots]` unless a `pick` is passed
#   primme.eigsh / scipy...eigsh  which = <literal>
#   scipy.linalg.eigh / np.linalg.eigh followed by  e = w[0] / w[:nroots], c = v[:, 0] / v[:, iroot]   index 0 of the ascending spectrum
def _branches(ifnode, var):
    out = []
    cur = ifnode
    while True:
        t = cur.test
        if not (isinstance(t, ast.Compare) and len(t.ops) == 1 and isinstance(t.ops[0], ast.Eq) and ast.unparse(t.left) == var
                and isinstance(t.comparators[0], ast.Constant) and isinstance(t.comparators[0].value, str)):
            fail("solver dispatch test %s" % ast.unparse(t), cur)
        out.append((t.comparators[0].value, cur.body))
        if len(cur.orelse) == 1 and isinstance(cur.orelse[0], ast.If):
            cur = cur.orelse[0]
            continue
        if [ast.unparse(x) for x in cur.orelse] != ["assert False"]:
            fail("solver dispatch must end with `else: assert False`", cur)
        return out


def _selector(body, what):
    calls = [c for st in body for c in ast.walk(st) if isinstance(c, ast.Call)]
    names = [ast.unparse(c.func) for c in calls]
    dav = [c for c in calls if ast.unparse(c.func) == "davidson"]
    eigsh = [c for c in calls if ast.unparse(c.func) in ("primme.eigsh", "scipy.sparse.linalg.eigsh")]
    eigh = [c for c in calls if ast.unparse(c.func) in ("np.linalg.eigh", "scipy.linalg.eigh")]
    if len(dav) + len(eigsh) + len(eigh) != 1:
        fail("%s: expected exactly one eigen-solver call, got %s" % (what, names))
    if dav:
        kws = {k.arg for k in dav[0].keywords}
        if "pick" in kws or len(dav[0].args) > 3:
            fail("%s: davidson called with a `pick` / extra positional arguments" % what, dav[0])
        return "SelDavidson"
    if eigsh:
        kw = {k.arg: k.value for k in eigsh[0].keywords}
        if "which" not in kw or not (isinstance(kw["which"], ast.Constant) and isinstance(kw["which"].value, str)):
            fail("%s: eigsh without a literal which=" % what, eigsh[0])
        if "sigma" in kw:
            fail("%s: eigsh in shift-invert mode" % what, eigsh[0])
        return 'SelWhich "%s"%%string' % kw["which"].value
    # dense eigh: the results must be taken from index 0 on
    tg = [ast.unparse(t) for st in body for n in ast.walk(st) if isinstance(n, ast.Assign) for t in n.targets if ast.unparse(n.value) == ast.unparse(eigh[0])]
    if len(tg) != 1 or "," not in tg[0]:
        fail("%s: eigh result not unpacked into (values, vectors)" % what, eigh[0])
    wn, vn = [x.strip() for x in tg[0].strip("()").split(",")]
    idx = set()
    for st in body:
        for n in ast.walk(st):
            if isinstance(n, ast.Subscript) and isinstance(n.value, ast.Name) and n.value.id in (wn, vn) and isinstance(n.ctx, ast.Load):
                t = ast.unparse(n.slice)
                ok = {wn: {"0": 0, ":nroots": 0}, vn: {"(:, 0)": 0, ":, 0": 0, "(:, iroot)": 0, ":, iroot": 0}}[n.value.id]
                if t not in ok:
                    fail("%s: eigen-pair taken from %s[%s]" % (what, n.value.id, t), n)
                idx.add(ok[t])
    if idx != {0}:
        fail("%s: eigh results not used" % what)
    return "SelEighIndex 0%nat"


def tx_solvers(repo):
    tgs = ast.parse(open(repo + "/renormalizer/tn/gs.py").read())
    f = find_func(tgs, "eigh_iterative")
    ifs = [st for st in strip_doc(f.body) if isinstance(st, ast.If) and "algo ==" in ast.unparse(st.test)]
    if len(ifs) != 1:
        fail("tn.gs.eigh_iterative dispatch", f)
    tree = [(a, _selector(b, "tn.gs.eigh_iterative[%s]" % a)) for a, b in _branches(ifs[0], "algo")]
    cgs = ast.parse(open(repo + "/renormalizer/mps/gs.py").read())
    f = find_func(cgs, "eigh_iterative")
    ifs = [st for st in strip_doc(f.body) if isinstance(st, ast.If) and "algo ==" in ast.unparse(st.test)]
    if len(ifs) != 1:
        fail("mps.gs.eigh_iterative dispatch", f)
    chain = [(a, _selector(b, "mps.gs.eigh_iterative[%s]" % a)) for a, b in _branches(ifs[0], "algo")]
    f = find_func(cgs, "eigh_direct")
    direct = _selector(strip_doc(f.body), "mps.gs.eigh_direct")
    # iter_idx for the state-averaged list comprehension: iroot ranges from 0
    lcs = [n for n in ast.walk(f) if isinstance(n, ast.ListComp)]
    for lc in lcs:
        if "iroot" in ast.unparse(lc) and not ast.unparse(lc.generators[0].iter).startswith("range(min(nroots"):
            fail("mps.gs.eigh_direct: roots not taken from index 0", lc)
    # the package's Davidson: lowest Ritz values unless `pick` is given
    dv = ast.parse(open(repo + "/renormalizer/lib/davidson/davidson.py").read())
    d1 = find_func(dv, "davidson1")
    txt = [ast.unparse(st) for st in ast.walk(d1) if isinstance(st, ast.Assign)]
    if "(w, v) = scipy.linalg.eigh(heff[:space, :space])" not in txt and "w, v = scipy.linalg.eigh(heff[:space, :space])" not in txt:
        fail("davidson1: subspace diagonalisation changed", d1)
    if "e = w[:nroots]" not in txt:
        fail("davidson1: Ritz values are not the lowest nroots", d1)
    defaults = dict(zip([a.arg for a in d1.args.args][-len(d1.args.defaults):], d1.args.defaults))
    if ast.unparse(defaults.get("pick")) != "None":
        fail("davidson1: default `pick` is not None", d1)
    return tree, chain, direct


# ----------------------------------------------------------------------------- bond limit looked up by _update_mps; uses of `inverse`
def tx_mtrunc(repo):
    """(single-state, state-averaged) x (to_right, to_left): the site index handed to compute_m_trunc; _fixed_m_trunc's bond"""
    mp = ast.parse(open(repo + "/renormalizer/mps/mp.py").read())
    f = find_func(find_class(mp, "MatrixProduct"), "_update_mps")
    found = []
    for n in ast.walk(f):
        if isinstance(n, ast.If) and ast.unparse(n.test) == "self.to_right":
            cb = [c for st in n.body for c in ast.walk(st) if isinstance(c, ast.Call) and isinstance(c.func, ast.Attribute) and c.func.attr == "compute_m_trunc"]
            co = [c for st in n.orelse for c in ast.walk(st) if isinstance(c, ast.Call) and isinstance(c.func, ast.Attribute) and c.func.attr == "compute_m_trunc"]
            if cb or co:
                if len(cb) != 1 or len(co) != 1:
                    fail("_update_mps: compute_m_trunc calls per direction", n)
                found.append((n.lineno, cb[0], co[0]))
    allc = [c for c in ast.walk(f) if isinstance(c, ast.Call) and isinstance(c.func, ast.Attribute) and c.func.attr == "compute_m_trunc"]
    if len(found) != 2 or len(allc) != 4:
        fail("_update_mps: expected the bond limit to be looked up in two `if self.to_right` statements (single state, state averaged)", f)
    found.sort()

    def idx(c):
        if len(c.args) != 3 or c.keywords or ast.unparse(c.args[2]) != "self.to_right" or ast.unparse(c.func.value) != "self.compress_config":
            fail("compute_m_trunc arguments: %s" % ast.unparse(c), c)
        t = ast.unparse(c.args[1])
        tab = {"cidx[0]": "(nth 0 cidx dead)", "cidx[1]": "(nth 1 cidx dead)", "cidx[-1]": "(last cidx dead)"}
        if t not in tab:
            fail("compute_m_trunc site index %s" % t, c)
        return tab[t]
    out = ["(if to_right then %s else %s)" % (idx(a), idx(b)) for _, a, b in found]
    cf = ast.parse(open(repo + "/renormalizer/utils/configs.py").read())
    g = find_func(find_class(cf, "CompressConfig"), "_fixed_m_trunc")
    if argnames(g) != ["self", "sigma", "idx", "left"]:
        fail("_fixed_m_trunc signature", g)
    body = [ast.unparse(st) for st in strip_doc(g.body)]
    if body[-1] != "return min(self.max_dims[bond_idx], len(sigma))":
        fail("_fixed_m_trunc return", g)
    asg = [st for st in strip_doc(g.body) if isinstance(st, ast.Assign) and ast.unparse(st.targets[0]) == "bond_idx"]
    if len(asg) != 1:
        fail("_fixed_m_trunc bond_idx", g)
    ex = Ex(Sym(names={"idx": Zv("idx"), "left": Bv("left")}))
    v = ex.expr(asg[0].value)
    if v[0] != "Z":
        fail("_fixed_m_trunc bond_idx expression", g)
    h = find_func(find_class(cf, "CompressConfig"), "compute_m_trunc")
    calls = [c for c in ast.walk(h) if isinstance(c, ast.Call) and ast.unparse(c.func) == "self._fixed_m_trunc"]
    if not calls or any([ast.unparse(a) for a in c.args] != ["sigma", "idx", "left"] for c in calls):
        fail("compute_m_trunc -> _fixed_m_trunc arguments", h)
    return out[0], out[1], v[1]


def tx_inverse(repo):
    """is the local operator multiplied by optimize_config.inverse where it is handed to a solver? (dense matrix, diagonal, matvec)"""
    gs = ast.parse(open(repo + "/renormalizer/mps/gs.py").read())

    def has_inv_def(f):
        return any(isinstance(st, ast.Assign) and ast.unparse(st) == "inverse = mps.optimize_config.inverse" for st in ast.walk(f))
    fd = find_func(gs, "eigh_direct")
    eighs = [c for c in ast.walk(fd) if isinstance(c, ast.Call) and ast.unparse(c.func) == "scipy.linalg.eigh"]
    if len(eighs) != 1 or len(eighs[0].args) != 1:
        fail("eigh_direct: dense solver call", fd)
    dense = has_inv_def(fd) and ast.unparse(eighs[0].args[0]) in ("asnumpy(ham) * inverse", "inverse * asnumpy(ham)", "asnumpy(ham * inverse)")
    fi = find_func(gs, "get_ham_iterative")
    hd = [st for st in strip_doc(fi.body) if isinstance(st, ast.Assign) and ast.unparse(st.targets[0]) == "hdiag" and "qn_mask" in ast.unparse(st.value)]
    if len(hd) != 1:
        fail("get_ham_iterative: masked diagonal", fi)
    diag = has_inv_def(fi) and ast.unparse(hd[0].value) in ("asnumpy(hdiag[qn_mask] * inverse)", "asnumpy(inverse * hdiag[qn_mask])", "asnumpy(hdiag[qn_mask]) * inverse")
    fe = find_func(gs, "eigh_iterative")
    hops = [n for n in ast.walk(fe) if isinstance(n, ast.FunctionDef) and n.name == "hop"]
    if len(hops) != 1:
        fail("eigh_iterative: inner hop", fe)
    co = [st for st in ast.walk(hops[0]) if isinstance(st, ast.Assign) and ast.unparse(st.targets[0]) == "cout"]
    if len(co) != 1 or "expr(cstruct)" not in ast.unparse(co[0].value):
        fail("eigh_iterative.hop: product", hops[0])
    matvec = has_inv_def(fe) and ast.unparse(co[0].value) in ("expr(cstruct) * inverse", "inverse * expr(cstruct)")
    return dense, diag, matvec


# ----------------------------------------------------------------------------- the operator of the omega branch
def tx_omega_operator(repo):
    """optimize_mps, `if omega is not None:` -- the operator whose two layers are contracted, as an expression in the GIVEN mpo"""
    gs = ast.parse(open(repo + "/renormalizer/mps/gs.py").read())
    f = find_func(gs, "optimize_mps")
    br = [st for st in strip_doc(f.body) if isinstance(st, ast.If) and ast.unparse(st.test) == "omega is not None"]
    if len(br) != 1:
        fail("optimize_mps: omega branch", f)
    env = {"mpo": "OGiven"}

    def coef(n):
        t = ast.unparse(n)
        if t == "-omega":
            return "CNegOmega"
        if t == "omega":
            return "COmega"
        fail("omega branch: coefficient %s" % t, n)

    def ev(n):
        if isinstance(n, ast.Name):
            if n.id not in env:
                fail("omega branch: unbound %s" % n.id, n)
            return env[n.id]
        if isinstance(n, ast.Call):
            fn = ast.unparse(n.func)
            if fn == "Mpo.identity" and [ast.unparse(a) for a in n.args] == ["mpo.model"] and not n.keywords and env["mpo"] == "OGiven":
                return "OIdentity"
            if isinstance(n.func, ast.Attribute) and n.func.attr == "scale" and len(n.args) == 1 and not n.keywords:
                return "(OScale %s %s)" % (coef(n.args[0]), ev(n.func.value))
            if isinstance(n.func, ast.Attribute) and n.func.attr == "add" and len(n.args) == 1 and not n.keywords:
                return "(OAdd %s %s)" % (ev(n.func.value), ev(n.args[0]))
            if fn == "Mpo" and len(n.args) >= 1 and ast.unparse(n.args[0]) == "mpo.model":
                # rebuilt from the model of the given operator: does not depend on the given operator
                kw = {k.arg: k.value for k in n.keywords}
                if len(n.args) == 1 and set(kw) <= {"offset"}:
                    off = kw.get("offset")
                    if off is None:
                        return "(OModel CZero)"
                    if isinstance(off, ast.Call) and ast.unparse(off.func) == "Quantity" and len(off.args) == 1:
                        return "(OModel %s)" % coef(off.args[0])
            fail("omega branch: operator expression %s" % ast.unparse(n), n)
        fail("omega branch: operator expression %s" % ast.unparse(n), n)
    seen_env = False
    for st in br[0].body:
        if isinstance(st, ast.If) and "StackedMpo" in ast.unparse(st.test):
            continue
        if isinstance(st, ast.Assign) and len(st.targets) == 1 and isinstance(st.targets[0], ast.Name):
            nm = st.targets[0].id
            if nm == "environ":
                if ast.unparse(st.value) != "Environ(mps, [mpo, mpo], env)":
                    fail("omega branch: environments are not built from two layers of the shifted operator", st)
                seen_env = True
                continue
            if seen_env:
                fail("omega branch: assignment after the environments", st)
            env[nm] = ev(st.value)
            continue
        fail("omega branch: statement %s" % ast.unparse(st)[:60], st)
    if not seen_env:
        fail("omega branch: no Environ", br[0])
    # single_sweep hands [mpo, mpo] of the SAME (returned) operator to GetLR
    ss = find_func(gs, "single_sweep")
    if "operator = [mpo, mpo]" not in [ast.unparse(x) for x in ast.walk(ss) if isinstance(x, ast.Assign)]:
        fail("single_sweep: two-layer operator", ss)
    return env["mpo"]


# ----------------------------------------------------------------------------- rendering
def render(d):
    o = []
    a = o.append
    a("(* GENERATED by tx/sweepsched.py from renormalizer/mps/{gs,mp,lib}.py -- do not edit *)")
    a("From Coq Require Import ZArith List Bool String.")
    a("Import ListNotations.")
    a("Local Open Scope Z_scope.")
    a("Local Open Scope bool_scope.")
    a("")
    a("Definition dead : Z := -1000.   (* value of an index on a path the source marks `assert False` / never defines *)")
    a("")
    a("(* disk operations of Environ on the tensor in hand; the bool is the domain, true = \"L\" *)")
    a("Inductive eop := OpSentinel | OpRead (d : bool) (i : Z) | OpExtend (d : bool) (site : Z) | OpWrite (d : bool) (i : Z).")
    a("")
    a("(* mp.py MatrixProduct.iter_idx_list(full=True) = range(start, stop, step) *)")
    a("Definition iter_start (to_right : bool) (n qnidx : Z) : Z := %s." % d["iter"][0])
    a("Definition iter_stop (to_right : bool) (n qnidx : Z) : Z := %s." % d["iter"][1])
    a("Definition iter_step (to_right : bool) (n qnidx : Z) : Z := %s." % d["iter"][2])
    a("")
    a("(* mp.py MatrixProduct._switch_direction *)")
    a("Definition switch_qnidx (to_right : bool) (n qnidx : Z) : Z := %s." % d["switch"][0])
    a("Definition switch_to_right (to_right : bool) : bool := %s." % d["switch"][1])
    a("")
    a("(* gs.py single_sweep: loop body up to the two GetLR calls *)")
    a("Definition sweep_break (two to_right : bool) (n imps : Z) : bool := %s." % d["sweep"]["break"])
    a("Definition sweep_lsystem (two to_right : bool) : bool := %s.   (* lmethod == \"System\" *)" % d["sweep"]["lmethod"])
    a("Definition sweep_rsystem (two to_right : bool) : bool := %s.   (* rmethod == \"System\" *)" % d["sweep"]["rmethod"])
    a("Definition sweep_lidx (two to_right : bool) (n imps : Z) : Z := %s." % d["sweep"]["lidx"][1])
    a("Definition sweep_cidx (two to_right : bool) (n imps : Z) : list Z := %s." % zlist(d["sweep"]["cidx"]))
    a("Definition sweep_ridx (two to_right : bool) (n imps : Z) : Z := %s." % d["sweep"]["ridx"][1])
    a("(* order of the GetLR calls; true = GetLR(\"L\", lidx, method=lmethod), false = GetLR(\"R\", ridx, method=rmethod) *)")
    a("Definition sweep_getlr_order : list bool := [%s]." % "; ".join(d["sweep"]["order"]))
    a("")
    a("(* lib.py Environ.GetLR(domain, siteidx, ..., itensor=None, method): the sentinel is returned without disk access")
    a("   unless getlr_inrange; otherwise these operations run and the tensor in hand is returned *)")
    a("Definition getlr_inrange (n siteidx : Z) : bool := %s." % d["getlr"][0])
    a("Definition getlr_ops (isL system : bool) (n siteidx : Z) : list eop := %s." % d["getlr"][1])
    a("")
    a("(* lib.py Environ._construct(mps, mpo, domain): operations before the loop, the loop range, the loop body *)")
    a("Definition cons_pre (isL : bool) (n : Z) : list eop := %s." % d["cons"][0])
    a("Definition cons_start (isL : bool) (n : Z) : Z := %s." % d["cons"][1][0])
    a("Definition cons_stop (isL : bool) (n : Z) : Z := %s." % d["cons"][1][1])
    a("Definition cons_step (isL : bool) (n : Z) : Z := %s." % d["cons"][1][2])
    a("Definition cons_body (isL : bool) (n idx : Z) : list eop := %s." % d["cons"][2])
    a("")
    a("(* gs.py optimize_mps: a left-canonical input is made right-canonical and the \"R\" environments are built, else \"L\" *)")
    a("Definition init_env_isL (input_left_canonical : bool) : bool := %s." % d["init"])
    a("")
    a("(* eigen-solver dispatch: which eigenpair every branch asks for (tn/gs.py eigh_iterative, mps/gs.py eigh_iterative / eigh_direct).")
    a("   SelDavidson: the package's Davidson with its default selection (lowest Ritz values: `e = w[:nroots]` after an ascending eigh, no `pick`);")
    a("   SelWhich w: ARPACK / PRIMME eigsh(which = w);  SelEighIndex i: dense eigh (ascending), eigenpairs taken from index i on *)")
    a("Inductive selector := SelDavidson | SelWhich (w : String.string) | SelEighIndex (i : nat).")
    a("Definition tree_solvers : list (String.string * selector) := [%s]." % "; ".join('("%s"%%string, %s)' % x for x in d["solvers"][0]))
    a("Definition chain_iter_solvers : list (String.string * selector) := [%s]." % "; ".join('("%s"%%string, %s)' % x for x in d["solvers"][1]))
    a("Definition chain_direct_solver : selector := %s." % d["solvers"][2])
    a("")
    a("(* gs.py optimize_mps, omega branch: the operator whose two layers are contracted, as an expression in the operator that was GIVEN")
    a("   (OGiven); OModel c: an MPO rebuilt from the model of the given operator with offset c -- independent of the given operator *)")
    a("Inductive ocoef := CNegOmega | COmega | CZero.")
    a("Inductive opexpr := OGiven | OIdentity | OScale (c : ocoef) (e : opexpr) | OAdd (a b : opexpr) | OModel (offset : ocoef).")
    a("Definition omega_shifted_operator : opexpr := %s." % d["omega_op"])
    a("")
    a("(* mp.py _update_mps: the site index handed to compress_config.compute_m_trunc(sigma, idx, self.to_right) in the single-state and the")
    a("   state-averaged branch; utils/configs.py _fixed_m_trunc: the bond whose limit max_dims[bond] is read (bond k = left of site k) *)")
    a("Definition mtrunc_idx_single (to_right : bool) (cidx : list Z) : Z := %s." % d["mtrunc"][0])
    a("Definition mtrunc_idx_averaged (to_right : bool) (cidx : list Z) : Z := %s." % d["mtrunc"][1])
    a("Definition fixed_bond (left : bool) (idx : Z) : Z := %s." % d["mtrunc"][2])
    a("")
    a("(* gs.py: is the local operator multiplied by optimize_config.inverse where it is handed to a solver?")
    a("   eigh_direct (dense matrix), get_ham_iterative (diagonal for the preconditioner), eigh_iterative.hop (matrix-vector product) *)")
    a("Definition inverse_on_dense : bool := %s." % ("true" if d["inverse"][0] else "false"))
    a("Definition inverse_on_diagonal : bool := %s." % ("true" if d["inverse"][1] else "false"))
    a("Definition inverse_on_matvec : bool := %s." % ("true" if d["inverse"][2] else "false"))
    a("")
    a("(* mp.py MatrixProduct._update_mps, step 2: site tensors stored (in order) and the new qnidx *)")
    a("Definition upd_writes (to_right : bool) (n : Z) (cidx : list Z) : list Z := %s." % d["upd"][0])
    a("Definition upd_qnidx (to_right : bool) (n qnidx : Z) (cidx : list Z) : Z := %s." % d["upd"][1])
    a("")
    return "\n".join(o)


def main(repo="/repo"):
    base = repo + "/renormalizer/mps/"
    gs = ast.parse(open(base + "gs.py").read())
    mp = ast.parse(open(base + "mp.py").read())
    lib = ast.parse(open(base + "lib.py").read())
    mpcls = find_class(mp, "MatrixProduct")
    envcls = find_class(lib, "Environ")
    d = {}
    d["iter"] = tx_iter_idx_list(mpcls)
    d["switch"] = tx_switch_direction(mpcls)
    d["upd"] = tx_update_mps(mpcls)
    tx_environ_init(envcls)
    d["getlr"] = tx_getlr(envcls)
    d["cons"] = tx_construct(envcls)
    d["sweep"] = tx_single_sweep(gs)
    d["init"] = tx_optimize_mps(gs)
    pin_tree(repo)
    d["solvers"] = tx_solvers(repo)
    d["mtrunc"] = tx_mtrunc(repo)
    d["inverse"] = tx_inverse(repo)
    d["omega_op"] = tx_omega_operator(repo)
    # Mps.__setitem__ must delegate to MatrixProduct.__setitem__ (the event hook sits there)
    mpsmod = ast.parse(open(base + "mps.py").read())
    si = find_func(find_class(mpsmod, "Mps"), "__setitem__")
    if [ast.unparse(s) for s in strip_doc(si.body)] != ["return super().__setitem__(key, value)"]:
        fail("Mps.__setitem__ no longer delegates", si)
    return render(d), d


if __name__ == "__main__":
    text, _ = main(sys.argv[1] if len(sys.argv) > 1 else "/repo")
    sys.stdout.write(text)
