"""Translator: /repo/renormalizer/utils/tdmps.py  TdMpsJob.dump_dict  ->  coq/Gen/DumpProto.v   (fail-closed)

The body of `dump_dict` is read with python `ast` and rendered as a list of guarded file-system
operations of the op language of Model/DumpProto.v:

    os.makedirs(self.dump_dir, exist_ok=True)          -> Makedirs
    if os.path.exists(P): ...   (no else)              -> If (GExists p) [...]
    if not os.path.exists(P): ...                      -> If (GNotExists p) [...]
    os.remove(P)                                       -> Remove p
    os.rename(P, Q) / os.replace(P, Q)                 -> Rename p q / Replace p q
    np.savez(P, **d)                                   -> Write p'   (p' = P + ".npz" unless P ends in ".npz": NumPy's rule)
    self.latest_mps.dump(P)                            -> Write p'   (MatrixProduct.dump / TTNBase.dump call np.savez(fname, ...) in place;
                                                                     tx/dumpkeys.py checks that they do)

Paths are symbolic strings relative to  os.path.join(self.dump_dir, self.job_name):  only a suffix is
kept (".npz", ".npz.bak", ...).  `self._dump_mps` tests are configuration, not file-system state: the
body is translated once per value in (None, "one", "all").  Every other statement, call, keyword,
else-branch of an exists-test, or path expression aborts the translation (TranslateError).
"""
import ast
import os

TARGET = "Gen/DumpProto.v"

RESULT_SUFFIX = ".npz"          # <job_name>.npz      : the file a user loads
BACKUP_SUFFIX = ".npz.bak"      # <job_name>.npz.bak  : what a user falls back to ("in case of shutdown while dumping")
STEP = "<step>"
CONFIGS = [("None", None), ("one", "one"), ("all", "all")]


class TranslateError(Exception):
    pass


class Path:
    def __init__(self, suffix):
        self.suffix = suffix


class Str:
    """job_name + suffix"""
    def __init__(self, suffix):
        self.suffix = suffix


def savez_name(suffix):
    return suffix if suffix.endswith(".npz") else suffix + ".npz"


class Tx:
    def __init__(self, dump_mps):
        self.dump_mps = dump_mps
        self.env = {}
        self.payload = None
        self.paths = []         # suffixes in order of first use as an operand

    # ---------------------------------------------------------------- expressions
    def strexpr(self, n):
        """string expression rooted at self.job_name -> Str, or a literal piece -> python str"""
        if isinstance(n, ast.Constant) and isinstance(n.value, str):
            return n.value
        if isinstance(n, ast.Attribute) and ast.unparse(n) == "self.job_name":
            return Str("")
        if isinstance(n, ast.Call) and ast.unparse(n) == "str(len(self.evolve_times) - 1)":
            return STEP
        if isinstance(n, ast.BinOp) and isinstance(n.op, ast.Add):
            l = self.strexpr(n.left)
            r = self.strexpr(n.right)
            if isinstance(l, Str) and isinstance(r, str):
                return Str(l.suffix + r)
            if isinstance(l, str) and isinstance(r, str):
                return l + r
            raise TranslateError("string concatenation not rooted at self.job_name: %s" % ast.unparse(n))
        if isinstance(n, ast.Name) and isinstance(self.env.get(n.id), Str):
            return self.env[n.id]
        raise TranslateError("string expression %s" % ast.unparse(n))

    def pathexpr(self, n):
        if isinstance(n, ast.Name):
            v = self.env.get(n.id)
            if not isinstance(v, Path):
                raise TranslateError("name %s is not a known path" % n.id)
            return v
        if isinstance(n, ast.Call) and ast.unparse(n.func) == "os.path.join":
            if n.keywords or len(n.args) != 2 or ast.unparse(n.args[0]) != "self.dump_dir":
                raise TranslateError("os.path.join arguments: %s" % ast.unparse(n))
            s = self.strexpr(n.args[1])
            if not isinstance(s, Str):
                raise TranslateError("file name not rooted at self.job_name: %s" % ast.unparse(n))
            return Path(s.suffix)
        if isinstance(n, ast.BinOp) and isinstance(n.op, ast.Add):
            l = self.pathexpr(n.left)
            r = self.strexpr(n.right)
            if not isinstance(r, str):
                raise TranslateError("path + non-literal: %s" % ast.unparse(n))
            return Path(l.suffix + r)
        raise TranslateError("path expression %s" % ast.unparse(n))

    def pid(self, suffix):
        if suffix not in self.paths:
            self.paths.append(suffix)
        return suffix

    # ---------------------------------------------------------------- tests
    def config_test(self, n):
        """tests on self._dump_mps -> python bool, else None"""
        if isinstance(n, ast.Compare) and len(n.ops) == 1 and ast.unparse(n.left) == "self._dump_mps":
            c = n.comparators[0]
            if not isinstance(c, ast.Constant):
                raise TranslateError("config test %s" % ast.unparse(n))
            if isinstance(n.ops[0], ast.IsNot) and c.value is None:
                return self.dump_mps is not None
            if isinstance(n.ops[0], ast.Is) and c.value is None:
                return self.dump_mps is None
            if isinstance(n.ops[0], ast.Eq) and isinstance(c.value, str):
                return self.dump_mps == c.value
            if isinstance(n.ops[0], ast.NotEq) and isinstance(c.value, str):
                return self.dump_mps != c.value
            raise TranslateError("config test %s" % ast.unparse(n))
        return None

    def exists_test(self, n):
        neg = False
        if isinstance(n, ast.UnaryOp) and isinstance(n.op, ast.Not):
            neg = True
            n = n.operand
        if isinstance(n, ast.Call) and ast.unparse(n.func) == "os.path.exists" and len(n.args) == 1 and not n.keywords:
            p = self.pathexpr(n.args[0])
            return ("GNotExists" if neg else "GExists", self.pid(p.suffix))
        raise TranslateError("test %s" % ast.unparse(n))

    # ---------------------------------------------------------------- statements
    def block(self, stmts, top=False):
        ops = []
        for i, s in enumerate(stmts):
            if isinstance(s, ast.Expr) and isinstance(s.value, ast.Constant) and isinstance(s.value.value, str):
                continue
            if isinstance(s, ast.If):
                # precondition guard of the method
                if top and i == 0 and ast.unparse(s.test) == "not self._defined_output_path" and not s.orelse \
                        and len(s.body) == 1 and isinstance(s.body[0], ast.Raise):
                    continue
                c = self.config_test(s.test)
                if c is not None:
                    ops += self.block(s.body if c else s.orelse)
                    continue
                g = self.exists_test(s.test)
                if s.orelse:
                    raise TranslateError("else-branch of an exists test is not in the op language")
                ops.append(("If", g, self.block(s.body)))
                continue
            if isinstance(s, ast.Assign) and len(s.targets) == 1 and isinstance(s.targets[0], ast.Name):
                name = s.targets[0].id
                if ast.unparse(s.value) == "self.get_dump_dict()":
                    self.payload = name
                    continue
                self.env[name] = self.pathexpr(s.value)
                continue
            if isinstance(s, ast.Expr) and isinstance(s.value, ast.Call):
                ops.append(self.call(s.value))
                continue
            raise TranslateError("statement %s: %s" % (type(s).__name__, ast.unparse(s)[:80]))
        return ops

    def call(self, c):
        f = ast.unparse(c.func)
        if f == "os.makedirs":
            kw = {k.arg: ast.unparse(k.value) for k in c.keywords}
            if len(c.args) != 1 or ast.unparse(c.args[0]) != "self.dump_dir" or kw != {"exist_ok": "True"}:
                raise TranslateError("os.makedirs arguments: %s" % ast.unparse(c))
            return ("Makedirs",)
        if f == "os.remove":
            if len(c.args) != 1 or c.keywords:
                raise TranslateError(ast.unparse(c))
            return ("Remove", self.pid(self.pathexpr(c.args[0]).suffix))
        if f in ("os.rename", "os.replace"):
            if len(c.args) != 2 or c.keywords:
                raise TranslateError(ast.unparse(c))
            a = self.pid(self.pathexpr(c.args[0]).suffix)
            b = self.pid(self.pathexpr(c.args[1]).suffix)
            if a == b:
                raise TranslateError("rename onto itself: %s" % ast.unparse(c))
            return ("Rename" if f == "os.rename" else "Replace", a, b)
        if f == "np.savez":
            if len(c.args) != 1 or len(c.keywords) != 1 or c.keywords[0].arg is not None \
                    or ast.unparse(c.keywords[0].value) != self.payload:
                raise TranslateError("np.savez arguments: %s" % ast.unparse(c))
            return ("Write", self.pid(savez_name(self.pathexpr(c.args[0]).suffix)))
        if f == "self.latest_mps.dump":
            if len(c.args) != 1 or c.keywords:
                raise TranslateError(ast.unparse(c))
            return ("Write", self.pid(savez_name(self.pathexpr(c.args[0]).suffix)))
        raise TranslateError("call %s" % f)


def find_dump_dict(src):
    tree = ast.parse(src)
    for node in tree.body:
        if isinstance(node, ast.ClassDef) and node.name == "TdMpsJob":
            for f in node.body:
                if isinstance(f, ast.FunctionDef) and f.name == "dump_dict":
                    if [a.arg for a in f.args.args] != ["self"] or f.args.vararg or f.args.kwarg or f.decorator_list:
                        raise TranslateError("dump_dict signature changed")
                    return f
    raise TranslateError("TdMpsJob.dump_dict not found")


def check_caller(src):
    """evolve must call dump_dict under `if self._defined_output_path:` inside try/except IOError (the
    model's treatment of a raising operation -- logged, job continues -- relies on it)."""
    tree = ast.parse(src)
    for node in ast.walk(tree):
        if isinstance(node, ast.FunctionDef) and node.name == "evolve":
            for n in ast.walk(node):
                if isinstance(n, ast.If) and ast.unparse(n.test) == "self._defined_output_path":
                    for t in n.body:
                        if isinstance(t, ast.Try) and len(t.body) == 1 and ast.unparse(t.body[0]) == "self.dump_dict()" \
                                and len(t.handlers) == 1 and t.handlers[0].type is not None \
                                and ast.unparse(t.handlers[0].type) in ("IOError", "OSError") \
                                and not any(isinstance(x, ast.Raise) for h in t.handlers for x in ast.walk(h)):
                            return True
    raise TranslateError("TdMpsJob.evolve no longer calls self.dump_dict() inside try/except IOError under `if self._defined_output_path`")


def translate(src):
    f = find_dump_dict(src)
    check_caller(src)
    protos = []
    paths = [RESULT_SUFFIX, BACKUP_SUFFIX]
    for name, val in CONFIGS:
        t = Tx(val)
        ops = t.block(f.body, top=True)
        if t.payload is None:
            raise TranslateError("payload `d = self.get_dump_dict()` not found")
        for p in t.paths:
            if p not in paths:
                paths.append(p)
        protos.append((name, ops))
    return paths, protos


def render_ops(ops, idx, ind):
    out = []
    for o in ops:
        if o[0] == "Makedirs":
            out.append("Makedirs")
        elif o[0] in ("Remove", "Write"):
            out.append("%s %d" % (o[0], idx[o[1]]))
        elif o[0] in ("Rename", "Replace"):
            out.append("%s %d %d" % (o[0], idx[o[1]], idx[o[2]]))
        elif o[0] == "If":
            out.append("If (%s %d) %s" % (o[1][0], idx[o[1][1]], render_ops(o[2], idx, ind + "  ")))
        else:
            raise TranslateError("render %r" % (o,))
    return "[" + (";\n" + ind + " ").join(out) + "]"


def ops_json(ops, idx):
    out = []
    for o in ops:
        if o[0] == "If":
            out.append(["If", o[1][0], idx[o[1][1]], ops_json(o[2], idx)])
        else:
            out.append([o[0]] + [idx[x] for x in o[1:]])
    return out


def main(repo):
    path = os.path.join(repo, "renormalizer", "utils", "tdmps.py")
    src = open(path).read()
    paths, protos = translate(src)
    idx = {p: i for i, p in enumerate(paths)}
    lines = ["(* GENERATED by tx/dumpproto.py from renormalizer/utils/tdmps.py (TdMpsJob.dump_dict) -- do not edit. *)",
             "From Coq Require Import List String.",
             "Import ListNotations.",
             "From RV Require Import Model.DumpProto.",
             "Open Scope string_scope.",
             "",
             "(* path i = os.path.join(dump_dir, job_name ++ nth i path_names) *)",
             "Definition path_names : list string := [%s]." % "; ".join('"%s"' % p for p in paths),
             "Definition npaths : nat := %d." % len(paths),
             "Definition p_result : path := 0.",
             "Definition p_backup : path := 1.",
             "Definition watched : list path := [p_result; p_backup].",
             ""]
    for name, ops in protos:
        lines.append("(* dump_mps = %s *)" % name)
        lines.append("Definition proto_%s : list op :=\n  %s." % (name.lower(), render_ops(ops, idx, "  ")))
        lines.append("")
    lines.append("Definition protocols : list (string * list op) := [%s]." %
                 "; ".join('("%s", proto_%s)' % (n, n.lower()) for n, _ in protos))

    def writes(ops):
        out = []
        for o in ops:
            if o[0] == "Write":
                out.append(o[1])
            elif o[0] == "If":
                out += writes(o[2])
        return out
    base = set(writes(dict(protos)["None"])) | {RESULT_SUFFIX, BACKUP_SUFFIX}
    side = [(n, sorted({idx[p_] for p_ in writes(ops) if p_ not in base})) for n, ops in protos]
    side = [(n, ps) for n, ps in side if ps]
    lines.append("")
    lines.append("(* side files: paths written (np.savez via latest_mps.dump) only when dump_mps is set *)")
    lines.append("Definition side_files : list (string * list op * list path) := [%s]." %
                 "; ".join('("%s", proto_%s, [%s])' % (n, n.lower(), "; ".join(str(x) for x in ps)) for n, ps in side))
    text = "\n".join(lines) + "\n"
    info = {"paths": paths, "protocols": {n: ops_json(ops, idx) for n, ops in protos}}
    return text, info


if __name__ == "__main__":
    import sys
    print(main(sys.argv[1] if len(sys.argv) > 1 else "/repo")[0])
