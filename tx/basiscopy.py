"""Translator: every BasisSet subclass of /repo/renormalizer/model/basis.py  ->  coq/Gen/BasisCopy.v   (fail-closed)

For each class the structural facts needed to judge `copy(new_dof)` are extracted by ast:
  params   constructor parameters after `self, dof` with (has a default, the default is falsy)
  stores   (attribute, parameter): the attribute faithfully stores the parameter --
             `self.A = p` (p possibly adjusted in place before), the flag pattern `self.A = False ... if p: ... self.A = True`,
             or p handed unchanged to `super().__init__(dof, nbas, sigmaqn)` (BasisSet stores nbas, sigmaqn)
  taints   (attribute, parameters it is computed from) incl. the guards of enclosing `if`s and local variables
  reads    attributes read by op_mat and by every method / property reachable from it through `self.`
  guards   (parameter, locals re-assigned under `if parameter:`) for parameters that occur ONLY as such a guard whose
           body assigns local names only -- such a parameter is absorbed when those locals are stored and forwarded
  copy     (parameter, attribute): `copy` hands `self.attribute` to that constructor parameter (positional arguments are
           resolved against the signature; anything but `self.__class__(new_dof, self.a, k=self.b, ...)` is an error)
The verdict is computed in Coq (Model/BasisCopy.v).
"""
import ast
import os
import sys

TARGET = "Gen/BasisCopy.v"
SOURCE = "renormalizer/model/basis.py"


class TranslateError(Exception):
    pass


def cstr(s):
    return '"' + s.replace('"', '""') + '"'


def lst(xs, f=lambda x: x):
    return "[" + "; ".join(f(x) for x in xs) + "]"


def names_in(node):
    return {n.id for n in ast.walk(node) if isinstance(n, ast.Name)}


def self_attr(node):
    if isinstance(node, ast.Attribute) and isinstance(node.value, ast.Name) and node.value.id == "self":
        return node.attr
    return None


def falsy_default(d):
    if isinstance(d, ast.Constant):
        return not d.value
    return False


def analyse_init(fn, params):
    """-> stores, taints, guards"""
    stores = []
    taints = {}
    deps = {p: {p} for p in params}         # local name -> params it depends on
    false_attrs = set()
    guard_uses = {p: [] for p in params}      # param -> list of If nodes testing exactly `p`
    other_uses = {p: 0 for p in params}

    def dep(node, guard):
        out = set(guard)
        for nm in names_in(node):
            out |= deps.get(nm, set())
        return out

    def count_uses(node, skip_test_of=None):
        for n in ast.walk(node):
            if isinstance(n, ast.Name) and n.id in params:
                other_uses[n.id] += 1

    def visit(stmts, guard, top):
        for s in stmts:
            if isinstance(s, ast.Expr) and isinstance(s.value, ast.Constant):
                continue
            if isinstance(s, ast.Assert):
                count_uses(s)
                continue
            if isinstance(s, ast.If):
                g = dep(s.test, guard)
                if isinstance(s.test, ast.Name) and s.test.id in params:
                    guard_uses[s.test.id].append(s)
                else:
                    count_uses(s.test)
                visit(s.body, g, False)
                visit(s.orelse, g, False)
                continue
            if isinstance(s, ast.Expr) and isinstance(s.value, ast.Call) and ast.unparse(s.value.func) == "super().__init__":
                a = s.value.args
                if len(a) != 3 or s.value.keywords:
                    raise TranslateError("super().__init__ call: %s" % ast.unparse(s))
                for attr, arg in (("nbas", a[1]), ("sigmaqn", a[2])):
                    taints.setdefault(attr, set()).update(dep(arg, guard))
                    if isinstance(arg, ast.Name) and arg.id in params:
                        stores.append((attr, arg.id))
                count_uses(s)
                continue
            if isinstance(s, (ast.Assign, ast.AugAssign)):
                targets = s.targets if isinstance(s, ast.Assign) else [s.target]
                flat = []
                for t in targets:
                    flat += list(t.elts) if isinstance(t, ast.Tuple) else [t]
                d = dep(s.value, guard)
                count_uses(s.value)
                for t in flat:
                    a = self_attr(t)
                    if a is not None:
                        taints.setdefault(a, set()).update(d)
                        if isinstance(s, ast.Assign) and isinstance(s.value, ast.Name) and s.value.id in params and len(flat) == 1:
                            stores.append((a, s.value.id))
                        if isinstance(s, ast.Assign) and isinstance(s.value, ast.Constant) and s.value.value is False and top:
                            false_attrs.add(a)
                    elif isinstance(t, ast.Name):
                        if isinstance(s, ast.AugAssign):
                            deps[t.id] = deps.get(t.id, set()) | d
                        else:
                            deps[t.id] = set(d) | (deps.get(t.id, set()) if guard else set())
                    else:
                        raise TranslateError("assignment target in __init__: %s" % ast.unparse(t))
                continue
            raise TranslateError("statement in __init__: %s" % ast.unparse(s)[:100])

    visit(fn.body, set(), True)
    # flag pattern: self.A = False at top level, `if p:` body sets self.A = True, no other assignment of self.A
    for p, ifs in guard_uses.items():
        for node in ifs:
            for st in node.body:
                if isinstance(st, ast.Assign) and len(st.targets) == 1 and self_attr(st.targets[0]) in false_attrs \
                        and isinstance(st.value, ast.Constant) and st.value.value is True:
                    a = self_attr(st.targets[0])
                    n_assign = sum(1 for x in ast.walk(fn) if isinstance(x, ast.Assign) and any(self_attr(t) == a for t in x.targets))
                    if n_assign == 2:
                        stores.append((a, p))
    # guard-only parameters
    guards = []
    for p, ifs in guard_uses.items():
        if len(ifs) != 1 or other_uses[p] != 0 or ifs[0].orelse:
            continue
        locs, ok = [], True
        for st in ifs[0].body:
            tg = st.targets if isinstance(st, ast.Assign) else [st.target] if isinstance(st, ast.AugAssign) else None
            if tg is None or not all(isinstance(t, ast.Name) for t in tg):
                ok = False
                break
            locs += [t.id for t in tg if t.id in params]
        if ok:
            guards.append((p, sorted(set(locs))))
    return sorted(set(stores)), {k: sorted(v & set(params)) for k, v in taints.items()}, guards


def reads_of(cls):
    methods = {n.name: n for n in cls.body if isinstance(n, ast.FunctionDef)}
    if "op_mat" not in methods:
        raise TranslateError("%s has no op_mat" % cls.name)
    seen, todo, reads = set(), ["op_mat"], set()
    while todo:
        m = todo.pop()
        if m in seen:
            continue
        seen.add(m)
        for n in ast.walk(methods[m]):
            a = self_attr(n)
            if a is None:
                continue
            if a in methods:
                todo.append(a)
            elif isinstance(n.ctx, ast.Load):
                reads.add(a)
    return sorted(reads)


def analyse_copy(fn, sig):
    body = [s for s in fn.body if not (isinstance(s, ast.Expr) and isinstance(s.value, ast.Constant))]
    if [a.arg for a in fn.args.args] != ["self", "new_dof"] or len(body) != 1 or not isinstance(body[0], ast.Return):
        raise TranslateError("copy is not `return self.__class__(...)`: %s" % ast.unparse(fn)[:120])
    c = body[0].value
    if not (isinstance(c, ast.Call) and ast.unparse(c.func) == "self.__class__" and c.args and ast.unparse(c.args[0]) == "new_dof"):
        raise TranslateError("copy does not call self.__class__(new_dof, ...): %s" % ast.unparse(c)[:120])
    out = []
    for i, a in enumerate(c.args[1:]):
        if i >= len(sig):
            raise TranslateError("too many positional arguments in copy")
        at = self_attr(a)
        if at is None:
            raise TranslateError("copy argument is not an attribute of self: %s" % ast.unparse(a))
        out.append((sig[i], at))
    for k in c.keywords:
        at = self_attr(k.value)
        if k.arg not in sig or at is None:
            raise TranslateError("copy keyword argument %s" % ast.unparse(k.value))
        out.append((k.arg, at))
    if len({p for p, _ in out}) != len(out):
        raise TranslateError("parameter passed twice in copy")
    return out


def translate(repo):
    tree = ast.parse(open(os.path.join(repo, SOURCE)).read())
    classes = [n for n in tree.body if isinstance(n, ast.ClassDef) and [ast.unparse(b) for b in n.bases] == ["BasisSet"]]
    if not classes:
        raise TranslateError("no BasisSet subclasses found")
    out = []
    for cls in classes:
        methods = {n.name: n for n in cls.body if isinstance(n, ast.FunctionDef)}
        if "__init__" not in methods or "copy" not in methods:
            raise TranslateError("%s lacks __init__ or copy" % cls.name)
        init = methods["__init__"]
        a = init.args
        if a.vararg or a.kwarg or a.kwonlyargs or [x.arg for x in a.args[:2]] != ["self", "dof"]:
            raise TranslateError("%s.__init__ signature" % cls.name)
        sig = [x.arg for x in a.args[2:]]
        ndef = len(a.defaults)
        defaults = [None] * (len(a.args) - ndef) + list(a.defaults)
        defaults = defaults[2:]
        params = [(p, d is not None, falsy_default(d) if d is not None else False) for p, d in zip(sig, defaults)]
        stores, taints, guards = analyse_init(init, ["dof"] + sig)
        out.append({"name": cls.name, "params": params, "stores": stores, "taints": taints, "guards": guards,
                    "reads": reads_of(cls), "copy": analyse_copy(methods["copy"], sig)})
    return out


def render(cs):
    L = ["(* GENERATED by tx/basiscopy.py from renormalizer/model/basis.py -- do not edit. *)",
         "From Coq Require Import List String Bool.", "Import ListNotations.", "From RV Require Import Model.BasisCopy.",
         "Local Open Scope string_scope.", "", "Definition basis_classes : list bclass := ["]
    rows = []
    for c in cs:
        b = lambda x: "true" if x else "false"
        rows.append("  mk_bclass %s\n    (* params (name, has default, default falsy) *) %s\n    (* stores (attr, param) *) %s\n    (* taints *) %s\n    (* reads by op_mat *) %s\n    (* guard-only params *) %s\n    (* copy (param, attr) *) %s" % (
            cstr(c["name"]),
            lst(c["params"], lambda p: "(%s, %s, %s)" % (cstr(p[0]), b(p[1]), b(p[2]))),
            lst(c["stores"], lambda s: "(%s, %s)" % (cstr(s[0]), cstr(s[1]))),
            lst(sorted(c["taints"].items()), lambda kv: "(%s, %s)" % (cstr(kv[0]), lst(kv[1], cstr))),
            lst(c["reads"], cstr),
            lst(c["guards"], lambda g: "(%s, %s)" % (cstr(g[0]), lst(g[1], cstr))),
            lst(c["copy"], lambda s: "(%s, %s)" % (cstr(s[0]), cstr(s[1])))))
    L.append(";\n".join(rows))
    L.append("].")
    return "\n".join(L) + "\n"


def main(repo):
    cs = translate(repo)
    return render(cs), cs


if __name__ == "__main__":
    sys.stdout.write(main(sys.argv[1] if len(sys.argv) > 1 else "/repo")[0])
