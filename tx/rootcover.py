"""Translator: orientation rule of the vertex cover  ->  coq/Gen/RootCover.v   (fail-closed)

construct_symbolic_ttno drops the last `factor` without asserting it is 1.  That is right only because
at the root (one unique column) the cover returned is the column, never the single row.  Which side is
returned is decided by three pieces of code, rendered here:

  mps/symbolic_mpo.py: _decompose_graph
      if non_red.shape[0] <CMP> non_red.shape[1]:   rows are the U side,  rowbool, colbool = cover(...)
      else:                                         columns are the U side, colbool, rowbool = cover(...)
  lib/bipartite_matching/bipartite_matching.py: bipartite_vertex_cover.new_konig
      wait_u = set(range(nU)) - set(matchV)         the free U vertices
      while len(wait_u) > 0: ...                    (the body is not translated: C20)
      inverse = [not b for b in visitU]; return (inverse, visitV)

Any other shape of these statements raises TranslateError.
"""
import ast
import sys


class TranslateError(Exception):
    pass


CMP = {ast.Lt: "Z.ltb", ast.LtE: "Z.leb", ast.Gt: "Z.gtb", ast.GtE: "Z.geb"}


def find_def(body, name):
    hits = [n for n in body if isinstance(n, ast.FunctionDef) and n.name == name]
    if len(hits) != 1:
        raise TranslateError("%s: %d definitions" % (name, len(hits)))
    return hits[0]


def tuple_names(node):
    if not (isinstance(node, ast.Assign) and len(node.targets) == 1 and isinstance(node.targets[0], ast.Tuple)):
        return None
    return [e.id if isinstance(e, ast.Name) else None for e in node.targets[0].elts]


def orientation(src):
    f = find_def(ast.parse(src).body, "_decompose_graph")
    ifs = [s for s in f.body if isinstance(s, ast.If)]
    if not ifs:
        raise TranslateError("_decompose_graph: no if")
    top = ifs[0]
    t = top.test
    if not (isinstance(t, ast.Compare) and len(t.ops) == 1 and type(t.ops[0]) in CMP
            and ast.unparse(t.left) == "non_red.shape[0]" and ast.unparse(t.comparators[0]) == "non_red.shape[1]"):
        raise TranslateError("orientation test: %s" % ast.unparse(t))

    def branch(stmts, loop_bound, want):
        loops = [s for s in stmts if isinstance(s, ast.For)]
        if len(loops) != 1 or ast.unparse(loops[0].iter) != "range(%s)" % loop_bound:
            raise TranslateError("adjacency loop of the branch: %s" % [ast.unparse(l.iter) for l in loops])
        assigns = [s for s in stmts if tuple_names(s)]
        if len(assigns) != 1 or tuple_names(assigns[0]) != want:
            raise TranslateError("cover unpacking: %s" % [tuple_names(a) for a in assigns])
        call = assigns[0].value
        if not (isinstance(call, ast.Call) and ast.unparse(call.func) == "bipartite_vertex_cover"
                and len(call.args) == 1 and ast.unparse(call.args[0]) == "bigraph"):
            raise TranslateError("cover call: %s" % ast.unparse(call))
    branch(top.body, "non_red.shape[0]", ["rowbool", "colbool"])       # U = rows
    branch(top.orelse, "non_red.shape[1]", ["colbool", "rowbool"])     # U = columns
    sel = {ast.unparse(s.targets[0]): ast.unparse(s.value) for s in f.body
           if isinstance(s, ast.Assign) and len(s.targets) == 1 and isinstance(s.targets[0], ast.Name)}
    if sel.get("col_select") != "np.nonzero(colbool)[0]" or not sel.get("row_select", "").startswith("sorted(row_select"):
        raise TranslateError("row_select / col_select: %s" % sel)
    return CMP[type(t.ops[0])]


def konig(src):
    outer = find_def(ast.parse(src).body, "bipartite_vertex_cover")
    f = find_def(outer.body, "new_konig")
    body = [s for s in f.body if not (isinstance(s, ast.Expr) and isinstance(s.value, ast.Constant))]
    texts = [ast.unparse(s) for s in body]
    want_prefix = ["visitU = [False] * nU", "visitV = [False] * nV", "wait_u = set(range(nU)) - set(matchV)"]
    if texts[:3] != want_prefix:
        raise TranslateError("new_konig prologue: %s" % texts[:3])
    if not (isinstance(body[3], ast.While) and ast.unparse(body[3].test) == "len(wait_u) > 0" and not body[3].orelse):
        raise TranslateError("new_konig loop header: %s" % texts[3][:60])
    # the loop may only mark vertices visited and enlarge wait_u (so that without free U vertices nothing is visited)
    for n in ast.walk(body[3]):
        if isinstance(n, ast.Assign):
            tgt = ast.unparse(n.targets[0])
            if not (tgt == "u" or tgt.startswith("visitU[") or tgt.startswith("visitV[")) :
                raise TranslateError("new_konig loop assigns %s" % tgt)
            if tgt.startswith("visit") and ast.unparse(n.value) != "True":
                raise TranslateError("new_konig loop un-visits")
    if texts[4:] != ["inverse = [not b for b in visitU]", "return (inverse, visitV)"]:
        raise TranslateError("new_konig epilogue: %s" % texts[4:])
    tail = [ast.unparse(s) for s in outer.body[-2:]]
    if tail != ["res_new = new_konig()", "return res_new"]:
        raise TranslateError("bipartite_vertex_cover tail: %s" % tail)


def render(cmp):
    return """(* GENERATED by tx/rootcover.py from renormalizer/mps/symbolic_mpo.py (_decompose_graph) and
   renormalizer/lib/bipartite_matching/bipartite_matching.py (new_konig) -- do not edit *)
From Coq Require Import ZArith List Arith Bool.
Import ListNotations.

(* `if non_red.shape[0] < non_red.shape[1]`: are the unique ROWS the U side handed to the cover? *)
Definition rows_are_U (nrows ncols : Z) : bool := %s nrows ncols.
(* `rowbool, colbool = cover` in that branch, `colbool, rowbool = cover` in the other: (rowbool, colbool) *)
Definition unpack_cover (rows_U : bool) (ubool vbool : list bool) : list bool * list bool :=
  if rows_U then (ubool, vbool) else (vbool, ubool).
(* `wait_u = set(range(nU)) - set(matchV)`: the U vertices no V vertex is matched to *)
Definition konig_free_U (nU : nat) (matchV : list (option nat)) : list nat :=
  filter (fun u => negb (existsb (fun m => match m with Some u' => Nat.eqb u u' | None => false end) matchV)) (seq 0 nU).
(* `while len(wait_u) > 0` *)
Definition konig_loop_runs (wait_u : list nat) : bool := (0 <? Z.of_nat (length wait_u))%%Z.
(* `visitU = [False] * nU` ... `inverse = [not b for b in visitU]; return (inverse, visitV)` *)
Definition konig_init (n : nat) : list bool := repeat false n.
Definition konig_result (visitU visitV : list bool) : list bool * list bool := (map negb visitU, visitV).
""" % cmp


def main(repo="/repo"):
    cmp = orientation(open(repo + "/renormalizer/mps/symbolic_mpo.py").read())
    konig(open(repo + "/renormalizer/lib/bipartite_matching/bipartite_matching.py").read())
    return render(cmp), {"orientation": cmp}


TARGET = "Gen/RootCover.v"

if __name__ == "__main__":
    sys.stdout.write(main(sys.argv[1] if len(sys.argv) > 1 else "/repo")[0])
