"""Translator: renormalizer/mps/symbolic_mpo.py (table_row_swapped_jw, the row layout of swap_site)
and the state-side sign line of renormalizer/mps/mp.py:_update_mps  ->  coq/Gen/JwSwapRule.v

Fail-closed: every statement of table_row_swapped_jw must be one of the shapes handled below and every
expression is translated compositionally (names, integer literals, + * % **, `.split_symbol.count("s")`,
`x in [..]`, string comparisons of `symbol_list[0]`, the three Op constructors of prepend_sigma_z).
Anything else raises TranslateError.  Words are lists of symbol strings (Op.split_symbol).
"""
import ast
import sys

TARGET = "Gen/JwSwapRule.v"


class TranslateError(Exception):
    pass


def cstr(s):
    if '"' in s or "\\" in s:
        raise TranslateError("string literal %r" % s)
    return '"%s"' % s


def find_func(tree, name, cls=None):
    body = tree.body
    if cls is not None:
        for n in body:
            if isinstance(n, ast.ClassDef) and n.name == cls:
                body = n.body
                break
        else:
            raise TranslateError("class %s not found" % cls)
    for n in body:
        if isinstance(n, ast.FunctionDef) and n.name == name:
            return n
    raise TranslateError("function %s not found" % name)


class Rule:
    """Symbolic reading of table_row_swapped_jw."""

    def __init__(self, fn):
        self.fn = fn
        self.words = {}        # python name -> "w1" / "w2"   (op1, op2)
        self.rowcol = {}       # python name -> row column
        self.nat = {}          # python name -> coq nat expression in w1 w2
        self.defs = []         # (name, coq expr) in order
        self.asserts = []      # coq bool expressions
        self.counted = []      # symbol names appearing in .count(...)
        self.coeff = None      # python name of the exponent
        self.prepend = None    # list of branches
        self.newop = {}        # "new_op1"/"new_op2" -> (cond nat name, source word)
        self.out = None

    # ---- expressions of type nat
    def nexpr(self, n):
        if isinstance(n, ast.Constant) and isinstance(n.value, int) and not isinstance(n.value, bool) and n.value >= 0:
            return str(n.value)
        if isinstance(n, ast.Name):
            if n.id in self.nat:
                return "(%s w1 w2)" % n.id
            raise TranslateError("unbound name %s" % n.id)
        if isinstance(n, ast.BinOp):
            op = {ast.Add: "+", ast.Mult: "*"}.get(type(n.op))
            if op:
                return "(%s %s %s)" % (self.nexpr(n.left), op, self.nexpr(n.right))
            if isinstance(n.op, ast.Mod):
                return "(Nat.modulo %s %s)" % (self.nexpr(n.left), self.nexpr(n.right))
            raise TranslateError("operator %s" % type(n.op).__name__)
        if isinstance(n, ast.Call) and isinstance(n.func, ast.Attribute) and n.func.attr == "count" \
                and len(n.args) == 1 and not n.keywords and isinstance(n.args[0], ast.Constant) and isinstance(n.args[0].value, str):
            base = n.func.value
            if isinstance(base, ast.Attribute) and base.attr == "split_symbol" and isinstance(base.value, ast.Name) \
                    and base.value.id in self.words:
                s = n.args[0].value
                if s not in self.counted:
                    self.counted.append(s)
                return "(cnt %s %s)" % (cstr(s), self.words[base.value.id])
        raise TranslateError("nat expression %s" % ast.unparse(n))

    def bexpr(self, n):
        if isinstance(n, ast.Compare) and len(n.ops) == 1 and isinstance(n.ops[0], ast.In) \
                and isinstance(n.comparators[0], (ast.List, ast.Tuple)):
            vals = [self.nexpr(e) for e in n.comparators[0].elts]
            return "(existsb (Nat.eqb %s) [%s])" % (self.nexpr(n.left), "; ".join(vals))
        raise TranslateError("assert %s" % ast.unparse(n))

    def row_index(self, n):
        """primary_ops[row[k]] -> k"""
        if isinstance(n, ast.Subscript) and isinstance(n.value, ast.Name) and n.value.id == "primary_ops":
            s = n.slice
            if isinstance(s, ast.Subscript) and isinstance(s.value, ast.Name) and s.value.id == "row" \
                    and isinstance(s.slice, ast.Constant) and isinstance(s.slice.value, int):
                return s.slice.value
        raise TranslateError("operator lookup %s" % ast.unparse(n))

    def read_prepend(self, fn):
        if [a.arg for a in fn.args.args] != ["op"]:
            raise TranslateError("prepend_sigma_z signature")
        body = fn.body
        if not (len(body) == 3 and isinstance(body[0], ast.Assign) and ast.unparse(body[0]) == "symbol_list = op.split_symbol"
                and isinstance(body[1], ast.If) and ast.unparse(body[2]) == "return new_op"):
            raise TranslateError("prepend_sigma_z body shape")
        branches = []
        node = body[1]
        while True:
            heads = self.head_test(node.test)
            branches.append((heads, self.prepend_body(node.body)))
            if len(node.orelse) == 1 and isinstance(node.orelse[0], ast.If):
                node = node.orelse[0]
                continue
            if len(node.orelse) == 1 and ast.unparse(node.orelse[0]) == "assert False":
                break
            raise TranslateError("prepend_sigma_z: final else must be `assert False`")
        return branches

    def head_test(self, t):
        """symbol_list[0] == 's'  (or-combinations) -> list of names"""
        if isinstance(t, ast.BoolOp) and isinstance(t.op, ast.Or):
            r = []
            for v in t.values:
                r += self.head_test(v)
            return r
        if isinstance(t, ast.Compare) and len(t.ops) == 1 and isinstance(t.ops[0], ast.Eq) \
                and ast.unparse(t.left) == "symbol_list[0]" and isinstance(t.comparators[0], ast.Constant) \
                and isinstance(t.comparators[0].value, str):
            return [t.comparators[0].value]
        raise TranslateError("prepend test %s" % ast.unparse(t))

    def op_ctor(self, s):
        """new_op = <constructor>  ->  coq option word in variables w (whole word), t (tail)"""
        if not (isinstance(s, ast.Assign) and len(s.targets) == 1 and ast.unparse(s.targets[0]) == "new_op"):
            raise TranslateError("prepend assignment %s" % ast.unparse(s))
        v = s.value
        u = ast.unparse(v)
        if u == "Op.identity(op.dofs[0])":
            return 'Some ["I"]'
        if isinstance(v, ast.Call) and ast.unparse(v.func) == "Op" and len(v.args) == 2:
            a0, a1 = v.args
            kw = {k.arg: ast.unparse(k.value) for k in v.keywords}
            if isinstance(a0, ast.Constant) and isinstance(a0.value, str) and ast.unparse(a1) == "op.dofs[0]" and set(kw) == {"qn"}:
                if " " in a0.value:
                    raise TranslateError("compound literal symbol")
                return "Some [%s]" % cstr(a0.value)
            if ast.unparse(a0) == "' '.join(symbol_list[1:])" and ast.unparse(a1) == "op.dofs[1:]" and kw == {"qn": "op.qn_list[1:]"}:
                return "Some t"
            if isinstance(a0, ast.BinOp) and isinstance(a0.op, ast.Add) and isinstance(a0.left, ast.Constant) \
                    and isinstance(a0.left.value, str) and a0.left.value.endswith(" ") and " " not in a0.left.value[:-1] \
                    and ast.unparse(a0.right) == "op.symbol" and ast.unparse(a1) == "[op.dofs[0]] + op.dofs" \
                    and kw == {"qn": "[0] + op.qn_list"}:
                return "Some (cons %s w)" % cstr(a0.left.value[:-1])
        raise TranslateError("Op constructor %s" % u)

    def prepend_body(self, stmts):
        """-> coq option word"""
        if len(stmts) == 1 and isinstance(stmts[0], ast.Assign):
            return self.op_ctor(stmts[0])
        if len(stmts) == 2 and ast.unparse(stmts[0]) == "assert len(symbol_list) == 1":
            return "(if Nat.eqb (List.length w) 1 then %s else None)" % self.op_ctor(stmts[1])
        if len(stmts) == 1 and isinstance(stmts[0], ast.If) and ast.unparse(stmts[0].test) == "len(symbol_list) == 1" \
                and len(stmts[0].body) == 1 and len(stmts[0].orelse) == 1:
            return "(if Nat.eqb (List.length w) 1 then %s else %s)" % (self.op_ctor(stmts[0].body[0]), self.op_ctor(stmts[0].orelse[0]))
        raise TranslateError("prepend branch body")

    def run(self):
        fn = self.fn
        if [a.arg for a in fn.args.args] != ["row", "primary_ops", "op2idx"]:
            raise TranslateError("table_row_swapped_jw signature")
        seen_register = 0
        for s in fn.body:
            u = ast.unparse(s)
            if isinstance(s, ast.Expr) and isinstance(s.value, ast.Constant) and isinstance(s.value.value, str):
                continue
            if u in ("assert len(row) == 5", "assert row[-1] == 0"):
                continue
            if isinstance(s, (ast.AnnAssign, ast.Assign)):
                tgt = s.target if isinstance(s, ast.AnnAssign) else (s.targets[0] if len(s.targets) == 1 else None)
                if not isinstance(tgt, ast.Name):
                    raise TranslateError("assignment target %s" % u)
                name = tgt.id
                if name in ("op1", "op2"):
                    self.rowcol[name] = self.row_index(s.value)
                    self.words[name] = "w1" if name == "op1" else "w2"
                    continue
                if name == "coeff":
                    v = s.value
                    if not (isinstance(v, ast.BinOp) and isinstance(v.op, ast.Pow) and ast.unparse(v.left) in ("-1", "(-1)")
                            and isinstance(v.right, ast.Name) and v.right.id in self.nat):
                        raise TranslateError("coeff expression %s" % u)
                    self.coeff = v.right.id
                    continue
                e = self.nexpr(s.value)
                self.nat[name] = e
                self.defs.append((name, e))
                continue
            if isinstance(s, ast.Assert):
                self.asserts.append(self.bexpr(s.test))
                continue
            if isinstance(s, ast.FunctionDef) and s.name == "prepend_sigma_z":
                self.prepend = self.read_prepend(s)
                continue
            if isinstance(s, ast.If):
                # if opK_new_sigma_z: new_opJ = prepend_sigma_z(opJ) else: new_opJ = opJ
                if isinstance(s.test, ast.Name) and s.test.id in self.nat and len(s.body) == 1 and len(s.orelse) == 1:
                    b, o = s.body[0], s.orelse[0]
                    if isinstance(b, ast.Assign) and isinstance(o, ast.Assign) and ast.unparse(b.targets[0]) == ast.unparse(o.targets[0]):
                        tgt = ast.unparse(b.targets[0])
                        src = ast.unparse(o.value)
                        if tgt in ("new_op1", "new_op2") and src in self.words and ast.unparse(b.value) == "prepend_sigma_z(%s)" % src:
                            self.newop[tgt] = (s.test.id, self.words[src])
                            continue
                # registration of the new operators in primary_ops (bookkeeping, no effect on symbols)
                m = u.replace("\n", " ").split()
                if u.startswith("if new_op1 not in op2idx:") or u.startswith("if new_op2 not in op2idx:"):
                    k = u[3:10]
                    if [ast.unparse(x) for x in s.body] == ["op2idx[%s] = len(primary_ops)" % k, "primary_ops.append(%s)" % k] and not s.orelse:
                        seen_register += 1
                        continue
                raise TranslateError("if statement %s" % u[:60])
            if isinstance(s, ast.Return):
                v = s.value
                if not (isinstance(v, ast.Tuple) and len(v.elts) == 2 and ast.unparse(v.elts[1]) == "coeff" and isinstance(v.elts[0], ast.List)):
                    raise TranslateError("return shape")
                self.out = [ast.unparse(e) for e in v.elts[0].elts]
                continue
            raise TranslateError("statement %s" % u[:60])
        if self.out != ["row[0]", "op2idx[new_op1]", "op2idx[new_op2]", "row[3]", "row[4]"]:
            raise TranslateError("returned row %s" % (self.out,))
        if set(self.newop) != {"new_op1", "new_op2"} or self.coeff is None or self.prepend is None or seen_register != 2 \
                or set(self.rowcol) != {"op1", "op2"}:
            raise TranslateError("table_row_swapped_jw incomplete")


def swap_row_layout(tree):
    """In swap_site: row = [op.out_ops1_idx, op.site2_op_idx, op.site1_op_idx, n_primary_ops + i, 0]"""
    fn = find_func(tree, "swap_site")
    rows = []
    for n in ast.walk(fn):
        if isinstance(n, ast.Assign) and len(n.targets) == 1 and ast.unparse(n.targets[0]) == "row" and isinstance(n.value, ast.List):
            rows.append([ast.unparse(e) for e in n.value.elts])
    if len(rows) != 1 or len(rows[0]) != 5:
        raise TranslateError("swap_site row construction")
    site = {"op.site1_op_idx": 1, "op.site2_op_idx": 2}
    if rows[0][0] != "op.out_ops1_idx" or rows[0][1] not in site or rows[0][2] not in site or rows[0][1] == rows[0][2]:
        raise TranslateError("swap_site row layout %s" % rows[0])
    calls = [ast.unparse(n) for n in ast.walk(fn) if isinstance(n, ast.Call) and ast.unparse(n.func) == "table_and_factor_swapped_jw"]
    if calls != ["table_and_factor_swapped_jw(table, factor, primary_ops)"]:
        raise TranslateError("swap_site call of table_and_factor_swapped_jw")
    guard = [ast.unparse(n.test) for n in ast.walk(fn) if isinstance(n, ast.If) and any(
        isinstance(m, ast.Call) and ast.unparse(m.func) == "table_and_factor_swapped_jw" for m in ast.walk(n))]
    if guard != ["swap_jw"]:
        raise TranslateError("guard of the JW remapping %s" % guard)
    # coefficient application in table_and_factor_swapped_jw
    fn2 = find_func(tree, "table_and_factor_swapped_jw")
    apps = [ast.unparse(n) for n in ast.walk(fn2) if isinstance(n, ast.Call) and ast.unparse(n.func) == "new_factor.append"]
    if apps != ["new_factor.append(coeff * factor_row)"]:
        raise TranslateError("coefficient application %s" % apps)
    return site[rows[0][1]], site[rows[0][2]]


def state_side(mp_src):
    tree = ast.parse(mp_src)
    fn = find_func(tree, "_update_mps", "MatrixProduct")
    found = []
    for n in ast.walk(fn):
        if isinstance(n, ast.If) and "ofs_swap_jw" in ast.unparse(n.test):
            found.append(n)
    if len(found) != 1:
        raise TranslateError("_update_mps: expected exactly one ofs_swap_jw guard, got %d" % len(found))
    g = found[0]
    if ast.unparse(g.test) != "self.compress_config.ofs_swap_jw" or g.orelse:
        raise TranslateError("_update_mps guard %s" % ast.unparse(g.test))
    body = [ast.unparse(s) for s in g.body]
    if len(body) != 3 or body[0] != "assert cstruct2.ndim == 4" or body[1] != "cstruct2 = cstruct2.copy()":
        raise TranslateError("_update_mps guarded body %s" % body)
    s = g.body[2]
    if not (isinstance(s, ast.Assign) and len(s.targets) == 1 and isinstance(s.targets[0], ast.Subscript)
            and ast.unparse(s.targets[0].value) == "cstruct2" and isinstance(s.value, ast.UnaryOp)
            and isinstance(s.value.op, ast.USub) and ast.unparse(s.value.operand) == ast.unparse(s.targets[0])):
        raise TranslateError("_update_mps sign line %s" % body[2])
    idx = []
    sl = s.targets[0].slice
    if not isinstance(sl, ast.Tuple) or len(sl.elts) != 4:
        raise TranslateError("sign line index")
    for e in sl.elts:
        if isinstance(e, ast.Slice) and e.lower is None and e.upper is None and e.step is None:
            idx.append(None)
        elif isinstance(e, ast.Constant) and isinstance(e.value, int) and e.value in (0, 1):
            idx.append(e.value)
        else:
            raise TranslateError("sign line index element")
    # the transposition that precedes it (4-index case)
    tr = []
    for n in ast.walk(fn):
        if isinstance(n, ast.Assign) and ast.unparse(n.targets[0]) == "cstruct2" and isinstance(n.value, ast.Call) \
                and isinstance(n.value.func, ast.Attribute) and n.value.func.attr == "transpose" and len(n.value.args) == 4:
            tr.append([a.value for a in n.value.args if isinstance(a, ast.Constant)])
    if len(tr) != 1 or sorted(tr[0]) != [0, 1, 2, 3]:
        raise TranslateError("_update_mps transpose %s" % tr)
    # the sign must be applied after the transposition and before the second svd
    return idx, tr[0]


def render(rule, layout, st):
    idx, tr = st
    o = ["(* GENERATED by tx/jwrule.py from renormalizer/mps/symbolic_mpo.py (table_row_swapped_jw, swap_site)",
         "   and renormalizer/mps/mp.py (_update_mps) -- do not edit *)",
         "From Coq Require Import List String Arith Bool.", "Import ListNotations.", "Local Open Scope string_scope.", "",
         "Definition jw_word := list string.",
         "Definition cnt (s : string) (w : jw_word) : nat := count_occ string_dec w s.", "",
         "(* swap_site builds  row = [out_ops1, site%d_op, site%d_op, dummy, 0] ; table_row_swapped_jw reads" % layout,
         "   op1 = primary_ops[row[%d]], op2 = primary_ops[row[%d]] and returns [row[0], new_op1, new_op2, ..] *)" % (rule.rowcol["op1"], rule.rowcol["op2"]),
         "Definition row_col1_old_site : nat := %d." % layout[0],
         "Definition row_col2_old_site : nat := %d." % layout[1],
         "Definition op1_row_col : nat := %d." % rule.rowcol["op1"],
         "Definition op2_row_col : nat := %d." % rule.rowcol["op2"], ""]
    for name, e in rule.defs:
        o.append("Definition %s (w1 w2 : jw_word) : nat := %s." % (name, e))
    o.append("")
    o.append("Definition rule_asserts (w1 w2 : jw_word) : bool := %s." % (" && ".join(rule.asserts) if rule.asserts else "true"))
    o.append("(* coeff = (-1) ** %s *)" % rule.coeff)
    o.append("Definition coeff_is_minus (w1 w2 : jw_word) : bool := Nat.odd (%s w1 w2)." % rule.coeff)
    o.append("")
    o.append("Definition prepend_sigma_z (w : jw_word) : option jw_word :=")
    o.append("  match w with")
    o.append("  | [] => None")
    o.append("  | h :: t =>")
    for heads, body in rule.prepend:
        test = " || ".join("String.eqb h %s" % cstr(x) for x in heads)
        o.append("    if (%s) then %s else" % (test, body))
    o.append("    None")
    o.append("  end.")
    o.append("")
    for k in ("new_op1", "new_op2"):
        cond, w = rule.newop[k]
        o.append("Definition %s (w1 w2 : jw_word) : option jw_word := if Nat.eqb (%s w1 w2) 0 then Some %s else prepend_sigma_z %s." % (k, cond, w, w))
    o.append("")
    o.append("(* the rule: (new word at new first site, new word at new second site, coefficient is -1) ; None = the code raises *)")
    o.append("Definition jw_rule (w1 w2 : jw_word) : option (jw_word * jw_word * bool) :=")
    o.append("  if rule_asserts w1 w2 then")
    o.append("    match new_op1 w1 w2, new_op2 w1 w2 with")
    o.append("    | Some a, Some b => Some (a, b, coeff_is_minus w1 w2)")
    o.append("    | _, _ => None")
    o.append("    end")
    o.append("  else None.")
    o.append("")
    heads = []
    for hs, _ in rule.prepend:
        heads += hs
    o.append("(* symbol names the rule knows: counted as ladder symbols / accepted as head by prepend_sigma_z *)")
    o.append("Definition rule_counted_names : list string := [%s]." % "; ".join(cstr(x) for x in rule.counted))
    o.append("Definition rule_head_names : list string := [%s]." % "; ".join(cstr(x) for x in heads))
    o.append("")
    o.append("(* state side (_update_mps, guarded by self.compress_config.ofs_swap_jw): cstruct2 = cstruct.transpose%s ;" % (tuple(tr),))
    o.append("   cstruct2[%s] is negated *)" % ", ".join(":" if i is None else str(i) for i in idx))
    o.append("Definition state_transpose : list nat := [%s]." % "; ".join(str(x) for x in tr))
    o.append("Definition state_neg_index : list (option nat) := [%s]." % "; ".join("None" if i is None else "Some %d" % i for i in idx))
    o.append("")
    return "\n".join(o)


def main(repo="/repo"):
    src = open(repo + "/renormalizer/mps/symbolic_mpo.py").read()
    tree = ast.parse(src)
    rule = Rule(find_func(tree, "table_row_swapped_jw"))
    rule.run()
    layout = swap_row_layout(tree)
    st = state_side(open(repo + "/renormalizer/mps/mp.py").read())
    info = {"counted": list(rule.counted), "heads": [h for hs, _ in rule.prepend for h in hs],
            "layout": layout, "state_idx": st[0], "state_transpose": st[1]}
    return render(rule, layout, st), info


if __name__ == "__main__":
    sys.stdout.write(main(sys.argv[1] if len(sys.argv) > 1 else "/repo")[0])
