"""Translator (fail-closed): the decision logic of the three step-size controllers -> coq/Gen/StepCtlGen.v

Sources (python `ast`, nothing executed), renormalizer/mps/mps.py:
  adaptive_tdvp.adaptive_fun            `while True:` body                      -> tdvp_dt_gen, tdvp_step_gen
  Mps._evolve_prop_and_compress         `while True:` body of the adaptive arm  -> pc_dt_gen,   pc_step_gen
  Mps._evolve_prop_and_compress_tdrk    `while True:` body of the adaptive arm  -> tdrk_dt_gen, tdrk_step_gen

The loop body is executed symbolically over the scalars the controller computes with
    guess  (config.guess_dt / <state>.evolve_config.guess_dt),  pos (evolved_t / evolved_dt; for the Taylor scheme the
    remaining time evolve_dt),  target (evolve_target_t / evolve_dt),  dt,  p
and every path through it ends in one of
    Reject g        the trial is thrown away: next iteration with guess g, same position   (`continue` / fall through)
    Sub g x         the trial is accepted, next iteration (or recursive call) with guess g at position x
    Final g         the trial is accepted and the call returns with guess g                (`return` / `break`)
The result is one nested `if` term per controller: every comparison (`<`, allclose -> Qeq_bool), every min / max / min_abs,
every update formula and the order of the tests are taken from the source, so a changed comparison or a swapped min/max
changes the generated term; Proofs/StepCtlProofs.v proves that the loops the theorems are about (Model/StepCtl.v) unfold to
exactly these terms (lemmas *_loop_gen).
The enlargement factor p is an input of the step (the assignment `p = (...) ** (...)` is recognised by its shape and
replaced by the variable p0); statements that only build / compare states (calls of the wrapped scheme, distance,
compressed_sum, del, logging) are skipped after checking that they store to no tracked scalar.
Anything else raises TranslateError.
"""
import ast
import sys

TARGET = "Gen/StepCtlGen.v"


class TranslateError(Exception):
    pass


def _find_func(tree, name, cls=None):
    for node in ast.walk(tree):
        if cls is not None:
            if isinstance(node, ast.ClassDef) and node.name == cls:
                for f in node.body:
                    if isinstance(f, ast.FunctionDef) and f.name == name:
                        return f
        elif isinstance(node, ast.FunctionDef) and node.name == name:
            return node
    raise TranslateError("function %s not found" % name)


def _the_loop(fn):
    loops = [n for n in ast.walk(fn) if isinstance(n, ast.While) and isinstance(n.test, ast.Constant) and n.test.value is True]
    if len(loops) != 1 or loops[0].orelse:
        raise TranslateError("%s: expected exactly one `while True:` loop" % fn.name)
    return loops[0]


class Sym:
    """symbolic executor of one loop body"""

    def __init__(self, label, attrs, names, consts, recursive=None):
        self.label = label
        self.attrs = attrs          # unparsed attribute expression -> tracked key
        self.names = names          # python name -> tracked key
        self.consts = consts        # python name -> Coq constant
        self.recursive = recursive  # name of the method whose call is the recursive sub-step (Taylor scheme)
        self.dt_expr = None
        self.err_expr = None
        self.fn = None

    # ---- expressions
    def key_of(self, node):
        if isinstance(node, ast.Name) and node.id in self.names:
            return self.names[node.id]
        if isinstance(node, ast.Attribute):
            s = ast.unparse(node)
            if s in self.attrs:
                return self.attrs[s]
        return None

    def expr(self, n, env):
        k = self.key_of(n)
        if k is not None:
            if k not in env:
                raise TranslateError("%s: %s read before assignment" % (self.label, k))
            return env[k]
        if isinstance(n, ast.Name) and n.id in self.consts:
            return self.consts[n.id]
        if isinstance(n, ast.BinOp) and isinstance(n.op, (ast.Add, ast.Sub, ast.Mult)):
            op = {ast.Add: "+", ast.Sub: "-", ast.Mult: "*"}[type(n.op)]
            return "(%s %s %s)" % (self.expr(n.left, env), op, self.expr(n.right, env))
        if isinstance(n, ast.Call) and not n.keywords and len(n.args) == 2:
            f = ast.unparse(n.func)
            fn = {"min_abs": "min_abs", "max": "pymax", "min": "pymin"}.get(f)
            if fn:
                return "(%s %s %s)" % (fn, self.expr(n.args[0], env), self.expr(n.args[1], env))
        raise TranslateError("%s: untranslatable expression `%s`" % (self.label, ast.unparse(n)))

    def cond(self, n, env):
        if isinstance(n, ast.Compare) and len(n.ops) == 1 and isinstance(n.ops[0], ast.Lt):
            return "(Qlt_bool %s %s)" % (self.expr(n.left, env), self.expr(n.comparators[0], env))
        if isinstance(n, ast.Call) and ast.unparse(n.func) in ("np.allclose", "xp.allclose") and len(n.args) == 2 and not n.keywords:
            return "(Qeq_bool %s %s)" % (self.expr(n.args[0], env), self.expr(n.args[1], env))
        raise TranslateError("%s: untranslatable test `%s`" % (self.label, ast.unparse(n)))

    # ---- the error measure inside  p = (<tolerance factor> / (<error> + 1e-30)) ** (1/<order>)
    def error_of(self, pw):
        base = pw.left
        if not (isinstance(base, ast.BinOp) and isinstance(base.op, ast.Div) and isinstance(base.right, ast.BinOp)
                and isinstance(base.right.op, ast.Add) and isinstance(base.right.right, ast.Constant) and base.right.right.value == 1e-30):
            raise TranslateError("%s: enlargement factor is not (tol / (error + 1e-30)) ** (1/order): %s" % (self.label, ast.unparse(pw)))
        if "adaptive_rtol" not in ast.unparse(base.left):
            raise TranslateError("%s: numerator of the enlargement factor does not contain adaptive_rtol" % self.label)
        return self.err_term(base.right.left)

    def err_term(self, n):
        """expression over  dis (a distance / norm of an error vector)  and  nrm (norm of the propagated state)"""
        if isinstance(n, ast.Name) and n.id == "dis":
            return "dis"
        if isinstance(n, ast.Name) and n.id == "error":
            # general RK: `error = error.norm / new_mps.norm` inside sub_time_step_evolve
            defs = [a for a in ast.walk(self.fn) if isinstance(a, ast.Assign) and len(a.targets) == 1 and isinstance(a.targets[0], ast.Name)
                    and a.targets[0].id == "error" and isinstance(a.value, ast.BinOp)]
            if len(defs) != 1:
                raise TranslateError("%s: expected exactly one arithmetic definition of `error`" % self.label)
            return self.err_term(defs[0].value)
        if isinstance(n, ast.Attribute) and n.attr in ("mp_norm", "norm") and isinstance(n.value, ast.Name):
            return "dis" if n.value.id == "error" else "nrm"
        if isinstance(n, ast.BinOp) and isinstance(n.op, (ast.Div, ast.Mult)):
            return "(%s %s %s)" % (self.err_term(n.left), "/" if isinstance(n.op, ast.Div) else "*", self.err_term(n.right))
        raise TranslateError("%s: untranslatable error measure `%s`" % (self.label, ast.unparse(n)))

    # ---- statements
    def stores_tracked(self, node):
        for n in ast.walk(node):
            if isinstance(n, (ast.Name, ast.Attribute)) and isinstance(getattr(n, "ctx", None), (ast.Store, ast.Del)):
                if self.key_of(n) is not None:
                    return True
                if isinstance(n, ast.Attribute) and n.attr == "guess_dt":
                    return True           # a guess_dt the symbol table does not know
            if isinstance(n, ast.Name) and isinstance(getattr(n, "ctx", None), ast.Store) and n.id in self.consts:
                return True
        return False

    def leaf_fallthrough(self, env, env0):
        if env["pos"] == env0["pos"]:
            return "(Reject %s)" % env["guess"]
        return "(Sub %s %s)" % (env["guess"], env["pos"])

    def run(self, stmts, env, env0):
        if not stmts:
            return self.leaf_fallthrough(env, env0)
        s, rest = stmts[0], stmts[1:]
        if isinstance(s, ast.Continue):
            return self.leaf_fallthrough(env, env0)
        if isinstance(s, ast.Break):
            return "(Final %s)" % env.get("resg", env["guess"])
        if isinstance(s, ast.Return):
            v = s.value
            if isinstance(v, ast.Name):
                return "(Final %s)" % env.get("resg", env["guess"])
            if self.recursive and isinstance(v, ast.Call) and isinstance(v.func, ast.Attribute) and v.func.attr == self.recursive \
                    and len(v.args) == 2 and not v.keywords:
                if env.get("resg") != env["guess"]:
                    raise TranslateError("%s: the recursive call does not hand the updated guess on" % self.label)
                return "(Sub %s %s)" % (env["guess"], self.expr(v.args[1], env))
            raise TranslateError("%s: unsupported return `%s`" % (self.label, ast.unparse(s)))
        if isinstance(s, ast.If):
            c = self.cond(s.test, env)
            a = self.run(list(s.body) + rest, dict(env), env0)
            b = self.run(list(s.orelse) + rest, dict(env), env0)
            return "(if %s then %s else %s)" % (c, a, b)
        if isinstance(s, ast.Assign) and len(s.targets) == 1:
            t = s.targets[0]
            k = self.key_of(t)
            if k is None and isinstance(t, ast.Name) and t.id not in self.consts and not self.stores_tracked(t):
                # a local scalar helper (e.g. new_dt) or a state: remember scalars that translate, skip the rest
                try:
                    env = dict(env)
                    env["local:" + t.id] = self.expr(s.value, env)
                    self.names[t.id] = "local:" + t.id
                except TranslateError:
                    pass
                return self.run(rest, env, env0)
            if k is not None:
                env = dict(env)
                if k == "p" and isinstance(s.value, ast.BinOp) and isinstance(s.value.op, ast.Pow):
                    env["p"] = "p0"
                    self.err_expr = self.error_of(s.value)
                elif k == "dt":
                    if self.dt_expr is not None:
                        raise TranslateError("%s: dt assigned twice" % self.label)
                    self.dt_expr = self.expr(s.value, env)
                    env["dt"] = "dt"
                else:
                    env[k] = self.expr(s.value, env)
                return self.run(rest, env, env0)
        if isinstance(s, ast.AugAssign) and isinstance(s.op, (ast.Add, ast.Mult)):
            k = self.key_of(s.target)
            if k is not None:
                env = dict(env)
                op = "+" if isinstance(s.op, ast.Add) else "*"
                env[k] = "(%s %s %s)" % (env[k], op, self.expr(s.value, env))
                return self.run(rest, env, env0)
        if isinstance(s, (ast.Expr, ast.Delete, ast.Assign, ast.For)) and not self.stores_tracked(s) \
                and not any(isinstance(n, (ast.Continue, ast.Break, ast.Return, ast.While)) for n in ast.walk(s)):
            return self.run(rest, env, env0)
        raise TranslateError("%s: unsupported statement `%s`" % (self.label, ast.unparse(s)[:80]))


def translate(fn, label, attrs, names, pos_is_remaining=False, recursive=None):
    loop = _the_loop(fn)
    consts = {"p_restart": label + "_p_restart", "p_min": label + "_p_min", "p_max": label + "_p_max"}
    sym = Sym(label, attrs, dict(names), consts, recursive)
    sym.fn = fn
    env0 = {"guess": "guess", "pos": "pos", "target": "target"}
    if pos_is_remaining:
        env0["target"] = "pos"
    term = sym.run(list(loop.body), dict(env0), env0)
    if sym.dt_expr is None:
        raise TranslateError("%s: no assignment to dt" % label)
    for leaf in ("Reject", "Sub", "Final"):
        if "(" + leaf + " " not in term:
            raise TranslateError("%s: no %s path found" % (label, leaf))
    if sym.err_expr is None:
        raise TranslateError("%s: no enlargement factor p = (...) ** (...) found" % label)
    return sym.dt_expr, term, sym.err_expr


def main(repo="/repo"):
    tree = ast.parse(open(repo + "/renormalizer/mps/mps.py").read())
    out = ["(* GENERATED by tx/stepctlgen.py from renormalizer/mps/mps.py -- do not edit *)",
           "From Coq Require Import QArith.", "From RV Require Import Gen.StepCtlConsts Model.StepCtl.", "Local Open Scope Q_scope.", ""]
    specs = [
        ("tdvp", _find_func(_find_func(tree, "adaptive_tdvp"), "adaptive_fun"),
         {"config.guess_dt": "guess", "mps_half2.evolve_config.guess_dt": "resg"},
         {"dt": "dt", "p": "p", "evolved_t": "pos", "evolve_target_t": "target"}, False, None),
        ("pc", _find_func(tree, "_evolve_prop_and_compress", "Mps"),
         {"config.guess_dt": "guess", "new_mps2.evolve_config.guess_dt": "resg"},
         {"dt": "dt", "p": "p", "evolve_dt": "pos"}, True, "_evolve_prop_and_compress"),
        ("tdrk", _find_func(tree, "_evolve_prop_and_compress_tdrk", "Mps"),
         {"new_mps.evolve_config.guess_dt": "guess", "trial_mps.evolve_config.guess_dt": "guess"},
         {"dt": "dt", "p": "p", "evolved_dt": "pos", "evolve_dt": "target"}, False, None),
    ]
    info = {}
    for label, fn, attrs, names, rem, rec in specs:
        dt, term, err = translate(fn, label, attrs, names, rem, rec)
        info[label] = {"dt": dt, "step": term, "err": err}
        out.append("(* %s *)" % fn.name)
        out.append("Definition %s_dt_gen (guess pos target : Q) : Q := %s." % (label, dt))
        out.append("Definition %s_step_gen (guess pos target dt p0 : Q) : outcome :=\n  %s." % (label, term))
        out.append("(* the error measure the enlargement factor p0 is computed from: dis = distance of the two solutions / norm of the error vector,")
        out.append("   nrm = norm of the propagated state *)")
        out.append("Definition %s_err_gen (dis nrm : Q) : Q := %s." % (label, err))
        out.append("")
    return "\n".join(out), info


if __name__ == "__main__":
    text, info = main(sys.argv[1] if len(sys.argv) > 1 else "/repo")
    sys.stdout.write(text)
