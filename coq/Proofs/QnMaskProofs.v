(* Masks and sweep steps keep the labels valid:
   - mask1 / mask2 (the code's get_qn_mask of the 1-site / 2-site qnmat) are exactly the label equations;
   - writing ANY tensor that vanishes outside the mask at the centre keeps qn_valid (DMRG 1-site, VMF / CMF packing);
   - replacing two adjacent sites by factors that obey the svd_qn block contract w.r.t. the new bond labels keeps
     qn_valid (2-site DMRG update, compress step); the QR push of canonicalise is the special case where the
     remainder is absorbed by the neighbour.                                                                      *)
From Coq Require Import Ring List Arith Lia Bool ZArith.
Import ListNotations.
From RV Require Import Base.CRing Base.BigSum Model.Chain Proofs.ChainProofs Model.Mp Proofs.MpProofs Model.Qn
  Proofs.QnProofs Model.QnMask.
Local Open Scope Z_scope.

Ltac zl := cbn [lab ZLab ladd lsub lneg lzero_like leqb] in *.

(* ------------------------------------------------------------------ list helpers *)
Lemma nth_set_nth_list {A} : forall (q : list A) j v k d, (j < length q)%nat ->
  nth k (set_nth_list j v q) d = if Nat.eqb k j then v else nth k q d.
Proof.
  induction q as [|x q IH]; intros j v k d Hj; [cbn in Hj; lia|].
  destruct j as [|j]; destruct k as [|k]; cbn [set_nth_list nth Nat.eqb]; try reflexivity.
  apply IH. cbn in Hj. lia.
Qed.
Lemma length_set_nth_list {A} : forall (q : list A) j v, length (set_nth_list j v q) = length q.
Proof. induction q as [|x q IH]; intros [|j] v; cbn [set_nth_list length]; try reflexivity. rewrite IH. reflexivity. Qed.
Lemma map_set_nth_list {A B} (f : A -> B) : forall (q : list A) j v, map f (set_nth_list j v q) = set_nth_list j (f v) (map f q).
Proof. induction q as [|x q IH]; intros [|j] v; cbn [set_nth_list map]; try reflexivity. rewrite IH. reflexivity. Qed.

Lemma set_nth_list_overflow {A} : forall (q : list A) j v, (length q <= j)%nat -> set_nth_list j v q = q.
Proof.
  induction q as [|x q IH]; intros j v Hj; [reflexivity|].
  destruct j as [|j]; [simpl in Hj; lia|]. cbn [set_nth_list]. rewrite IH by (simpl in Hj; lia). reflexivity.
Qed.

(* ------------------------------------------------------------------ labels after _update_ms *)
Lemma Llab_set_bond_other (m : metaZ) j newq newidx j' a : j' <> j ->
  (j' <=? qnidx m)%nat = (j' <=? newidx)%nat -> Llab (set_bond m j newq newidx) j' a = Llab m j' a.
Proof.
  intros Hne Hle. unfold Llab, qn_at, set_bond. cbn [qn qnidx qntot]. rewrite Hle.
  destruct (Nat.lt_ge_cases j (length (qn m))) as [Hj|Hj].
  - rewrite nth_set_nth_list by exact Hj. destruct (Nat.eqb_spec j' j); [contradiction|reflexivity].
  - rewrite set_nth_list_overflow by exact Hj. reflexivity.
Qed.

Lemma Llab_set_bond_at (m : metaZ) j newq newidx a : (j < length (qn m))%nat ->
  Llab (set_bond m j newq newidx) j a = if (j <=? newidx)%nat then nth a newq 0 else qntot m - nth a newq 0.
Proof.
  intros Hj. unfold Llab, qn_at, set_bond. cbn [qn qnidx qntot]. zl.
  rewrite nth_set_nth_list by exact Hj. rewrite Nat.eqb_refl. reflexivity.
Qed.

(* ------------------------------------------------------------------ masks are the label equations *)
Theorem mask1_meaning (sg : list Z) (m : metaZ) i l p r : qnidx m = i ->
  @mask1 ZLab sg m i l p r = true <-> Llab m i l + nth p sg 0 = Llab m (S i) r.
Proof.
  intros Hk. unfold mask1, Llab, sig_at. zl. rewrite Hk.
  assert (H1 : (i <=? i)%nat = true) by (apply Nat.leb_le; lia).
  assert (H2 : (S i <=? i)%nat = false) by (apply Nat.leb_gt; lia). rewrite H1, H2.
  generalize (qn_at m i l) (qn_at m (S i) r) (qntot m) (nth p sg 0). zl. intros a b t s.
  destruct (to_right m); rewrite Z.eqb_eq; lia.
Qed.

Theorem mask2_meaning (sg1 sg2 : list Z) (m : metaZ) i l p1 p2 r : (qnidx m = i \/ qnidx m = S i) ->
  @mask2 ZLab sg1 sg2 m i l p1 p2 r = true <-> Llab m i l + nth p1 sg1 0 + nth p2 sg2 0 = Llab m (S (S i)) r.
Proof.
  intros Hk. unfold mask2, Llab, sig_at. zl.
  assert (H1 : (i <=? qnidx m)%nat = true) by (apply Nat.leb_le; lia).
  assert (H2 : (S (S i) <=? qnidx m)%nat = false) by (apply Nat.leb_gt; lia). rewrite H1, H2.
  generalize (qn_at m i l) (qn_at m (S (S i)) r) (qntot m) (nth p1 sg1 0) (nth p2 sg2 0). zl. intros a b t s1 s2.
  rewrite Z.eqb_eq. lia.
Qed.

(* vector labels: the mask of the code implies the mask of every component *)
Lemma veqb_comp : forall a b, veqb a b = true -> forall k, comp k a = comp k b.
Proof.
  induction a as [|x a IH]; intros b H k.
  - cbn [veqb] in H. rewrite comp_nil. revert k. induction b as [|y b IHb]; intros k; [rewrite comp_nil; reflexivity|].
    cbn [forallb] in H. apply andb_prop in H. destruct H as [H1 H2]. apply Z.eqb_eq in H1.
    destruct k; [unfold comp; cbn; exact H1|]. unfold comp in *. cbn [nth]. apply (IHb H2 k).
  - destruct b as [|y b]; cbn [veqb] in H; apply andb_prop in H; destruct H as [H1 H2]; apply Z.eqb_eq in H1.
    + destruct k; [unfold comp; cbn; exact H1|]. rewrite comp_nil. unfold comp. cbn [nth].
      pose proof (IH [] H2 k) as E. rewrite comp_nil in E. exact E.
    + destruct k; [unfold comp; cbn; exact H1|]. unfold comp. cbn [nth]. apply (IH b H2 k).
Qed.

Lemma nth_proj k (q : list (list (list Z))) i a z :
  comp k (nth a (nth i q []) (map (fun _ : Z => 0) z)) = nth a (nth i (map (map (comp k)) q) []) 0.
Proof.
  change (@nil Z) with (map (comp k) (@nil (list Z))). rewrite (map_nth (map (comp k))).
  transitivity (nth a (map (comp k) (nth i q [])) (comp k (map (fun _ : Z => 0) z))).
  - symmetry. apply (map_nth (comp k)).
  - rewrite comp_zero_like. reflexivity.
Qed.

Lemma nth_proj_sig k (sg : list (list Z)) p z :
  comp k (nth p sg (map (fun _ : Z => 0) z)) = nth p (map (comp k) sg) 0.
Proof.
  transitivity (nth p (map (comp k) sg) (comp k (map (fun _ : Z => 0) z))).
  - symmetry. apply (map_nth (comp k)).
  - rewrite comp_zero_like. reflexivity.
Qed.

Theorem mask1_comp k (sg : list (list Z)) (m : meta VLab) i l p r :
  @mask1 VLab sg m i l p r = true -> @mask1 ZLab (map (comp k) sg) (proj_meta k m) i l p r = true.
Proof.
  unfold mask1, sig_at, qn_at. cbn [proj_meta qn qnidx qntot to_right lab VLab ZLab ladd leqb lzero_like].
  intros H. apply veqb_comp with (k := k) in H. apply Z.eqb_eq. rewrite <- H.
  rewrite <- !(nth_proj k (qn m) _ _ (qntot m)), <- (nth_proj_sig k sg p (qntot m)).
  destruct (to_right m); rewrite !(comp_zipz Z.add eq_refl); reflexivity.
Qed.

Theorem mask2_comp k (sg1 sg2 : list (list Z)) (m : meta VLab) i l p1 p2 r :
  @mask2 VLab sg1 sg2 m i l p1 p2 r = true ->
  @mask2 ZLab (map (comp k) sg1) (map (comp k) sg2) (proj_meta k m) i l p1 p2 r = true.
Proof.
  unfold mask2, sig_at, qn_at. cbn [proj_meta qn qnidx qntot to_right lab VLab ZLab ladd leqb lzero_like].
  intros H. apply veqb_comp with (k := k) in H. apply Z.eqb_eq. rewrite <- H.
  rewrite <- !(nth_proj k (qn m) _ _ (qntot m)), <- (nth_proj_sig k sg1 p1 (qntot m)), <- (nth_proj_sig k sg2 p2 (qntot m)).
  rewrite !(comp_zipz Z.add eq_refl). reflexivity.
Qed.

(* the mask for vector-valued labels is the CONJUNCTION of the component masks (get_qn_mask: np.all(..., axis=-1)) *)
Lemma veqb_of_comp : forall a b, (forall k, comp k a = comp k b) -> veqb a b = true.
Proof.
  induction a as [|x a IH]; intros b H.
  - cbn [veqb]. induction b as [|y b IHb]; [reflexivity|]. cbn [forallb].
    pose proof (H O) as H0. unfold comp in H0. cbn in H0. rewrite <- H0. cbn [Z.eqb andb]. apply IHb.
    intros k. pose proof (H (S k)) as Hk. rewrite comp_nil in *. unfold comp in *. cbn [nth] in Hk. exact Hk.
  - destruct b as [|y b]; cbn [veqb].
    + pose proof (H O) as H0. unfold comp in H0. cbn in H0. subst x. cbn [Z.eqb andb]. apply IH.
      intros k. pose proof (H (S k)) as Hk. rewrite comp_nil in *. unfold comp in *. cbn [nth] in Hk. exact Hk.
    + pose proof (H O) as H0. unfold comp in H0. cbn in H0. subst y. rewrite Z.eqb_refl. cbn [andb]. apply IH.
      intros k. pose proof (H (S k)) as Hk. unfold comp in *. cbn [nth] in Hk. exact Hk.
Qed.

Lemma veqb_iff_comp a b : veqb a b = true <-> forall k, comp k a = comp k b.
Proof. split; [apply veqb_comp|apply veqb_of_comp]. Qed.

Theorem mask1_vector_conjunction (sg : list (list Z)) (m : meta VLab) i l p r :
  @mask1 VLab sg m i l p r = true <-> forall k, @mask1 ZLab (map (comp k) sg) (proj_meta k m) i l p r = true.
Proof.
  split; [intros H k; apply mask1_comp; exact H|].
  intros H. unfold mask1, sig_at, qn_at in *. cbn [proj_meta qn qnidx qntot to_right lab VLab ZLab ladd leqb lzero_like] in *.
  apply veqb_of_comp. intros k. specialize (H k). apply Z.eqb_eq in H. rewrite <- H.
  rewrite <- !(nth_proj k (qn m) _ _ (qntot m)), <- (nth_proj_sig k sg p (qntot m)).
  destruct (to_right m); rewrite !(comp_zipz Z.add eq_refl); reflexivity.
Qed.

Theorem mask2_vector_conjunction (sg1 sg2 : list (list Z)) (m : meta VLab) i l p1 p2 r :
  @mask2 VLab sg1 sg2 m i l p1 p2 r = true <->
  forall k, @mask2 ZLab (map (comp k) sg1) (map (comp k) sg2) (proj_meta k m) i l p1 p2 r = true.
Proof.
  split; [intros H k; apply mask2_comp; exact H|].
  intros H. unfold mask2, sig_at, qn_at in *. cbn [proj_meta qn qnidx qntot to_right lab VLab ZLab ladd leqb lzero_like] in *.
  apply veqb_of_comp. intros k. specialize (H k). apply Z.eqb_eq in H. rewrite <- H.
  rewrite <- !(nth_proj k (qn m) _ _ (qntot m)), <- (nth_proj_sig k sg1 p1 (qntot m)), <- (nth_proj_sig k sg2 p2 (qntot m)).
  rewrite !(comp_zipz Z.add eq_refl). reflexivity.
Qed.

(* ------------------------------------------------------------------ replacing sites *)
Section Replace.
Variable R : CRing.
Add Ring RRm : (rth R).
Notation T3 := (T3 R).

Lemma valid_from3_set_site : forall (ts : list (nat * T3)) sig Lf i dl k d (t' : T3),
  valid_from3 sig Lf i dl ts -> nth (S k) (bdims dl ts) O = d ->
  (forall l p r, (l < nth k (bdims dl ts) O)%nat -> (r < d)%nat ->
     Lf (i + k)%nat l + sig (i + k)%nat p <> Lf (S (i + k)) r -> t' l p r = r0 R) ->
  valid_from3 sig Lf i dl (set_site k (d, t') ts).
Proof.
  induction ts as [|[d0 t0] ts IH]; intros sig Lf i dl k d t' Hv Hd Hc; [exact I|].
  destruct Hv as [Hs Hr]. destruct k as [|k]; cbn [set_site].
  - cbn [bdims map fst nth] in Hd, Hc. subst d0. rewrite Nat.add_0_r in Hc. split; [exact Hc|exact Hr].
  - split; [exact Hs|]. apply IH; [exact Hr| rewrite nth_bdims_S in Hd; exact Hd |].
    intros l p r Hl Hr'. replace (S i + k)%nat with (i + S k)%nat by lia. apply Hc; assumption.
Qed.

Lemma bdims_set_site : forall (ts : list (nat * T3)) k dl (t' : T3), (k < length ts)%nat ->
  bdims dl (set_site k (nth (S k) (bdims dl ts) O, t') ts) = bdims dl ts.
Proof.
  induction ts as [|[d0 t0] ts IH]; intros k dl t' Hk; [reflexivity|].
  destruct k as [|k]; cbn [set_site]; [reflexivity|].
  rewrite nth_bdims_S. unfold bdims in *. cbn [map fst]. f_equal. f_equal.
  pose proof (IH k d0 t') as E. cbn in Hk. specialize (E ltac:(lia)). injection E as E. exact E.
Qed.

Lemma length_set_site : forall (ts : list (nat * T3)) k x, length (set_site k x ts) = length ts.
Proof. induction ts as [|y ts IH]; intros [|k] x; cbn [set_site length]; try reflexivity. rewrite IH. reflexivity. Qed.

(* the statement that makes masked updates sector-preserving: ANY tensor that vanishes outside the 1-site mask,
   written at the centre, keeps the labels valid *)
Theorem mask_update_valid sig (sg : list Z) (m : metaZ) (ts : list (nat * T3)) i (t' : T3) :
  qn_valid3 sig m ts -> qnidx m = i -> (forall p, sig i p = nth p sg 0) ->
  (forall l p r, @mask1 ZLab sg m i l p r = false -> t' l p r = r0 R) ->
  qn_valid3 sig m (set_site i (nth (S i) (bdims 1 ts) O, t') ts).
Proof.
  intros [[Hsh [Hld Hk]] [H0 [Hn Hv]]] Hi Hsig Hmask.
  assert (Hil : (i < length ts)%nat) by lia.
  unfold qn_valid3, shape_ok. rewrite bdims_set_site by exact Hil. rewrite length_set_site.
  rewrite <- nth_bdims_last, length_set_site, bdims_set_site, nth_bdims_last by exact Hil.
  repeat split; try assumption.
  apply valid_from3_set_site; [exact Hv|reflexivity|].
  intros l p r _ _ Hne. cbn [Nat.add] in Hne. apply Hmask.
  destruct (@mask1 ZLab sg m i l p r) eqn:E; [|reflexivity]. exfalso. apply Hne.
  rewrite Hsig. apply (mask1_meaning sg m i l p r Hi). exact E.
Qed.

(* two adjacent sites k, k+1 replaced; the labels Lg differ from Lf only on the bond between them *)
Lemma valid_from3_set_site2 : forall (ts : list (nat * T3)) sig Lf Lg i dl k dnew (U V : T3),
  valid_from3 sig Lf i dl ts -> (S k < length ts)%nat ->
  (forall j a, j <> S (i + k) -> Lg j a = Lf j a) ->
  (forall l p a, (l < nth k (bdims dl ts) O)%nat -> (a < dnew)%nat ->
     Lg (i + k)%nat l + sig (i + k)%nat p <> Lg (S (i + k)) a -> U l p a = r0 R) ->
  (forall a p r, (a < dnew)%nat -> (r < nth (S (S k)) (bdims dl ts) O)%nat ->
     Lg (S (i + k)) a + sig (S (i + k)) p <> Lg (S (S (i + k))) r -> V a p r = r0 R) ->
  valid_from3 sig Lg i dl (set_site2 k (dnew, U) (nth (S (S k)) (bdims dl ts) O, V) ts).
Proof.
  induction ts as [|[d0 t0] ts IH]; intros sig Lf Lg i dl k dnew U V Hv Hk Hag HU HV; [cbn in Hk; lia|].
  destruct k as [|k].
  - destruct ts as [|[d1 t1] ts]; [cbn in Hk; lia|]. cbn [set_site2]. rewrite Nat.add_0_r in *.
    destruct Hv as [_ [_ Hr]]. cbn [bdims map fst nth] in HU, HV |- *.
    split; [exact HU|]. split; [exact HV|].
    apply (valid_from3_ext R ts sig Lf Lg (S (S i)) d1); [|exact Hr].
    intros j a _ _. symmetry. apply Hag. lia.
  - destruct Hv as [Hs Hr]. cbn [set_site2].
    destruct ts as [|y ts']; [cbn in Hk; lia|].
    rewrite nth_bdims_S. split.
    + intros l p r Hl Hr' Hne. apply Hs; try assumption.
      rewrite <- (Hag i l), <- (Hag (S i) r) by lia. exact Hne.
    + apply (IH sig Lf Lg (S i) d0 k dnew U V Hr); [cbn in Hk |- *; lia| | |].
      * intros j a Hj. apply Hag. lia.
      * intros l p a Hl Ha. replace (S i + k)%nat with (i + S k)%nat by lia. apply HU; [rewrite nth_bdims_S; exact Hl|exact Ha].
      * intros a p r Ha Hr'. replace (S i + k)%nat with (i + S k)%nat by lia. apply HV; [exact Ha|rewrite nth_bdims_S; exact Hr'].
Qed.

Lemma bdims_set_site2 : forall (ts : list (nat * T3)) k dl dnew (U V : T3), (S k < length ts)%nat ->
  bdims dl (set_site2 k (dnew, U) (nth (S (S k)) (bdims dl ts) O, V) ts) = set_nth_list (S k) dnew (bdims dl ts).
Proof.
  induction ts as [|[d0 t0] ts IH]; intros k dl dnew U V Hk; [cbn in Hk; lia|].
  destruct k as [|k].
  - destruct ts as [|[d1 t1] ts]; [cbn in Hk; lia|]. reflexivity.
  - destruct ts as [|y ts']; [cbn in Hk; lia|]. cbn [set_site2]. rewrite nth_bdims_S.
    pose proof (IH k d0 dnew U V) as E. cbn in Hk. specialize (E ltac:(cbn; lia)).
    unfold bdims in *. cbn [map fst set_nth_list] in *. f_equal. exact E.
Qed.

Lemma set_site2_S (z : nat * T3) ts k x y : set_site2 (S k) x y (z :: ts) = z :: set_site2 k x y ts.
Proof. destruct ts; reflexivity. Qed.

Lemma length_set_site2 : forall (ts : list (nat * T3)) k x y, length (set_site2 k x y ts) = length ts.
Proof.
  induction ts as [|z ts IH]; intros k x y; [destruct k; reflexivity|].
  destruct k as [|k].
  - destruct ts; reflexivity.
  - rewrite set_site2_S. cbn [length]. rewrite IH. reflexivity.
Qed.

(* 2-site update / compress step: the two sites around bond i+1 are replaced by factors U, V and the bond is
   re-labelled as _update_ms does (stored labels newq, centre newidx = i+1 when sweeping right, i when sweeping left);
   block contract of svd_qn: every column of U / row of V lives in the block named by its new label *)
Theorem two_site_update_valid sig (m : metaZ) (ts : list (nat * T3)) i newq newidx (U V : T3) :
  qn_valid3 sig m ts -> (S i < length ts)%nat ->
  (qnidx m = i \/ qnidx m = S i) -> (newidx = i \/ newidx = S i) ->
  let m' := set_bond m (S i) newq newidx in
  (forall l p a, (l < nth i (bdims 1 ts) O)%nat -> (a < length newq)%nat ->
     Llab m i l + sig i p <> Llab m' (S i) a -> U l p a = r0 R) ->
  (forall a p r, (a < length newq)%nat -> (r < nth (S (S i)) (bdims 1 ts) O)%nat ->
     Llab m' (S i) a + sig (S i) p <> Llab m (S (S i)) r -> V a p r = r0 R) ->
  qn_valid3 sig m' (set_site2 i (length newq, U) (nth (S (S i)) (bdims 1 ts) O, V) ts).
Proof.
  intros [[Hsh [Hld Hk]] [H0 [Hn Hv]]] Hi Hold Hnew m' HU HV.
  assert (Hother : forall j a, j <> S i -> Llab m' j a = Llab m j a).
  { intros j a Hj. apply Llab_set_bond_other; [exact Hj|].
    destruct (Nat.leb_spec j (qnidx m)), (Nat.leb_spec j newidx); try reflexivity; lia. }
  assert (Hlenq : length (qn m) = S (length ts)).
  { rewrite <- (map_length (@length Z)), Hsh, length_bdims. reflexivity. }
  unfold qn_valid3, shape_ok. rewrite length_set_site2.
  split; [split; [|split]|split; [|split]].
  - unfold m', set_bond. cbn [qn]. rewrite map_set_nth_list, Hsh. symmetry. apply bdims_set_site2. exact Hi.
  - rewrite <- nth_bdims_last, length_set_site2, bdims_set_site2 by exact Hi.
    rewrite nth_set_nth_list by (rewrite length_bdims; lia).
    destruct (Nat.eqb_spec (length ts) (S i)); [lia|]. rewrite nth_bdims_last. exact Hld.
  - unfold m'. cbn [set_bond qnidx]. lia.
  - rewrite Hother by lia. exact H0.
  - rewrite Hother by lia. unfold m'. cbn [set_bond qntot]. exact Hn.
  - apply (valid_from3_set_site2 ts sig (Llab m) (Llab m') O 1%nat i (length newq) U V Hv Hi).
    + intros j a Hj. cbn [Nat.add] in Hj. apply Hother. exact Hj.
    + intros l p a Hl Ha. cbn [Nat.add]. rewrite (Hother i) by lia. apply HU; assumption.
    + intros a p r Ha Hr. cbn [Nat.add]. rewrite (Hother (S (S i))) by lia. apply HV; assumption.
Qed.

Lemma valid_site_entry : forall (ts : list (nat * T3)) sig Lf j dl k d (T : T3),
  valid_from3 sig Lf j dl ts -> nth_error ts k = Some (d, T) ->
  forall b p r, (b < nth k (bdims dl ts) O)%nat -> (r < d)%nat ->
  Lf (j + k)%nat b + sig (j + k)%nat p <> Lf (S (j + k)) r -> T b p r = r0 R.
Proof.
  induction ts as [|[d0 t0] ts IH]; intros sig Lf j dl k d T Hv Hn b p r Hb Hr Hne; [destruct k; discriminate|].
  destruct Hv as [Hs Hrv]. destruct k as [|k].
  - cbn in Hn. injection Hn as -> ->. rewrite Nat.add_0_r in Hne. apply Hs; assumption.
  - cbn [nth_error] in Hn. rewrite nth_bdims_S in Hb.
    apply (IH sig Lf (S j) d0 k d T Hrv Hn b p r Hb Hr). replace (S j + k)%nat with (j + S k)%nat by lia. exact Hne.
Qed.

Lemma nth_bdims_error : forall (ts : list (nat * T3)) dl k d (T : T3), nth_error ts k = Some (d, T) -> nth (S k) (bdims dl ts) O = d.
Proof.
  induction ts as [|[d0 t0] ts IH]; intros dl k d T Hn; [destruct k; discriminate|].
  destruct k as [|k]; [cbn in Hn; injection Hn as -> _; reflexivity|]. rewrite nth_bdims_S. apply (IH d0 k d T Hn).
Qed.

(* ------------------------------------------------------------------ one QR push step of canonicalise, sweeping right:
   M_i = Q . Rm  by svd_qn(QR=True, system "L");  site i <- Q, site i+1 <- Rm . T_{i+1}, qn[i+1] <- qnlset, qnidx <- i+1.
   Block contract: column a of Q lives in the block with left label qnew[a]; row a of Rm only connects to old bond
   indices with the same left label. *)
Theorem push_right_valid sig (m : metaZ) (ts : list (nat * T3)) i (qnew : list Z) (Q : T3) (Rm : nat -> nat -> R) d2 (T2 : T3) :
  qn_valid3 sig m ts -> qnidx m = i -> nth_error ts (S i) = Some (d2, T2) ->
  (forall l p a, (l < nth i (bdims 1 ts) O)%nat -> (a < length qnew)%nat ->
     Llab m i l + sig i p <> nth a qnew 0 -> Q l p a = r0 R) ->
  (forall a b, (a < length qnew)%nat -> (b < nth (S i) (bdims 1 ts) O)%nat ->
     nth a qnew 0 <> Llab m (S i) b -> Rm a b = r0 R) ->
  qn_valid3 sig (set_bond m (S i) qnew (S i))
    (set_site2 i (length qnew, Q) (d2, absorb_left (nth (S i) (bdims 1 ts) O) Rm T2) ts).
Proof.
  intros Hval Hi Hnth HQ HR.
  assert (Hlt : (S i < length ts)%nat) by (apply nth_error_Some; rewrite Hnth; discriminate).
  pose proof Hval as [[Hsh [Hld Hk]] [H0 [Hn Hv]]].
  assert (Hlenq : (S i < length (qn m))%nat).
  { rewrite <- (map_length (@length Z)), Hsh, length_bdims. lia. }
  assert (Hd2 : nth (S (S i)) (bdims 1 ts) O = d2).
  { unfold bdims. cbn [nth]. rewrite (nth_indep _ O (fst (O, T2))) by (rewrite map_length; exact Hlt).
    rewrite (map_nth fst). rewrite (nth_error_nth ts (S i) _ Hnth). reflexivity. }
  rewrite <- Hd2.
  assert (Hnew : forall a, Llab (set_bond m (S i) qnew (S i)) (S i) a = nth a qnew 0).
  { intros a. rewrite Llab_set_bond_at by exact Hlenq. rewrite Nat.leb_refl. reflexivity. }
  apply two_site_update_valid; try assumption; try (left; assumption); try (right; reflexivity).
  - intros l p a Hl Ha. rewrite Hnew. apply HQ; assumption.
  - intros a p r Ha Hr Hne. rewrite Hnew in Hne. unfold absorb_left. apply sumn_0. intros b Hb.
    destruct (Z.eq_dec (nth a qnew 0) (Llab m (S i) b)) as [Heq|Hneq].
    + (* T2 entry vanishes by validity of site i+1 *)
      assert (HT : T2 b p r = r0 R).
      { clear -Hv Hnth Hb Hr Hne Heq Hd2 Hlt.
        assert (G : forall (ts : list (nat * T3)) j dl k, valid_from3 sig (Llab m) j dl ts -> nth_error ts k = Some (d2, T2) ->
                    forall b r, (b < nth k (bdims dl ts) O)%nat -> (r < d2)%nat ->
                    Llab m (j + k)%nat b + sig (j + k)%nat p <> Llab m (S (j + k)) r -> T2 b p r = r0 R).
        { induction ts0 as [|[d0 t0] ts0 IH]; intros j dl k Hv0 Hn0 b0 r0' Hb0 Hr0 Hne0; [destruct k; discriminate|].
          destruct Hv0 as [Hs0 Hr0v]. destruct k as [|k].
          - cbn in Hn0. injection Hn0 as -> ->. rewrite Nat.add_0_r in Hne0. apply Hs0; assumption.
          - cbn [nth_error] in Hn0. rewrite nth_bdims_S in Hb0.
            apply (IH (S j) d0 k Hr0v Hn0 b0 r0' Hb0 Hr0). replace (S j + k)%nat with (j + S k)%nat by lia. exact Hne0. }
        apply (G ts O 1%nat (S i) Hv Hnth b r Hb); [rewrite <- Hd2; exact Hr|]. cbn [Nat.add]. rewrite <- Heq. exact Hne. }
      rewrite HT. ring.
    + rewrite (HR a b Ha Hb Hneq). ring.
Qed.

(* the mirror image, sweeping left (system "R"): M_{i+1} = Um . Vt; site i+1 <- Vt, site i <- T_i . Um,
   qn[i+1] <- qnrset (RIGHT-block labels), qnidx <- i *)
Theorem push_left_valid sig (m : metaZ) (ts : list (nat * T3)) i (qnr : list Z) (Vt : T3) (Um : nat -> nat -> R) d1 (T1 : T3) :
  qn_valid3 sig m ts -> qnidx m = S i -> (S i < length ts)%nat -> nth_error ts i = Some (d1, T1) ->
  (forall a p r, (a < length qnr)%nat -> (r < nth (S (S i)) (bdims 1 ts) O)%nat ->
     (qntot m - nth a qnr 0) + sig (S i) p <> Llab m (S (S i)) r -> Vt a p r = r0 R) ->
  (forall b a, (b < d1)%nat -> (a < length qnr)%nat ->
     Llab m (S i) b <> qntot m - nth a qnr 0 -> Um b a = r0 R) ->
  qn_valid3 sig (set_bond m (S i) qnr i)
    (set_site2 i (length qnr, absorb_right d1 T1 Um) (nth (S (S i)) (bdims 1 ts) O, Vt) ts).
Proof.
  intros Hval Hi Hlt Hnth HV HU.
  pose proof Hval as [[Hsh [Hld Hk]] [H0 [Hn Hv]]].
  assert (Hlenq : (S i < length (qn m))%nat).
  { rewrite <- (map_length (@length Z)), Hsh, length_bdims. lia. }
  assert (Hnew : forall a, Llab (set_bond m (S i) qnr i) (S i) a = qntot m - nth a qnr 0).
  { intros a. rewrite Llab_set_bond_at by exact Hlenq.
    destruct (Nat.leb_spec (S i) i); [lia|reflexivity]. }
  pose proof (nth_bdims_error ts 1%nat i d1 T1 Hnth) as Hd1.
  apply two_site_update_valid; try assumption; try (right; assumption); try (left; reflexivity).
  - intros l p a Hl Ha Hne. rewrite Hnew in Hne. unfold absorb_right. apply sumn_0. intros b Hb.
    destruct (Z.eq_dec (Llab m (S i) b) (qntot m - nth a qnr 0)) as [Heq|Hneq].
    + rewrite (valid_site_entry ts sig (Llab m) O 1%nat i d1 T1 Hv Hnth l p b Hl Hb); [ring|].
      cbn [Nat.add]. rewrite Heq. exact Hne.
    + rewrite (HU b a Hb Ha Hneq). ring.
  - intros a p r Ha Hr. rewrite Hnew. apply HV; assumption.
Qed.

End Replace.
