(* C05 -- proofs.  Part A: the GENERATED kept-count rules (Gen/Trunc.v).  Part B: nested orthogonal
   projections in an abstract inner-product space (Base/Inner.v).  Part C: bookkeeping of the chain sweep
   and of the tree traversal. *)
From Coq Require Import QArith ZArith List Bool Arith Lia Lqa Permutation Ring.
Import ListNotations.
From RV Require Import Model.Trunc Gen.Trunc Base.Inner.
Close Scope Q_scope.
Local Open Scope Z_scope.

(* ======================================================================= Part A: kept-count rules *)

Lemma count_true_bounds : forall b, 0 <= count_true b <= Z.of_nat (length b).
Proof.
  unfold count_true. induction b as [|x b IH]; cbn [filter length]; [lia|].
  destruct x; cbn [length]; lia.
Qed.

Lemma count_true_cons : forall x b, count_true (x :: b) = (if x then 1 else 0) + count_true b.
Proof. intros x b. unfold count_true. cbn [filter]. destruct x; cbn [length]; lia. Qed.

Lemma nv_cmp_length : forall op s thr, length (nv_cmp op (normalised s) thr) = length s.
Proof. intros. unfold nv_cmp. cbn. apply map_length. Qed.

Lemma py_len_pos : forall (A : Type) (s : list A), s <> [] -> 1 <= py_len s.
Proof. intros A s H. unfold py_len. destruct s; [congruence|cbn [length]; lia]. Qed.

(* any comparison operator: max(count, 1) lies in [1, len] for a non-empty spectrum *)
Lemma thr_rule_range : forall op thr s, s <> [] ->
  1 <= Z.max (count_true (nv_cmp op (normalised s) thr)) 1 <= py_len s.
Proof.
  intros op thr s H. pose proof (count_true_bounds (nv_cmp op (normalised s) thr)) as B.
  rewrite nv_cmp_length in B. pose proof (py_len_pos _ s H). unfold py_len in *. lia.
Qed.

Lemma threshold_range : forall self s, s <> [] -> 1 <= threshold_m_trunc self s <= py_len s.
Proof. intros self s H. unfold threshold_m_trunc. apply thr_rule_range; exact H. Qed.

(* the fix c811baf: without the max(.,1) this is false, see threshold_zero_prefix_refuted below *)
Lemma threshold_ge_1 : forall self s, 1 <= threshold_m_trunc self s.
Proof. intros. unfold threshold_m_trunc. lia. Qed.

(* the edge the code never reaches (svd never returns an empty spectrum): m = 1 > 0 = len *)
Lemma threshold_empty : forall self, threshold_m_trunc self [] = 1.
Proof. intros. reflexivity. Qed.

Lemma fixed_le_M : forall self s idx left,
  fixed_m_trunc self s idx left <= py_index (cfg_max_dims self) (cut_bond idx left).
Proof. intros. unfold fixed_m_trunc, cut_bond. apply Z.le_min_l. Qed.

Lemma fixed_le_len : forall self s idx left, fixed_m_trunc self s idx left <= py_len s.
Proof. intros. unfold fixed_m_trunc. apply Z.le_min_r. Qed.

Lemma fixed_eq : forall self s idx left,
  fixed_m_trunc self s idx left = Z.min (py_index (cfg_max_dims self) (cut_bond idx left)) (py_len s).
Proof. intros. reflexivity. Qed.

Lemma compute_threshold : forall self s idx left, cfg_criteria self = Threshold ->
  compute_m_trunc self s idx left = threshold_m_trunc self s.
Proof. intros self s idx left H. unfold compute_m_trunc. rewrite H. reflexivity. Qed.
Lemma compute_fixed : forall self s idx left, cfg_criteria self = Fixed ->
  compute_m_trunc self s idx left = fixed_m_trunc self s idx left.
Proof. intros self s idx left H. unfold compute_m_trunc. rewrite H. reflexivity. Qed.
Lemma compute_both : forall self s idx left, cfg_criteria self = Both ->
  compute_m_trunc self s idx left = Z.min (threshold_m_trunc self s) (fixed_m_trunc self s idx left).
Proof. intros self s idx left H. unfold compute_m_trunc. rewrite H. reflexivity. Qed.

Lemma both_le_min : forall self s idx left, cfg_criteria self = Both ->
  compute_m_trunc self s idx left
    <= Z.min (Z.min (py_index (cfg_max_dims self) (cut_bond idx left)) (py_len s)) (threshold_m_trunc self s).
Proof.
  intros self s idx left H. rewrite (compute_both _ _ _ _ H).
  pose proof (fixed_le_M self s idx left). pose proof (fixed_le_len self s idx left). lia.
Qed.

Lemma m_trunc_le_M : forall self s idx left, cfg_criteria self <> Threshold ->
  compute_m_trunc self s idx left <= py_index (cfg_max_dims self) (cut_bond idx left).
Proof.
  intros self s idx left H. pose proof (fixed_le_M self s idx left).
  destruct (cfg_criteria self) eqn:E; [congruence| |].
  - rewrite (compute_fixed _ _ _ _ E). lia.
  - rewrite (compute_both _ _ _ _ E). lia.
Qed.

Lemma m_trunc_range : forall self s idx left, s <> [] ->
  0 <= py_index (cfg_max_dims self) (cut_bond idx left) ->
  0 <= compute_m_trunc self s idx left <= py_len s.
Proof.
  intros self s idx left Hs HM.
  pose proof (threshold_range self s Hs). pose proof (fixed_le_len self s idx left).
  pose proof (fixed_eq self s idx left). pose proof (py_len_pos _ s Hs).
  destruct (cfg_criteria self) eqn:E.
  - rewrite (compute_threshold _ _ _ _ E). lia.
  - rewrite (compute_fixed _ _ _ _ E). lia.
  - rewrite (compute_both _ _ _ _ E). lia.
Qed.

Lemma m_trunc_pos : forall self s idx left, s <> [] ->
  1 <= py_index (cfg_max_dims self) (cut_bond idx left) ->
  1 <= compute_m_trunc self s idx left.
Proof.
  intros self s idx left Hs HM.
  pose proof (threshold_range self s Hs). pose proof (fixed_eq self s idx left). pose proof (py_len_pos _ s Hs).
  destruct (cfg_criteria self) eqn:E.
  - rewrite (compute_threshold _ _ _ _ E). lia.
  - rewrite (compute_fixed _ _ _ _ E). lia.
  - rewrite (compute_both _ _ _ _ E). lia.
Qed.

(* ---- the threshold mask on a descending spectrum is a prefix ---- *)
Definition upward (op : cmpop) : bool := match op with OpGt | OpGe => true | _ => false end.

Local Open Scope Q_scope.

Lemma sq_mono : forall x y : Q, 0 <= y -> y <= x -> y * y <= x * x.
Proof. intros. nra. Qed.

Lemma cmpQ_up_true : forall op a b, upward op = true -> cmpQ op a b = true -> b <= a.
Proof.
  intros op a b U H. destruct op; try discriminate; cbn in H.
  - apply negb_true_iff in H. destruct (Qlt_le_dec b a) as [L|L]; [lra|].
    apply Qle_bool_iff in L. congruence.
  - apply Qle_bool_iff in H. exact H.
Qed.

Lemma cmpQ_up_false : forall op a b, upward op = true -> cmpQ op a b = false -> a <= b.
Proof.
  intros op a b U H. destruct op; try discriminate; cbn in H.
  - apply negb_false_iff in H. apply Qle_bool_iff in H. exact H.
  - destruct (Qlt_le_dec a b) as [L|L]; [lra|]. apply Qle_bool_iff in L. congruence.
Qed.

Lemma cmpQ_up_mono : forall op a a' b, upward op = true -> a <= a' -> cmpQ op a b = true -> cmpQ op a' b = true.
Proof.
  intros op a a' b U L H. destruct op; try discriminate; cbn in *.
  - apply negb_true_iff in H. apply negb_true_iff.
    destruct (Qle_bool a' b) eqn:E; [|reflexivity]. apply Qle_bool_iff in E.
    assert (a <= b) as L2 by lra. apply Qle_bool_iff in L2. congruence.
  - apply Qle_bool_iff in H. apply Qle_bool_iff. lra.
Qed.

Lemma elem_cmp_mono : forall op n2 thr x y, upward op = true -> 0 <= y -> y <= x ->
  nv_elem_cmp op n2 thr y = true -> nv_elem_cmp op n2 thr x = true.
Proof.
  intros op n2 thr x y U Hy L H. unfold nv_elem_cmp in *.
  destruct (Qeq_bool n2 0); [discriminate|].
  eapply cmpQ_up_mono; [exact U| |exact H]. apply sq_mono; assumption.
Qed.

Lemma sq_le_sumsq : forall s x, In x s -> x * x <= sumsq s.
Proof.
  induction s as [|y t IH]; intros x H; [destruct H|].
  cbn [sumsq fold_right]. fold (sumsq t).
  assert (0 <= sumsq t) as P.
  { clear. induction t as [|z t IH]; cbn [sumsq fold_right]; [lra|]. fold (sumsq t). nra. }
  destruct H as [->|H]; [nra|]. specialize (IH x H). nra.
Qed.

Lemma elem_cmp_true_above : forall op s thr x, upward op = true ->
  nv_elem_cmp op (sumsq s) thr x = true -> weakly_above s thr x.
Proof.
  intros op s thr x U H. unfold nv_elem_cmp in H. destruct (Qeq_bool (sumsq s) 0); [discriminate|].
  unfold weakly_above. eapply cmpQ_up_true; eassumption.
Qed.

Lemma elem_cmp_false_below : forall op s thr x, upward op = true -> In x s ->
  nv_elem_cmp op (sumsq s) thr x = false -> weakly_below s thr x.
Proof.
  intros op s thr x U I H. unfold nv_elem_cmp in H. unfold weakly_below.
  destruct (Qeq_bool (sumsq s) 0) eqn:E.
  - apply Qeq_bool_iff in E. pose proof (sq_le_sumsq s x I). rewrite E in *. nra.
  - eapply cmpQ_up_false; eassumption.
Qed.

Close Scope Q_scope.

(* all-false tail *)
Lemma all_false_tail : forall op n2 thr x t, upward op = true ->
  Forall (fun y => (y <= x)%Q) t -> nonneg t -> nv_elem_cmp op n2 thr x = false ->
  forall y, In y t -> nv_elem_cmp op n2 thr y = false.
Proof.
  intros op n2 thr x t U F N H y I.
  destruct (nv_elem_cmp op n2 thr y) eqn:E; [|reflexivity].
  rewrite Forall_forall in F. unfold nonneg in N. rewrite Forall_forall in N.
  rewrite (elem_cmp_mono op n2 thr x y U (N y I) (F y I) E) in H. discriminate.
Qed.

Lemma count_all_false : forall (f : Q -> bool) t, (forall y, In y t -> f y = false) -> count_true (map f t) = 0.
Proof.
  intros f t. induction t as [|y t IH]; intros H; [reflexivity|].
  cbn [map]. rewrite count_true_cons. rewrite (H y (or_introl eq_refl)).
  rewrite IH; [reflexivity|]. intros z Hz. apply H. right. exact Hz.
Qed.

(* descending + non-negative: position i is above the count  <->  its mask bit is set *)
Lemma mask_prefix : forall op n2 thr s, upward op = true -> descending s -> nonneg s ->
  forall i, (i < length s)%nat ->
    (Z.of_nat i < count_true (map (nv_elem_cmp op n2 thr) s) -> nv_elem_cmp op n2 thr (nth i s 0%Q) = true) /\
    (count_true (map (nv_elem_cmp op n2 thr) s) <= Z.of_nat i -> nv_elem_cmp op n2 thr (nth i s 0%Q) = false).
Proof.
  intros op n2 thr s U D. induction D as [|x t F D IH]; intros N i Hi; [cbn in Hi; lia|].
  assert (nonneg t) as Nt by (inversion N; assumption).
  cbn [map]. rewrite count_true_cons.
  destruct (nv_elem_cmp op n2 thr x) eqn:E.
  - destruct i as [|i]; cbn [nth].
    + split; [intros _; exact E|]. pose proof (count_true_bounds (map (nv_elem_cmp op n2 thr) t)). lia.
    + cbn [length] in Hi. destruct (IH Nt i ltac:(lia)) as [A B]. split; intro H; [apply A|apply B]; lia.
  - pose proof (all_false_tail op n2 thr x t U F Nt E) as AF.
    rewrite (count_all_false _ t AF). split; [lia|]. intros _.
    destruct i as [|i]; cbn [nth]; [exact E|]. apply AF. apply nth_In. cbn [length] in Hi. lia.
Qed.

(* generic statement for any upward comparison; instantiated on the generated rule below *)
Lemma thr_rule_prefix : forall op thr s, upward op = true -> descending s -> nonneg s ->
  forall i, (i < length s)%nat ->
    (Z.of_nat i < Z.max (count_true (nv_cmp op (normalised s) thr)) 1 ->
       i = 0%nat \/ weakly_above s thr (nth i s 0%Q)) /\
    (Z.max (count_true (nv_cmp op (normalised s) thr)) 1 <= Z.of_nat i -> weakly_below s thr (nth i s 0%Q)).
Proof.
  intros op thr s U D N i Hi. unfold nv_cmp, normalised; cbn [nv_vals nv_n2].
  destruct (mask_prefix op (sumsq s) thr s U D N i Hi) as [A B]. split; intro H.
  - destruct (Z_lt_le_dec (Z.of_nat i) (count_true (map (nv_elem_cmp op (sumsq s) thr) s))) as [L|L].
    + right. eapply elem_cmp_true_above; [exact U|]. apply A. exact L.
    + left. lia.
  - eapply elem_cmp_false_below; [exact U|apply nth_In; exact Hi|]. apply B. lia.
Qed.

Lemma threshold_prefix : forall self s, descending s -> nonneg s ->
  forall i, (i < length s)%nat ->
    (Z.of_nat i < threshold_m_trunc self s -> i = 0%nat \/ weakly_above s (cfg_threshold self) (nth i s 0%Q)) /\
    (threshold_m_trunc self s <= Z.of_nat i -> weakly_below s (cfg_threshold self) (nth i s 0%Q)).
Proof.
  intros self s D N i Hi. unfold threshold_m_trunc.
  apply thr_rule_prefix; [reflexivity|exact D|exact N|exact Hi].
Qed.

(* pre-fix rule (no max with 1): the kept count can be zero -- kept as a documented refutation *)
Lemma threshold_zero_prefix_refuted :
  exists s thr, s <> [] /\ (0 < thr)%Q /\ (thr < 1)%Q /\ ~ (sumsq s == 0)%Q /\
                count_true (nv_cmp OpGt (normalised s) thr) = 0.
Proof.
  exists [1%Q; 1%Q], (9 # 10)%Q. repeat split; try (intro H; discriminate H); try reflexivity.
Qed.

(* ---- the first m of a descending spectrum carry the largest weight among all choices of m ---- *)
Local Open Scope Q_scope.

Lemma sumsq_cons : forall x t, sumsq (x :: t) = x * x + sumsq t.
Proof. reflexivity. Qed.

Lemma sumsq_nonneg : forall t, 0 <= sumsq t.
Proof. induction t as [|z t IH]; [change (sumsq []) with 0; lra|]. rewrite sumsq_cons. nra. Qed.

Lemma descending_inv : forall x t, descending (x :: t) -> Forall (fun y => y <= x) t /\ descending t.
Proof. intros x t H. inversion H; subst. split; assumption. Qed.

Lemma firstn_shift : forall t x k, descending (x :: t) -> nonneg (x :: t) ->
  sumsq (firstn (S k) t) <= x * x + sumsq (firstn k t).
Proof.
  induction t as [|y t IH]; intros x k D N.
  - rewrite !firstn_nil. change (sumsq []) with 0. nra.
  - destruct (descending_inv _ _ D) as [F D'].
    assert (0 <= y /\ y <= x) as [Hy Hyx].
    { split; [inversion N as [|? ? _ N']; inversion N'; assumption|inversion F; assumption]. }
    assert (nonneg (y :: t)) as N' by (inversion N; assumption).
    pose proof (sq_mono x y Hy Hyx) as SQ.
    rewrite firstn_cons, sumsq_cons. destruct k as [|k].
    + rewrite !firstn_O. change (sumsq []) with 0. lra.
    + rewrite firstn_cons, sumsq_cons. specialize (IH y k D' N'). lra.
Qed.

Lemma kept_are_largest_subseq : forall s, descending s -> nonneg s ->
  forall l, subseq l s -> sumsq l <= sumsq (firstn (length l) s).
Proof.
  induction s as [|x t IH]; intros D N l H.
  - inversion H; subst. cbn [length firstn]. lra.
  - destruct (descending_inv _ _ D) as [F D'].
    assert (nonneg t) as N' by (inversion N; assumption).
    inversion H; subst.
    + cbn [length firstn]. rewrite !sumsq_cons. specialize (IH D' N' _ H2). lra.
    + specialize (IH D' N' _ H2). destruct (length l) as [|k] eqn:E.
      * destruct l; [|discriminate]. cbn [firstn]. lra.
      * cbn [firstn]. rewrite sumsq_cons. pose proof (firstn_shift t x k D N). lra.
Qed.

Lemma sumsq_perm : forall l l', Permutation l l' -> sumsq l == sumsq l'.
Proof.
  intros l l' P. induction P.
  - reflexivity.
  - rewrite !sumsq_cons. rewrite IHP. reflexivity.
  - rewrite !sumsq_cons. ring.
  - rewrite IHP1. exact IHP2.
Qed.

(* any choice of m of the singular values (in any order, from any sectors) weighs at most the first m *)
Lemma kept_are_largest : forall s, descending s -> nonneg s ->
  forall l l', Permutation l l' -> subseq l' s -> sumsq l <= sumsq (firstn (length l) s).
Proof.
  intros s D N l l' P H. rewrite (sumsq_perm _ _ P). rewrite (Permutation_length P).
  apply kept_are_largest_subseq; assumption.
Qed.

(* pointwise form: every kept value dominates every discarded one *)
Lemma kept_dominate_discarded : forall s, descending s ->
  forall m x y, In x (firstn m s) -> In y (skipn m s) -> y <= x.
Proof.
  induction s as [|z t IH]; intros D m x y Hx Hy.
  - destruct m; destruct Hx.
  - destruct (descending_inv _ _ D) as [F D']. destruct m as [|m]; [destruct Hx|].
    cbn [firstn skipn] in *. destruct Hx as [->|Hx].
    + rewrite Forall_forall in F. apply F. rewrite <- (firstn_skipn m t). apply in_or_app. right. exact Hy.
    + eapply IH; eassumption.
Qed.

(* the global sort of svd_qn (economic mode): whatever permutation argsort picks (ties are arbitrary),
   if the result is descending then its first m entries are the m heaviest of all sector spectra *)
Lemma global_sort_keeps_largest : forall (blocks : list (list Q)) s, Permutation (concat blocks) s ->
  descending s -> nonneg s ->
  forall chosen chosen', Permutation chosen chosen' -> subseq chosen' s ->
    sumsq chosen <= sumsq (firstn (length chosen) s) /\
    sumsq (concat blocks) == sumsq (firstn (length chosen) s) + discarded (length chosen) s.
Proof.
  intros blocks s P D N c c' Pc H. split; [eapply kept_are_largest; eassumption|].
  rewrite (sumsq_perm _ _ P). unfold discarded.
  rewrite <- (firstn_skipn (length c) s) at 1.
  generalize (firstn (length c) s) (skipn (length c) s). clear.
  induction l as [|x l IH]; intro r; cbn [app]; [change (sumsq []) with 0; ring|]. rewrite !sumsq_cons. rewrite IH. ring.
Qed.

Close Scope Q_scope.

(* ======================================================================= Part B: nested projections *)
Section Projections.
  Variable R : OrdRing.
  Variable E : InnerSpace R.
  Add Ring Kring : (k_ring R).

  Local Notation add := (kadd R).
  Local Notation sub := (ksub R).
  Local Notation zero := (k0 R).
  Local Notation le := (kle R).
  Local Notation ip := (inner E).
  Local Notation nsq := (@normsq R E).
  Local Notation vminus := (vsub E).

  Lemma inner_sub_r : forall u v w, ip u (vminus v w) = sub (ip u v) (ip u w).
  Proof.
    intros u v w. rewrite (inner_sym R E u), (inner_sub_l R E), (inner_sym R E v u), (inner_sym R E w u).
    reflexivity.
  Qed.

  Lemma inner_add_r : forall u v w, ip u (vadd E v w) = add (ip u v) (ip u w).
  Proof.
    intros u v w. rewrite (inner_sym R E u), (inner_add_l R E), (inner_sym R E v u), (inner_sym R E w u).
    reflexivity.
  Qed.

  Lemma inner_zero_r : forall u, ip u (v0 E) = zero.
  Proof. intros u. rewrite (inner_sym R E). apply (inner_zero_l R E). Qed.

  Lemma normsq_sub : forall u v,
    nsq (vminus u v) = add (sub (nsq u) (add (ip u v) (ip u v))) (nsq v).
  Proof.
    intros u v. unfold normsq. rewrite (inner_sub_l R E), !inner_sub_r, (inner_sym R E v u). ring.
  Qed.

  Lemma le_zero_add : forall a b, le zero a -> le zero b -> le zero (add a b).
  Proof.
    intros a b Ha Hb. apply (kle_trans R _ b); [exact Hb|].
    pose proof (kle_add R zero a b Ha) as H.
    replace (add zero b) with b in H by ring. exact H.
  Qed.

  Lemma ksum_upto_nonneg : forall (f : nat -> R) n, (forall k, (k < n)%nat -> le zero (f k)) -> le zero (ksum_upto f n).
  Proof.
    intros f n. induction n as [|n IH]; intro H; cbn [ksum_upto]; [apply (kle_refl R)|].
    apply le_zero_add; [apply IH; intros; apply H; lia|apply H; lia].
  Qed.

  Lemma ksum_upto_ext : forall (f g : nat -> R) n, (forall k, (k < n)%nat -> f k = g k) -> ksum_upto f n = ksum_upto g n.
  Proof.
    intros f g n. induction n as [|n IH]; intro H; cbn [ksum_upto]; [reflexivity|].
    rewrite IH, H; [reflexivity|lia|intros; apply H; lia].
  Qed.

  (* one orthogonal projection never increases the norm (no nesting needed) *)
  Lemma projection_norm_nonincreasing : forall P v, orth_projector E P -> le (nsq (P v)) (nsq v).
  Proof.
    intros P v [Hid Hsa].
    assert (ip (P v) v = nsq (P v)) as C.
    { unfold normsq. rewrite (Hsa v (P v)), (Hid v). apply (inner_sym R E). }
    assert (nsq v = add (nsq (P v)) (nsq (vminus v (P v)))) as D.
    { rewrite normsq_sub. rewrite (inner_sym R E v (P v)), C. ring. }
    rewrite D. assert (le zero (nsq (vminus v (P v)))) as NNv by apply (inner_pos R E).
    pose proof (kle_add R zero (nsq (vminus v (P v))) (nsq (P v)) NNv) as H.
    replace (add zero (nsq (P v))) with (nsq (P v)) in H by ring.
    replace (add (nsq (vminus v (P v))) (nsq (P v))) with (add (nsq (P v)) (nsq (vminus v (P v)))) in H by ring.
    exact H.
  Qed.

  (* any sequence of orthogonal projections (e.g. the tree sweep, which is NOT nested) *)
  Lemma projection_sequence_norm : forall (P : nat -> E -> E) (psi : nat -> E) n,
    (forall k, (k < n)%nat -> orth_projector E (P k)) ->
    (forall k, (k < n)%nat -> psi (S k) = P k (psi k)) ->
    le (nsq (psi n)) (nsq (psi 0%nat)).
  Proof.
    intros P psi n. induction n as [|n IH]; intros HP Hs; [apply (kle_refl R)|].
    apply (kle_trans R _ (nsq (psi n))).
    - rewrite (Hs n ltac:(lia)). apply projection_norm_nonincreasing. apply HP. lia.
    - apply IH; intros; [apply HP|apply Hs]; lia.
  Qed.

  Section Nested.
    Variable P : nat -> E -> E.
    Variable psi : nat -> E.
    Variable n : nat.
    Hypothesis Hsa : forall k, (k < n)%nat -> self_adjoint E (P k).
    Hypothesis Hstep : forall k, (k < n)%nat -> psi (S k) = P k (psi k).
    (* THE nesting condition: every later iterate lies in the range of every earlier projector *)
    Hypothesis Hnest : forall j k, (j < k)%nat -> (k <= n)%nat -> P j (psi k) = psi k.

    Lemma step_inner : forall j k, (j < k)%nat -> (k <= n)%nat -> ip (psi (S j)) (psi k) = ip (psi j) (psi k).
    Proof.
      intros j k Hjk Hk. rewrite (Hstep j ltac:(lia)). rewrite (Hsa j ltac:(lia)).
      rewrite (Hnest j k Hjk Hk). reflexivity.
    Qed.

    Lemma cross : forall m j k, (j + m = k)%nat -> (k <= n)%nat -> ip (psi j) (psi k) = nsq (psi k).
    Proof.
      induction m as [|m IH]; intros j k Hm Hk.
      - replace j with k by lia. reflexivity.
      - rewrite <- (step_inner j k ltac:(lia) Hk). apply IH; lia.
    Qed.

    Lemma dist_sq : forall j k, (j <= k)%nat -> (k <= n)%nat ->
      nsq (vminus (psi j) (psi k)) = sub (nsq (psi j)) (nsq (psi k)).
    Proof.
      intros j k Hjk Hk. rewrite normsq_sub. rewrite (cross (k - j) j k ltac:(lia) Hk). ring.
    Qed.

    Lemma telescope : forall m, (m <= n)%nat ->
      ksum_upto (fun k => nsq (vminus (psi k) (psi (S k)))) m = sub (nsq (psi 0%nat)) (nsq (psi m)).
    Proof.
      induction m as [|m IH]; intro Hm; cbn [ksum_upto]; [ring|].
      rewrite (IH ltac:(lia)). rewrite (dist_sq m (S m) ltac:(lia) Hm). ring.
    Qed.

    Theorem nested_projection_pythagoras_sec :
      nsq (vminus (psi 0%nat) (psi n)) = ksum_upto (fun k => nsq (vminus (psi k) (psi (S k)))) n
      /\ nsq (psi 0%nat) = add (nsq (psi n)) (ksum_upto (fun k => nsq (vminus (psi k) (psi (S k)))) n)
      /\ le (nsq (psi n)) (nsq (psi 0%nat)).
    Proof.
      pose proof (telescope n (le_n n)) as T.
      assert (le zero (ksum_upto (fun k => nsq (vminus (psi k) (psi (S k)))) n)) as NN.
      { apply ksum_upto_nonneg. intros. apply (inner_pos R E). }
      split; [|split].
      - rewrite (dist_sq 0 n ltac:(lia) (le_n n)). symmetry. exact T.
      - rewrite T. ring.
      - pose proof (kle_add R _ _ (nsq (psi n)) NN) as H. rewrite T in H.
        replace (add zero (nsq (psi n))) with (nsq (psi n)) in H by ring.
        replace (add (sub (nsq (psi 0%nat)) (nsq (psi n))) (nsq (psi n))) with (nsq (psi 0%nat)) in H by ring.
        exact H.
    Qed.

    (* every single step discard is a lower bound of the total distance *)
    Lemma step_le_total : forall k, (k < n)%nat ->
      le (nsq (vminus (psi k) (psi (S k)))) (nsq (vminus (psi 0%nat) (psi n))).
    Proof.
      intros k Hk. rewrite (dist_sq 0 n ltac:(lia) (le_n n)), (dist_sq k (S k) ltac:(lia) ltac:(lia)).
      (* |psi_0|^2 >= |psi_k|^2  and  |psi_{k+1}|^2 >= |psi_n|^2 , both by telescoping non-negative sums *)
      assert (forall a b, (a <= b)%nat -> (b <= n)%nat -> le (nsq (psi b)) (nsq (psi a))) as Mono.
      { intros a b Hab Hb. pose proof (dist_sq a b Hab Hb) as D.
        assert (le zero (nsq (vminus (psi a) (psi b)))) as NNab by apply (inner_pos R E).
        pose proof (kle_add R _ _ (nsq (psi b)) NNab) as H.
        rewrite D in H.
        replace (add zero (nsq (psi b))) with (nsq (psi b)) in H by ring.
        replace (add (sub (nsq (psi a)) (nsq (psi b))) (nsq (psi b))) with (nsq (psi a)) in H by ring.
        exact H. }
      pose proof (Mono 0%nat k ltac:(lia) ltac:(lia)) as M1.
      pose proof (Mono (S k) n ltac:(lia) ltac:(lia)) as M2.
      (* a_k - a_{k+1} <= a_0 - a_n  from a_k <= a_0 and a_n <= a_{k+1} *)
      pose proof (kle_add R _ _ (kopp R (nsq (psi (S k)))) M1) as H1.
      pose proof (kle_add R _ _ (sub (nsq (psi 0%nat)) (add (nsq (psi n)) (nsq (psi (S k))))) M2) as H2.
      apply (kle_trans R _ (add (nsq (psi 0%nat)) (kopp R (nsq (psi (S k)))))).
      - replace (sub (nsq (psi k)) (nsq (psi (S k)))) with (add (nsq (psi k)) (kopp R (nsq (psi (S k))))) by ring.
        exact H1.
      - replace (add (nsq (psi 0%nat)) (kopp R (nsq (psi (S k)))))
          with (add (nsq (psi n)) (sub (nsq (psi 0%nat)) (add (nsq (psi n)) (nsq (psi (S k)))))) by ring.
        replace (sub (nsq (psi 0%nat)) (nsq (psi n)))
          with (add (nsq (psi (S k))) (sub (nsq (psi 0%nat)) (add (nsq (psi n)) (nsq (psi (S k)))))) by ring.
        exact H2.
    Qed.
  End Nested.

  (* two operator-level conditions that imply the nesting condition *)
  Lemma decreasing_projectors_nested : forall (P : nat -> E -> E) (psi : nat -> E) n,
    (forall k, (k < n)%nat -> idempotent E (P k)) ->
    (forall k, (k < n)%nat -> psi (S k) = P k (psi k)) ->
    (forall j k v, (j < k)%nat -> (k < n)%nat -> P j (P k v) = P k v) ->      (* range P_k inside range P_j *)
    forall j k, (j < k)%nat -> (k <= n)%nat -> P j (psi k) = psi k.
  Proof.
    intros P psi n Hid Hs Hdec j k Hjk Hk. destruct k as [|k]; [lia|].
    rewrite (Hs k ltac:(lia)). destruct (Nat.eq_dec j k) as [->|Hne].
    - apply Hid. lia.
    - apply Hdec; lia.
  Qed.

  Lemma commuting_projectors_nested : forall (P : nat -> E -> E) (psi : nat -> E) n,
    (forall k, (k < n)%nat -> idempotent E (P k)) ->
    (forall k, (k < n)%nat -> psi (S k) = P k (psi k)) ->
    (forall j k v, (j < k)%nat -> (k < n)%nat -> P j (P k v) = P k (P j v)) ->
    forall j k, (j < k)%nat -> (k <= n)%nat -> P j (psi k) = psi k.
  Proof.
    intros P psi n Hid Hs Hc j k. induction k as [|k IH]; intros Hjk Hk; [lia|].
    rewrite (Hs k ltac:(lia)). destruct (Nat.eq_dec j k) as [->|Hne].
    - apply Hid. lia.
    - rewrite (Hc j k _ ltac:(lia) ltac:(lia)). rewrite (IH ltac:(lia) ltac:(lia)). reflexivity.
  Qed.

  (* ---------------- the SVD step contract: Schmidt components ---------------- *)
  Lemma inner_vsum_l : forall l x, ip (vsum E l) x = ksum (map (fun e => ip e x) l).
  Proof.
    induction l as [|e l IH]; intro x.
    - apply (inner_zero_l R E).
    - change (vsum E (e :: l)) with (vadd E e (vsum E l)).
      change (ksum (map (fun e0 => ip e0 x) (e :: l))) with (add (ip e x) (ksum (map (fun e0 => ip e0 x) l))).
      rewrite (inner_add_l R E), IH. reflexivity.
  Qed.

  Lemma ksum_app : forall a b, ksum (a ++ b) = add (ksum a) (ksum b).
  Proof.
    induction a as [|x a IH]; intro b.
    - change (ksum ([] ++ b)) with (ksum b). change (@ksum R []) with zero. ring.
    - change (ksum ((x :: a) ++ b)) with (add x (ksum (a ++ b))). change (ksum (x :: a)) with (add x (ksum a)).
      rewrite IH. ring.
  Qed.

  Lemma ksum_map_ext : forall (f g : E -> R) l, Forall (fun e => f e = g e) l -> ksum (map f l) = ksum (map g l).
  Proof.
    intros f g l H. induction H as [|e l He _ IH]; [reflexivity|].
    change (ksum (map f (e :: l))) with (add (f e) (ksum (map f l))).
    change (ksum (map g (e :: l))) with (add (g e) (ksum (map g l))).
    rewrite He, IH. reflexivity.
  Qed.

  Lemma ksum_map_zero : forall (l : list E), ksum (map (fun _ => zero) l) = zero.
  Proof.
    induction l as [|e l IH]; [reflexivity|].
    change (ksum (map (fun _ : E => zero) (e :: l))) with (add zero (ksum (map (fun _ : E => zero) l))).
    rewrite IH. ring.
  Qed.

  Lemma pairwise_orth_skipn : forall m l, pairwise_orth E l -> pairwise_orth E (skipn m l).
  Proof.
    induction m as [|m IH]; intros l H; [exact H|]. destruct l as [|e l]; [exact H|].
    cbn [skipn]. apply IH. inversion H; assumption.
  Qed.

  Lemma normsq_vsum_orth : forall l, pairwise_orth E l -> nsq (vsum E l) = ksum (map nsq l).
  Proof.
    intros l H. induction H as [|e l F _ IH].
    - unfold normsq. apply (inner_zero_l R E).
    - change (vsum E (e :: l)) with (vadd E e (vsum E l)).
      change (ksum (map nsq (e :: l))) with (add (nsq e) (ksum (map nsq l))).
      unfold normsq at 1.
      rewrite (inner_add_l R E), !inner_add_r.
      assert (ip e (vsum E l) = zero) as Z.
      { rewrite (inner_sym R E), inner_vsum_l.
        rewrite (ksum_map_ext (fun x => ip x e) (fun _ => zero)); [apply ksum_map_zero|].
        eapply Forall_impl; [|exact F]. cbn. intros a Ha. rewrite (inner_sym R E). exact Ha. }
      rewrite (inner_sym R E (vsum E l) e), Z. fold (nsq (vsum E l)). rewrite IH. unfold normsq. ring.
  Qed.

  (* One truncation step.  comps = the Schmidt components sigma_a |L_a>|R_a> of the current state
     (pairwise orthogonal, summing to the state); the projector fixes the first m and annihilates the
     others.  Then the discarded part has squared norm = sum of the squared norms (= sigma_a^2) of the
     discarded components. *)
  Lemma truncation_step_discard : forall (P : E -> E) (v : E) (comps : list E) (m : nat),
    self_adjoint E P -> v = vsum E comps -> pairwise_orth E comps ->
    Forall (fun e => P e = e) (firstn m comps) -> Forall (fun e => P e = v0 E) (skipn m comps) ->
    nsq (vminus v (P v)) = ksum (map nsq (skipn m comps)).
  Proof.
    intros P v comps m Hsa Hv Ho Hk Hz.
    assert (forall x, ip (vminus v (P v)) x = ip (vsum E (skipn m comps)) x) as A.
    { intro x. rewrite (inner_sub_l R E). rewrite (Hsa v x). rewrite Hv, !inner_vsum_l.
      rewrite <- (firstn_skipn m comps) at 1 2. rewrite !map_app, !ksum_app.
      rewrite (ksum_map_ext (fun e => ip e (P x)) (fun e => ip e x) (firstn m comps)).
      2:{ eapply Forall_impl; [|exact Hk]. cbn. intros a Ha. rewrite <- (Hsa a x), Ha. reflexivity. }
      rewrite (ksum_map_ext (fun e => ip e (P x)) (fun _ => zero) (skipn m comps)).
      2:{ eapply Forall_impl; [|exact Hz]. cbn. intros a Ha. rewrite <- (Hsa a x), Ha. apply (inner_zero_l R E). }
      rewrite ksum_map_zero. ring. }
    unfold normsq at 1. rewrite A. rewrite (inner_sym R E). rewrite A.
    fold (nsq (vsum E (skipn m comps))). apply normsq_vsum_orth. apply pairwise_orth_skipn. exact Ho.
  Qed.
End Projections.

(* closed forms (all section variables generalised) *)
Theorem nested_projection_pythagoras :
  forall (R : OrdRing) (E : InnerSpace R) (P : nat -> E -> E) (psi : nat -> E) (n : nat),
    (forall k, (k < n)%nat -> self_adjoint E (P k)) ->
    (forall k, (k < n)%nat -> psi (S k) = P k (psi k)) ->
    (forall j k, (j < k)%nat -> (k <= n)%nat -> P j (psi k) = psi k) ->
    normsq E (vsub E (psi 0%nat) (psi n)) = @ksum_upto R (fun k => normsq E (vsub E (psi k) (psi (S k)))) n
    /\ normsq E (psi 0%nat) = kadd R (normsq E (psi n)) (@ksum_upto R (fun k => normsq E (vsub E (psi k) (psi (S k)))) n)
    /\ kle R (normsq E (psi n)) (normsq E (psi 0%nat)).
Proof. intros R E P psi n H1 H2 H3. apply (nested_projection_pythagoras_sec R E P psi n); assumption. Qed.

(* C05_error_identity: a sweep whose steps are truncations of Schmidt decompositions and whose iterates
   are nested: squared distance = sum over the steps of the discarded squared singular values
   ( normsq of component a of step k  =  sigma_{k,a}^2 ), for ANY kept counts m k -- in particular
   for m k = compute_m_trunc of the generated rules. *)
Theorem error_identity :
  forall (R : OrdRing) (E : InnerSpace R) (P : nat -> E -> E) (psi : nat -> E) (n : nat)
         (comps : nat -> list E) (m : nat -> nat),
    (forall k, (k < n)%nat -> self_adjoint E (P k)) ->
    (forall k, (k < n)%nat -> psi (S k) = P k (psi k)) ->
    (forall j k, (j < k)%nat -> (k <= n)%nat -> P j (psi k) = psi k) ->
    (forall k, (k < n)%nat -> psi k = vsum E (comps k) /\ pairwise_orth E (comps k) /\
                              Forall (fun e => P k e = e) (firstn (m k) (comps k)) /\
                              Forall (fun e => P k e = v0 E) (skipn (m k) (comps k))) ->
    normsq E (vsub E (psi 0%nat) (psi n))
      = @ksum_upto R (fun k => ksum (map (normsq E) (skipn (m k) (comps k)))) n
    /\ kle R (normsq E (psi n)) (normsq E (psi 0%nat)).
Proof.
  intros R E P psi n comps m Hsa Hs Hn Hc.
  destruct (nested_projection_pythagoras R E P psi n Hsa Hs Hn) as [A [_ C]]. split; [|exact C].
  rewrite A. apply ksum_upto_ext. intros k Hk. destruct (Hc k Hk) as [Hv [Ho [Hk1 Hk2]]].
  rewrite (Hs k Hk). apply truncation_step_discard; try assumption. apply Hsa; exact Hk.
Qed.

(* ---- the two inequalities of the property, as far as they are proved ---- *)
Section Bounds.
  Variable R : OrdRing.
  Variable E : InnerSpace R.
  Add Ring Kring2 : (k_ring R).

  Lemma kle_add2 : forall a b c d : R, kle R a b -> kle R c d -> kle R (kadd R a c) (kadd R b d).
  Proof.
    intros a b c d H1 H2. apply (kle_trans R _ (kadd R b c)); [apply (kle_add R); exact H1|].
    pose proof (kle_add R c d b H2) as H.
    replace (kadd R c b) with (kadd R b c) in H by ring. replace (kadd R d b) with (kadd R b d) in H by ring.
    exact H.
  Qed.

  Lemma ksum_upto_le : forall (f g : nat -> R) n, (forall k, (k < n)%nat -> kle R (f k) (g k)) ->
    kle R (ksum_upto f n) (ksum_upto g n).
  Proof.
    intros f g n. induction n as [|n IH]; intro H; cbn [ksum_upto]; [apply (kle_refl R)|].
    apply kle_add2; [apply IH; intros; apply H; lia|apply H; lia].
  Qed.

  (* PARTIAL.  D k stands for the discarded weight  sum_{a >= m_k} s_a(psi_0 at the bond of step k)^2  of the
     ORIGINAL state.  Full statement of the property (chains):
        max_k D k  <=  |psi_0 - psi_n|^2  <=  sum_k D k .
     Proved here: the upper bound GIVEN the per-step interlacing fact  |d_k|^2 <= D k  (singular values of
     (Pi x 1) M are at most those of M; needs min-max theory of singular values, not available), and the
     lower bound with the STEP discards |d_k|^2 in place of D k (the Eckart-Young bound with D k itself
     is not proved). *)
  Theorem bounds_partial :
    forall (P : nat -> E -> E) (psi : nat -> E) (n : nat) (D : nat -> R),
      (forall k, (k < n)%nat -> self_adjoint E (P k)) ->
      (forall k, (k < n)%nat -> psi (S k) = P k (psi k)) ->
      (forall j k, (j < k)%nat -> (k <= n)%nat -> P j (psi k) = psi k) ->
      (forall k, (k < n)%nat -> kle R (normsq E (vsub E (psi k) (psi (S k)))) (D k)) ->
      kle R (normsq E (vsub E (psi 0%nat) (psi n))) (ksum_upto D n)
      /\ (forall k, (k < n)%nat ->
            kle R (normsq E (vsub E (psi k) (psi (S k)))) (normsq E (vsub E (psi 0%nat) (psi n)))).
  Proof.
    intros P psi n D Hsa Hs Hn HD. split.
    - destruct (nested_projection_pythagoras R E P psi n Hsa Hs Hn) as [A _]. rewrite A.
      apply ksum_upto_le. exact HD.
    - intros k Hk. apply (step_le_total R E P psi n Hsa Hs Hn k Hk).
  Qed.
End Bounds.

(* ======================================================================= Part C: sweep bookkeeping *)
Lemma set_nth_length : forall (A : Type) i (x : A) l, length (set_nth i x l) = length l.
Proof. intros A i x l. revert i. induction l as [|y t IH]; intro i; [destruct i; reflexivity|]. destruct i; cbn [set_nth length]; [reflexivity|]. rewrite IH. reflexivity. Qed.

Lemma set_nth_same : forall (A : Type) i (x d : A) l, (i < length l)%nat -> nth i (set_nth i x l) d = x.
Proof. intros A i x d l. revert i. induction l as [|y t IH]; intros i H; [cbn in H; lia|]. destruct i; cbn [set_nth nth]; [reflexivity|]. apply IH. cbn in H. lia. Qed.

Lemma set_nth_other : forall (A : Type) i j (x d : A) l, i <> j -> nth j (set_nth i x l) d = nth j l d.
Proof. intros A i j x d l. revert i j. induction l as [|y t IH]; intros i j H; [destruct i; reflexivity|]. destruct i, j; cbn [set_nth nth]; try reflexivity; [lia|]. apply IH. lia. Qed.

Definition apply_updates (ups : list (nat * Z)) (d : list Z) : list Z :=
  fold_left (fun d pv => set_nth (fst pv) (snd pv) d) ups d.

Lemma apply_updates_length : forall ups d, length (apply_updates ups d) = length d.
Proof. induction ups as [|u ups IH]; intro d; [reflexivity|]. cbn [apply_updates fold_left]. fold (apply_updates ups (set_nth (fst u) (snd u) d)). rewrite IH. apply set_nth_length. Qed.

Lemma apply_updates_untouched : forall ups d p, ~ In p (map fst ups) -> nth p (apply_updates ups d) 0 = nth p d 0.
Proof.
  induction ups as [|u ups IH]; intros d p H; [reflexivity|].
  cbn [apply_updates fold_left]. fold (apply_updates ups (set_nth (fst u) (snd u) d)).
  rewrite IH; [|intro C; apply H; right; exact C]. apply set_nth_other. intro C. apply H. left. exact C.
Qed.

Lemma apply_updates_hit : forall ups d p v, NoDup (map fst ups) -> In (p, v) ups -> (p < length d)%nat ->
  nth p (apply_updates ups d) 0 = v.
Proof.
  induction ups as [|u ups IH]; intros d p v ND I L; [destruct I|].
  cbn [apply_updates fold_left]. fold (apply_updates ups (set_nth (fst u) (snd u) d)).
  cbn [map] in ND. inversion ND as [|? ? Hnot ND']; subst. destruct I as [->|I].
  - cbn [fst snd] in *. rewrite apply_updates_untouched; [|exact Hnot]. apply set_nth_same. exact L.
  - apply IH; [exact ND'|exact I|rewrite set_nth_length; exact L].
Qed.

Lemma sweep_as_updates : forall mt spectrum to_right idxs d,
  sweep_dims mt spectrum to_right idxs d
  = apply_updates (map (fun idx => (Z.to_nat (cut_bond idx to_right),
                                    Z.min (mt (spectrum idx) idx to_right) (py_len (spectrum idx)))) idxs) d.
Proof.
  intros mt spectrum to_right idxs. unfold sweep_dims, apply_updates.
  induction idxs as [|i idxs IH]; intro d; [reflexivity|]. cbn [fold_left map fst snd]. apply IH.
Qed.

Lemma cut_positions : forall n to_right,
  map (fun idx => Z.to_nat (cut_bond idx to_right)) (iter_idx_list n to_right)
  = if to_right then seq 1 (n - 1) else rev (seq 1 (n - 1)).
Proof.
  intros n to_right. unfold iter_idx_list, cut_bond. destruct to_right; rewrite map_map.
  - rewrite <- seq_shift. apply map_ext. intro a. lia.
  - rewrite <- (map_id (rev (seq 1 (n - 1)))) at 2. apply map_ext. intro a. lia.
Qed.

(* every interior bond 1..n-1 of an n-site chain is cut exactly once, with the kept count computed by
   the rule for (sigma, idx, left) of THAT step, and the cut bond is the one whose limit the rule used *)
Lemma chain_dims_after_compress_gen : forall mt spectrum n to_right dims0, length dims0 = S n ->
  forall b, (1 <= b <= n - 1)%nat ->
    exists idx, In idx (iter_idx_list n to_right) /\ cut_bond idx to_right = Z.of_nat b /\
      nth b (sweep_dims mt spectrum to_right (iter_idx_list n to_right) dims0) 0
        = Z.min (mt (spectrum idx) idx to_right) (py_len (spectrum idx)).
Proof.
  intros mt spectrum n to_right dims0 L b Hb.
  set (ups := map (fun idx => (Z.to_nat (cut_bond idx to_right),
                   Z.min (mt (spectrum idx) idx to_right) (py_len (spectrum idx)))) (iter_idx_list n to_right)).
  assert (map fst ups = if to_right then seq 1 (n - 1) else rev (seq 1 (n - 1))) as Pos.
  { unfold ups. rewrite map_map. cbn [fst]. apply cut_positions. }
  assert (NoDup (map fst ups)) as ND.
  { rewrite Pos. destruct to_right; [apply seq_NoDup|apply NoDup_rev; apply seq_NoDup]. }
  assert (In b (map fst ups)) as Ib.
  { rewrite Pos. destruct to_right; [|apply -> in_rev]; apply in_seq; lia. }
  apply in_map_iff in Ib. destruct Ib as [[p v] [Hp Hin]]. cbn [fst] in Hp. subst p.
  pose proof Hin as Hin2. unfold ups in Hin2. apply in_map_iff in Hin2. destruct Hin2 as [idx [Heq Hidx]].
  inversion Heq as [[Hb1 Hv]]. exists idx. split; [exact Hidx|]. split.
  - assert (0 <= cut_bond idx to_right).
    { unfold iter_idx_list in Hidx. unfold cut_bond. destruct to_right; apply in_map_iff in Hidx; destruct Hidx as [a [<- _]]; lia. }
    lia.
  - assert (sweep_dims mt spectrum to_right (iter_idx_list n to_right) dims0 = apply_updates ups dims0) as Hsw
      by apply sweep_as_updates.
    rewrite Hsw, Hb1. rewrite (apply_updates_hit ups dims0 b v ND Hin); [symmetry; exact Hv|lia].
Qed.

Lemma chain_dims_after_compress : forall self spectrum n to_right dims0, length dims0 = S n ->
  cfg_criteria self <> Threshold ->
  forall b, (1 <= b <= n - 1)%nat ->
    nth b (sweep_dims (compute_m_trunc self) spectrum to_right (iter_idx_list n to_right) dims0) 0
      <= py_index (cfg_max_dims self) (Z.of_nat b).
Proof.
  intros self spectrum n to_right dims0 L C b Hb.
  destruct (chain_dims_after_compress_gen (compute_m_trunc self) spectrum n to_right dims0 L b Hb) as [idx [_ [Hc ->]]].
  pose proof (m_trunc_le_M self (spectrum idx) idx to_right C) as H. rewrite Hc in H. lia.
Qed.

Lemma chain_ends_untouched : forall mt spectrum n to_right dims0, length dims0 = S n ->
  length (sweep_dims mt spectrum to_right (iter_idx_list n to_right) dims0) = S n /\
  nth 0 (sweep_dims mt spectrum to_right (iter_idx_list n to_right) dims0) 0 = nth 0 dims0 0 /\
  nth n (sweep_dims mt spectrum to_right (iter_idx_list n to_right) dims0) 0 = nth n dims0 0.
Proof.
  intros mt spectrum n to_right dims0 L. rewrite sweep_as_updates.
  set (ups := map _ (iter_idx_list n to_right)).
  assert (map fst ups = if to_right then seq 1 (n - 1) else rev (seq 1 (n - 1))) as Pos.
  { unfold ups. rewrite map_map. cbn [fst]. apply cut_positions. }
  split; [rewrite apply_updates_length; exact L|].
  split; apply apply_updates_untouched; rewrite Pos; destruct to_right; try rewrite <- in_rev; rewrite in_seq; lia.
Qed.

(* with a global limit M (set_bonddim on a config without per-bond list): every interior bond <= M *)
Lemma chain_dims_global_M : forall crit thr M spectrum n to_right dims0, length dims0 = S n ->
  crit <> Threshold ->
  forall b, (1 <= b <= n - 1)%nat ->
    nth b (sweep_dims (compute_m_trunc (mk_config crit thr (set_bonddim None M (S n)))) spectrum to_right
                      (iter_idx_list n to_right) dims0) 0 <= M.
Proof.
  intros crit thr M spectrum n to_right dims0 L C b Hb.
  pose proof (chain_dims_after_compress (mk_config crit thr (set_bonddim None M (S n))) spectrum n to_right dims0 L C b Hb) as H.
  cbn [cfg_max_dims set_bonddim] in H. unfold py_index in H. rewrite Nat2Z.id in H.
  rewrite (nth_indep (repeat M (S n)) 0 M) in H by (rewrite repeat_length; lia).
  rewrite nth_repeat in H. exact H.
Qed.

(* ---- tree ---- *)
Fixpoint tree_ind' (P : tree -> Prop) (H : forall i cs, Forall P cs -> P (Node i cs)) (t : tree) : P t :=
  match t with
  | Node i cs => H i cs ((fix go (l : list tree) : Forall P l :=
                            match l with [] => Forall_nil P | c :: r => Forall_cons c (tree_ind' P H c) (go r) end) cs)
  end.

Lemma truncated_children_app : forall a b, truncated_children (a ++ b) = truncated_children a ++ truncated_children b.
Proof. intros. unfold truncated_children. apply flat_map_app. Qed.

Definition child_events (p : nat) (c : tree) : list event :=
  EvTrunc p (tid c) (negb (is_nil (tchildren c)))
    :: (if negb (is_nil (tchildren c)) then compress_recursion c ++ [EvPush (tid c)] else []).

Lemma compress_recursion_unfold : forall p cs, compress_recursion (Node p cs) = flat_map (child_events p) cs.
Proof. intros p cs. induction cs as [|c r IH]; [reflexivity|]. cbn [flat_map]. rewrite <- IH. reflexivity. Qed.

Lemma preorder_unfold : forall p cs, preorder (Node p cs) = p :: flat_map preorder cs.
Proof.
  intros p cs. assert (tl (preorder (Node p cs)) = flat_map preorder cs) as H.
  { induction cs as [|c r IH]; [reflexivity|]. cbn [flat_map]. rewrite <- IH. reflexivity. }
  rewrite <- H. reflexivity.
Qed.

(* compress_recursion truncates the bond of every non-root node exactly once, in pre-order *)
Lemma compress_recursion_visits : forall t, truncated_children (compress_recursion t) = tl (preorder t).
Proof.
  induction t as [p cs IH] using tree_ind'. rewrite compress_recursion_unfold, preorder_unfold. cbn [tl].
  induction IH as [|c r Hc _ IHr]; [reflexivity|].
  cbn [flat_map]. rewrite truncated_children_app, IHr. f_equal.
  destruct c as [ci ccs]. rewrite preorder_unfold in Hc |- *. cbn [tl] in Hc.
  unfold child_events. cbn [tid tchildren].
  change (truncated_children (EvTrunc p ci (negb (is_nil ccs)) :: ?x)) with (ci :: truncated_children x).
  destruct ccs as [|c1 ccs]; cbn [is_nil negb].
  - reflexivity.
  - rewrite truncated_children_app, Hc. cbn [truncated_children flat_map app]. rewrite app_nil_r. reflexivity.
Qed.

Lemma tree_dims_app : forall mt sp qr a b d, tree_dims mt sp qr (a ++ b) d = tree_dims mt sp qr b (tree_dims mt sp qr a d).
Proof. intros. unfold tree_dims. apply fold_left_app. Qed.

Section TreeDims.
  Variable mt : list Q -> Z -> bool -> Z.
  Variable spectrum : nat -> list Q.
  Variable qr_dim : nat -> Z -> Z.
  Hypothesis qr_shrinks : forall c d, qr_dim c d <= d.      (* economic QR: new bond = min(rows, cols) <= cols *)

  Definition bound (c : nat) : Z := Z.min (mt (spectrum c) (Z.of_nat c) false) (py_len (spectrum c)).

  Lemma tree_dims_no_trunc : forall evs d c, ~ In c (truncated_children evs) ->
    tree_dims mt spectrum qr_dim evs d c <= d c.
  Proof.
    induction evs as [|e evs IH]; intros d c H; [cbn; lia|].
    cbn [tree_dims fold_left]. 
    match goal with |- fold_left ?f evs ?d' c <= _ => change (fold_left f evs d' c) with (tree_dims mt spectrum qr_dim evs d' c) end.
    destruct e as [p c' cc|c'].
    - cbn [truncated_children flat_map app] in H. fold (truncated_children evs) in H.
      etransitivity; [apply IH; intro C; apply H; right; exact C|].
      unfold upd. destruct (Nat.eqb c c') eqn:Eq; [|lia]. apply Nat.eqb_eq in Eq. exfalso. apply H. left. congruence.
    - cbn [truncated_children flat_map app] in H. fold (truncated_children evs) in H.
      etransitivity; [apply IH; exact H|]. unfold upd. destruct (Nat.eqb c c') eqn:Eq; [|lia].
      apply Nat.eqb_eq in Eq. subst c'. apply qr_shrinks.
  Qed.
End TreeDims.

Section TreeDims2.
  Variable mt : list Q -> Z -> bool -> Z.
  Variable spectrum : nat -> list Q.
  Variable qr_dim : nat -> Z -> Z.
  Hypothesis qr_shrinks : forall c d, qr_dim c d <= d.

  (* after the LAST truncation of c's bond its dimension is the kept count; later QR pushes only shrink it *)
  Lemma tree_dims_truncated : forall evs d c, In c (truncated_children evs) ->
    tree_dims mt spectrum qr_dim evs d c <= bound mt spectrum c.
  Proof.
    induction evs as [|e evs IH]; intros d c H; [destruct H|].
    cbn [tree_dims fold_left].
    match goal with |- fold_left ?f evs ?d' c <= _ => change (fold_left f evs d' c) with (tree_dims mt spectrum qr_dim evs d' c) end.
    destruct (in_dec Nat.eq_dec c (truncated_children evs)) as [I|NI]; [apply IH; exact I|].
    destruct e as [p c' cc|c'].
    - cbn [truncated_children flat_map app] in H. fold (truncated_children evs) in H.
      destruct H as [->|H]; [|contradiction].
      etransitivity; [apply (tree_dims_no_trunc mt spectrum qr_dim qr_shrinks); exact NI|].
      unfold upd, bound. rewrite Nat.eqb_refl. lia.
    - cbn [truncated_children flat_map app] in H. fold (truncated_children evs) in H. contradiction.
  Qed.
End TreeDims2.

(* every non-root node of every tree: after compress() its bond dimension is at most the kept count the
   rule computed for it with idx = its node index and left = False -- and hence at most its own limit *)
Lemma tree_dims_after_compress : forall self spectrum qr_dim, (forall c d, qr_dim c d <= d) ->
  forall t dims0 c, In c (tl (preorder t)) ->
    tree_dims (compute_m_trunc self) spectrum qr_dim (compress_recursion t) dims0 c
      <= Z.min (compute_m_trunc self (spectrum c) (Z.of_nat c) false) (py_len (spectrum c))
    /\ (cfg_criteria self <> Threshold ->
        tree_dims (compute_m_trunc self) spectrum qr_dim (compress_recursion t) dims0 c
          <= py_index (cfg_max_dims self) (Z.of_nat c)).
Proof.
  intros self spectrum qr_dim Hq t dims0 c Hc. rewrite <- compress_recursion_visits in Hc.
  pose proof (tree_dims_truncated (compute_m_trunc self) spectrum qr_dim Hq _ dims0 c Hc) as H.
  unfold bound in H. split; [exact H|]. intro C.
  pose proof (m_trunc_le_M self (spectrum c) (Z.of_nat c) false C) as H2. unfold cut_bond in H2. lia.
Qed.

Lemma tree_exactly_once : forall t, NoDup (preorder t) ->
  NoDup (truncated_children (compress_recursion t)) /\
  (forall c, In c (truncated_children (compress_recursion t)) <-> In c (tl (preorder t))).
Proof.
  intros t ND. rewrite compress_recursion_visits. split; [|intro c; reflexivity].
  destruct (preorder t) as [|r l]; [constructor|]. cbn [tl]. inversion ND; assumption.
Qed.

(* ======================================================================= Part D: the GENERATED sweeps *)
(* Gen/Trunc.v part 2 (translated from mps/mp.py, tn/tree.py): compress_idx_list, update_ms_bond,
   compress_m_trunc, compress_dims, compress_node_m_trunc, tree_compress_events, tree_compress_dims.
   They are shown equal to the bookkeeping models of Model/Trunc.v, then the limits are derived. *)

Lemma rev_seq_1 : forall k, rev (seq 1 k) = map (fun i => (k - i)%nat) (seq 0 k).
Proof.
  induction k as [|k IH]; [reflexivity|].
  rewrite seq_S, rev_app_distr. cbn [rev app]. rewrite IH.
  cbn [seq map]. f_equal. rewrite <- seq_shift, map_map. apply map_ext. intro a. lia.
Qed.

Lemma gen_idx_list_eq : forall n to_right, compress_idx_list (Z.of_nat n) to_right = iter_idx_list n to_right.
Proof.
  intros n to_right. unfold compress_idx_list, mp_iter_idx_list, compress_qnidx, iter_idx_list.
  destruct to_right; cbn [negb]; cbv zeta.
  - unfold py_range. replace (Z.to_nat (Z.of_nat n - 1 - 0)) with (n - 1)%nat by lia.
    apply map_ext. intro a. lia.
  - unfold py_range_down. replace (Z.to_nat (Z.of_nat n - 1 - 0)) with (n - 1)%nat by lia.
    rewrite rev_seq_1, map_map. apply map_ext_in. intros a Ha. apply in_seq in Ha. lia.
Qed.

Lemma update_ms_bond_eq : forall idx to_right, update_ms_bond idx to_right = cut_bond idx to_right.
Proof. reflexivity. Qed.

Lemma compress_dims_eq : forall cc n to_right temp spectrum dims,
  compress_dims cc (Z.of_nat n) to_right temp spectrum dims
  = sweep_dims (fun sigma idx l => compress_m_trunc cc l temp sigma idx) spectrum to_right (iter_idx_list n to_right) dims.
Proof.
  intros. unfold compress_dims, sweep_dims. rewrite gen_idx_list_eq. reflexivity.
Qed.

(* the limit that applies to bond b: max_dims[b] (criterion with a limit), temp list entry b, or the temp integer *)
Definition limit_ok (cc : config) (temp : temp_arg) (b : Z) (d : Z) : Prop :=
  match temp with
  | TNone => cfg_criteria cc <> Threshold -> d <= py_index (cfg_max_dims cc) b
  | TInt v => d <= v
  | TList l => d <= py_index l b
  end.

Lemma limit_ok_le : forall cc temp b d d', d' <= d -> limit_ok cc temp b d -> limit_ok cc temp b d'.
Proof. intros cc temp b d d' L H. destruct temp; cbn in *; [intro C; specialize (H C)| |]; lia. Qed.

(* the kept count selected in MatrixProduct.compress obeys the limit of the bond that _update_ms cuts *)
Lemma compress_m_trunc_limit : forall cc to_right temp sigma idx,
  limit_ok cc temp (cut_bond idx to_right) (compress_m_trunc cc to_right temp sigma idx).
Proof.
  intros cc to_right temp sigma idx. destruct temp as [|v|l]; cbn [limit_ok compress_m_trunc]; cbv zeta.
  - intro C. apply m_trunc_le_M. exact C.
  - apply Z.le_min_l.
  - unfold cut_bond. apply Z.le_min_l.
Qed.

Lemma compress_node_m_trunc_limit : forall cc temp sigma c,
  limit_ok cc temp (Z.of_nat c) (compress_node_m_trunc cc temp sigma (Z.of_nat c)).
Proof.
  intros cc temp sigma c. destruct temp as [|v|l]; cbn [limit_ok compress_node_m_trunc]; cbv zeta.
  - intro C. pose proof (m_trunc_le_M cc sigma (Z.of_nat c) false C) as H. unfold cut_bond in H. exact H.
  - apply Z.le_min_l.
  - apply Z.le_min_l.
Qed.

(* chains, every direction, every form of the limit: after the GENERATED compress sweep every interior bond
   obeys its own limit *)
Theorem gen_chain_dims_after_compress : forall cc n to_right temp spectrum dims0, length dims0 = S n ->
  forall b, (1 <= b <= n - 1)%nat ->
    limit_ok cc temp (Z.of_nat b) (nth b (compress_dims cc (Z.of_nat n) to_right temp spectrum dims0) 0).
Proof.
  intros cc n to_right temp spectrum dims0 L b Hb. rewrite compress_dims_eq.
  destruct (chain_dims_after_compress_gen (fun sigma idx l => compress_m_trunc cc l temp sigma idx)
              spectrum n to_right dims0 L b Hb) as [idx [_ [Hc ->]]].
  eapply limit_ok_le; [apply Z.le_min_l|]. rewrite <- Hc. apply compress_m_trunc_limit.
Qed.

(* each interior bond is cut exactly once by the generated schedule, and receives min(kept count, len) *)
Theorem gen_chain_cut_once : forall cc n to_right temp spectrum dims0, length dims0 = S n ->
  forall b, (1 <= b <= n - 1)%nat ->
    exists idx, In idx (compress_idx_list (Z.of_nat n) to_right) /\ update_ms_bond idx to_right = Z.of_nat b /\
      nth b (compress_dims cc (Z.of_nat n) to_right temp spectrum dims0) 0
        = compress_step_dim cc to_right temp (spectrum idx) idx.
Proof.
  intros cc n to_right temp spectrum dims0 L b Hb. rewrite compress_dims_eq, gen_idx_list_eq.
  destruct (chain_dims_after_compress_gen (fun sigma idx l => compress_m_trunc cc l temp sigma idx)
              spectrum n to_right dims0 L b Hb) as [idx [Hi [Hc Hv]]].
  exists idx. split; [exact Hi|]. split; [exact Hc|]. rewrite Hv. reflexivity.
Qed.

(* global limit: CompressConfig(criteria, max_bonddim=M) without a per-bond list; compress() calls set_bonddim *)
Theorem gen_chain_dims_global_M : forall crit thr M n to_right spectrum dims0, length dims0 = S n ->
  crit <> Threshold ->
  forall b, (1 <= b <= n - 1)%nat ->
    nth b (compress_dims (mk_config crit thr (compress_max_dims crit None M (Z.of_nat n))) (Z.of_nat n) to_right TNone
                         spectrum dims0) 0 <= M.
Proof.
  intros crit thr M n to_right spectrum dims0 L C b Hb.
  pose proof (gen_chain_dims_after_compress (mk_config crit thr (compress_max_dims crit None M (Z.of_nat n)))
                n to_right TNone spectrum dims0 L b Hb) as H.
  cbn [limit_ok cfg_criteria cfg_max_dims] in H. specialize (H C).
  unfold compress_max_dims, effective_max_dims, bonddim_should_set in H.
  assert (forall k, (b < k)%nat -> nth b (repeat M k) 0 = M) as NR.
  { intros k Hk. rewrite (nth_indep _ 0 M) by (rewrite repeat_length; exact Hk). apply nth_repeat. }
  destruct crit; [congruence| |]; cbn in H; unfold py_index in H; rewrite Nat2Z.id in H;
    rewrite NR in H by lia; exact H.
Qed.

(* trees *)
Lemma tree_events_eq : forall t, tree_compress_events t = compress_recursion t.
Proof.
  induction t as [p cs IH] using tree_ind'. cbn [tree_compress_events compress_recursion].
  induction IH as [|c r Hc _ IHr]; [reflexivity|].
  rewrite IHr. cbv zeta. rewrite Hc. cbn [app]. reflexivity.
Qed.

Lemma tree_compress_dims_eq : forall cc temp spectrum qr_dim t dims,
  tree_compress_dims cc temp spectrum qr_dim t dims
  = tree_dims (fun sigma idx _ => compress_node_m_trunc cc temp sigma idx) spectrum qr_dim (compress_recursion t) dims.
Proof. intros. unfold tree_compress_dims, tree_dims. rewrite tree_events_eq. reflexivity. Qed.

Theorem gen_tree_visits : forall t, NoDup (preorder t) ->
  truncated_children (tree_compress_events t) = tl (preorder t) /\ NoDup (truncated_children (tree_compress_events t)).
Proof.
  intros t H. rewrite tree_events_eq. split; [apply compress_recursion_visits|apply (proj1 (tree_exactly_once t H))].
Qed.

Theorem gen_tree_dims_after_compress : forall cc temp spectrum qr_dim, (forall c d, qr_dim c d <= d) ->
  forall t dims0 c, In c (tl (preorder t)) ->
    tree_compress_dims cc temp spectrum qr_dim t dims0 c <= compress_node_dim cc temp (spectrum c) (Z.of_nat c)
    /\ limit_ok cc temp (Z.of_nat c) (tree_compress_dims cc temp spectrum qr_dim t dims0 c).
Proof.
  intros cc temp spectrum qr_dim Hq t dims0 c Hc. rewrite tree_compress_dims_eq.
  rewrite <- compress_recursion_visits in Hc.
  pose proof (tree_dims_truncated (fun sigma idx _ => compress_node_m_trunc cc temp sigma idx) spectrum qr_dim Hq _ dims0 c Hc) as H.
  unfold bound in H. split; [exact H|].
  eapply limit_ok_le; [exact H|]. eapply limit_ok_le; [apply Z.le_min_l|]. apply compress_node_m_trunc_limit.
Qed.

(* ======================================================================= Part E: the two spectral bounds from Ky Fan *)
Section KyFan.
  Variable R : OrdRing.
  Variable E : InnerSpace R.
  Add Ring Kring3 : (k_ring R).
  Local Notation add := (kadd R).
  Local Notation sub := (ksub R).
  Local Notation le := (kle R).
  Local Notation nsq := (@normsq R E).
  Local Notation vminus := (vsub E).

  Lemma kle_sub_l : forall a b c : R, le a b -> le (sub c b) (sub c a).
  Proof.
    intros a b c H. pose proof (kle_add R a b (sub (sub c a) b) H) as H1.
    replace (add a (sub (sub c a) b)) with (sub c b) in H1 by ring.
    replace (add b (sub (sub c a) b)) with (sub c a) in H1 by ring. exact H1.
  Qed.

  Lemma kle_sub_r : forall a b c : R, le a b -> le (sub a c) (sub b c).
  Proof.
    intros a b c H. pose proof (kle_add R a b (kopp R c) H) as H1.
    replace (add a (kopp R c)) with (sub a c) in H1 by ring.
    replace (add b (kopp R c)) with (sub b c) in H1 by ring. exact H1.
  Qed.

  (* |v|^2 = |Xv|^2 + |v - Xv|^2 for an orthogonal projector *)
  Lemma pyth_proj : forall X v, orth_projector E X -> nsq (vminus v (X v)) = sub (nsq v) (nsq (X v)).
  Proof.
    intros X v [Hid Hsa].
    assert (inner E v (X v) = nsq (X v)) as C.
    { unfold normsq. rewrite (Hsa v (X v)), (Hid v). reflexivity. }
    rewrite (normsq_sub R E), C. ring.
  Qed.

  Lemma proj_residual_le : forall X v, orth_projector E X -> le (nsq (vminus v (X v))) (nsq v).
  Proof.
    intros X v HX. rewrite (pyth_proj X v HX).
    pose proof (kle_sub_l _ _ (nsq v) (inner_pos R E (X v))) as H.
    replace (sub (nsq v) (k0 R)) with (nsq v) in H by ring. exact H.
  Qed.

  Section OneBond.
    Variables (side right : (E -> E) -> Prop) (top : E -> R).
    Hypothesis Hclass : projector_class E side right.
    Hypothesis ky_fan_maximum_principle : ky_fan_principle E side right top.
    Definition discarded_weight (v : E) : R := sub (nsq v) (top v).

    (* interlacing in the form needed: an orthogonal projector acting on the OTHER tensor factor (it commutes
       with every right-acting member) does not increase the discarded weight at this bond *)
    Lemma left_projection_discard : forall P v, orth_projector E P -> additive E P ->
      (forall Q w, right Q -> P (Q w) = Q (P w)) ->
      le (discarded_weight (P v)) (discarded_weight v).
    Proof.
      intros P v HP HaddP Hcomm. destruct Hclass as [Hrs Hmem]. destruct ky_fan_maximum_principle as [KF1 KF2].
      destruct (KF2 v) as [Q [HQr HQv]]. pose proof (Hrs Q HQr) as HQs. destruct (Hmem Q HQs) as [HQp HQa].
      unfold discarded_weight.
      (* |Pv|^2 - top(Pv) <= |Pv|^2 - |Q P v|^2 = |Pv - QPv|^2 = |P(v - Qv)|^2 <= |v - Qv|^2 = |v|^2 - top v *)
      apply (kle_trans R _ (sub (nsq (P v)) (nsq (Q (P v))))); [apply kle_sub_l; apply KF1; exact HQs|].
      rewrite <- (pyth_proj Q (P v) HQp). rewrite <- (Hcomm Q v HQr). rewrite <- (HaddP v (Q v)).
      apply (kle_trans R _ (nsq (vminus v (Q v)))); [apply (projection_norm_nonincreasing R E); exact HP|].
      rewrite (pyth_proj Q v HQp), HQv. apply (kle_refl R).
    Qed.

    (* Eckart-Young in the form needed: a vector fixed by some member (its Schmidt rank at the bond is <= m)
       is at squared distance >= discarded weight *)
    Lemma eckart_young_member : forall X v w, side X -> X w = w ->
      le (discarded_weight v) (nsq (vminus v w)).
    Proof.
      intros X v w HXs Hw. destruct Hclass as [_ Hmem]. destruct ky_fan_maximum_principle as [KF1 _].
      destruct (Hmem X HXs) as [HXp HXa].
      apply (kle_trans R _ (nsq (vminus (vminus v w) (X (vminus v w))))); [|apply proj_residual_le; exact HXp].
      assert (nsq (vminus (vminus v w) (X (vminus v w))) = nsq (vminus v (X v))) as Eq.
      { rewrite (HXa v w), Hw. unfold normsq.
        repeat (rewrite (inner_sub_l R E) || rewrite (inner_sub_r R E)). ring. }
      rewrite Eq, (pyth_proj X v HXp). unfold discarded_weight. apply kle_sub_l. apply KF1. exact HXs.
    Qed.
  End OneBond.

  (* the sweep: bond k is cut in step k *)
  Variables (P : nat -> E -> E) (psi : nat -> E) (n : nat).
  Variables (side right : nat -> (E -> E) -> Prop) (top : nat -> E -> R).
  Hypothesis HP : forall k, (k < n)%nat -> orth_projector E (P k) /\ additive E (P k).
  Hypothesis Hstep : forall k, (k < n)%nat -> psi (S k) = P k (psi k).
  Hypothesis Hnest : forall j k, (j < k)%nat -> (k <= n)%nat -> P j (psi k) = psi k.
  Hypothesis Hclass : forall k, (k < n)%nat -> projector_class E (side k) (right k).
  (* THE spectral hypothesis *)
  Hypothesis ky_fan_maximum_principle : forall k, (k < n)%nat -> ky_fan_principle E (side k) (right k) (top k).
  (* SVD-step contract: the projector of step k is a member at its own bond and keeps the top-m weight *)
  Hypothesis Hmember : forall k, (k < n)%nat -> side k (P k).
  Hypothesis Hopt : forall k, (k < n)%nat -> nsq (psi (S k)) = top k (psi k).
  (* tensor-factor structure: earlier projectors act on the left block of a later bond *)
  Hypothesis Hcomm : forall j k, (j < k)%nat -> (k < n)%nat -> forall Q w, right k Q -> P j (Q w) = Q (P j w).

  Lemma discard_monotone_along_sweep : forall k, (k < n)%nat -> forall j, (j <= k)%nat ->
    le (discarded_weight (top k) (psi j)) (discarded_weight (top k) (psi 0%nat)).
  Proof.
    intros k Hk j. induction j as [|j IH]; intro Hj; [apply (kle_refl R)|].
    apply (kle_trans R _ (discarded_weight (top k) (psi j))); [|apply IH; lia].
    rewrite (Hstep j ltac:(lia)). destruct (HP j ltac:(lia)) as [Hp Ha].
    apply (left_projection_discard (side k) (right k) (top k) (Hclass k Hk) (ky_fan_maximum_principle k Hk) (P j) (psi j) Hp Ha).
    intros Q w HQ. apply (Hcomm j k ltac:(lia) Hk Q w HQ).
  Qed.

  Theorem bounds_from_ky_fan :
    le (nsq (vminus (psi 0%nat) (psi n))) (ksum_upto (fun k => discarded_weight (top k) (psi 0%nat)) n)
    /\ (forall k, (k < n)%nat -> le (discarded_weight (top k) (psi 0%nat)) (nsq (vminus (psi 0%nat) (psi n)))).
  Proof.
    assert (forall k, (k < n)%nat -> self_adjoint E (P k)) as Hsa by (intros k Hk; apply (proj2 (proj1 (HP k Hk)))).
    split.
    - destruct (nested_projection_pythagoras R E P psi n Hsa Hstep Hnest) as [A _]. rewrite A.
      apply (ksum_upto_le R). intros k Hk.
      apply (kle_trans R _ (discarded_weight (top k) (psi k))); [|apply discard_monotone_along_sweep; [exact Hk|lia]].
      rewrite (dist_sq R E P psi n Hsa Hstep Hnest k (S k) ltac:(lia) ltac:(lia)).
      unfold discarded_weight. rewrite (Hopt k Hk). apply (kle_refl R).
    - intros k Hk. apply (eckart_young_member (side k) (right k) (top k) (Hclass k Hk) (ky_fan_maximum_principle k Hk) (P k)).
      + apply Hmember; exact Hk.
      + apply Hnest; lia.
  Qed.
End KyFan.

(* ======================================================================= Part F: copies of configurations *)
(* Gen/Trunc.v part 3: config_copy_dict, mp_metacopy_config, ttns_metacopy_config (translated from
   CompressConfig.copy, MatrixProduct.metacopy, TTNS.metacopy), compress_ensure_max_dims. *)
Local Notation hget := (h_get cfg_dflt).

Lemma hget_set_same : forall (h : heap criteria) r f, (r < length h)%nat -> hget (h_set h r f) r = f.
Proof. intros. unfold h_get, h_set. apply set_nth_same. assumption. Qed.

Lemma hget_set_other : forall (h : heap criteria) r r' f, r' <> r -> hget (h_set h r' f) r = hget h r.
Proof. intros. unfold h_get, h_set. apply set_nth_other. assumption. Qed.

Lemma hset_length : forall (h : heap criteria) r f, length (h_set h r f) = length h.
Proof. intros. unfold h_set. apply set_nth_length. Qed.

(* THE obligation about copies: the configuration of a copy lives in a FRESH attribute namespace that starts
   as a snapshot of the source's; nothing of the old heap moves *)
Definition fresh_copy (cp : heap criteria -> nat -> heap criteria * nat) : Prop :=
  forall h r, (r < length h)%nat ->
    let '(h', r') := cp h r in
    r' = length h /\ r' <> r /\ length h' = S (length h) /\ hget h' r' = hget h r /\
    (forall q, (q < length h)%nat -> hget h' q = hget h q).

Lemma fresh_copy_generic : fresh_copy (metacopy_config AttrCopyMethod DictFreshCopy cfg_dflt).
Proof.
  intros h r Hr. cbn [metacopy_config copy_config]. repeat split.
  - lia.
  - rewrite app_length. cbn [length]. lia.
  - unfold h_get at 1. rewrite app_nth2 by lia. rewrite Nat.sub_diag. reflexivity.
  - intros q Hq. unfold h_get. apply app_nth1. exact Hq.
Qed.

Lemma mp_copy_is_fresh : fresh_copy mp_copy_config.
Proof. exact fresh_copy_generic. Qed.
Lemma ttns_copy_is_fresh : fresh_copy ttns_copy_config.
Proof. exact fresh_copy_generic. Qed.

(* aliasing would be observable: with `new.__dict__ = self.__dict__` a store through the copy changes the source *)
Lemma alias_refuted :
  exists h r, (r < length h)%nat /\
    let '(h', r') := metacopy_config AttrCopyMethod DictAlias cfg_dflt h r in
    hget (store_M cfg_dflt h' r' 2) r <> hget h r.
Proof.
  exists [mk_cfields Fixed (1 # 2)%Q 6 None], 0%nat. split; [cbn; lia|]. cbn. intro H. discriminate H.
Qed.

(* WHEN max_dims is (re)computed: only by compress() through bonddim_should_set/set_bonddim, only while it is
   None and the criterion has a limit; once filled it is never refreshed from bond_dim_max_value *)
Lemma max_dims_is_a_cache : forall h r n md, f_max_dims (hget h r) = Some md -> compress_ensure_max_dims h r n = h.
Proof.
  intros h r n md H. unfold compress_ensure_max_dims, ensure_max_dims, bonddim_should_set. rewrite H.
  cbn [is_none]. rewrite andb_false_r. reflexivity.
Qed.

Lemma max_dims_threshold_untouched : forall h r n, f_criteria (hget h r) = Threshold -> compress_ensure_max_dims h r n = h.
Proof.
  intros h r n H. unfold compress_ensure_max_dims, ensure_max_dims, bonddim_should_set. rewrite H. reflexivity.
Qed.

Lemma max_dims_filled : forall h r n, (r < length h)%nat -> f_criteria (hget h r) <> Threshold ->
  f_max_dims (hget h r) = None ->
  hget (compress_ensure_max_dims h r n) r
  = mk_cfields (f_criteria (hget h r)) (f_threshold (hget h r)) (f_bond_dim_max_value (hget h r))
               (Some (repeat (f_bond_dim_max_value (hget h r)) n))
  /\ (forall q, q <> r -> hget (compress_ensure_max_dims h r n) q = hget h q).
Proof.
  intros h r n Hr Hc Hn. unfold compress_ensure_max_dims, ensure_max_dims, bonddim_should_set. rewrite Hn.
  destruct (f_criteria (hget h r)) eqn:E; [congruence| |]; cbn [negb andb is_none set_bonddim];
    (split; [apply hget_set_same; exact Hr|intros q Hq; apply hget_set_other; congruence]).
Qed.

(* the limits compress() then uses are the ones of the generated schedule (effective_max_dims) *)
Lemma ensure_matches_effective : forall h r n, (r < length h)%nat -> f_criteria (hget h r) <> Threshold ->
  f_max_dims (hget (compress_ensure_max_dims h r (Z.to_nat n)) r)
  = Some (effective_max_dims (f_criteria (hget h r)) (f_max_dims (hget h r)) (f_bond_dim_max_value (hget h r)) n).
Proof.
  intros h r n Hr Hc. destruct (f_max_dims (hget h r)) as [md|] eqn:E.
  - rewrite (max_dims_is_a_cache h r _ md E), E. unfold effective_max_dims, bonddim_should_set.
    cbn [is_none]. rewrite andb_false_r. reflexivity.
  - destruct (max_dims_filled h r (Z.to_nat n) Hr Hc E) as [-> _]. cbn [f_max_dims].
    unfold effective_max_dims, bonddim_should_set. destruct (f_criteria (hget h r)); [congruence| |]; reflexivity.
Qed.

(* the idiom of the package's tests on a copy of a state that has not been compressed:
     c = x.copy(); c.compress_config.bond_dim_max_value = M2; c.compress_config.criteria = crit; c.compress()
   uses the NEW limit M2 on every bond, and the source's configuration is untouched *)
Theorem fresh_copy_uses_new_limit_gen : forall cp, fresh_copy cp ->
  forall h r M2 crit n, (r < length h)%nat -> crit <> Threshold -> f_max_dims (hget h r) = None ->
    let '(h1, r') := cp h r in
    let h4 := compress_ensure_max_dims (store_criteria cfg_dflt (store_M cfg_dflt h1 r' M2) r' crit) r' n in
    f_max_dims (hget h4 r') = Some (repeat M2 n) /\ f_criteria (hget h4 r') = crit /\ hget h4 r = hget h r.
Proof.
  intros cp Hcp h r M2 crit n Hr Hc Hn. specialize (Hcp h r Hr). destruct (cp h r) as [h1 r'].
  destruct Hcp as [Hr' [Hne [Hlen [Hsnap Hold]]]].
  assert (r' < length h1)%nat as Hr1 by lia.
  set (h2 := store_M cfg_dflt h1 r' M2). set (h3 := store_criteria cfg_dflt h2 r' crit).
  assert (length h2 = length h1) as L2 by apply hset_length.
  assert (hget h2 r' = mk_cfields (f_criteria (hget h r)) (f_threshold (hget h r)) M2 None) as G2.
  { unfold h2, store_M. rewrite hget_set_same by exact Hr1. rewrite Hsnap, Hn. reflexivity. }
  assert (hget h3 r' = mk_cfields crit (f_threshold (hget h r)) M2 None) as G3.
  { unfold h3, store_criteria. rewrite hget_set_same by lia. rewrite G2. reflexivity. }
  assert (hget h3 r = hget h r) as Gsrc.
  { unfold h3, store_criteria. rewrite hget_set_other by exact Hne. unfold h2, store_M.
    rewrite hget_set_other by exact Hne. apply Hold. exact Hr. }
  assert (length h3 = length h1) as L3 by (unfold h3, store_criteria; rewrite hset_length; exact L2).
  destruct (max_dims_filled h3 r' n ltac:(lia) ltac:(rewrite G3; exact Hc) ltac:(rewrite G3; reflexivity)) as [Hf Ho].
  cbv zeta. rewrite Hf, G3. cbn [f_max_dims f_criteria f_bond_dim_max_value]. repeat split.
  rewrite (Ho r ltac:(congruence)). exact Gsrc.
Qed.
