(* C05 -- proofs.  Part A: the GENERATED kept-count rules (Gen/Trunc.v).  Part B: nested orthogonal
   projections in an abstract inner-product space (Base/Inner.v).  Part C: bookkeeping of the chain sweep
   and of the tree traversal. *)
From Coq Require Import QArith ZArith List Bool Arith Lia Lqa Permutation Ring.
Import ListNotations.
From RV Require Import Model.Trunc Gen.Trunc Base.Inner.
Close Scope Q_scope.
Local Open Scope Z_scope.

(* ======================================================================= Part A: kept-count rules *)

Lemma count_true_bounds : forall b, 0 <= count_true b <= Z.of_nat (length b).
Proof.
  unfold count_true. induction b as [|x b IH]; cbn [filter length]; [lia|].
  destruct x; cbn [length]; lia.
Qed.

Lemma count_true_cons : forall x b, count_true (x :: b) = (if x then 1 else 0) + count_true b.
Proof. intros x b. unfold count_true. cbn [filter]. destruct x; cbn [length]; lia. Qed.

Lemma nv_cmp_length : forall op s thr, length (nv_cmp op (normalised s) thr) = length s.
Proof. intros. unfold nv_cmp. cbn. apply map_length. Qed.

Lemma py_len_pos : forall (A : Type) (s : list A), s <> [] -> 1 <= py_len s.
Proof. intros A s H. unfold py_len. destruct s; [congruence|cbn [length]; lia]. Qed.

(* any comparison operator: max(count, 1) lies in [1, len] for a non-empty spectrum *)
Lemma thr_rule_range : forall op thr s, s <> [] ->
  1 <= Z.max (count_true (nv_cmp op (normalised s) thr)) 1 <= py_len s.
Proof.
  intros op thr s H. pose proof (count_true_bounds (nv_cmp op (normalised s) thr)) as B.
  rewrite nv_cmp_length in B. pose proof (py_len_pos _ s H). unfold py_len in *. lia.
Qed.

Lemma threshold_range : forall self s, s <> [] -> 1 <= threshold_m_trunc self s <= py_len s.
Proof. intros self s H. unfold threshold_m_trunc. apply thr_rule_range; exact H. Qed.

(* the fix c811baf: without the max(.,1) this is false, see threshold_zero_prefix_refuted below *)
Lemma threshold_ge_1 : forall self s, 1 <= threshold_m_trunc self s.
Proof. intros. unfold threshold_m_trunc. lia. Qed.

(* the edge the code never reaches (svd never returns an empty spectrum): m = 1 > 0 = len *)
Lemma threshold_empty : forall self, threshold_m_trunc self [] = 1.
Proof. intros. reflexivity. Qed.

Lemma fixed_le_M : forall self s idx left,
  fixed_m_trunc self s idx left <= py_index (cfg_max_dims self) (cut_bond idx left).
Proof. intros. unfold fixed_m_trunc, cut_bond. apply Z.le_min_l. Qed.

Lemma fixed_le_len : forall self s idx left, fixed_m_trunc self s idx left <= py_len s.
Proof. intros. unfold fixed_m_trunc. apply Z.le_min_r. Qed.

Lemma fixed_eq : forall self s idx left,
  fixed_m_trunc self s idx left = Z.min (py_index (cfg_max_dims self) (cut_bond idx left)) (py_len s).
Proof. intros. reflexivity. Qed.

Lemma compute_threshold : forall self s idx left, cfg_criteria self = Threshold ->
  compute_m_trunc self s idx left = threshold_m_trunc self s.
Proof. intros self s idx left H. unfold compute_m_trunc. rewrite H. reflexivity. Qed.
Lemma compute_fixed : forall self s idx left, cfg_criteria self = Fixed ->
  compute_m_trunc self s idx left = fixed_m_trunc self s idx left.
Proof. intros self s idx left H. unfold compute_m_trunc. rewrite H. reflexivity. Qed.
Lemma compute_both : forall self s idx left, cfg_criteria self = Both ->
  compute_m_trunc self s idx left = Z.min (threshold_m_trunc self s) (fixed_m_trunc self s idx left).
Proof. intros self s idx left H. unfold compute_m_trunc. rewrite H. reflexivity. Qed.

Lemma both_le_min : forall self s idx left, cfg_criteria self = Both ->
  compute_m_trunc self s idx left
    <= Z.min (Z.min (py_index (cfg_max_dims self) (cut_bond idx left)) (py_len s)) (threshold_m_trunc self s).
Proof.
  intros self s idx left H. rewrite (compute_both _ _ _ _ H).
  pose proof (fixed_le_M self s idx left). pose proof (fixed_le_len self s idx left). lia.
Qed.

Lemma m_trunc_le_M : forall self s idx left, cfg_criteria self <> Threshold ->
  compute_m_trunc self s idx left <= py_index (cfg_max_dims self) (cut_bond idx left).
Proof.
  intros self s idx left H. pose proof (fixed_le_M self s idx left).
  destruct (cfg_criteria self) eqn:E; [congruence| |].
  - rewrite (compute_fixed _ _ _ _ E). lia.
  - rewrite (compute_both _ _ _ _ E). lia.
Qed.

Lemma m_trunc_range : forall self s idx left, s <> [] ->
  0 <= py_index (cfg_max_dims self) (cut_bond idx left) ->
  0 <= compute_m_trunc self s idx left <= py_len s.
Proof.
  intros self s idx left Hs HM.
  pose proof (threshold_range self s Hs). pose proof (fixed_le_len self s idx left).
  pose proof (fixed_eq self s idx left). pose proof (py_len_pos _ s Hs).
  destruct (cfg_criteria self) eqn:E.
  - rewrite (compute_threshold _ _ _ _ E). lia.
  - rewrite (compute_fixed _ _ _ _ E). lia.
  - rewrite (compute_both _ _ _ _ E). lia.
Qed.

Lemma m_trunc_pos : forall self s idx left, s <> [] ->
  1 <= py_index (cfg_max_dims self) (cut_bond idx left) ->
  1 <= compute_m_trunc self s idx left.
Proof.
  intros self s idx left Hs HM.
  pose proof (threshold_range self s Hs). pose proof (fixed_eq self s idx left). pose proof (py_len_pos _ s Hs).
  destruct (cfg_criteria self) eqn:E.
  - rewrite (compute_threshold _ _ _ _ E). lia.
  - rewrite (compute_fixed _ _ _ _ E). lia.
  - rewrite (compute_both _ _ _ _ E). lia.
Qed.

(* ---- the threshold mask on a descending spectrum is a prefix ---- *)
Definition upward (op : cmpop) : bool := match op with OpGt | OpGe => true | _ => false end.

Local Open Scope Q_scope.

Lemma sq_mono : forall x y : Q, 0 <= y -> y <= x -> y * y <= x * x.
Proof. intros. nra. Qed.

Lemma cmpQ_up_true : forall op a b, upward op = true -> cmpQ op a b = true -> b <= a.
Proof.
  intros op a b U H. destruct op; try discriminate; cbn in H.
  - apply negb_true_iff in H. destruct (Qlt_le_dec b a) as [L|L]; [lra|].
    apply Qle_bool_iff in L. congruence.
  - apply Qle_bool_iff in H. exact H.
Qed.

Lemma cmpQ_up_false : forall op a b, upward op = true -> cmpQ op a b = false -> a <= b.
Proof.
  intros op a b U H. destruct op; try discriminate; cbn in H.
  - apply negb_false_iff in H. apply Qle_bool_iff in H. exact H.
  - destruct (Qlt_le_dec a b) as [L|L]; [lra|]. apply Qle_bool_iff in L. congruence.
Qed.

Lemma cmpQ_up_mono : forall op a a' b, upward op = true -> a <= a' -> cmpQ op a b = true -> cmpQ op a' b = true.
Proof.
  intros op a a' b U L H. destruct op; try discriminate; cbn in *.
  - apply negb_true_iff in H. apply negb_true_iff.
    destruct (Qle_bool a' b) eqn:E; [|reflexivity]. apply Qle_bool_iff in E.
    assert (a <= b) as L2 by lra. apply Qle_bool_iff in L2. congruence.
  - apply Qle_bool_iff in H. apply Qle_bool_iff. lra.
Qed.

Lemma elem_cmp_mono : forall op n2 thr x y, upward op = true -> 0 <= y -> y <= x ->
  nv_elem_cmp op n2 thr y = true -> nv_elem_cmp op n2 thr x = true.
Proof.
  intros op n2 thr x y U Hy L H. unfold nv_elem_cmp in *.
  destruct (Qeq_bool n2 0); [discriminate|].
  eapply cmpQ_up_mono; [exact U| |exact H]. apply sq_mono; assumption.
Qed.

Lemma sq_le_sumsq : forall s x, In x s -> x * x <= sumsq s.
Proof.
  induction s as [|y t IH]; intros x H; [destruct H|].
  cbn [sumsq fold_right]. fold (sumsq t).
  assert (0 <= sumsq t) as P.
  { clear. induction t as [|z t IH]; cbn [sumsq fold_right]; [lra|]. fold (sumsq t). nra. }
  destruct H as [->|H]; [nra|]. specialize (IH x H). nra.
Qed.

Lemma elem_cmp_true_above : forall op s thr x, upward op = true ->
  nv_elem_cmp op (sumsq s) thr x = true -> weakly_above s thr x.
Proof.
  intros op s thr x U H. unfold nv_elem_cmp in H. destruct (Qeq_bool (sumsq s) 0); [discriminate|].
  unfold weakly_above. eapply cmpQ_up_true; eassumption.
Qed.

Lemma elem_cmp_false_below : forall op s thr x, upward op = true -> In x s ->
  nv_elem_cmp op (sumsq s) thr x = false -> weakly_below s thr x.
Proof.
  intros op s thr x U I H. unfold nv_elem_cmp in H. unfold weakly_below.
  destruct (Qeq_bool (sumsq s) 0) eqn:E.
  - apply Qeq_bool_iff in E. pose proof (sq_le_sumsq s x I). rewrite E in *. nra.
  - eapply cmpQ_up_false; eassumption.
Qed.

Close Scope Q_scope.

(* all-false tail *)
Lemma all_false_tail : forall op n2 thr x t, upward op = true ->
  Forall (fun y => (y <= x)%Q) t -> nonneg t -> nv_elem_cmp op n2 thr x = false ->
  forall y, In y t -> nv_elem_cmp op n2 thr y = false.
Proof.
  intros op n2 thr x t U F N H y I.
  destruct (nv_elem_cmp op n2 thr y) eqn:E; [|reflexivity].
  rewrite Forall_forall in F. unfold nonneg in N. rewrite Forall_forall in N.
  rewrite (elem_cmp_mono op n2 thr x y U (N y I) (F y I) E) in H. discriminate.
Qed.

Lemma count_all_false : forall (f : Q -> bool) t, (forall y, In y t -> f y = false) -> count_true (map f t) = 0.
Proof.
  intros f t. induction t as [|y t IH]; intros H; [reflexivity|].
  cbn [map]. rewrite count_true_cons. rewrite (H y (or_introl eq_refl)).
  rewrite IH; [reflexivity|]. intros z Hz. apply H. right. exact Hz.
Qed.

(* descending + non-negative: position i is above the count  <->  its mask bit is set *)
Lemma mask_prefix : forall op n2 thr s, upward op = true -> descending s -> nonneg s ->
  forall i, (i < length s)%nat ->
    (Z.of_nat i < count_true (map (nv_elem_cmp op n2 thr) s) -> nv_elem_cmp op n2 thr (nth i s 0%Q) = true) /\
    (count_true (map (nv_elem_cmp op n2 thr) s) <= Z.of_nat i -> nv_elem_cmp op n2 thr (nth i s 0%Q) = false).
Proof.
  intros op n2 thr s U D. induction D as [|x t F D IH]; intros N i Hi; [cbn in Hi; lia|].
  assert (nonneg t) as Nt by (inversion N; assumption).
  cbn [map]. rewrite count_true_cons.
  destruct (nv_elem_cmp op n2 thr x) eqn:E.
  - destruct i as [|i]; cbn [nth].
    + split; [intros _; exact E|]. pose proof (count_true_bounds (map (nv_elem_cmp op n2 thr) t)). lia.
    + cbn [length] in Hi. destruct (IH Nt i ltac:(lia)) as [A B]. split; intro H; [apply A|apply B]; lia.
  - pose proof (all_false_tail op n2 thr x t U F Nt E) as AF.
    rewrite (count_all_false _ t AF). split; [lia|]. intros _.
    destruct i as [|i]; cbn [nth]; [exact E|]. apply AF. apply nth_In. cbn [length] in Hi. lia.
Qed.

(* generic statement for any upward comparison; instantiated on the generated rule below *)
Lemma thr_rule_prefix : forall op thr s, upward op = true -> descending s -> nonneg s ->
  forall i, (i < length s)%nat ->
    (Z.of_nat i < Z.max (count_true (nv_cmp op (normalised s) thr)) 1 ->
       i = 0%nat \/ weakly_above s thr (nth i s 0%Q)) /\
    (Z.max (count_true (nv_cmp op (normalised s) thr)) 1 <= Z.of_nat i -> weakly_below s thr (nth i s 0%Q)).
Proof.
  intros op thr s U D N i Hi. unfold nv_cmp, normalised; cbn [nv_vals nv_n2].
  destruct (mask_prefix op (sumsq s) thr s U D N i Hi) as [A B]. split; intro H.
  - destruct (Z_lt_le_dec (Z.of_nat i) (count_true (map (nv_elem_cmp op (sumsq s) thr) s))) as [L|L].
    + right. eapply elem_cmp_true_above; [exact U|]. apply A. exact L.
    + left. lia.
  - eapply elem_cmp_false_below; [exact U|apply nth_In; exact Hi|]. apply B. lia.
Qed.

Lemma threshold_prefix : forall self s, descending s -> nonneg s ->
  forall i, (i < length s)%nat ->
    (Z.of_nat i < threshold_m_trunc self s -> i = 0%nat \/ weakly_above s (cfg_threshold self) (nth i s 0%Q)) /\
    (threshold_m_trunc self s <= Z.of_nat i -> weakly_below s (cfg_threshold self) (nth i s 0%Q)).
Proof.
  intros self s D N i Hi. unfold threshold_m_trunc.
  apply thr_rule_prefix; [reflexivity|exact D|exact N|exact Hi].
Qed.

(* pre-fix rule (no max with 1): the kept count can be zero -- kept as a documented refutation *)
Lemma threshold_zero_prefix_refuted :
  exists s thr, s <> [] /\ (0 < thr)%Q /\ (thr < 1)%Q /\ ~ (sumsq s == 0)%Q /\
                count_true (nv_cmp OpGt (normalised s) thr) = 0.
Proof.
  exists [1%Q; 1%Q], (9 # 10)%Q. repeat split; try (intro H; discriminate H); try reflexivity.
Qed.

(* ---- the first m of a descending spectrum carry the largest weight among all choices of m ---- *)
Local Open Scope Q_scope.

Lemma sumsq_cons : forall x t, sumsq (x :: t) = x * x + sumsq t.
Proof. reflexivity. Qed.

Lemma sumsq_nonneg : forall t, 0 <= sumsq t.
Proof. induction t as [|z t IH]; [cbn; lra|]. rewrite sumsq_cons. nra. Qed.

Lemma descending_inv : forall x t, descending (x :: t) -> Forall (fun y => y <= x) t /\ descending t.
Proof. intros x t H. inversion H; subst. split; assumption. Qed.

Lemma firstn_shift : forall t x k, descending (x :: t) -> nonneg (x :: t) ->
  sumsq (firstn (S k) t) <= x * x + sumsq (firstn k t).
Proof.
  induction t as [|y t IH]; intros x k D N.
  - destruct k; cbn; nra.
  - destruct (descending_inv _ _ D) as [F D'].
    assert (0 <= y /\ y <= x) as [Hy Hyx].
    { split; [inversion N as [|? ? _ N']; inversion N'; assumption|inversion F; assumption]. }
    assert (nonneg (y :: t)) as N' by (inversion N; assumption).
    cbn [firstn]. rewrite sumsq_cons. destruct k as [|k].
    + cbn [firstn]. cbn [sumsq fold_right]. nra.
    + cbn [firstn]. rewrite sumsq_cons. specialize (IH y k D' N'). nra.
Qed.

Lemma kept_are_largest_subseq : forall s, descending s -> nonneg s ->
  forall l, subseq l s -> sumsq l <= sumsq (firstn (length l) s).
Proof.
  induction s as [|x t IH]; intros D N l H.
  - inversion H; subst. cbn. lra.
  - destruct (descending_inv _ _ D) as [F D'].
    assert (nonneg t) as N' by (inversion N; assumption).
    inversion H; subst.
    + cbn [length firstn]. rewrite !sumsq_cons. specialize (IH D' N' _ H2). lra.
    + specialize (IH D' N' _ H2). destruct (length l) as [|k] eqn:E.
      * destruct l; [|discriminate]. cbn. lra.
      * cbn [firstn]. rewrite sumsq_cons. pose proof (firstn_shift t x k D N). lra.
Qed.

Lemma sumsq_perm : forall l l', Permutation l l' -> sumsq l == sumsq l'.
Proof.
  intros l l' P. induction P.
  - reflexivity.
  - rewrite !sumsq_cons. rewrite IHP. reflexivity.
  - rewrite !sumsq_cons. ring.
  - rewrite IHP1. exact IHP2.
Qed.

(* any choice of m of the singular values (in any order, from any sectors) weighs at most the first m *)
Lemma kept_are_largest : forall s, descending s -> nonneg s ->
  forall l l', Permutation l l' -> subseq l' s -> sumsq l <= sumsq (firstn (length l) s).
Proof.
  intros s D N l l' P H. rewrite (sumsq_perm _ _ P). rewrite (Permutation_length P).
  apply kept_are_largest_subseq; assumption.
Qed.

(* pointwise form: every kept value dominates every discarded one *)
Lemma kept_dominate_discarded : forall s, descending s ->
  forall m x y, In x (firstn m s) -> In y (skipn m s) -> y <= x.
Proof.
  induction s as [|z t IH]; intros D m x y Hx Hy.
  - destruct m; destruct Hx.
  - destruct (descending_inv _ _ D) as [F D']. destruct m as [|m]; [destruct Hx|].
    cbn [firstn skipn] in *. destruct Hx as [->|Hx].
    + rewrite Forall_forall in F. apply F. eapply (In_skipn_In m). exact Hy.
    + eapply IH; eassumption.
Qed.

(* the global sort of svd_qn (economic mode): whatever permutation argsort picks (ties are arbitrary),
   if the result is descending then its first m entries are the m heaviest of all sector spectra *)
Lemma global_sort_keeps_largest : forall (blocks : list (list Q)) s, Permutation (concat blocks) s ->
  descending s -> nonneg s ->
  forall chosen chosen', Permutation chosen chosen' -> subseq chosen' s ->
    sumsq chosen <= sumsq (firstn (length chosen) s) /\
    sumsq (concat blocks) == sumsq (firstn (length chosen) s) + discarded (length chosen) s.
Proof.
  intros blocks s P D N c c' Pc H. split; [eapply kept_are_largest; eassumption|].
  rewrite (sumsq_perm _ _ P). unfold discarded.
  rewrite <- (firstn_skipn (length c) s) at 1.
  generalize (firstn (length c) s) (skipn (length c) s). clear.
  induction l as [|x l IH]; intro r; cbn [app]; [cbn; ring|]. rewrite !sumsq_cons. rewrite IH. ring.
Qed.

Close Scope Q_scope.
