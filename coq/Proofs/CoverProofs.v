(* Proofs for Model/Cover.v  (property C20).

   Koenig part (any matching table, any pop order):
     konig_inv / konig_least          invariants of the worklist; the visited sets are the least closed sets
     konig_cover_fn, konig_size_le    cover; |cover| <= |matching|
     weak_duality_fn                  |matching| <= |cover| for ANY cover and ANY matching
     konig_total                      no assert fires when a certificate exists
   Augmenting-path part:
     loop_post / augment_post         frame conditions of one search (visited entries untouched,
                                      values of the table grow by exactly {u} on success, unchanged on failure)
     augment_total                    fuel nV+1 suffices
     augment_fail_in_cert, augment_keeps_cert, augment_fail_cert
                                      "a failed search stays failed": a failed search leaves a certificate
                                      (the V vertices it visited), searches inside a certificate fail, and no
                                      later search modifies a certificate
     hung_loop_inv                    invariant of the outer loop
   Top level: konig_correct, vertex_cover_hungarian_correct, vertex_cover_hk_correct,
     vertex_cover_hk_total, konig_schedule_independent, minimum_cover_le_sides, select_rows_cols_* *)
From Coq Require Import List Arith Lia Bool Permutation.
Import ListNotations.
From RV Require Import Model.Cover Gen.CoverAdj.

(* ------------------------------------------------------------------ list helpers *)
Lemma memn_spec a l : reflect (In a l) (memn a l).
Proof.
  unfold memn. destruct (existsb (Nat.eqb a) l) eqn:E; constructor.
  - apply existsb_exists in E. destruct E as [x [Hx Hk]]. apply Nat.eqb_eq in Hk. subst; auto.
  - intro H. assert (existsb (Nat.eqb a) l = true); [|congruence].
    apply existsb_exists. exists a. split; auto. apply Nat.eqb_refl.
Qed.
Lemma memn_true a l : memn a l = true <-> In a l.
Proof. destruct (memn_spec a l); split; auto; try discriminate; contradiction. Qed.
Lemma memn_false a l : memn a l = false <-> ~ In a l.
Proof. destruct (memn_spec a l); split; auto; try discriminate; contradiction. Qed.

Lemma NoDup_app_intro (l1 l2 : list nat) :
  NoDup l1 -> NoDup l2 -> (forall x, In x l1 -> ~ In x l2) -> NoDup (l1 ++ l2).
Proof.
  induction l1 as [|a l1 IH]; intros N1 N2 H; cbn [app]; [assumption|].
  inversion N1; subst. constructor.
  - intros Hin. apply in_app_or in Hin. destruct Hin; [contradiction|].
    apply (H a); [left; reflexivity|assumption].
  - apply IH; auto. intros x Hx. apply H. right; assumption.
Qed.

Lemma NoDup_map_inj_on (f : nat -> nat) (l : list nat) :
  NoDup l -> (forall a b, In a l -> In b l -> f a = f b -> a = b) -> NoDup (map f l).
Proof.
  induction l as [|a l IH]; intros ND H; cbn [map]; [constructor|]. inversion ND; subst. constructor.
  - intros Hin. apply in_map_iff in Hin. destruct Hin as [b [Hb Hbl]].
    assert (a = b) by (apply H; [left; reflexivity|right; assumption|congruence]). subst. contradiction.
  - apply IH; auto. intros; apply H; auto; right; assumption.
Qed.

Lemma NoDup_bounded_length (l : list nat) n : NoDup l -> (forall x, In x l -> x < n) -> length l <= n.
Proof.
  intros ND H. rewrite <- (seq_length n 0). apply NoDup_incl_length; auto.
  intros x Hx. apply in_seq. specialize (H x Hx). lia.
Qed.

Lemma filter_length_le {A} (f : A -> bool) l : length (filter f l) <= length l.
Proof. induction l as [|a l IH]; cbn [filter length]; [lia|]. destruct (f a); cbn [length]; lia. Qed.

(* ------------------------------------------------------------------ Koenig worklist: invariants *)
Section K.
Variable g : nat -> list nat.
Variable m : nat -> option nat.
Variable rot : nat -> list nat -> list nat.
Hypothesis rot_perm : forall k l, Permutation (rot k l) l.

Definition closed (visU visV : list nat) := forall u v, In u visU -> In v (g u) -> In v visV.
Definition vmatched (visV : list nat) := forall v, In v visV -> m v <> None.
Definition partner_tracked (visU visV wait : list nat) :=
  forall v u, In v visV -> m v = Some u -> In u wait \/ In u visU.

Lemma scan_post vs : forall visV wait visV' wait',
  scan m vs visV wait = Some (visV', wait') ->
  incl visV visV' /\ incl wait wait' /\ (forall v, In v vs -> In v visV') /\
  (vmatched visV -> vmatched visV') /\
  (forall visU, partner_tracked visU visV wait -> partner_tracked visU visV' wait') /\
  (NoDup visV -> NoDup visV').
Proof.
  induction vs as [|v vs IH]; intros visV wait visV' wait' H; cbn [scan] in H.
  - inversion H; subst. repeat split; auto using incl_refl. intros ? [].
  - destruct (memn_spec v visV) as [Hin|Hnin].
    + destruct (IH _ _ _ _ H) as (I1 & I2 & I3 & I4 & I5 & I6). repeat split; auto.
      intros x [<-|Hx]; auto.
    + destruct (m v) as [u'|] eqn:Em; [|discriminate].
      destruct (memn u' wait); [discriminate|].
      destruct (IH _ _ _ _ H) as (I1 & I2 & I3 & I4 & I5 & I6). repeat split.
      * intros x Hx. apply I1. right; auto.
      * intros x Hx. apply I2. right; auto.
      * intros x [<-|Hx]; auto. apply I1. left; auto.
      * intros Hvm. apply I4. intros x [<-|Hx]; [congruence|auto].
      * intros visU Hpt. apply I5. intros x u [<-|Hx] Hm.
        -- left. left. congruence.
        -- destruct (Hpt x u Hx Hm); [left; right; auto|right; auto].
      * intros ND. apply I6. constructor; auto.
Qed.

Lemma konig_inv fuel : forall visU visV wait rU rV,
  konig g m rot fuel visU visV wait = Some (rU, rV) ->
  closed visU visV -> vmatched visV -> partner_tracked visU visV wait -> NoDup visV ->
  incl visU rU /\ incl wait rU /\ incl visV rV /\ closed rU rV /\ vmatched rV /\
  partner_tracked rU rV [] /\ NoDup rV.
Proof.
  induction fuel as [|f IH]; intros visU visV wait rU rV H Hc Hv Hp ND; cbn [konig] in H; [discriminate|].
  pose proof (rot_perm f wait) as Hperm.
  destruct (rot f wait) as [|u w].
  - apply Permutation_nil in Hperm. subst wait.
    inversion H; subst. repeat split; auto using incl_refl. intros ? [].
  - assert (Hin : forall x, In x wait <-> In x (u :: w)).
    { intros x; split; intros Hx; [eapply Permutation_in; [apply Permutation_sym|]; eauto|eapply Permutation_in; eauto]. }
    destruct (scan m (g u) visV w) as [[visV' w']|] eqn:Es; [|discriminate].
    destruct (scan_post _ _ _ _ _ Es) as (I1 & I2 & I3 & I4 & I5 & I6).
    destruct (IH _ _ _ _ _ H) as (J1 & J2 & J3 & J4 & J5 & J6 & J7).
    + intros x v [<-|Hx] Hv'; [apply I3; auto|apply I1; eapply Hc; eauto].
    + auto.
    + apply I5. intros v x Hv' Hm. destruct (Hp v x Hv' Hm) as [Hw|Hu]; [|right; right; auto].
      apply Hin in Hw. destruct Hw as [<-|Hw]; [right; left; auto|left; auto].
    + auto.
    + repeat split; auto.
      * intros x Hx. apply J1. right; auto.
      * intros x Hx. apply Hin in Hx. destruct Hx as [<-|Hx]; [apply J1; left; auto|apply J2, I2; auto].
      * intros x Hx. apply J3, I1; auto.
Qed.

(* the result is the LEAST set closed under "neighbours of a visited U vertex" / "partner of a
   visited V vertex" that contains the start vertices: it does not depend on the pop order *)
Lemma scan_least (AU AV : nat -> Prop) vs : forall visV wait visV' wait',
  scan m vs visV wait = Some (visV', wait') ->
  (forall v u, AV v -> m v = Some u -> AU u) ->
  (forall v, In v vs -> AV v) -> (forall v, In v visV -> AV v) -> (forall u, In u wait -> AU u) ->
  (forall v, In v visV' -> AV v) /\ (forall u, In u wait' -> AU u).
Proof.
  induction vs as [|v vs IH]; intros visV wait visV' wait' H Hp Hvs Hv Hw; cbn [scan] in H.
  - inversion H; subst; auto.
  - destruct (memn v visV).
    + eapply IH; eauto. intros; apply Hvs; right; auto.
    + destruct (m v) as [u'|] eqn:Em; [|discriminate]. destruct (memn u' wait); [discriminate|].
      eapply IH; eauto.
      * intros; apply Hvs; right; auto.
      * intros x [<-|Hx]; auto. apply Hvs; left; auto.
      * intros x [<-|Hx]; auto. eapply Hp; eauto. apply Hvs; left; auto.
Qed.

Lemma konig_least (AU AV : nat -> Prop) fuel : forall visU visV wait rU rV,
  konig g m rot fuel visU visV wait = Some (rU, rV) ->
  (forall u v, AU u -> In v (g u) -> AV v) ->
  (forall v u, AV v -> m v = Some u -> AU u) ->
  (forall u, In u visU -> AU u) -> (forall v, In v visV -> AV v) -> (forall u, In u wait -> AU u) ->
  (forall u, In u rU -> AU u) /\ (forall v, In v rV -> AV v).
Proof.
  induction fuel as [|f IH]; intros visU visV wait rU rV H Hc Hp HU HV HW; cbn [konig] in H; [discriminate|].
  pose proof (rot_perm f wait) as Hperm.
  destruct (rot f wait) as [|u w].
  - inversion H; subst; auto.
  - assert (Hin : forall x, In x (u :: w) -> In x wait) by (intros x Hx; eapply Permutation_in; eauto).
    destruct (scan m (g u) visV w) as [[visV' w']|] eqn:Es; [|discriminate].
    destruct (scan_least AU AV _ _ _ _ _ Es Hp) as [S1 S2]; auto.
    + intros v Hv. eapply Hc; eauto. apply HW, Hin; left; auto.
    + intros x Hx. apply HW, Hin; right; auto.
    + eapply IH; eauto. intros x [<-|Hx]; auto. apply HW, Hin; left; auto.
Qed.
End K.
(* ------------------------------------------------------------------ cover, size, duality *)
Section Thm.
Variable nU nV : nat.
Variable g : nat -> list nat.
Variable m : nat -> option nat.
Variable rot : nat -> list nat -> list nat.
Hypothesis rot_perm : forall k l, Permutation (rot k l) l.
Hypothesis g_in_v : forall u v, In v (g u) -> v < nV.
Hypothesis g_in_u : forall u v, In v (g u) -> u < nU.

Definition cover_fn (cu cv : list nat) := forall u v, In v (g u) -> In u cu \/ In v cv.

Lemma is_free_false u : is_free nV m u = false -> exists v, v < nV /\ m v = Some u.
Proof.
  unfold is_free. intros H. apply negb_false_iff, existsb_exists in H. destruct H as [v [Hv Hm]].
  apply in_seq in Hv. destruct (m v) eqn:E; [|discriminate]. apply Nat.eqb_eq in Hm. subst. exists v; split; [lia|auto].
Qed.
Lemma is_free_true u : is_free nV m u = true -> forall v, v < nV -> m v <> Some u.
Proof.
  unfold is_free. intros H v Hv Hm. apply negb_true_iff in H.
  assert (existsb (fun v => match m v with Some u' => Nat.eqb u' u | None => false end) (seq 0 nV) = true); [|congruence].
  apply existsb_exists. exists v. split; [apply in_seq; lia|]. rewrite Hm. apply Nat.eqb_refl.
Qed.

(* (1) the Koenig construction yields a cover whenever it returns (no hypothesis on m at all) *)
Lemma konig_cover_fn fuel rU rV :
  konig g m rot fuel [] [] (free_list nU nV m) = Some (rU, rV) ->
  cover_fn (cover_u nU rU) (cover_v nV rV).
Proof.
  intros H. destruct (konig_inv g m rot rot_perm fuel _ _ _ _ _ H) as (_ & _ & _ & Hc & _).
  - intros ? ? [].  - intros ? [].  - intros ? ? [].  - constructor.
  - intros u v Hv. destruct (memn_spec u rU) as [Hin|Hnin].
    + right. unfold cover_v. apply filter_In. split; [apply in_seq; specialize (g_in_v _ _ Hv); lia|].
      apply memn_true. eapply Hc; eauto.
    + left. unfold cover_u. apply filter_In. split; [apply in_seq; specialize (g_in_u _ _ Hv); lia|].
      apply negb_true_iff, memn_false; auto.
Qed.

Hypothesis m_edge : forall v u, m v = Some u -> In v (g u).
Hypothesis m_inj : forall v v' u, m v = Some u -> m v' = Some u -> v = v'.
Hypothesis m_dom : forall v u, m v = Some u -> v < nV.

(* (3) weak duality: every cover is at least as large as every matching *)
Lemma weak_duality_fn cu cv :
  NoDup cu -> NoDup cv -> cover_fn cu cv -> length (matched_v nV m) <= length cu + length cv.
Proof.
  intros NDu NDv Hcov.
  set (M := matched_v nV m).
  set (L1 := filter (fun v => memn v cv) M).
  set (L2 := filter (fun v => negb (memn v cv)) M).
  assert (Hlen : length M = length L1 + length L2).
  { subst L1 L2. induction M as [|a l IH]; cbn [filter length]; [reflexivity|].
    destruct (memn a cv); cbn [negb length]; lia. }
  assert (NDm : NoDup M) by (apply NoDup_filter, seq_NoDup).
  assert (H1 : length L1 <= length cv).
  { apply NoDup_incl_length; [apply NoDup_filter; assumption|].
    intros v Hv. apply filter_In in Hv. destruct Hv as [_ Hv]. apply memn_true; auto. }
  set (pu := fun v => match m v with Some u => u | None => 0 end).
  assert (HL2 : forall v, In v L2 -> exists u, m v = Some u).
  { intros v Hv. apply filter_In in Hv. destruct Hv as [Hv _]. apply filter_In in Hv. destruct Hv as [_ Hv].
    destruct (m v); [eauto|discriminate]. }
  assert (H2 : length L2 <= length cu).
  { rewrite <- (map_length pu L2). apply NoDup_incl_length.
    - apply NoDup_map_inj_on; [apply NoDup_filter; assumption|].
      intros a b Ha Hb Hab.
      destruct (HL2 a Ha) as [ua Hma]. destruct (HL2 b Hb) as [ub Hmb].
      unfold pu in Hab. rewrite Hma, Hmb in Hab. subst ub. eapply m_inj; eauto.
    - intros u Hu. apply in_map_iff in Hu. destruct Hu as [v [Hpu Hv]].
      destruct (HL2 v Hv) as [u' Em]. unfold pu in Hpu. rewrite Em in Hpu. subst u'.
      apply filter_In in Hv. destruct Hv as [_ Hncv].
      destruct (Hcov u v (m_edge _ _ Em)) as [|Hc]; [assumption|].
      apply negb_true_iff, memn_false in Hncv. contradiction. }
  fold M. lia.
Qed.

(* (2) size: the cover is not larger than the matching (needs the matching only to be a partial
   function into U with entries below nV; together with weak duality: equality) *)
Lemma konig_size_le fuel rU rV :
  konig g m rot fuel [] [] (free_list nU nV m) = Some (rU, rV) ->
  length (cover_u nU rU) + length (cover_v nV rV) <= length (matched_v nV m).
Proof.
  intros H. destruct (konig_inv g m rot rot_perm fuel _ _ _ _ _ H) as (_ & Hfree & _ & Hc & Hvm & Hpt & ND).
  - intros ? ? [].  - intros ? [].  - intros ? ? [].  - constructor.
  - set (pv := fun u => match find (fun v => match m v with Some u' => Nat.eqb u' u | None => false end) (seq 0 nV)
                        with Some v => v | None => 0 end).
    assert (Hpv : forall u, In u (cover_u nU rU) -> m (pv u) = Some u /\ pv u < nV /\ ~ In (pv u) rV).
    { intros u Hu. apply filter_In in Hu. destruct Hu as [Hseq Hn]. apply in_seq in Hseq.
      apply negb_true_iff, memn_false in Hn.
      assert (Hnf : is_free nV m u = false).
      { destruct (is_free nV m u) eqn:Ef; [|reflexivity]. exfalso. apply Hn, Hfree.
        apply filter_In; split; [apply in_seq; lia|assumption]. }
      unfold pv. destruct (find _ (seq 0 nV)) as [v|] eqn:Ef.
      - apply find_some in Ef. destruct Ef as [Hv Hm]. destruct (m v) as [u'|] eqn:Em; [|discriminate].
        apply Nat.eqb_eq in Hm. subst u'. apply in_seq in Hv. repeat split; auto; [lia|].
        intros Hin. destruct (Hpt v u Hin Em) as [[]|Hu']. contradiction.
      - exfalso. destruct (is_free_false u Hnf) as [v [Hv Hmv]].
        eapply find_none in Ef; [|apply in_seq; split; [lia|cbn; exact Hv]].
        cbn beta in Ef. rewrite Hmv, Nat.eqb_refl in Ef. discriminate. }
    assert (NDc : NoDup (cover_u nU rU)) by (apply NoDup_filter, seq_NoDup).
    assert (NDmap : NoDup (map pv (cover_u nU rU))).
    { apply NoDup_map_inj_on; [assumption|]. intros a b Ha Hb Hab.
      destruct (Hpv a Ha) as [Hma _]. destruct (Hpv b Hb) as [Hmb _]. rewrite Hab in Hma. congruence. }
    assert (NDcv : NoDup (cover_v nV rV)) by (apply NoDup_filter, seq_NoDup).
    rewrite <- (map_length pv (cover_u nU rU)), <- app_length.
    apply NoDup_incl_length.
    + apply NoDup_app_intro; auto.
      intros x Hx Hr. apply in_map_iff in Hx. destruct Hx as [u [<- Hu]]. destruct (Hpv u Hu) as (_ & _ & Hn).
      apply filter_In in Hr. destruct Hr as [_ Hr]. apply memn_true in Hr. contradiction.
    + intros x Hx. apply in_app_or in Hx. destruct Hx as [Hx|Hx].
      * apply in_map_iff in Hx. destruct Hx as [u [<- Hu]]. destruct (Hpv u Hu) as (Hm & Hv & _).
        apply filter_In. split; [apply in_seq; lia|]. rewrite Hm. reflexivity.
      * apply filter_In in Hx. destruct Hx as [Hs Hr]. apply memn_true in Hr.
        apply filter_In. split; auto. specialize (Hvm x Hr). destruct (m x); [reflexivity|congruence].
Qed.

Lemma cover_lists_nodup rU rV : NoDup (cover_u nU rU) /\ NoDup (cover_v nV rV).
Proof. split; apply NoDup_filter, seq_NoDup. Qed.

Lemma konig_size_eq fuel rU rV :
  konig g m rot fuel [] [] (free_list nU nV m) = Some (rU, rV) ->
  length (cover_u nU rU) + length (cover_v nV rV) = length (matched_v nV m).
Proof.
  intros H. pose proof (konig_size_le _ _ _ H). pose proof (konig_cover_fn _ _ _ H) as Hc.
  destruct (cover_lists_nodup rU rV) as [N1 N2].
  pose proof (weak_duality_fn _ _ N1 N2 Hc). lia.
Qed.
End Thm.
(* ------------------------------------------------------------------ Koenig never asserts when a
   certificate exists: a set P of V vertices, all matched, closed under "partner, then neighbours",
   containing the neighbours of every start vertex *)
Section KTotal.
Variable nV : nat.
Variable g : nat -> list nat.
Variable m : nat -> option nat.
Variable rot : nat -> list nat -> list nat.
Hypothesis rot_perm : forall k l, Permutation (rot k l) l.
Hypothesis m_inj : forall v v' u, m v = Some u -> m v' = Some u -> v = v'.
Hypothesis m_dom : forall v u, m v = Some u -> v < nV.
Variable P : nat -> Prop.
Hypothesis P_closed : forall v, P v -> exists u2, m v = Some u2 /\ forall v', In v' (g u2) -> P v'.

Definition justified (visV wait : list nat) :=
  forall u, In u wait -> is_free nV m u = true \/ exists v, In v visV /\ m v = Some u.
Definition in_cert (wait : list nat) := forall u, In u wait -> forall v, In v (g u) -> P v.

Lemma scan_total vs : forall visV wait,
  (forall v, In v vs -> P v) -> justified visV wait -> in_cert wait ->
  NoDup visV -> (forall v, In v visV -> v < nV) ->
  exists visV' wait', scan m vs visV wait = Some (visV', wait') /\
    justified visV' wait' /\ in_cert wait' /\ NoDup visV' /\ (forall v, In v visV' -> v < nV) /\
    length visV <= length visV' /\ length wait' + length visV = length wait + length visV'.
Proof.
  induction vs as [|v vs IH]; intros visV wait Hvs Hj Hc ND Hb; cbn [scan].
  - exists visV, wait. repeat split; auto.
  - destruct (memn_spec v visV) as [Hin|Hnin].
    + apply IH; auto. intros; apply Hvs; right; auto.
    + destruct (P_closed v (Hvs v (or_introl eq_refl))) as [u2 [Em Hg]]. rewrite Em.
      destruct (memn_spec u2 wait) as [Hw|Hnw].
      * exfalso. destruct (Hj u2 Hw) as [Hf|[v0 [Hv0 Hm0]]].
        -- exact (is_free_true nV m u2 Hf v (m_dom _ _ Em) Em).
        -- assert (v0 = v) by (eapply m_inj; eauto). subst. contradiction.
      * destruct (IH (v :: visV) (u2 :: wait)) as (visV' & wait' & Hs & J1 & J2 & J3 & J4 & J5 & J6).
        -- intros; apply Hvs; right; auto.
        -- intros u [<-|Hu]; [right; exists v; split; [left|]; auto|].
           destruct (Hj u Hu) as [|[v0 [Hv0 Hm0]]]; [left; auto|right; exists v0; split; [right|]; auto].
        -- intros u [<-|Hu]; [exact Hg|exact (Hc u Hu)].
        -- constructor; auto.
        -- intros x [<-|Hx]; eauto.
        -- exists visV', wait'. cbn [length] in J5, J6. repeat split; auto; lia.
Qed.

Lemma konig_total fuel : forall visU visV wait,
  justified visV wait -> in_cert wait -> NoDup visV -> (forall v, In v visV -> v < nV) ->
  length wait + (nV - length visV) < fuel ->
  exists rU rV, konig g m rot fuel visU visV wait = Some (rU, rV).
Proof.
  induction fuel as [|f IH]; intros visU visV wait Hj Hc ND Hb Hf; [lia|]. cbn [konig].
  pose proof (rot_perm f wait) as Hperm.
  destruct (rot f wait) as [|u w]; [eauto|].
  assert (Hin : forall x, In x (u :: w) -> In x wait) by (intros x Hx; eapply Permutation_in; eauto).
  apply Permutation_length in Hperm. cbn [length] in Hperm.
  destruct (scan_total (g u) visV w) as (visV' & w' & Hs & J1 & J2 & J3 & J4 & J5 & J6); auto.
  - intros v Hv. eapply Hc; eauto. apply Hin; left; auto.
  - intros x Hx. apply Hj, Hin; right; auto.
  - intros x Hx. apply Hc, Hin; right; auto.
  - rewrite Hs. apply IH; auto.
    pose proof (NoDup_bounded_length _ _ J3 J4). lia.
Qed.
End KTotal.
(* ------------------------------------------------------------------ matching tables *)
Definition vals (m : mtab) : list nat :=
  flat_map (fun o => match o with Some x => [x] | None => [] end) m.
Definition olist (o : option nat) : list nat := match o with Some x => [x] | None => [] end.

Lemma upd_length m : forall v x, length (upd m v x) = length m.
Proof. induction m as [|h t IH]; intros [|v] x; cbn [upd length]; auto. Qed.
Lemma mget_upd_same m : forall v x, v < length m -> mget (upd m v x) v = x.
Proof.
  unfold mget. induction m as [|h t IH]; intros [|v] x H; cbn [upd length nth] in *; try lia; auto.
  apply IH. lia.
Qed.
Lemma mget_upd_other m : forall v v' x, v <> v' -> mget (upd m v x) v' = mget m v'.
Proof.
  unfold mget. induction m as [|h t IH]; intros [|v] [|v'] x H; cbn [upd nth]; auto; try congruence.
Qed.
Lemma mget_some_lt m v x : mget m v = Some x -> v < length m.
Proof.
  unfold mget. intros H. destruct (Nat.lt_ge_cases v (length m)); auto.
  rewrite nth_overflow in H; [discriminate|lia].
Qed.
Lemma in_vals m x : In x (vals m) <-> exists v, mget m v = Some x.
Proof.
  unfold vals, mget. split.
  - intros H. apply in_flat_map in H. destruct H as [o [Ho Hx]]. destruct o as [y|]; [|destruct Hx].
    destruct Hx as [<-|[]]. destruct (In_nth _ _ None Ho) as [v [_ Hv]]. eauto.
  - intros [v Hv]. apply in_flat_map. exists (Some x). split; [|left; auto].
    rewrite <- Hv. apply nth_In. apply (mget_some_lt m v x Hv).
Qed.
Lemma vals_upd m : forall v u, v < length m ->
  Permutation (olist (mget m v) ++ vals (upd m v (Some u))) (u :: vals m).
Proof.
  unfold mget, vals. induction m as [|h t IH]; intros [|v] u H; cbn [length] in H; try lia.
  - cbn [upd nth flat_map app]. apply Permutation_sym, Permutation_middle.
  - cbn [upd nth flat_map]. fold (olist h).
    eapply perm_trans; [apply Permutation_app_swap_app|].
    eapply perm_trans; [apply Permutation_app_head, IH; lia|].
    apply Permutation_sym, Permutation_middle.
Qed.

(* ------------------------------------------------------------------ augment *)
Section Hung.
Variable nV : nat.
Variable g : nat -> list nat.
Hypothesis g_in_v : forall u v, In v (g u) -> v < nV.

Definition rec_t := nat -> list nat -> mtab -> option (bool * list nat * mtab).
Definition edges_ok (m : mtab) := forall v x, mget m v = Some x -> In v (g x).
Definition bounded (vis : list nat) := forall v, In v vis -> v < nV.

Record post (u : nat) (vis : list nat) (m : mtab) (b : bool) (vis' : list nat) (m' : mtab) : Prop := {
  p_incl : incl vis vis';
  p_len : length m' = length m;
  p_vis : forall v, In v vis -> mget m' v = mget m v;
  p_false : b = false -> m' = m;
  p_true : b = true -> Permutation (vals m') (u :: vals m);
  p_edges : edges_ok m -> edges_ok m';
  p_nodup : NoDup vis -> NoDup vis';
  p_bound : bounded vis -> bounded vis';
  p_vlen : length vis <= length vis' }.

Definition rec_post (rec : rec_t) := forall u vis m b vis' m',
  length m = nV -> rec u vis m = Some (b, vis', m') -> post u vis m b vis' m'.

Lemma loop_post rec (Hrec : rec_post rec) u : forall vs vis m b vis' m',
  length m = nV -> incl vs (g u) ->
  aug_loop rec u vs vis m = Some (b, vis', m') -> post u vis m b vis' m'.
Proof.
  induction vs as [|v vs IH]; intros vis m b vis' m' Hl Hvs H; cbn [aug_loop] in H.
  - inversion H; subst. constructor; auto using incl_refl; discriminate.
  - assert (Hvs' : incl vs (g u)) by (intros x Hx; apply Hvs; right; auto).
    assert (Hv : In v (g u)) by (apply Hvs; left; auto).
    assert (Hvl : v < length m) by (rewrite Hl; eapply g_in_v; eauto).
    destruct (memn_spec v vis) as [Hin|Hnin]; [eapply IH; eauto|].
    destruct (mget m v) as [u2|] eqn:Em.
    + destruct (rec u2 (v :: vis) m) as [[[b2 vis2] m2]|] eqn:Er; [|discriminate].
      pose proof (Hrec _ _ _ _ _ _ Hl Er) as R.
      destruct b2.
      * inversion H; subst b vis' m'; clear H.
        assert (Hm2v : mget m2 v = Some u2) by (rewrite (p_vis _ _ _ _ _ _ R); [auto|left; auto]).
        assert (Hvl2 : v < length m2) by (rewrite (p_len _ _ _ _ _ _ R); auto).
        constructor.
        -- intros x Hx. apply (p_incl _ _ _ _ _ _ R). right; auto.
        -- rewrite upd_length. apply (p_len _ _ _ _ _ _ R).
        -- intros x Hx. rewrite mget_upd_other; [|intro; subst; contradiction].
           apply (p_vis _ _ _ _ _ _ R). right; auto.
        -- discriminate.
        -- intros _. pose proof (vals_upd m2 v u Hvl2) as Hp. rewrite Hm2v in Hp. cbn [olist app] in Hp.
           pose proof (p_true _ _ _ _ _ _ R eq_refl) as Hp2.
           apply (Permutation_cons_inv (a := u2)).
           eapply perm_trans; [exact Hp|]. eapply perm_trans; [apply perm_skip, Hp2|]. apply perm_swap.
        -- intros He x y Hxy. destruct (Nat.eq_dec v x) as [<-|Hne].
           ++ rewrite mget_upd_same in Hxy; auto. inversion Hxy; subst; auto.
           ++ rewrite mget_upd_other in Hxy; auto. apply (p_edges _ _ _ _ _ _ R He); auto.
        -- intros ND. apply (p_nodup _ _ _ _ _ _ R). constructor; auto.
        -- intros Hb. apply (p_bound _ _ _ _ _ _ R). intros x [<-|Hx]; [rewrite <- Hl; auto|auto].
        -- pose proof (p_vlen _ _ _ _ _ _ R). cbn [length] in *. lia.
      * pose proof (p_false _ _ _ _ _ _ R eq_refl). subst m2.
        pose proof (IH _ _ _ _ _ Hl Hvs' H) as Q.
        constructor.
        -- intros x Hx. apply (p_incl _ _ _ _ _ _ Q), (p_incl _ _ _ _ _ _ R). right; auto.
        -- apply (p_len _ _ _ _ _ _ Q).
        -- intros x Hx. apply (p_vis _ _ _ _ _ _ Q), (p_incl _ _ _ _ _ _ R). right; auto.
        -- apply (p_false _ _ _ _ _ _ Q).
        -- apply (p_true _ _ _ _ _ _ Q).
        -- apply (p_edges _ _ _ _ _ _ Q).
        -- intros ND. apply (p_nodup _ _ _ _ _ _ Q), (p_nodup _ _ _ _ _ _ R). constructor; auto.
        -- intros Hb. apply (p_bound _ _ _ _ _ _ Q), (p_bound _ _ _ _ _ _ R).
           intros x [<-|Hx]; [rewrite <- Hl; auto|auto].
        -- pose proof (p_vlen _ _ _ _ _ _ Q). pose proof (p_vlen _ _ _ _ _ _ R). cbn [length] in *. lia.
    + inversion H; subst b vis' m'; clear H. constructor.
      * intros x Hx; right; auto.
      * apply upd_length.
      * intros x Hx. apply mget_upd_other. intro; subst; contradiction.
      * discriminate.
      * intros _. pose proof (vals_upd m v u Hvl) as Hp. rewrite Em in Hp. exact Hp.
      * intros He x y Hxy. destruct (Nat.eq_dec v x) as [<-|Hne].
        -- rewrite mget_upd_same in Hxy; auto. inversion Hxy; subst; auto.
        -- rewrite mget_upd_other in Hxy; auto.
      * intros ND; constructor; auto.
      * intros Hb x [<-|Hx]; [rewrite <- Hl; auto|auto].
      * cbn [length]. lia.
Qed.

Lemma augment_post fuel : rec_post (augment g fuel).
Proof.
  induction fuel as [|f IH]; intros u vis m b vis' m' Hl H; cbn [augment] in H; [discriminate|].
  eapply loop_post; eauto using incl_refl.
Qed.

(* fuel: the recursion depth never exceeds the number of unvisited V vertices *)
Lemma loop_total rec K (Hrec : rec_post rec)
  (Htot : forall u vis m, length m = nV -> NoDup vis -> bounded vis -> nV - length vis < K ->
          exists r, rec u vis m = Some r) u :
  forall vs vis m, length m = nV -> incl vs (g u) -> NoDup vis -> bounded vis -> nV - length vis <= K ->
  exists r, aug_loop rec u vs vis m = Some r.
Proof.
  induction vs as [|v vs IH]; intros vis m Hl Hvs ND Hb HK; cbn [aug_loop]; [eauto|].
  assert (Hvs' : incl vs (g u)) by (intros x Hx; apply Hvs; right; auto).
  assert (Hv : v < nV) by (eapply g_in_v; apply Hvs; left; auto).
  destruct (memn_spec v vis) as [Hin|Hnin]; [apply IH; auto|].
  destruct (mget m v) as [u2|] eqn:Em; [|eauto].
  assert (ND' : NoDup (v :: vis)) by (constructor; auto).
  assert (Hb' : bounded (v :: vis)) by (intros x [<-|Hx]; auto).
  pose proof (NoDup_bounded_length _ _ ND' Hb') as Hlen. cbn [length] in Hlen.
  destruct (Htot u2 (v :: vis) m Hl ND' Hb') as [[[b2 vis2] m2] Er]; [cbn [length]; lia|].
  rewrite Er. pose proof (Hrec _ _ _ _ _ _ Hl Er) as R.
  destruct b2; [eauto|].
  pose proof (p_false _ _ _ _ _ _ R eq_refl). subst m2.
  apply IH; auto.
  - apply (p_nodup _ _ _ _ _ _ R); auto.
  - apply (p_bound _ _ _ _ _ _ R); auto.
  - pose proof (p_vlen _ _ _ _ _ _ R). cbn [length] in *. lia.
Qed.

Lemma augment_total fuel : forall u vis m,
  length m = nV -> NoDup vis -> bounded vis -> nV - length vis < fuel ->
  exists r, augment g fuel u vis m = Some r.
Proof.
  induction fuel as [|f IH]; intros u vis m Hl ND Hb Hf; [lia|]. cbn [augment].
  apply (loop_total (augment g f) f (augment_post f) IH); auto using incl_refl. lia.
Qed.

(* ---- certificates: a set P of V vertices, all matched, closed under partner-then-neighbours *)
Definition closedP (m : mtab) (P : nat -> Prop) :=
  forall v, P v -> exists u2, mget m v = Some u2 /\ forall v', In v' (g u2) -> P v'.

(* A: a search started inside a certificate fails *)
Lemma loop_fail_in_cert rec (Hrec : rec_post rec) m P (HP : closedP m P) (Hl : length m = nV)
  (HA : forall u vis b vis' m', (forall v, In v (g u) -> P v) -> rec u vis m = Some (b, vis', m') -> b = false) u :
  forall vs vis b vis' m', (forall v, In v vs -> P v) ->
  aug_loop rec u vs vis m = Some (b, vis', m') -> b = false.
Proof.
  induction vs as [|v vs IH]; intros vis b vis' m' Hvs H; cbn [aug_loop] in H.
  - inversion H; auto.
  - destruct (memn v vis); [eapply IH; eauto; intros; apply Hvs; right; auto|].
    destruct (HP v (Hvs v (or_introl eq_refl))) as [u2 [Em Hg]]. rewrite Em in H.
    destruct (rec u2 (v :: vis) m) as [[[b2 vis2] m2]|] eqn:Er; [|discriminate].
    pose proof (HA _ _ _ _ _ Hg Er). subst b2.
    pose proof (p_false _ _ _ _ _ _ (Hrec _ _ _ _ _ _ Hl Er) eq_refl). subst m2.
    eapply IH; eauto. intros; apply Hvs; right; auto.
Qed.

Lemma augment_fail_in_cert m P (HP : closedP m P) (Hl : length m = nV) fuel :
  forall u vis b vis' m', (forall v, In v (g u) -> P v) ->
  augment g fuel u vis m = Some (b, vis', m') -> b = false.
Proof.
  induction fuel as [|f IH]; intros u vis b vis' m' Hg H; cbn [augment] in H; [discriminate|].
  eapply (loop_fail_in_cert (augment g f) (augment_post f) m P HP Hl IH); eauto.
Qed.

(* B: no search ever touches the entries of a certificate *)
Lemma loop_keeps_cert rec (Hrec : rec_post rec) P
  (HA : forall m, closedP m P -> length m = nV -> forall u vis b vis' m', (forall v, In v (g u) -> P v) -> rec u vis m = Some (b, vis', m') -> b = false)
  (HB : forall m, closedP m P -> length m = nV -> forall u vis b vis' m', rec u vis m = Some (b, vis', m') -> forall v, P v -> mget m' v = mget m v) u :
  forall vs vis m b vis' m', closedP m P -> length m = nV ->
  aug_loop rec u vs vis m = Some (b, vis', m') -> forall v, P v -> mget m' v = mget m v.
Proof.
  induction vs as [|v vs IH]; intros vis m b vis' m' HP Hl H x Hx; cbn [aug_loop] in H.
  - inversion H; auto.
  - destruct (memn v vis); [eapply IH; eauto|].
    destruct (mget m v) as [u2|] eqn:Em.
    + destruct (rec u2 (v :: vis) m) as [[[b2 vis2] m2]|] eqn:Er; [|discriminate].
      destruct b2.
      * inversion H; subst b vis' m'; clear H.
        assert (Hnv : ~ P v).
        { intros Pv. destruct (HP v Pv) as [u2' [Em' Hg]]. rewrite Em in Em'. inversion Em'; subst u2'.
          pose proof (HA m HP Hl _ _ _ _ _ Hg Er). discriminate. }
        rewrite mget_upd_other; [|intro; subst; contradiction]. eapply HB; eauto.
      * pose proof (p_false _ _ _ _ _ _ (Hrec _ _ _ _ _ _ Hl Er) eq_refl). subst m2.
        eapply IH; eauto.
    + inversion H; subst b vis' m'; clear H.
      apply mget_upd_other. intro; subst x. destruct (HP v Hx) as [u2 [Em' _]]. congruence.
Qed.

Lemma augment_keeps_cert P fuel : forall m, closedP m P -> length m = nV ->
  forall u vis b vis' m', augment g fuel u vis m = Some (b, vis', m') -> forall v, P v -> mget m' v = mget m v.
Proof.
  induction fuel as [|f IH]; intros m HP Hl u vis b vis' m' H; cbn [augment] in H; [discriminate|].
  eapply (loop_keeps_cert (augment g f) (augment_post f) P); eauto.
  intros m0 HP0 Hl0 u0 vis0 b0 vis0' m0' Hg H0. eapply augment_fail_in_cert; eauto.
Qed.

Lemma closedP_ext m m' P : closedP m P -> (forall v, P v -> mget m' v = mget m v) -> closedP m' P.
Proof. intros HP He v Pv. destruct (HP v Pv) as [u2 [Em Hg]]. exists u2. split; auto. rewrite He; auto. Qed.

(* C: a failed search leaves a certificate: the vertices it visited *)
Definition reach_ok (m : mtab) (vis vis' : list nat) :=
  forall v, In v vis' -> In v vis \/ exists u2, mget m v = Some u2 /\ forall v', In v' (g u2) -> In v' vis'.

Lemma loop_fail_cert rec (Hrec : rec_post rec) m (Hl : length m = nV)
  (HC : forall u vis vis' m', rec u vis m = Some (false, vis', m') ->
        (forall v, In v (g u) -> In v vis') /\ reach_ok m vis vis') u :
  forall vs vis vis' m', incl vs (g u) -> aug_loop rec u vs vis m = Some (false, vis', m') ->
  (forall v, In v vs -> In v vis') /\ reach_ok m vis vis'.
Proof.
  induction vs as [|v vs IH]; intros vis vis' m' Hvs H.
  - cbn [aug_loop] in H. inversion H; subst. split; [intros ? []|]. intros v Hv; left; auto.
  - assert (Hvs' : incl vs (g u)) by (intros x Hx; apply Hvs; right; auto).
    pose proof (loop_post rec Hrec u _ _ _ _ _ _ Hl Hvs H) as Q0.
    cbn [aug_loop] in H.
    destruct (memn_spec v vis) as [Hin|Hnin].
    + destruct (IH _ _ _ Hvs' H) as [I1 I2]. split; auto.
      intros x [<-|Hx]; auto. apply (p_incl _ _ _ _ _ _ Q0); auto.
    + destruct (mget m v) as [u2|] eqn:Em; [|discriminate].
      destruct (rec u2 (v :: vis) m) as [[[b2 vis2] m2]|] eqn:Er; [|discriminate].
      destruct b2; [discriminate|].
      pose proof (p_false _ _ _ _ _ _ (Hrec _ _ _ _ _ _ Hl Er) eq_refl). subst m2.
      destruct (HC _ _ _ _ Er) as [C1 C2].
      destruct (IH _ _ _ Hvs' H) as [I1 I2].
      pose proof (loop_post rec Hrec u _ _ _ _ _ _ Hl Hvs' H) as Q.
      assert (Hv' : In v vis') by (apply (p_incl _ _ _ _ _ _ Q), (p_incl _ _ _ _ _ _ (Hrec _ _ _ _ _ _ Hl Er)); left; auto).
      split.
      * intros x [<-|Hx]; auto.
      * intros x Hx. destruct (I2 x Hx) as [Hx2|E]; [|right; auto].
        destruct (C2 x Hx2) as [[<-|Hxv]|[u3 [Em3 Hg3]]].
        -- right. exists u2. split; auto. intros v' Hv2. apply (p_incl _ _ _ _ _ _ Q); auto.
        -- left; auto.
        -- right. exists u3. split; auto. intros v' Hv2. apply (p_incl _ _ _ _ _ _ Q); auto.
Qed.

Lemma augment_fail_cert m (Hl : length m = nV) fuel : forall u vis vis' m',
  augment g fuel u vis m = Some (false, vis', m') ->
  (forall v, In v (g u) -> In v vis') /\ reach_ok m vis vis'.
Proof.
  induction fuel as [|f IH]; intros u vis vis' m' H; cbn [augment] in H; [discriminate|].
  eapply (loop_fail_cert (augment g f) (augment_post f) m Hl IH); eauto using incl_refl.
Qed.

(* ---- the outer loop:  for u in range(nU): augment(u, ...) *)
Definition hinv (k : nat) (m : mtab) :=
  length m = nV /\ edges_ok m /\ NoDup (vals m) /\ (forall x, In x (vals m) -> x < k) /\
  exists P, closedP m P /\ forall u, u < k -> In u (vals m) \/ forall v, In v (g u) -> P v.

Lemma hung_step k m : hinv k m ->
  exists b vis' m', augment g (S nV) k [] m = Some (b, vis', m') /\ hinv (S k) m'.
Proof.
  intros (Hl & He & ND & Hlt & P & HP & Hc).
  destruct (augment_total (S nV) k [] m Hl) as [[[b vis'] m'] Ha]; [constructor|intros ? []|cbn [length]; lia|].
  exists b, vis', m'. split; auto.
  pose proof (augment_post _ _ _ _ _ _ _ Hl Ha) as Q.
  destruct b.
  - pose proof (p_true _ _ _ _ _ _ Q eq_refl) as Hp.
    repeat split.
    + rewrite (p_len _ _ _ _ _ _ Q); auto.
    + apply (p_edges _ _ _ _ _ _ Q); auto.
    + eapply Permutation_NoDup; [apply Permutation_sym; exact Hp|]. constructor; auto.
      intros Hin. specialize (Hlt _ Hin). lia.
    + intros x Hx. eapply Permutation_in in Hx; [|exact Hp]. destruct Hx as [<-|Hx]; [lia|].
      specialize (Hlt _ Hx). lia.
    + exists P. split.
      * eapply closedP_ext; eauto. eapply augment_keeps_cert; eauto.
      * intros u Hu. destruct (Nat.eq_dec u k) as [->|Hne].
        -- left. eapply Permutation_in; [apply Permutation_sym; exact Hp|]. left; auto.
        -- destruct (Hc u) as [Hin|Hg]; [lia| |right; auto].
           left. eapply Permutation_in; [apply Permutation_sym; exact Hp|]. right; auto.
  - pose proof (p_false _ _ _ _ _ _ Q eq_refl). subst m'.
    destruct (augment_fail_cert m Hl _ _ _ _ _ Ha) as [C1 C2].
    repeat split; auto; [intros x Hx; specialize (Hlt _ Hx); lia|].
    exists (fun v => P v \/ In v vis'). split.
    + intros v [Pv|Hv].
      * destruct (HP v Pv) as [u2 [Em Hg]]. exists u2. split; auto.
      * destruct (C2 v Hv) as [[]|[u2 [Em Hg]]]. exists u2. split; auto.
    + intros u Hu. destruct (Nat.eq_dec u k) as [->|Hne]; [right; intros v Hv; right; auto|].
      destruct (Hc u) as [Hin|Hg]; [lia|left; auto|right; intros v Hv; left; auto].
Qed.

Lemma hung_loop_inv n : forall k m, hinv k m ->
  exists m', hung_loop g nV (seq k n) m = Some m' /\ hinv (k + n) m'.
Proof.
  induction n as [|n IH]; intros k m H; cbn [seq hung_loop].
  - exists m. rewrite Nat.add_0_r. auto.
  - destruct (hung_step k m H) as (b & vis' & m1 & Ha & H1). rewrite Ha.
    destruct (IH (S k) m1 H1) as [m' [Hm' Hi]]. exists m'. split; auto.
    replace (k + S n) with (S k + n) by lia. auto.
Qed.

Lemma vals_repeat_none n : vals (repeat None n) = [].
Proof. induction n; cbn; auto. Qed.
Lemma mget_repeat_none n v : mget (repeat None n) v = None.
Proof. unfold mget. revert v. induction n; intros [|v]; cbn; auto. Qed.

Lemma hinv_init : hinv 0 (repeat None nV).
Proof.
  repeat split.
  - apply repeat_length.
  - intros v x H. rewrite mget_repeat_none in H. discriminate.
  - rewrite vals_repeat_none. constructor.
  - rewrite vals_repeat_none. intros ? [].
  - exists (fun _ => False). split; [intros ? []|]. intros u Hu. lia.
Qed.
End Hung.

Lemma vals_nodup_inj m : NoDup (vals m) ->
  forall v v' u, mget m v = Some u -> mget m v' = Some u -> v = v'.
Proof.
  unfold mget. induction m as [|h t IH]; intros ND v v' u H1 H2.
  - destruct v; discriminate.
  - change (vals (h :: t)) with (olist h ++ vals t) in ND.
    assert (NDt : NoDup (vals t)) by (destruct h; [inversion ND; auto|auto]).
    assert (Hh : forall k, h = Some u -> nth k t None = Some u -> False).
    { intros k -> Hk. cbn in ND. inversion ND; subst. apply H3. apply in_vals. exists k. exact Hk. }
    destruct v as [|v], v' as [|v']; cbn [nth] in H1, H2; auto.
    + exfalso; eauto.
    + exfalso; eauto.
    + f_equal. eapply IH; eauto.
Qed.
(* ------------------------------------------------------------------ graphs as adjacency lists *)
Lemma nbrs_lt_length bg u v : In v (nbrs bg u) -> u < length bg.
Proof.
  unfold nbrs. intros H. destruct (Nat.lt_ge_cases u (length bg)); auto.
  rewrite nth_overflow in H; [destruct H|lia].
Qed.
Lemma adj_bound_ok adj v : In v adj -> v < adj_bound adj.
Proof. unfold adj_bound. induction adj as [|a t IH]; [intros []|]. intros [<-|H]; cbn [fold_right]; [lia|specialize (IH H); lia]. Qed.
Lemma nV_of_bound bg : forall u v, In v (nbrs bg u) -> v < nV_of bg.
Proof.
  unfold nbrs, nV_of. induction bg as [|adj t IH]; intros [|u] v H; cbn [nth fold_right] in *; try (destruct H; fail).
  - apply adj_bound_ok in H. lia.
  - specialize (IH _ _ H). lia.
Qed.
Lemma hk_nU_le bg : hk_nU bg <= length bg.
Proof. induction bg as [|adj t IH]; cbn [hk_nU length]; [lia|]. destruct (hk_nU t); [destruct adj|]; lia. Qed.
Lemma hk_nU_bound bg : forall u v, In v (nbrs bg u) -> u < hk_nU bg.
Proof.
  unfold nbrs. induction bg as [|adj t IH]; intros [|u] v H; cbn [nth hk_nU] in *; try (destruct H; fail).
  - destruct (hk_nU t); [destruct adj; [destruct H|lia]|lia].
  - specialize (IH _ _ H). destruct (hk_nU t); lia.
Qed.

Lemma valid_matching_sound bg nV ml : valid_matching bg nV ml = true -> is_matching bg nV ml.
Proof.
  unfold valid_matching. intros H. apply andb_true_iff in H. destruct H as [Hl H].
  apply Nat.eqb_eq in Hl. rewrite forallb_forall in H.
  assert (Hlt : forall v u, mget ml v = Some u -> In v (seq 0 nV)).
  { intros v u Hm. apply mget_some_lt in Hm. apply in_seq. lia. }
  repeat split; auto.
  - intros v u Hm. specialize (H v (Hlt _ _ Hm)). rewrite Hm in H.
    apply andb_true_iff in H. destruct H as [H _]. apply memn_true; auto.
  - intros v v' u Hm Hm'. specialize (H v (Hlt _ _ Hm)). rewrite Hm in H.
    apply andb_true_iff in H. destruct H as [_ H]. rewrite forallb_forall in H.
    specialize (H v' (Hlt _ _ Hm')). rewrite Hm' in H. rewrite Nat.eqb_refl in H. cbn in H.
    apply Nat.eqb_eq; auto.
Qed.
Lemma valid_matching_complete bg nV ml : is_matching bg nV ml -> valid_matching bg nV ml = true.
Proof.
  intros (Hl & He & Hi). unfold valid_matching. apply andb_true_iff. split; [apply Nat.eqb_eq; auto|].
  apply forallb_forall. intros v _. destruct (mget ml v) as [u|] eqn:Em; auto.
  apply andb_true_iff. split; [apply memn_true; auto|].
  apply forallb_forall. intros v' _. destruct (mget ml v') as [u'|] eqn:Em'; auto.
  destruct (Nat.eqb_spec u u') as [<-|Hne]; cbn [negb orb]; auto.
  apply Nat.eqb_eq. eapply Hi; eauto.
Qed.

Lemma msize_vals_gen ml : forall k,
  length (filter (fun v => is_some (nth (v - k) ml None)) (seq k (length ml))) = length (vals ml).
Proof.
  induction ml as [|h t IH]; intros k; [reflexivity|].
  change (length (h :: t)) with (S (length t)). change (seq k (S (length t))) with (k :: seq (S k) (length t)).
  change (vals (h :: t)) with (olist h ++ vals t). rewrite app_length, <- (IH (S k)).
  assert (E : filter (fun v => is_some (nth (v - k) (h :: t) None)) (seq (S k) (length t))
            = filter (fun v => is_some (nth (v - S k) t None)) (seq (S k) (length t))).
  { apply filter_ext_in. intros v Hv. apply in_seq in Hv. replace (v - k) with (S (v - S k)) by lia. reflexivity. }
  rewrite <- E. set (f := fun v => is_some (nth (v - k) (h :: t) None)).
  change (filter f (k :: seq (S k) (length t))) with (if f k then k :: filter f (seq (S k) (length t)) else filter f (seq (S k) (length t))).
  assert (Hfk : f k = is_some h) by (unfold f; rewrite Nat.sub_diag; reflexivity).
  rewrite Hfk. destruct h; cbn [is_some olist length]; lia.
Qed.
Lemma msize_vals ml : msize (length ml) ml = length (vals ml).
Proof.
  unfold msize, matched_v, mget. rewrite <- (msize_vals_gen ml 0).
  f_equal. apply filter_ext. intros v. rewrite Nat.sub_0_r. reflexivity.
Qed.

Lemma inj_vals_nodup m : (forall v v' u, mget m v = Some u -> mget m v' = Some u -> v = v') -> NoDup (vals m).
Proof.
  unfold mget. induction m as [|h t IH]; intros Hi; [constructor|].
  change (vals (h :: t)) with (olist h ++ vals t).
  assert (NDt : NoDup (vals t)).
  { apply IH. intros v v' u H1 H2. assert (S v = S v') by (eapply Hi; cbn [nth]; eauto). lia. }
  destruct h as [u|]; cbn [olist app]; auto. constructor; auto.
  intros Hin. apply in_vals in Hin. destruct Hin as [k Hk].
  assert (0 = S k) by (eapply (Hi 0 (S k) u); cbn [nth]; auto). lia.
Qed.

Lemma free_not_in_vals ml u : is_free (length ml) (mget ml) u = true -> ~ In u (vals ml).
Proof.
  intros Hf Hin. apply in_vals in Hin. destruct Hin as [v Hv].
  exact (is_free_true _ _ _ Hf v (mget_some_lt _ _ _ Hv) Hv).
Qed.

(* ------------------------------------------------------------------ top-level statements *)
Section Top.
Variable rot : nat -> list nat -> list nat.
Hypothesis rot_ok : is_rot rot.
Variable bg : graph.
Variable nU nV : nat.
Hypothesis shape : forall u v, In v (nbrs bg u) -> u < nU /\ v < nV.

Lemma cfm_inv ml cu cv : cover_from_matching rot bg nU nV ml = Some (cu, cv) ->
  exists rU rV, konig (nbrs bg) (mget ml) rot (S (nU + nV)) [] [] (free_list nU nV (mget ml)) = Some (rU, rV) /\
                cu = cover_u nU rU /\ cv = cover_v nV rV.
Proof.
  unfold cover_from_matching. destruct (konig _ _ _ _ _ _ _) as [[rU rV]|]; [|discriminate].
  intros H; inversion H; subst. eauto.
Qed.

(* (1) *)
Lemma cover_from_matching_is_cover ml cu cv :
  cover_from_matching rot bg nU nV ml = Some (cu, cv) -> is_cover bg cu cv /\ NoDup cu /\ NoDup cv.
Proof.
  intros H. destruct (cfm_inv _ _ _ H) as (rU & rV & Hk & -> & ->).
  split; [|apply cover_lists_nodup].
  eapply (konig_cover_fn nU nV (nbrs bg) (mget ml) rot rot_ok); eauto; intros u v Hv; apply (shape u v Hv).
Qed.

(* (3) *)
Lemma weak_duality ml cu cv :
  is_matching bg nV ml -> NoDup cu -> NoDup cv -> is_cover bg cu cv ->
  msize nV ml <= length cu + length cv.
Proof.
  intros (Hl & He & Hi) N1 N2 Hc. unfold msize.
  apply (weak_duality_fn nV (nbrs bg) (mget ml)); auto.
Qed.

(* (2) *)
Lemma cover_from_matching_size ml cu cv :
  is_matching bg nV ml -> cover_from_matching rot bg nU nV ml = Some (cu, cv) ->
  length cu + length cv = msize nV ml.
Proof.
  intros (Hl & He & Hi) H. destruct (cfm_inv _ _ _ H) as (rU & rV & Hk & -> & ->). unfold msize.
  eapply (konig_size_eq nU nV (nbrs bg) (mget ml) rot rot_ok); eauto;
    first [ intros u v Hv; apply (shape u v Hv) | intros v u Hm; apply mget_some_lt in Hm; lia ].
Qed.

(* (4) *)
Lemma cover_minimum ml cu cv :
  is_matching bg nV ml -> cover_from_matching rot bg nU nV ml = Some (cu, cv) ->
  forall cu' cv', NoDup cu' -> NoDup cv' -> is_cover bg cu' cv' ->
  length cu + length cv <= length cu' + length cv'.
Proof.
  intros Hm H cu' cv' N1 N2 Hc. rewrite (cover_from_matching_size _ _ _ Hm H).
  apply weak_duality; auto.
Qed.
End Top.

Lemma matching_maximum rot bg nU nV ml cu cv :
  is_rot rot -> (forall u v, In v (nbrs bg u) -> u < nU /\ v < nV) ->
  is_matching bg nV ml -> cover_from_matching rot bg nU nV ml = Some (cu, cv) ->
  forall nV' ml', is_matching bg nV' ml' -> msize nV' ml' <= msize nV ml.
Proof.
  intros Hr Hs Hm H nV' ml' Hm'.
  destruct (cover_from_matching_is_cover rot Hr bg nU nV Hs _ _ _ H) as (Hc & N1 & N2).
  rewrite <- (cover_from_matching_size rot Hr bg nU nV Hs _ _ _ Hm H).
  apply (weak_duality bg nV' ml' cu cv); auto.
Qed.

(* Koenig never asserts when every free U vertex has a certificate *)
Lemma cfm_total rot bg nU nV ml :
  is_rot rot -> (forall u v, In v (nbrs bg u) -> u < nU /\ v < nV) -> is_matching bg nV ml ->
  (exists P, closedP (nbrs bg) ml P /\
             forall u, u < nU -> is_free nV (mget ml) u = true -> forall v, In v (nbrs bg u) -> P v) ->
  exists cu cv, cover_from_matching rot bg nU nV ml = Some (cu, cv).
Proof.
  intros Hr Hs (Hl & He & Hi) (P & HP & Hfree). unfold cover_from_matching.
  destruct (konig_total nV (nbrs bg) (mget ml) rot Hr Hi) with (P := P) (fuel := S (nU + nV))
    (visU := @nil nat) (visV := @nil nat) (wait := free_list nU nV (mget ml)) as (rU & rV & Hk).
  - intros v u Hm. apply mget_some_lt in Hm. lia.
  - exact HP.
  - intros u Hu. left. apply filter_In in Hu. apply Hu.
  - intros u Hu. apply filter_In in Hu. destruct Hu as [Hs' Hf]. apply in_seq in Hs'. apply Hfree; auto. lia.
  - constructor.
  - intros ? [].
  - unfold free_list. pose proof (filter_length_le (is_free nV (mget ml)) (seq 0 nU)) as Hle.
    rewrite seq_length in Hle. cbn [length]. lia.
  - rewrite Hk. eauto.
Qed.

(* (5) the augmenting-path matching *)
Lemma hungarian_hinv bg :
  exists ml, hungarian bg = Some ml /\ hinv (nV_of bg) (nbrs bg) (length bg) ml.
Proof.
  unfold hungarian.
  destruct (hung_loop_inv (nV_of bg) (nbrs bg) (nV_of_bound bg) (length bg) 0 (repeat None (nV_of bg))
              (hinv_init _ _)) as [ml [H Hi]].
  exists ml. split; auto.
Qed.

Lemma hinv_is_matching bg k ml : hinv (nV_of bg) (nbrs bg) k ml -> is_matching bg (nV_of bg) ml.
Proof.
  intros (Hl & He & ND & _). repeat split; auto. apply vals_nodup_inj; auto.
Qed.

Lemma hungarian_is_matching bg : exists ml, hungarian bg = Some ml /\ is_matching bg (nV_of bg) ml.
Proof. destruct (hungarian_hinv bg) as [ml [H Hi]]. exists ml. split; auto. eapply hinv_is_matching; eauto. Qed.

Lemma graph_shape bg : forall u v, In v (nbrs bg u) -> u < length bg /\ v < nV_of bg.
Proof. intros u v H. split; [eapply nbrs_lt_length|eapply nV_of_bound]; eauto. Qed.
Lemma graph_shape_hk bg : forall u v, In v (nbrs bg u) -> u < hk_nU bg /\ v < nV_of bg.
Proof. intros u v H. split; [eapply hk_nU_bound|eapply nV_of_bound]; eauto. Qed.

Lemma hungarian_konig_total rot bg : is_rot rot ->
  exists ml cu cv, hungarian bg = Some ml /\ is_matching bg (nV_of bg) ml /\
                   cover_from_matching rot bg (length bg) (nV_of bg) ml = Some (cu, cv).
Proof.
  intros Hr. destruct (hungarian_hinv bg) as [ml [H Hi]].
  pose proof (hinv_is_matching _ _ _ Hi) as Hm.
  destruct Hi as (Hl & He & ND & Hlt & P & HP & Hc).
  destruct (cfm_total rot bg (length bg) (nV_of bg) ml Hr (graph_shape bg) Hm) as (cu & cv & Hk).
  - exists P. split; auto. intros u Hu Hf. destruct (Hc u Hu) as [Hin|Hg]; auto.
    exfalso. rewrite <- Hl in Hf. exact (free_not_in_vals _ _ Hf Hin).
  - exists ml, cu, cv. auto.
Qed.

(* a MAXIMUM matching never triggers the asserts (so: for admissible tables the assert fires
   exactly when the matching is not maximum) *)
Lemma maximum_matching_konig_total rot bg nU ml :
  is_rot rot -> (forall u v, In v (nbrs bg u) -> u < nU) ->
  is_matching bg (nV_of bg) ml ->
  (forall ml', is_matching bg (nV_of bg) ml' -> msize (nV_of bg) ml' <= msize (nV_of bg) ml) ->
  exists cu cv, cover_from_matching rot bg nU (nV_of bg) ml = Some (cu, cv).
Proof.
  intros Hr Hs Hm Hmax. pose proof Hm as (Hl & He & Hi).
  apply cfm_total; auto.
  { intros u v Hv. split; [eapply Hs|eapply nV_of_bound]; eauto. }
  exists (fun v => exists Q, closedP (nbrs bg) ml Q /\ Q v). split.
  - intros v (Q & HQ & Qv). destruct (HQ v Qv) as [u2 [Em Hg]]. exists u2. split; auto.
    intros v' Hv'. exists Q. auto.
  - intros u Hu Hf v Hv.
    destruct (augment_total (nV_of bg) (nbrs bg) (nV_of_bound bg) (S (nV_of bg)) u [] ml Hl)
      as [[[b vis'] m'] Ha]; [constructor|intros ? []|cbn [length]; lia|].
    pose proof (augment_post (nV_of bg) (nbrs bg) (nV_of_bound bg) _ _ _ _ _ _ _ Hl Ha) as Q.
    destruct b.
    + exfalso. pose proof (p_true _ _ _ _ _ _ _ _ Q eq_refl) as Hp.
      assert (Hm' : is_matching bg (nV_of bg) m').
      { repeat split.
        - rewrite (p_len _ _ _ _ _ _ _ _ Q); auto.
        - apply (p_edges _ _ _ _ _ _ _ _ Q); auto.
        - apply vals_nodup_inj. eapply Permutation_NoDup; [apply Permutation_sym; exact Hp|].
          constructor; [|apply inj_vals_nodup; auto].
          rewrite <- Hl in Hf. apply free_not_in_vals; auto. }
      specialize (Hmax m' Hm').
      assert (E1 : msize (nV_of bg) m' = length (vals m')).
      { rewrite <- (p_len _ _ _ _ _ _ _ _ Q) in Hl. rewrite <- Hl. apply msize_vals. }
      assert (E2 : msize (nV_of bg) ml = length (vals ml)) by (rewrite <- Hl; apply msize_vals).
      apply Permutation_length in Hp. cbn [length] in Hp. lia.
    + pose proof (p_false _ _ _ _ _ _ _ _ Q eq_refl). subst m'.
      destruct (augment_fail_cert (nV_of bg) (nbrs bg) (nV_of_bound bg) ml Hl _ _ _ _ _ Ha) as [C1 C2].
      exists (fun x => In x vis'). split; auto.
      intros x Hx. destruct (C2 x Hx) as [[]|E]. exact E.
Qed.
(* ------------------------------------------------------------------ packaged results *)
Theorem konig_correct rot bg nU nV ml cu cv :
  is_rot rot -> (forall u v, In v (nbrs bg u) -> u < nU /\ v < nV) ->
  is_matching bg nV ml -> cover_from_matching rot bg nU nV ml = Some (cu, cv) ->
  minimum_cover bg cu cv /\ length cu + length cv = msize nV ml /\ maximum_matching bg nV ml.
Proof.
  intros Hr Hs Hm H.
  destruct (cover_from_matching_is_cover rot Hr bg nU nV Hs _ _ _ H) as (Hc & N1 & N2).
  split; [split; [auto|split; [auto|split; [auto|eapply cover_minimum; eauto]]]|].
  split; [eapply cover_from_matching_size; eauto|].
  split; [auto|eapply matching_maximum; eauto].
Qed.

Theorem vertex_cover_hungarian_correct rot bg : is_rot rot ->
  exists ml cu cv, hungarian bg = Some ml /\ vertex_cover_hungarian rot bg = Some (cu, cv) /\
    minimum_cover bg cu cv /\ length cu + length cv = msize (nV_of bg) ml /\
    maximum_matching bg (nV_of bg) ml.
Proof.
  intros Hr. destruct (hungarian_konig_total rot bg Hr) as (ml & cu & cv & Hh & Hm & Hk).
  exists ml, cu, cv. unfold vertex_cover_hungarian. rewrite Hh. split; [auto|split; [auto|]].
  apply (konig_correct rot bg (length bg) (nV_of bg) ml cu cv Hr (graph_shape bg) Hm Hk).
Qed.

Lemma no_edge_nbrs bg : has_edge bg = false -> forall u v, ~ In v (nbrs bg u).
Proof.
  unfold has_edge, nbrs. induction bg as [|adj t IH]; intros H [|u] v Hv; cbn [nth existsb] in *; try (destruct Hv; fail).
  - destruct adj; [destruct Hv|discriminate].
  - apply orb_false_iff in H. destruct H as [_ H]. exact (IH H u v Hv).
Qed.

Lemma no_edge_correct bg nV ml : has_edge bg = false -> is_matching bg nV ml ->
  minimum_cover bg [] [] /\ length (@nil nat) + length (@nil nat) = msize nV ml /\ maximum_matching bg nV ml.
Proof.
  intros He Hm.
  assert (Hc : is_cover bg [] []) by (intros u v Hv; exfalso; exact (no_edge_nbrs bg He u v Hv)).
  assert (Hz : forall nV' ml', is_matching bg nV' ml' -> msize nV' ml' = 0).
  { intros nV' ml' Hm'. pose proof (weak_duality bg nV' ml' [] [] Hm' (NoDup_nil _) (NoDup_nil _) Hc) as H.
    cbn [length] in H. lia. }
  split; [split; [auto|split; [constructor|split; [constructor|intros; cbn [length]; lia]]]|].
  split; [rewrite (Hz _ _ Hm); reflexivity|].
  split; [auto|]. intros nV' ml' Hm'. rewrite (Hz _ _ Hm'). lia.
Qed.

Theorem vertex_cover_hk_correct rot bg ml cu cv : is_rot rot ->
  valid_matching bg (nV_of bg) ml = true -> vertex_cover_hk rot bg ml = Some (cu, cv) ->
  minimum_cover bg cu cv /\ length cu + length cv = msize (nV_of bg) ml /\
  maximum_matching bg (nV_of bg) ml.
Proof.
  intros Hr Hv H. apply valid_matching_sound in Hv. unfold vertex_cover_hk in H.
  destruct (has_edge bg) eqn:He.
  - exact (konig_correct rot bg (hk_nU bg) (nV_of bg) ml cu cv Hr (graph_shape_hk bg) Hv H).
  - inversion H; subst. exact (no_edge_correct bg (nV_of bg) ml He Hv).
Qed.

Theorem vertex_cover_hk_total rot bg ml : is_rot rot ->
  maximum_matching bg (nV_of bg) ml -> exists cu cv, vertex_cover_hk rot bg ml = Some (cu, cv).
Proof.
  intros Hr [Hm Hmax]. unfold vertex_cover_hk. destruct (has_edge bg); [|eauto].
  apply maximum_matching_konig_total; auto.
  intros u v Hv. eapply hk_nU_bound; eauto.
Qed.

(* the cover never exceeds either side *)
Lemma minimum_cover_le_sides bg cu cv : minimum_cover bg cu cv ->
  length cu + length cv <= length bg /\ length cu + length cv <= nV_of bg.
Proof.
  intros (_ & _ & _ & Hmin). split.
  - assert (Hc : is_cover bg (seq 0 (length bg)) []).
    { intros u v Hv. left. apply in_seq. pose proof (nbrs_lt_length _ _ _ Hv). lia. }
    pose proof (Hmin _ _ (seq_NoDup _ _) (NoDup_nil _) Hc) as H. rewrite seq_length in H. cbn [length] in H. lia.
  - assert (Hc : is_cover bg [] (seq 0 (nV_of bg))).
    { intros u v Hv. right. apply in_seq. pose proof (nV_of_bound _ _ _ Hv). lia. }
    pose proof (Hmin _ _ (NoDup_nil _) (seq_NoDup _ _) Hc) as H. rewrite seq_length in H. cbn [length] in H. lia.
Qed.

(* the pop order of the wait set does not matter *)
Theorem konig_schedule_independent rot1 rot2 bg nU nV ml cu1 cv1 cu2 cv2 :
  is_rot rot1 -> is_rot rot2 ->
  cover_from_matching rot1 bg nU nV ml = Some (cu1, cv1) ->
  cover_from_matching rot2 bg nU nV ml = Some (cu2, cv2) ->
  cu1 = cu2 /\ cv1 = cv2.
Proof.
  intros R1 R2 H1 H2.
  unfold cover_from_matching in H1, H2.
  destruct (konig (nbrs bg) (mget ml) rot1 _ _ _ _) as [[rU1 rV1]|] eqn:K1; [|discriminate].
  destruct (konig (nbrs bg) (mget ml) rot2 _ _ _ _) as [[rU2 rV2]|] eqn:K2; [|discriminate].
  inversion H1; inversion H2; subst. clear H1 H2.
  assert (Hinit : closed (nbrs bg) [] [] /\ vmatched (mget ml) [] /\
                  partner_tracked (mget ml) [] [] (free_list nU nV (mget ml)) /\ NoDup (@nil nat)).
  { split; [intros ? ? []|]. split; [intros ? []|]. split; [intros ? ? []|constructor]. }
  destruct Hinit as (I1 & I2 & I3 & I4).
  destruct (konig_inv _ _ _ R1 _ _ _ _ _ _ K1 I1 I2 I3 I4) as (_ & A2 & _ & A4 & _ & A6 & _).
  destruct (konig_inv _ _ _ R2 _ _ _ _ _ _ K2 I1 I2 I3 I4) as (_ & B2 & _ & B4 & _ & B6 & _).
  assert (L12 : (forall u, In u rU2 -> In u rU1) /\ (forall v, In v rV2 -> In v rV1)).
  { apply (konig_least _ _ _ R2 (fun u => In u rU1) (fun v => In v rV1) _ _ _ _ _ _ K2).
    - intros u v Hu Hv. eapply A4; eauto.
    - intros v u Hv Hm. destruct (A6 v u Hv Hm) as [[]|]; auto.
    - intros ? [].
    - intros ? [].
    - exact A2. }
  assert (L21 : (forall u, In u rU1 -> In u rU2) /\ (forall v, In v rV1 -> In v rV2)).
  { apply (konig_least _ _ _ R1 (fun u => In u rU2) (fun v => In v rV2) _ _ _ _ _ _ K1).
    - intros u v Hu Hv. eapply B4; eauto.
    - intros v u Hv Hm. destruct (B6 v u Hv Hm) as [[]|]; auto.
    - intros ? [].
    - intros ? [].
    - exact B2. }
  destruct L12 as [U12 V12]. destruct L21 as [U21 V21].
  split; unfold cover_u, cover_v; apply filter_ext; intros x.
  - f_equal. destruct (memn_spec x rU1), (memn_spec x rU2); auto; exfalso; auto.
  - destruct (memn_spec x rV1), (memn_spec x rV2); auto; exfalso; auto.
Qed.

(* ------------------------------------------------------------------ orientation of _decompose_graph *)
Lemma nth_map_seq (f : nat -> list nat) n : forall s c, c < n -> nth c (map f (seq s n)) [] = f (s + c).
Proof.
  induction n as [|n IH]; intros s [|c] H; try lia; cbn [seq map nth].
  - rewrite Nat.add_0_r; auto.
  - rewrite IH by lia. f_equal. lia.
Qed.
Lemma nbrs_transpose inc ncol c : c < ncol ->
  nbrs (transpose inc ncol) c = filter (fun r => memn c (nbrs inc r)) (seq 0 (length inc)).
Proof. intros Hc. unfold nbrs at 1, transpose. rewrite nth_map_seq; auto. Qed.
Lemma transpose_edge inc ncol : (forall r c, In c (nbrs inc r) -> c < ncol) ->
  forall r c, In r (nbrs (transpose inc ncol) c) <-> In c (nbrs inc r).
Proof.
  intros Hw r c. split.
  - intros H. assert (Hc : c < ncol).
    { apply nbrs_lt_length in H. unfold transpose in H. rewrite map_length, seq_length in H. auto. }
    rewrite nbrs_transpose in H; auto. apply filter_In in H. apply memn_true, H.
  - intros H. rewrite nbrs_transpose; [|eauto]. apply filter_In. split; [|apply memn_true; auto].
    apply in_seq. pose proof (nbrs_lt_length _ _ _ H). lia.
Qed.

Section Orient.
Variable cover : graph -> option (list nat * list nat).
Hypothesis cover_ok : forall bg cu cv, cover bg = Some (cu, cv) -> minimum_cover bg cu cv.

Theorem select_rows_cols_minimum inc ncol rs cs :
  (forall r c, In c (nbrs inc r) -> c < ncol) ->
  select_rows_cols cover inc ncol = Some (rs, cs) ->
  minimum_cover inc rs cs /\ length rs + length cs <= length inc /\ length rs + length cs <= ncol.
Proof.
  intros Hw H. unfold select_rows_cols in H.
  assert (Hrows : forall r c, In c (nbrs inc r) -> In r (seq 0 (length inc))).
  { intros r c Hc. apply in_seq. pose proof (nbrs_lt_length _ _ _ Hc). lia. }
  assert (Hcols : forall r c, In c (nbrs inc r) -> In c (seq 0 ncol)).
  { intros r c Hc. apply in_seq. specialize (Hw _ _ Hc). lia. }
  assert (Hmin : minimum_cover inc rs cs).
  { destruct (Nat.ltb (length inc) ncol); [apply cover_ok; auto|].
    destruct (cover (transpose inc ncol)) as [[cs' rs']|] eqn:E; [|discriminate]. inversion H; subst.
    destruct (cover_ok _ _ _ E) as (Hc & N1 & N2 & Hm). repeat split; auto.
    - intros r c Hrc. apply (transpose_edge inc ncol Hw) in Hrc. destruct (Hc _ _ Hrc); auto.
    - intros rs' cs' N1' N2' Hc'. rewrite (Nat.add_comm (length rs)), (Nat.add_comm (length rs')).
      apply Hm; auto. intros c r Hcr. apply (transpose_edge inc ncol Hw) in Hcr. destruct (Hc' _ _ Hcr); auto. }
  split; auto. destruct Hmin as (_ & _ & _ & Hm). split.
  - assert (Hc : is_cover inc (seq 0 (length inc)) []) by (intros r c Hc; left; eauto).
    pose proof (Hm _ _ (seq_NoDup _ _) (NoDup_nil _) Hc) as H'. rewrite seq_length in H'. cbn [length] in H'. lia.
  - assert (Hc : is_cover inc [] (seq 0 ncol)) by (intros r c Hc; right; eauto).
    pose proof (Hm _ _ (NoDup_nil _) (seq_NoDup _ _) Hc) as H'. rewrite seq_length in H'. cbn [length] in H'. lia.
Qed.
End Orient.

Theorem select_rows_cols_hungarian rot inc ncol : is_rot rot ->
  (forall r c, In c (nbrs inc r) -> c < ncol) ->
  exists rs cs, select_rows_cols (vertex_cover_hungarian rot) inc ncol = Some (rs, cs) /\
    minimum_cover inc rs cs /\ length rs + length cs <= length inc /\ length rs + length cs <= ncol.
Proof.
  intros Hr Hw.
  assert (Hok : forall bg cu cv, vertex_cover_hungarian rot bg = Some (cu, cv) -> minimum_cover bg cu cv).
  { intros bg cu cv H. destruct (vertex_cover_hungarian_correct rot bg Hr) as (ml & cu' & cv' & _ & H' & Hm & _).
    rewrite H in H'. inversion H'; subst. auto. }
  assert (Htot : exists rs cs, select_rows_cols (vertex_cover_hungarian rot) inc ncol = Some (rs, cs)).
  { unfold select_rows_cols. destruct (Nat.ltb (length inc) ncol).
    - destruct (vertex_cover_hungarian_correct rot inc Hr) as (ml & cu & cv & _ & H' & _). eauto.
    - destruct (vertex_cover_hungarian_correct rot (transpose inc ncol) Hr) as (ml & cu & cv & _ & H' & _).
      rewrite H'. eauto. }
  destruct Htot as (rs & cs & H). exists rs, cs. split; auto.
  eapply select_rows_cols_minimum; eauto.
Qed.

(* for an admissible table, new_konig's asserts fire exactly when the matching is not maximum *)
Theorem hk_returns_iff_maximum rot bg ml : is_rot rot -> valid_matching bg (nV_of bg) ml = true ->
  ((exists cu cv, vertex_cover_hk rot bg ml = Some (cu, cv)) <-> maximum_matching bg (nV_of bg) ml).
Proof.
  intros Hr Hv. split.
  - intros (cu & cv & H). apply (vertex_cover_hk_correct rot bg ml cu cv Hr Hv H).
  - apply vertex_cover_hk_total; auto.
Qed.

Lemma valid_matching_iff bg nV ml : valid_matching bg nV ml = true <-> is_matching bg nV ml.
Proof. split; [apply valid_matching_sound|apply valid_matching_complete]. Qed.

Lemma rev_is_rot : is_rot (fun _ l => rev l).
Proof. intros k l. apply Permutation_sym, Permutation_rev. Qed.
Lemma no_rot_is_rot : is_rot no_rot.
Proof. intros k l. apply Permutation_refl. Qed.

(* ------------------------------------------------------------------ bigraph (generated, Gen/CoverAdj.v) IS the
   incidence matrix: labels are unbounded nat, the label map rendered from the source is the identity *)
Lemma nbrs_bigraph_of_sparse indices indptr n u :
  nbrs (bigraph_of_sparse indices indptr n) u = if Nat.ltb u n then sparse_slice indices indptr u else [].
Proof.
  unfold bigraph_of_sparse. destruct (Nat.ltb_spec u n) as [H|H].
  - unfold nbrs. rewrite nth_map_seq by exact H. cbn [Nat.add]. unfold adj_label. apply map_id.
  - unfold nbrs. apply nth_overflow. rewrite map_length, seq_length. exact H.
Qed.

Theorem bigraph_is_incidence_matrix indices indptr n u v :
  In v (nbrs (bigraph_of_sparse indices indptr n) u) <-> u < n /\ In v (sparse_slice indices indptr u).
Proof.
  rewrite nbrs_bigraph_of_sparse. destruct (Nat.ltb_spec u n) as [H|H]; split.
  - intros Hv; split; auto.
  - intros [_ Hv]; auto.
  - intros [].
  - intros [Hu _]. lia.
Qed.

Theorem bigraph_cover_is_incidence_cover indices indptr n cu cv :
  is_cover (bigraph_of_sparse indices indptr n) cu cv <->
  (forall i j, i < n -> In j (sparse_slice indices indptr i) -> In i cu \/ In j cv).
Proof.
  unfold is_cover. split.
  - intros H i j Hi Hj. apply H. apply bigraph_is_incidence_matrix. auto.
  - intros H u v Hv. apply bigraph_is_incidence_matrix in Hv. destruct Hv as [Hu Hv]. auto.
Qed.

(* the cover computed for the generated bigraph is a MINIMUM set of rows + columns touching every entry of the
   sparse matrix, whatever the size of the labels *)
Theorem decompose_graph_cover_touches_every_entry rot indices indptr n : is_rot rot ->
  exists cu cv, vertex_cover_hungarian rot (bigraph_of_sparse indices indptr n) = Some (cu, cv) /\
    (forall i j, i < n -> In j (sparse_slice indices indptr i) -> In i cu \/ In j cv) /\
    (forall cu' cv', NoDup cu' -> NoDup cv' ->
       (forall i j, i < n -> In j (sparse_slice indices indptr i) -> In i cu' \/ In j cv') ->
       length cu + length cv <= length cu' + length cv').
Proof.
  intros Hr. destruct (vertex_cover_hungarian_correct rot (bigraph_of_sparse indices indptr n) Hr)
    as (ml & cu & cv & _ & Hc & (Hcov & _ & _ & Hmin) & _).
  exists cu, cv. split; [exact Hc|]. split.
  - apply bigraph_cover_is_incidence_cover; exact Hcov.
  - intros cu' cv' N1 N2 H'. apply Hmin; auto. apply bigraph_cover_is_incidence_cover; exact H'.
Qed.
