(* C04, second part: Gram-Schmidt without roots is a decomposition kernel (unconditionally), the diagonal-weight
   isometry theorem, the label (quantum number) bookkeeping of the push step. *)
From Coq Require Import Ring List Arith ZArith Lia Bool.
Import ListNotations.
From RV Require Import Base.CRing Base.BigSum Model.Chain Proofs.ChainProofs Gen.CanoSched Model.Cano Proofs.CanoProofs Model.CanoGS.

(* ================================================================================================ *)
(* Part A: Gram-Schmidt                                                                             *)
(* ================================================================================================ *)
Section GSProofs.
Variable F : CField.
Notation R := (fring F).
Add Ring RF : (rth R).
Notation "0" := (r0 R).
Notation "1" := (r1 R).
Infix "+" := (radd R).
Infix "*" := (rmul R).
Infix "-" := (rsub R).

Lemma tab_nth_gen (f : nat -> R) n : forall s i, i < n -> nth i (map f (seq s n)) 0 = f (s + i)%nat.
Proof.
  induction n as [|n IH]; intros s i Hi; [lia|]. destruct i as [|i]; cbn [seq map nth].
  - f_equal. lia.
  - rewrite IH by lia. f_equal. lia.
Qed.
Lemma tabv_eq n (f : nat -> R) i : i < n -> tabv F n f i = f i.
Proof. intros Hi. unfold tabv. rewrite tab_nth_gen by exact Hi. reflexivity. Qed.

(* ---- the Hermitian form ---- *)
Lemma ip_ext n x y x' y' : (forall i, i < n -> x i = x' i) -> (forall i, i < n -> y i = y' i) -> ip F n x y = ip F n x' y'.
Proof. intros Hx Hy. unfold ip. apply sumn_ext. intros i Hi. rewrite Hx, Hy by exact Hi. reflexivity. Qed.

Lemma ip_conj n x y : rcj R (ip F n x y) = ip F n y x.
Proof.
  unfold ip. rewrite sumn_cj. apply sumn_ext. intros i _. rewrite rcj_mul, rcj_invol. ring.
Qed.

Lemma ip_zero_l n x y : (forall i, i < n -> x i = 0) -> ip F n x y = 0.
Proof.
  intros H. unfold ip. apply sumn_0. intros i Hi. rewrite (H i Hi), rcj_0. ring.
Qed.

Lemma ip_definite n x : ip F n x x = 0 -> forall i, i < n -> x i = 0.
Proof. intros H. exact (f_definite F n x H). Qed.

(* <x, a - sum_b c_b z_b> = <x,a> - sum_b c_b <x,z_b> *)
Lemma ip_resid n m x a (c : nat -> R) (z : nat -> nat -> R) :
  ip F n x (fun i => a i - sumn m (fun b => c b * z b i)) = ip F n x a - sumn m (fun b => c b * ip F n x (z b)).
Proof.
  unfold ip.
  assert (E1 : forall i, rcj R (x i) * (a i - sumn m (fun b => c b * z b i)) =
                         rcj R (x i) * a i + ropp R (sumn m (fun b => c b * (rcj R (x i) * z b i)))).
  { intros i. rewrite (sumn_ext R m (fun b => c b * (rcj R (x i) * z b i)) (fun b => rcj R (x i) * (c b * z b i))) by (intros; ring).
    rewrite sumn_scale_l. ring. }
  rewrite (sumn_ext R n _ _ (fun i _ => E1 i)). rewrite sumn_add, sumn_opp.
  rewrite sumn_exchange.
  rewrite (sumn_ext R m (fun j => sumn n (fun i => c j * (rcj R (x i) * z j i))) (fun b => c b * sumn n (fun i => rcj R (x i) * z b i)))
    by (intros; apply sumn_scale_l).
  ring.
Qed.

Section OneMatrix.
Variable rows : nat.
Variable A : mat R.

Definition Qn (b : nat) : nat -> R := nth b (gs_vecs F rows A (S b)) (zerov F).
Definition colA (j : nat) : nat -> R := fun i => A i j.

Lemma gs_vecs_length j : length (gs_vecs F rows A j) = j.
Proof. induction j as [|j IH]; cbn [gs_vecs]; [reflexivity|]. rewrite app_length, IH. cbn. lia. Qed.

Lemma gs_vecs_stable j : forall b, b < j -> nth b (gs_vecs F rows A j) (zerov F) = Qn b.
Proof.
  induction j as [|j IH]; intros b Hb; [lia|].
  destruct (Nat.eq_dec b j) as [->|Hne]; [reflexivity|].
  cbn [gs_vecs]. rewrite app_nth1 by (rewrite gs_vecs_length; lia). apply IH. lia.
Qed.

(* the recurrence *)
Lemma Qn_eq j i : i < rows ->
  Qn j i = A i j - sumn j (fun b => coef F rows (Qn b) (colA j) * Qn b i).
Proof.
  intros Hi. unfold Qn at 1. cbn [gs_vecs]. rewrite app_nth2 by (rewrite gs_vecs_length; lia).
  rewrite gs_vecs_length, Nat.sub_diag. cbn [nth]. rewrite tabv_eq by exact Hi.
  f_equal. apply sumn_ext. intros b Hb. rewrite (gs_vecs_stable j b Hb). reflexivity.
Qed.

Definition dn (b : nat) : R := ip F rows (Qn b) (Qn b).

Lemma dn_zero b : dn b = 0 -> forall i, i < rows -> Qn b i = 0.
Proof. apply ip_definite. Qed.

(* <q_a, q_j> = 0 for a < j *)
Lemma gs_orth : forall j a, a < j -> ip F rows (Qn a) (Qn j) = 0.
Proof.
  induction j as [j IH] using lt_wf_ind. intros a Ha.
  rewrite (ip_ext rows (Qn a) (Qn j) (Qn a)
             (fun i => colA j i - sumn j (fun b => coef F rows (Qn b) (colA j) * Qn b i)));
    [|reflexivity|intros i Hi; apply Qn_eq; exact Hi].
  rewrite ip_resid.
  rewrite (sumn_ext R j _ (fun b => if Nat.eqb b a then coef F rows (Qn b) (colA j) * ip F rows (Qn a) (Qn b) else 0)).
  2:{ intros b Hb. destruct (Nat.eqb_spec b a) as [->|Hne]; [reflexivity|].
      destruct (Nat.lt_ge_cases b a) as [Hlt|Hge].
      - (* b < a: <q_a,q_b> = conj <q_b,q_a> = 0 *)
        rewrite <- (ip_conj rows (Qn b) (Qn a)). rewrite (IH a Ha b Hlt), rcj_0. ring.
      - rewrite (IH b Hb a ltac:(lia)). ring. }
  rewrite (sumn_delta R j a (fun b => coef F rows (Qn b) (colA j) * ip F rows (Qn a) (Qn b)) Ha).
  unfold coef. fold (dn a).
  destruct (f_dec F (dn a) 0) as [Hz|Hnz].
  - rewrite (ip_zero_l rows (Qn a) (colA j) (dn_zero a Hz)). ring.
  - transitivity (ip F rows (Qn a) (colA j) - ip F rows (Qn a) (colA j) * (dn a * finv F (dn a))); [ring|].
    rewrite (finv_ok F (dn a) Hnz). ring.
Qed.

Lemma gs_orth_sym a b : a <> b -> ip F rows (Qn a) (Qn b) = 0.
Proof.
  intros Hne. destruct (Nat.lt_ge_cases a b) as [H|H]; [apply gs_orth; exact H|].
  rewrite <- (ip_conj rows (Qn b) (Qn a)). rewrite (gs_orth a b ltac:(lia)). apply rcj_0.
Qed.

Lemma gs_U_eq cols i a : a < cols -> gs_U F rows cols A i a = Qn a i.
Proof. intros Ha. unfold gs_U. rewrite (gs_vecs_stable cols a Ha). reflexivity. Qed.

Lemma gs_factor cols i j : i < rows -> j < cols ->
  A i j = sumn cols (fun a => gs_U F rows cols A i a * gs_V F rows cols A a j).
Proof.
  intros Hi Hj.
  replace cols with (j + (1 + (cols - j - 1)))%nat at 1 by lia.
  rewrite sumn_split, sumn_split. cbn [sumn].
  rewrite (sumn_0 R (cols - j - 1)).
  2:{ intros a Ha. unfold gs_V.
      replace (Nat.ltb (j + (1 + a)) j) with false by (symmetry; apply Nat.ltb_ge; lia).
      replace (Nat.eqb (j + (1 + a)) j) with false by (symmetry; apply Nat.eqb_neq; lia). ring. }
  rewrite (sumn_ext R j _ (fun b => coef F rows (Qn b) (colA j) * Qn b i)).
  2:{ intros b Hb. rewrite gs_U_eq by lia. unfold gs_V.
      replace (Nat.ltb b j) with true by (symmetry; apply Nat.ltb_lt; lia).
      rewrite (gs_vecs_stable cols b ltac:(lia)). unfold colA. ring. }
  rewrite Nat.add_0_r. rewrite gs_U_eq by lia. unfold gs_V.
  rewrite Nat.ltb_irrefl, Nat.eqb_refl. rewrite (Qn_eq j i Hi). ring.
Qed.

Lemma gs_orthD cols : ucols_orthD R dn rows cols (gs_U F rows cols A).
Proof.
  intros a b Ha Hb.
  rewrite (sumn_ext R rows _ (fun i => rcj R (Qn a i) * Qn b i)) by (intros; rewrite !gs_U_eq by assumption; reflexivity).
  change (ip F rows (Qn a) (Qn b) = if Nat.eqb a b then dn a else 0).
  destruct (Nat.eqb_spec a b) as [->|Hne]; [reflexivity|apply gs_orth_sym; exact Hne].
Qed.

End OneMatrix.

(* ---- the right-moving kernel meets the contract for EVERY matrix ---- *)
Lemma idmat_sum_l n i (f : nat -> R) : i < n -> sumn n (fun a => idmat F i a * f a) = f i.
Proof.
  intros Hi. rewrite (sumn_ext R n _ (fun a => if Nat.eqb a i then f a else 0)).
  - apply (sumn_delta R n i f Hi).
  - intros a _. unfold idmat. rewrite (Nat.eqb_sym i a). destruct (Nat.eqb a i); ring.
Qed.

Lemma gs_right_factor rows cols M i j : i < rows -> j < cols ->
  M i j = sumn (dK (gs_right F rows cols M))
               (fun a => dU (gs_right F rows cols M) i a * dV (gs_right F rows cols M) a j).
Proof.
  intros Hi Hj. unfold gs_right. destruct (Nat.leb cols rows); unfold dK, dU, dV; cbn [fst snd].
  - apply gs_factor; assumption.
  - symmetry. apply (idmat_sum_l rows i (fun a => M a j) Hi).
Qed.

Lemma gs_right_bound rows cols M : dK (gs_right F rows cols M) <= Nat.min rows cols.
Proof. unfold gs_right. destruct (Nat.leb_spec cols rows); unfold dK; cbn [fst]; lia. Qed.

Lemma gs_right_orth rows cols M :
  exists D, ucols_orthD R D rows (dK (gs_right F rows cols M)) (dU (gs_right F rows cols M)).
Proof.
  unfold gs_right. destruct (Nat.leb cols rows); unfold dK, dU; cbn [fst snd].
  - exists (dn rows M). apply gs_orthD.
  - exists (fun _ => 1). intros a b Ha Hb.
    rewrite (sumn_ext R rows _ (fun i => if Nat.eqb i a then idmat F i b else 0)).
    + rewrite (sumn_delta R rows a (fun i => idmat F i b) Ha). reflexivity.
    + intros i _. unfold idmat at 1. destruct (Nat.eqb i a); [rewrite rcj_1|rewrite rcj_0]; ring.
Qed.

Theorem gs_kernel_factor : dec_factor R (gs_kernel F).
Proof.
  intros gi dir rows cols M i j Hi Hj. unfold gs_kernel. destruct dir; [apply gs_right_factor; assumption|].
  unfold dK at 1, dU at 1, dV at 1. cbn [fst snd].
  pose proof (gs_right_factor cols rows (ctrans F M) j i Hj Hi) as E. unfold ctrans at 1 in E.
  rewrite <- (rcj_invol R (M i j)), E, sumn_cj. apply sumn_ext. intros a _.
  unfold ctrans. rewrite rcj_mul. unfold dU, dV; cbn [fst snd]. ring.
Qed.

Theorem gs_kernel_bound : dec_bound R (gs_kernel F).
Proof.
  intros gi dir rows cols M. unfold gs_kernel. destruct dir; [apply gs_right_bound|].
  unfold dK at 1. cbn [fst]. pose proof (gs_right_bound cols rows (ctrans F M)). lia.
Qed.

Theorem gs_kernel_orth : dec_orth R (gs_kernel F).
Proof.
  intros gi rows cols M. split.
  - unfold gs_kernel. apply gs_right_orth.
  - unfold gs_kernel. destruct (gs_right_orth cols rows (ctrans F M)) as [D HD].
    exists (fun a => rcj R (D a)). intros a b Ha Hb. unfold dK, dV in *. cbn [fst snd] in *.
    specialize (HD a b Ha Hb).
    rewrite (sumn_ext R cols _ (fun j => rcj R (rcj R (snd (fst (gs_right F cols rows (ctrans F M))) j a)
                                                    * snd (fst (gs_right F cols rows (ctrans F M))) j b))).
    + rewrite <- sumn_cj. unfold dU in HD. rewrite HD. destruct (Nat.eqb a b); [reflexivity|apply rcj_0].
    + intros j _. unfold ctrans, dU. rewrite rcj_mul. reflexivity.
Qed.

(* the weights vanish exactly on zero columns (linearly dependent input columns) *)
Lemma gs_weight_zero rows A b : dn rows A b = 0 <-> (forall i, i < rows -> Qn rows A b i = 0).
Proof.
  split; [apply dn_zero|]. intros H. unfold dn. apply ip_zero_l. exact H.
Qed.

End GSProofs.

(* ================================================================================================ *)
(* Part B: isometry up to a diagonal weight; unconditional theorems for the Gram-Schmidt kernel      *)
(* ================================================================================================ *)
Section DiagIso.
Variable R : CRing.

Lemma ucolsD_left_iso D dl dp k (U : mat R) :
  ucols_orthD R D (dl * dp) k U -> left_iso_D R dl dp k (site_u R dp U).
Proof.
  intros H. exists D. intros a b Ha Hb. unfold site_u. rewrite <- (H a b Ha Hb).
  rewrite (sumn_prod R dl dp (fun x => rmul R (rcj R (U x a)) (U x b))). reflexivity.
Qed.
Lemma vrowsD_right_iso D k dp dr (V : mat R) :
  vrows_orthD R D (dp * dr) k V -> right_iso_D R k dp dr (site_v R dr V).
Proof.
  intros H. exists D. intros a b Ha Hb. unfold site_v. rewrite <- (H a b Ha Hb).
  rewrite (sumn_prod R dp dr (fun y => rmul R (rcj R (V a y)) (V b y))). reflexivity.
Qed.

(* the weight-1 contract is the special case D = 1 *)
Lemma dec_iso_orth dec : dec_iso R dec -> dec_orth R dec.
Proof.
  intros Hi gi rows cols M. destruct (Hi gi rows cols M) as [HU HV]. split; exists (fun _ => r1 R); intros a b Ha Hb.
  - rewrite (HU a b Ha Hb). unfold delta. generalize (rth R); intros T. destruct (Nat.eqb a b); [apply (Rmul_1_l T)|].
    rewrite (Rmul_comm T). apply (ARmul_0_l (Rth_ARth (Eqsth _) (Eq_ext _ _ _) T)).
  - rewrite (HV a b Ha Hb). unfold delta. generalize (rth R); intros T. destruct (Nat.eqb a b); [apply (Rmul_1_l T)|].
    rewrite (Rmul_comm T). apply (ARmul_0_l (Rth_ARth (Eqsth _) (Eq_ext _ _ _) T)).
Qed.

(* sites away from the centre: Gram matrix diagonal (no square roots, no division in the statement) *)
Theorem cano_isometry_diag dec : dec_orth R dec ->
  forall ds (m m' : mp R) stop, wf R ds m -> entry_ok (m_st m) -> stop_ok (m_st m) stop ->
  canonicalise_mp R dec ds m stop = Some m' ->
  if to_right (m_st m)
  then prefixP R (left_iso_D R) (Z.to_nat (target (m_st m) stop)) 1 ds (m_chain m')
  else afterP R (right_iso_D R) (Z.to_nat (target (m_st m) stop)) 1 ds (m_chain m').
Proof.
  intros Hi ds m m' stop Hw He Hs H. destruct (to_right (m_st m)) eqn:Hd.
  - eapply cano_prefix_generic; try eassumption.
    intros. destruct (proj1 (Hi gi (dl * dp)%nat dr (mat_r R dp t))) as [D HD]. eapply ucolsD_left_iso. exact HD.
  - eapply cano_after_generic; try eassumption.
    intros. destruct (proj2 (Hi gi dm (dp * dr)%nat (mat_l R dr t))) as [D HD]. eapply vrowsD_right_iso. exact HD.
Qed.
End DiagIso.

(* unconditional: the kernel is a concrete executable function, nothing is assumed about it *)
Section GSUnconditional.
Variable F : CField.
Notation R := (fring F).

Theorem gs_cano_dense : forall ds (m : mp R) stop, entry_ok (m_st m) -> stop_ok (m_st m) stop ->
  exists m', canonicalise_mp R (gs_kernel F) ds m stop = Some m' /\ m_coeff m' = m_coeff m /\
             (forall s, cfg_ok ds s -> amp (m_chain m') s = amp (m_chain m) s) /\
             m_st m' = final_st (m_st m) stop.
Proof. exact (cano_dense R (gs_kernel F) (gs_kernel_factor F)). Qed.

Theorem gs_cano_isometry_diag : forall ds (m m' : mp R) stop, wf R ds m -> entry_ok (m_st m) -> stop_ok (m_st m) stop ->
  canonicalise_mp R (gs_kernel F) ds m stop = Some m' ->
  if to_right (m_st m)
  then prefixP R (left_iso_D R) (Z.to_nat (target (m_st m) stop)) 1 ds (m_chain m')
  else afterP R (right_iso_D R) (Z.to_nat (target (m_st m) stop)) 1 ds (m_chain m').
Proof. exact (cano_isometry_diag R (gs_kernel F) (gs_kernel_orth F)). Qed.

Theorem gs_dims_monotone : forall ds (m m' : mp R) stop, canonicalise_mp R (gs_kernel F) ds m stop = Some m' ->
  Forall2 le (dims R (m_chain m')) (dims R (m_chain m)).
Proof. exact (dims_monotone R (gs_kernel F) (gs_kernel_bound F)). Qed.

Theorem gs_two_sweeps_exact : forall ds (m m1 m2 : mp R), wf R ds m -> lastdim 1 (m_chain m) = 1 -> entry_ok (m_st m) ->
  canonicalise_mp R (gs_kernel F) ds m None = Some m1 -> canonicalise_mp R (gs_kernel F) ds m1 None = Some m2 ->
  forall j, S j < length ds ->
    nth j (dims R (m_chain m2)) 0 <= Nat.min (prod (firstn (S j) ds)) (prod (skipn (S j) ds)).
Proof. exact (two_sweeps_exact R (gs_kernel F) (gs_kernel_bound F)). Qed.
End GSUnconditional.

(* ================================================================================================ *)
(* Part C: quantum-number labels                                                                    *)
(* ================================================================================================ *)
Section LabelProofs.
Variable R : CRing.
Add Ring RL : (rth R).
Variable L : Type.
Variable ladd : L -> L -> L.
Hypothesis ladd_assoc : forall x y z, ladd (ladd x y) z = ladd x (ladd y z).
Hypothesis l_dec : forall x y : L, x = y \/ x <> y.
Variable tot : L.
Variable ldec : lkernel R L.
Hypothesis Hblock : ldec_ok R L ladd tot ldec.

Lemma nat_decode_div l dp p : p < dp -> ((l * dp + p) / dp = l)%nat.
Proof. intros H. symmetry. apply (Nat.div_unique _ _ _ p); [exact H|lia]. Qed.
Lemma nat_decode_mod l dp p : p < dp -> ((l * dp + p) mod dp = p)%nat.
Proof. intros H. symmetry. apply (Nat.mod_unique _ _ l); [exact H|lia]. Qed.

(* right-moving step on the two-site window: the old centre becomes a valid left site with the reported
   labels on its right bond, the neighbour becomes the valid centre *)
Lemma push_r_window gi dl dp dr dp2 dr2 ql sg qr sg2 qr2 (t t2 : T3 R) :
  valid_centre R L ladd tot dl dp dr ql sg qr t ->
  valid_right R L ladd dr dp2 dr2 qr sg2 qr2 t2 ->
  let y := ldec gi true (dl * dp) dr (rowlab L ladd dp ql sg) qr (mat_r R dp t) in
  valid_left R L ladd dl dp (dK (fst y)) ql sg (snd y) (site_u R dp (dU (fst y))) /\
  valid_centre R L ladd tot (dK (fst y)) dp2 dr2 (snd y) sg2 qr2 (absorb_v R dr (dV (fst y)) t2).
Proof.
  intros Hc Hr y. pose proof (Hblock gi true (dl * dp) dr (rowlab L ladd dp ql sg) qr (mat_r R dp t)) as B.
  fold y in B. cbn [block_ok] in B. destruct B as [BU BV]. split.
  - intros l p a Hl Hp Ha Hne. unfold site_u. apply BU; [nia|exact Ha|].
    unfold rowlab. rewrite nat_decode_div, nat_decode_mod by exact Hp. exact Hne.
  - intros a p r Ha Hp Hr' Hne. unfold absorb_v. apply sumn_0. intros j Hj.
    destruct (l_dec (ladd (snd y a) (qr j)) tot) as [E1|N1].
    + destruct (l_dec (ladd (sg2 p) (qr2 r)) (qr j)) as [E2|N2].
      * exfalso. apply Hne. rewrite ladd_assoc, E2. exact E1.
      * rewrite (Hr j p r Hj Hp Hr' N2). ring.
    + rewrite (BV a j Ha Hj N1). ring.
Qed.

Lemma push_l_window gi dl1 dp1 dm dp dr ql1 sg1 qm sg qr (t1 t : T3 R) :
  valid_left R L ladd dl1 dp1 dm ql1 sg1 qm t1 ->
  valid_centre R L ladd tot dm dp dr qm sg qr t ->
  let y := ldec gi false dm (dp * dr) qm (collab L ladd dr sg qr) (mat_l R dr t) in
  valid_centre R L ladd tot dl1 dp1 (dK (fst y)) ql1 sg1 (snd y) (absorb_u R dm t1 (dU (fst y))) /\
  valid_right R L ladd (dK (fst y)) dp dr (snd y) sg qr (site_v R dr (dV (fst y))).
Proof.
  intros Hl Hc y. pose proof (Hblock gi false dm (dp * dr) qm (collab L ladd dr sg qr) (mat_l R dr t)) as B.
  fold y in B. cbn [block_ok] in B. destruct B as [BV BU]. split.
  - intros l p a Hl' Hp Ha Hne. unfold absorb_u. apply sumn_0. intros j Hj.
    destruct (l_dec (ladd (ql1 l) (sg1 p)) (qm j)) as [E1|N1].
    + rewrite (BU j a Hj Ha). ring. rewrite <- E1. exact Hne.
    + rewrite (Hl l p j Hl' Hp Hj N1). ring.
  - intros a p r Ha Hp Hr Hne. unfold site_v. apply BV; [exact Ha|nia|].
    unfold collab. rewrite nat_decode_div, nat_decode_mod by exact Hr. exact Hne.
Qed.

(* ---- chain level ---- *)
Lemma lpush_r_length i : forall gi dl ql ds sgs lts, length (lpush_r R L ladd ldec gi dl ql ds sgs lts i) = length lts.
Proof.
  induction i as [|i IH]; intros gi dl ql ds sgs lts.
  - destruct ds as [|dp ds]; [reflexivity|]. destruct sgs as [|sg sgs]; [reflexivity|].
    destruct lts as [|[[dr t] qr] [|[[dr2 t2] qr2] b]]; reflexivity.
  - destruct ds as [|dp ds]; [destruct lts; reflexivity|]. destruct sgs as [|sg sgs]; [destruct lts; reflexivity|].
    destruct lts as [|[[dr t] qr] lts]; [reflexivity|]. cbn [lpush_r length]. rewrite IH. reflexivity.
Qed.
Lemma lpush_l_length i : forall gi ql ds sgs lts, length (lpush_l R L ladd ldec gi ql ds sgs lts i) = length lts.
Proof.
  induction i as [|i IH]; intros gi ql ds sgs lts.
  - destruct ds as [|d0 [|dp ds]]; try (destruct lts; reflexivity);
      destruct sgs as [|s0 [|sg sgs]]; try (destruct lts; reflexivity);
      destruct lts as [|[[dm t1] qm] [|[[dr t] qr] b]]; reflexivity.
  - destruct ds as [|dp ds]; [destruct lts; reflexivity|]. destruct sgs as [|sg sgs]; [destruct lts; reflexivity|].
    destruct lts as [|[[dr t] qr] lts]; [reflexivity|]. cbn [lpush_l length]. rewrite IH. reflexivity.
Qed.

Lemma lpush_r_valid i : forall gi dl ql ds sgs lts,
  length ds = length lts -> length sgs = length lts -> i + 1 < length lts ->
  qn_valid R L ladd i tot dl ql ds sgs lts ->
  qn_valid R L ladd (S i) tot dl ql ds sgs (lpush_r R L ladd ldec gi dl ql ds sgs lts i).
Proof.
  induction i as [|i IH]; intros gi dl ql ds sgs lts H1 H2 Hi Hv.
  - destruct ds as [|dp [|dp2 ds]]; destruct sgs as [|sg [|sg2 sgs]]; destruct lts as [|[[dr t] qr] [|[[dr2 t2] qr2] b]];
      cbn in H1, H2, Hi; try lia.
    cbn [qn_valid all_right] in Hv. destruct Hv as [Hc [Hr Hrest]].
    cbn [lpush_r qn_valid]. destruct (push_r_window gi dl dp dr dp2 dr2 ql sg qr sg2 qr2 t t2 Hc Hr) as [A B].
    split; [exact A|]. split; [exact B|exact Hrest].
  - destruct ds as [|dp ds]; destruct sgs as [|sg sgs]; destruct lts as [|[[dr t] qr] lts]; cbn in H1, H2, Hi; try lia.
    cbn [qn_valid] in Hv. destruct Hv as [Hl Hv]. cbn [lpush_r]. cbn [qn_valid]. split; [exact Hl|].
    apply IH; [lia|lia|lia|exact Hv].
Qed.

Lemma lpush_l_valid i : forall gi dl ql ds sgs lts,
  length ds = length lts -> length sgs = length lts -> S i < length lts ->
  qn_valid R L ladd (S i) tot dl ql ds sgs lts ->
  qn_valid R L ladd i tot dl ql ds sgs (lpush_l R L ladd ldec gi ql ds sgs lts i).
Proof.
  induction i as [|i IH]; intros gi dl ql ds sgs lts H1 H2 Hi Hv.
  - destruct ds as [|dp1 [|dp ds]]; destruct sgs as [|sg1 [|sg sgs]]; destruct lts as [|[[dm t1] qm] [|[[dr t] qr] b]];
      cbn in H1, H2, Hi; try lia.
    cbn [qn_valid] in Hv. destruct Hv as [Hl [Hc Hrest]].
    cbn [lpush_l qn_valid all_right].
    destruct (push_l_window gi dl dp1 dm dp dr ql sg1 qm sg qr t1 t Hl Hc) as [A B].
    split; [exact A|]. split; [exact B|exact Hrest].
  - destruct ds as [|dp ds]; destruct sgs as [|sg sgs]; destruct lts as [|[[dr t] qr] lts]; cbn in H1, H2, Hi; try lia.
    cbn [qn_valid] in Hv. destruct Hv as [Hl Hv]. cbn [lpush_l]. cbn [qn_valid]. split; [exact Hl|].
    apply IH; [lia|lia|lia|exact Hv].
Qed.

Lemma lsweep_length dir ql ds sgs tr : forall lts, length (lsweep R L ladd ldec dir ql ds sgs tr lts) = length lts.
Proof.
  induction tr as [|i tr IH]; intros lts; [reflexivity|]. cbn [lsweep fold_left].
  fold (lsweep R L ladd ldec dir ql ds sgs tr (lpush R L ladd ldec dir ql ds sgs lts (Z.to_nat i))). rewrite IH.
  unfold lpush. destruct dir; [apply lpush_r_length|]. destruct (Z.to_nat i); [reflexivity|apply lpush_l_length].
Qed.
Lemma lsweep_snoc dir ql ds sgs tr i lts :
  lsweep R L ladd ldec dir ql ds sgs (tr ++ [i]) lts =
  lpush R L ladd ldec dir ql ds sgs (lsweep R L ladd ldec dir ql ds sgs tr lts) (Z.to_nat i).
Proof. unfold lsweep. rewrite fold_left_app. reflexivity. Qed.

Lemma lsweep_r_valid c : forall ql ds sgs lts, length ds = length lts -> length sgs = length lts -> c < length lts ->
  qn_valid R L ladd 0 tot 1 ql ds sgs lts ->
  qn_valid R L ladd c tot 1 ql ds sgs (lsweep R L ladd ldec true ql ds sgs (zup 0 c) lts).
Proof.
  induction c as [|c IH]; intros ql ds sgs lts H1 H2 Hc Hv; [exact Hv|].
  rewrite zup_snoc, lsweep_snoc. replace (Z.to_nat (0 + Z.of_nat c)) with c by lia.
  unfold lpush. apply lpush_r_valid; rewrite ?lsweep_length; try assumption; try lia.
  apply IH; try assumption. lia.
Qed.

Lemma lsweep_l_valid k : forall ql ds sgs lts, length ds = length lts -> length sgs = length lts -> k < length lts ->
  qn_valid R L ladd (length lts - 1) tot 1 ql ds sgs lts ->
  qn_valid R L ladd (length lts - 1 - k) tot 1 ql ds sgs
           (lsweep R L ladd ldec false ql ds sgs (zdown (Z.of_nat (length lts) - 1) k) lts).
Proof.
  induction k as [|k IH]; intros ql ds sgs lts H1 H2 Hk Hv.
  - cbn [zdown seq map lsweep fold_left]. rewrite Nat.sub_0_r. exact Hv.
  - rewrite zdown_snoc, lsweep_snoc.
    replace (Z.to_nat (Z.of_nat (length lts) - 1 - Z.of_nat k)) with (S (length lts - 1 - S k)) by lia.
    unfold lpush. apply lpush_l_valid; rewrite ?lsweep_length; try assumption; try lia.
    replace (S (length lts - 1 - S k)) with (length lts - 1 - k) by lia. apply IH; try assumption. lia.
Qed.

(* canonicalise (any stop index) keeps the labels valid: valid with the centre where qnidx says before,
   valid with the centre where the generated code puts qnidx afterwards *)
Theorem cano_preserves_qn_valid : forall s stop ql ds sgs lts tr s',
  length ds = length lts -> length sgs = length lts -> Z.of_nat (length lts) = site_num s ->
  entry_ok s -> stop_ok s stop ->
  canonicalise s stop = Some (tr, s') ->
  qn_valid R L ladd (Z.to_nat (qnidx s)) tot 1 ql ds sgs lts ->
  qn_valid R L ladd (Z.to_nat (qnidx s')) tot 1 ql ds sgs (lsweep R L ladd ldec (to_right s) ql ds sgs tr lts).
Proof.
  intros s stop ql ds sgs lts tr s' H1 H2 Hn He Hs Hc Hv.
  rewrite (canonicalise_sched_spec s stop He Hs) in Hc. inversion Hc; subst tr s'; clear Hc. cbn [qnidx].
  rewrite (iter_idx_list_entry s stop He Hs).
  assert (Ht : (0 <= target s stop <= site_num s - 1)%Z).
  { destruct He as [Ha Hb]. unfold target, far_end. destruct (to_right s); destruct stop as [k|]; cbn [stop_ok] in Hs; lia. }
  destruct He as [Ha Hb]. destruct (to_right s) eqn:Hd.
  - rewrite Hb in Hv. apply lsweep_r_valid; try assumption. lia.
  - rewrite Hb in Hv. rewrite <- Hn.
    replace (Z.to_nat (target s stop)) with (length lts - 1 - Z.to_nat (Z.of_nat (length lts) - 1 - target s stop)) by lia.
    apply lsweep_l_valid; try assumption; [lia|].
    replace (length lts - 1) with (Z.to_nat (site_num s - 1)) by lia. exact Hv.
Qed.

End LabelProofs.

(* truncation (compress) keeps the block contract: fewer columns *)
Lemma ltrunc_ok (R : CRing) (L : Type) ladd tot mt (ldec : lkernel R L) :
  ldec_ok R L ladd tot ldec -> ldec_ok R L ladd tot (ltrunc R L mt ldec).
Proof.
  intros H gi dir rows cols rl cl M. specialize (H gi dir rows cols rl cl M). unfold ltrunc. cbn [fst snd].
  destruct dir; cbn [block_ok] in *; unfold dK, dU, dV in *; cbn [fst snd] in *; destruct H as [A B]; split; intros;
    first [apply A|apply B]; try assumption; eapply Nat.lt_le_trans; try eassumption; apply Nat.le_min_r.
Qed.

(* ================================================================================================ *)
(* Part D: the rationals (canonical form, Leibniz equality) are a CField: executable instance        *)
(* ================================================================================================ *)
From Coq Require Import QArith Qcanon Lqa.
Close Scope Q_scope.

Definition QcRing : CRing.
Proof.
  refine {| car := Qc; r0 := 0%Qc; r1 := 1%Qc; radd := Qcplus; rmul := Qcmult; rsub := Qcminus; ropp := Qcopp;
            rcj := fun x => x; rth := Qcrt |}; intros; reflexivity.
Defined.

Lemma Qc_sq_nonneg (x : Qc) : (0 <= x * x)%Qc.
Proof.
  unfold Qcle. change (0 <= Qred (this x * this x))%Q. rewrite Qred_correct.
  destruct x as [[n d] Hc]. unfold Qle. cbn. nia.
Qed.

Lemma Qc_sum_zero (a b : Qc) : (0 <= a)%Qc -> (0 <= b)%Qc -> (a + b = 0)%Qc -> a = 0%Qc /\ b = 0%Qc.
Proof.
  intros Ha Hb H.
  assert (Ha' : (0 <= this a)%Q) by exact Ha.
  assert (Hb' : (0 <= this b)%Q) by exact Hb.
  assert (E : (this a + this b == 0)%Q).
  { rewrite <- (Qred_correct (this a + this b)). change (Qred (this a + this b)) with (this (a + b)%Qc). rewrite H. reflexivity. }
  assert (Z0 : (this 0%Qc == 0)%Q) by reflexivity.
  clear Ha Hb H. split; apply Qc_is_canon; rewrite Z0; [apply Qle_antisym; [|exact Ha']|apply Qle_antisym; [|exact Hb']]; lra.
Qed.

Lemma Qc_sq_zero (x : Qc) : (x * x = 0)%Qc -> x = 0%Qc.
Proof.
  intros H. destruct (Qcmult_integral _ _ H); assumption.
Qed.

Lemma Qc_sum_nonneg n (f : nat -> Qc) : (0 <= sumn (R := QcRing) n (fun i => (f i * f i)%Qc))%Qc.
Proof.
  induction n as [|n IH]; cbn [sumn]; [apply Qcle_refl|].
  change (radd QcRing) with Qcplus. 
  replace 0%Qc with (0 + 0)%Qc by reflexivity. apply Qcplus_le_compat; [exact IH|apply Qc_sq_nonneg].
Qed.

Lemma Qc_definite n (f : nat -> Qc) :
  sumn (R := QcRing) n (fun i => (f i * f i)%Qc) = 0%Qc -> forall i, (i < n)%nat -> f i = 0%Qc.
Proof.
  induction n as [|n IH]; intros H i Hi; [lia|]. cbn [sumn] in H. change (radd QcRing) with Qcplus in H.
  destruct (Qc_sum_zero _ _ (Qc_sum_nonneg n f) (Qc_sq_nonneg (f n)) H) as [H1 H2].
  destruct (Nat.eq_dec i n) as [->|Hne]; [apply Qc_sq_zero; exact H2|apply IH; [exact H1|lia]].
Qed.

Definition QcField : CField.
Proof.
  refine {| fring := QcRing; finv := Qcinv |}.
  - intros x Hx. apply Qcmult_inv_r. exact Hx.
  - intros x y. destruct (Qc_eq_dec x y); [left|right]; assumption.
  - intros n f H. apply (Qc_definite n f H).
Defined.

(* helpers for the Examples of Props/C04.v *)
Definition qz (z : Z) : Qc := Q2Qc (inject_Z z).
Definition qpair (x : Qc) : Z * Z := (Qnum (this x), Zpos (Qden (this x))).
Definition gram_right (dl dp dr : nat) (t : T3 QcRing) : list (list (Z * Z)) :=
  map (fun a => map (fun b => qpair (sumn (R := QcRing) dp (fun p => sumn (R := QcRing) dr (fun r => (t a p r * t b p r)%Qc))))
                    (seq 0 dl)) (seq 0 dl).
Definition gram_left (dl dp dr : nat) (t : T3 QcRing) : list (list (Z * Z)) :=
  map (fun a => map (fun b => qpair (sumn (R := QcRing) dl (fun l => sumn (R := QcRing) dp (fun p => (t l p a * t l p b)%Qc))))
                    (seq 0 dr)) (seq 0 dr).

(* a concrete labelled kernel over Z with integer labels meeting the block contract for every input:
   right-moving U = I (labels = row labels), V = M masked to the label-allowed entries; mirrored for left-moving *)
Definition mask_kernel (tot : Z) : lkernel ZRing Z := fun _ dir rows cols rl cl M =>
  if dir then ((rows, idm, fun a j => if Z.eqb (rl a + cl j) tot then M a j else 0%Z), rl)
  else ((cols, (fun i a => if Z.eqb (rl i + cl a) tot then M i a else 0%Z), idm), cl).
Lemma mask_kernel_ok tot : ldec_ok ZRing Z Z.add tot (mask_kernel tot).
Proof.
  intros gi dir rows cols rl cl M. unfold mask_kernel. destruct dir; cbn [block_ok fst snd]; unfold dK, dU, dV; cbn [fst snd]; split.
  - intros i a _ _ Hne. unfold idm. destruct (Nat.eqb_spec i a) as [->|]; [congruence|reflexivity].
  - intros a j _ _ Hne. destruct (Z.eqb_spec (rl a + cl j) tot); [congruence|reflexivity].
  - intros a j _ _ Hne. unfold idm. destruct (Nat.eqb_spec a j) as [->|]; [congruence|reflexivity].
  - intros i a _ _ Hne. destruct (Z.eqb_spec (rl i + cl a) tot); [congruence|reflexivity].
Qed.
