(* Proofs about the projector-splitting sweep structure of Model/PsSweep.v. *)
From Coq Require Import QArith Lqa List Arith Bool Lia.
Import ListNotations.
From RV Require Import Model.PsSweep.
Close Scope Q_scope.

(* ------------------------------------------------------------------ list helpers ------------ *)
Lemma flat_map_ext_in {A B} (f g : A -> list B) l : (forall x, In x l -> f x = g x) -> flat_map f l = flat_map g l.
Proof.
  induction l as [|x l IH]; intros Hfg; [reflexivity|]. cbn [flat_map].
  rewrite Hfg by (now left). rewrite IH by (intros; apply Hfg; now right). reflexivity.
Qed.

Lemma mirror_invol e : mirror (mirror e) = e.
Proof. destruct e; reflexivity. Qed.

Lemma map_mirror_invol l : map mirror (map mirror l) = l.
Proof. rewrite map_map. rewrite <- (map_id l) at 2. apply map_ext. apply mirror_invol. Qed.

(* ------------------------------------------------------------------ normal forms of the half sweeps *)
Section Half.
Variable h : Q.

Definition rblock (i : nat) : list psev := [Fwd i h; Split i i; Bwd i h; Absorb i (S i)].
Definition G (k : nat) : list psev := flat_map rblock (seq 0 k).

Fixpoint Ldef (k : nat) : list psev :=
  match k with
  | O => [Fwd 0 h]
  | S j => [Fwd (S j) h; Split (S j) j; Bwd j h; Absorb j j] ++ Ldef j
  end.

Lemma G_S k : G (S k) = G k ++ rblock k.
Proof. unfold G. rewrite seq_S, flat_map_app. cbn [flat_map plus]. now rewrite app_nil_r. Qed.

Lemma right_half n : 1 <= n -> ps1_half n true 0 h = G (n - 1) ++ [Fwd (n - 1) h].
Proof.
  intros Hn. unfold ps1_half, range_up. rewrite Nat.sub_0_r.
  replace n with (S (n - 1)) at 2 by lia. rewrite seq_S, flat_map_app. cbn [plus flat_map].
  rewrite app_nil_r. f_equal.
  - unfold G. apply flat_map_ext_in. intros i Hi. apply in_seq in Hi. unfold ps1_site.
    destruct (Nat.eqb_spec i (n - 1)); [lia|reflexivity].
  - unfold ps1_site. now rewrite Nat.eqb_refl.
Qed.

Lemma left_half n k : ps1_half n false k h = Ldef k.
Proof.
  unfold ps1_half, range_down. induction k as [|k IH].
  - reflexivity.
  - rewrite seq_S, rev_app_distr. cbn [plus rev app flat_map]. rewrite IH.
    unfold ps1_site. cbn [Nat.eqb]. replace (S k - 1) with k by lia. reflexivity.
Qed.

Lemma Ldef_mirror k : Ldef k = Fwd k h :: rev (map mirror (G k)).
Proof.
  induction k as [|k IH]; [reflexivity|].
  cbn [Ldef]. rewrite IH, G_S, map_app, rev_app_distr. reflexivity.
Qed.

(* second half sweep = time reversal of the first, Split and Absorb exchanged *)
Lemma ps1_symmetric_rl n : 1 <= n ->
  ps1_half n false (n - 1) h = rev (map mirror (ps1_half n true 0 h)).
Proof.
  intros Hn. rewrite left_half, (right_half n Hn), Ldef_mirror, map_app, rev_app_distr. reflexivity.
Qed.

Lemma ps1_symmetric_lr n : 1 <= n ->
  ps1_half n true 0 h = rev (map mirror (ps1_half n false (n - 1) h)).
Proof.
  intros Hn. rewrite (ps1_symmetric_rl n Hn), map_rev, rev_involutive, map_mirror_invol. reflexivity.
Qed.
End Half.

(* ------------------------------------------------------------------ totals ------------------ *)
Local Open Scope Q_scope.

Lemma fwd_total_app i a b : fwd_total i (a ++ b) == fwd_total i a + fwd_total i b.
Proof.
  induction a as [|e a IH]; [change (fwd_total i []) with 0; cbn [app]; lra|].
  cbn [app]. change (fwd_total i (e :: a ++ b)) with
    (match e with Fwd j h => if Nat.eqb i j then h + fwd_total i (a ++ b) else fwd_total i (a ++ b) | _ => fwd_total i (a ++ b) end).
  change (fwd_total i (e :: a)) with
    (match e with Fwd j h => if Nat.eqb i j then h + fwd_total i a else fwd_total i a | _ => fwd_total i a end).
  destruct e; try (rewrite IH; lra). destruct (Nat.eqb i site); rewrite IH; lra.
Qed.

Lemma bwd_total_app i a b : bwd_total i (a ++ b) == bwd_total i a + bwd_total i b.
Proof.
  induction a as [|e a IH]; [change (bwd_total i []) with 0; cbn [app]; lra|].
  cbn [app]. change (bwd_total i (e :: a ++ b)) with
    (match e with Bwd j h => if Nat.eqb i j then h + bwd_total i (a ++ b) else bwd_total i (a ++ b) | _ => bwd_total i (a ++ b) end).
  change (bwd_total i (e :: a)) with
    (match e with Bwd j h => if Nat.eqb i j then h + bwd_total i a else bwd_total i a | _ => bwd_total i a end).
  destruct e; try (rewrite IH; lra). destruct (Nat.eqb i bond); rewrite IH; lra.
Qed.

Section Totals.
Variable h : Q.

Lemma fwd_G i k : fwd_total i (G h k) == if Nat.ltb i k then h else 0.
Proof.
  induction k as [|k IH]; [reflexivity|].
  rewrite G_S, fwd_total_app, IH. unfold rblock. cbn [fwd_total fold_right].
  destruct (Nat.ltb_spec i k), (Nat.ltb_spec i (S k)), (Nat.eqb_spec i k); try lia; lra.
Qed.

Lemma bwd_G i k : bwd_total i (G h k) == if Nat.ltb i k then h else 0.
Proof.
  induction k as [|k IH]; [reflexivity|].
  rewrite G_S, bwd_total_app, IH. unfold rblock. cbn [bwd_total fold_right].
  destruct (Nat.ltb_spec i k), (Nat.ltb_spec i (S k)), (Nat.eqb_spec i k); try lia; lra.
Qed.

Lemma fwd_L i k : fwd_total i (Ldef h k) == if Nat.leb i k then h else 0.
Proof.
  induction k as [|k IH].
  - cbn. destruct i; cbn; lra.
  - cbn [Ldef]. rewrite fwd_total_app, IH. cbn [fwd_total fold_right].
    destruct (Nat.leb_spec i k), (Nat.leb_spec i (S k)), (Nat.eqb_spec i (S k)); try lia; lra.
Qed.

Lemma bwd_L i k : bwd_total i (Ldef h k) == if Nat.ltb i k then h else 0.
Proof.
  induction k as [|k IH].
  - cbn. lra.
  - cbn [Ldef]. rewrite bwd_total_app, IH. cbn [bwd_total fold_right].
    destruct (Nat.ltb_spec i k), (Nat.ltb_spec i (S k)), (Nat.eqb_spec i k); try lia; lra.
Qed.
End Totals.

(* every site is evolved forward by dt in total and every bond backward by dt, for both regular
   starting gauges (right-canonical: to_right, centre 0; left-canonical: not to_right, centre n-1) *)
Lemma ps1_totals n dt (to_right : bool) : (1 <= n)%nat ->
  let q := if to_right then 0%nat else (n - 1)%nat in
  (forall i, (i < n)%nat -> fwd_total i (ps1_step n to_right q dt) == dt)
  /\ (forall b, (b < n - 1)%nat -> bwd_total b (ps1_step n to_right q dt) == dt)
  /\ (forall i, (n <= i)%nat -> fwd_total i (ps1_step n to_right q dt) == 0)
  /\ (forall b, (n - 1 <= b)%nat -> bwd_total b (ps1_step n to_right q dt) == 0).
Proof.
  intros Hn q. unfold ps1_step, switch_q. subst q.
  destruct to_right; cbn [negb];
    rewrite (right_half (dt / 2) n Hn), left_half; repeat split; intros i Hi;
    rewrite ?fwd_total_app, ?bwd_total_app, ?fwd_G, ?bwd_G, ?fwd_L, ?bwd_L; cbn [fwd_total bwd_total fold_right];
    destruct (Nat.ltb_spec i (n - 1)), (Nat.leb_spec i (n - 1)), (Nat.eqb_spec i (n - 1)); try lia; field.
Qed.

(* ------------------------------------------------------------------ centre ------------------ *)
Lemma centre_run_app c a b :
  centre_run c (a ++ b) = match centre_run c a with Some c' => centre_run c' b | None => None end.
Proof.
  revert c. induction a as [|e a IH]; intros c; [reflexivity|].
  cbn [app centre_run]. destruct (centre_step c e); [apply IH|reflexivity].
Qed.

Ltac cstep := repeat (first [rewrite Nat.eqb_refl | rewrite orb_true_r | progress cbn [andb orb Nat.eqb]]).

Lemma centre_G h k : centre_run (AtSite 0) (G h k) = Some (AtSite k).
Proof.
  induction k as [|k IH]; [reflexivity|].
  rewrite G_S, centre_run_app, IH. unfold rblock. cbn [centre_run centre_step].
  cstep. reflexivity.
Qed.

Lemma centre_L h k : centre_run (AtSite k) (Ldef h k) = Some (AtSite 0).
Proof.
  induction k as [|k IH]; [reflexivity|].
  cbn [Ldef app centre_run centre_step]. cstep. exact IH.
Qed.

(* every event happens with the orthogonality centre on the tensor it acts on, and the centre is
   back where it started after the two half sweeps *)
Lemma ps1_centre n dt (to_right : bool) : (1 <= n)%nat ->
  let q := if to_right then 0%nat else (n - 1)%nat in
  centre_run (AtSite q) (ps1_step n to_right q dt) = Some (AtSite q).
Proof.
  intros Hn q. unfold ps1_step, switch_q. subst q.
  destruct to_right; cbn [negb]; cbv iota; rewrite (right_half (dt / 2) n Hn), left_half, !centre_run_app.
  - rewrite centre_G. cbn [centre_run centre_step]. rewrite Nat.eqb_refl. apply centre_L.
  - rewrite centre_L. cbv beta iota. rewrite centre_run_app, centre_G. cbn [centre_run centre_step]. now rewrite Nat.eqb_refl.
Qed.

(* ------------------------------------------------------------------ conservation ------------ *)
(* any quantity conserved by every local event (norm: local propagators unitary, QR isometric;
   energy: local propagators generated by the effective operators) is conserved by the sweep *)
Lemma run_events_invariant {S X : Type} (app : psev -> S -> S) (I : S -> X) :
  (forall e s, I (app e s) = I s) -> forall tr s, I (run_events S app tr s) = I s.
Proof.
  intros Hinv. induction tr as [|e tr IH]; intros s; [reflexivity|].
  unfold run_events in *. cbn [fold_left]. rewrite IH. apply Hinv.
Qed.

(* only the events that occur in the sweep need to conserve it *)
Lemma run_events_invariant_in {S X : Type} (app : psev -> S -> S) (I : S -> X) tr :
  (forall e s, In e tr -> I (app e s) = I s) -> forall s, I (run_events S app tr s) = I s.
Proof.
  induction tr as [|e tr IH]; intros Hinv s; [reflexivity|].
  unfold run_events in *. cbn [fold_left]. rewrite IH by (intros; apply Hinv; now right). apply Hinv. now left.
Qed.

(* ------------------------------------------------------------------ two-site ---------------- *)
Section Half2.
Variable h : Q.
Definition rblock2 (i : nat) : list psev := [Fwd2 i h; Bwd1 (S i) h].
Definition G2 (k : nat) : list psev := flat_map rblock2 (seq 0 k).
Fixpoint L2def (k : nat) : list psev :=
  match k with O => [Fwd2 0 h] | S j => [Fwd2 (S j) h; Bwd1 (S j) h] ++ L2def j end.

Lemma G2_S k : G2 (S k) = G2 k ++ rblock2 k.
Proof. unfold G2. rewrite seq_S, flat_map_app. cbn [flat_map plus]. now rewrite app_nil_r. Qed.

Lemma right_half2 n : (2 <= n)%nat -> ps2_half n true 0 h = G2 (n - 2) ++ [Fwd2 (n - 2) h].
Proof.
  intros Hn. unfold ps2_half. rewrite Nat.sub_0_r.
  replace (n - 1)%nat with (S (n - 2)) by lia. rewrite seq_S, flat_map_app. cbn [plus flat_map].
  rewrite app_nil_r. f_equal.
  - unfold G2. apply flat_map_ext_in. intros i Hi. apply in_seq in Hi. unfold ps2_pair.
    destruct (Nat.eqb_spec i (n - 2)); [lia|reflexivity].
  - unfold ps2_pair. now rewrite Nat.eqb_refl.
Qed.

Lemma left_half2 n k : ps2_half n false (S k) h = L2def k.
Proof.
  unfold ps2_half. induction k as [|k IH].
  - reflexivity.
  - rewrite seq_S, rev_app_distr. cbn [plus rev app flat_map]. rewrite IH.
    unfold ps2_pair. cbn [Nat.eqb]. replace (S (S k) - 1)%nat with (S k) by lia.
    destruct k; reflexivity.
Qed.

Lemma L2def_rev k : L2def k = Fwd2 k h :: rev (G2 k).
Proof.
  induction k as [|k IH]; [reflexivity|].
  cbn [L2def]. rewrite IH, G2_S, rev_app_distr. reflexivity.
Qed.

Lemma ps2_symmetric_rl n : (2 <= n)%nat -> ps2_half n false (n - 1) h = rev (ps2_half n true 0 h).
Proof.
  intros Hn. replace (n - 1)%nat with (S (n - 2)) by lia.
  rewrite left_half2, (right_half2 n Hn), L2def_rev, rev_app_distr. reflexivity.
Qed.
End Half2.

(* ------------------------------------------------------------------ bond dimensions ---------- *)
Section DimsProofs.
Variable qr_rank : nat -> nat -> nat -> nat.
Hypothesis qr_le : forall i r c, (qr_rank i r c <= Nat.min r c)%nat.

Lemma dims_step_le p d e j : (dims_step qr_rank p d e j <= d j)%nat.
Proof.
  destruct e; cbn [dims_step]; try lia.
  destruct (Nat.eqb bond site); unfold upd.
  - destruct (Nat.eqb j (S site)) eqn:E; [|lia]. apply Nat.eqb_eq in E. subst j.
    pose proof (qr_le site (d site * p site) (d (S site))). lia.
  - destruct (Nat.eqb j site) eqn:E; [|lia]. apply Nat.eqb_eq in E. subst j.
    pose proof (qr_le site (p site * d (S site)) (d site)). lia.
Qed.

(* the one-site sweep never enlarges a bond: whatever limit the input obeys, the output obeys *)
Lemma ps1_dims_nonincreasing p : forall tr d j, (dims_run qr_rank p tr d j <= d j)%nat.
Proof.
  induction tr as [|e tr IH]; intros d j; [apply Nat.le_refl|].
  unfold dims_run in *. cbn [fold_left]. eapply Nat.le_trans; [apply IH|apply dims_step_le].
Qed.

Lemma ps1_dims_le_limit p (M : nat -> nat) tr d :
  (forall j, d j <= M j)%nat -> forall j, (dims_run qr_rank p tr d j <= M j)%nat.
Proof. intros Hd j. eapply Nat.le_trans; [apply ps1_dims_nonincreasing|apply Hd]. Qed.
End DimsProofs.
