(* C13 -- proofs about the heap model: frame theorem over all programs, prefactor folding, compressed_sum
   queue, generated entry table. *)
From Coq Require Import List Arith Bool Lia Ring ZArith.
Import ListNotations.
From RV Require Import Base.CRing Base.BigSum Model.Chain Proofs.ChainProofs Gen.EvolveEntry Model.Heap.

(* ================================================================== small facts *)
Lemma field_eqb_eq a b : field_eqb a b = true <-> a = b.
Proof. destruct a, b; cbn; split; intros H; try reflexivity; try discriminate. Qed.

Lemma fmem_In f l : fmem f l = true <-> In f l.
Proof.
  unfold fmem. rewrite existsb_exists. split.
  - intros [x [Hx He]]. apply field_eqb_eq in He. subst. exact Hx.
  - intros H. exists f. split; [exact H | apply field_eqb_eq; reflexivity].
Qed.

Lemma flocs_incl F lay l : In l (flocs F lay) -> In l (locs lay).
Proof.
  unfold flocs, locs. rewrite !in_map_iff. intros [x [Hx Hin]]. apply filter_In in Hin.
  exists x. tauto.
Qed.

Lemma in_locs lay l : In l (locs lay) <-> exists f, In (f, l) lay.
Proof.
  unfold locs. rewrite in_map_iff. split.
  - intros [[f l'] [He Hin]]. cbn in He. subst. exists f. exact Hin.
  - intros [f Hin]. exists (f, l). split; [reflexivity | exact Hin].
Qed.

Lemma is_target_true i n : is_target i n = true <-> i_target i = Some n.
Proof.
  unfold is_target. destruct (i_target i) as [t|].
  - rewrite Nat.eqb_eq. split; intros H; [subst; reflexivity | injection H; auto].
  - split; discriminate.
Qed.

Lemma is_arg_true i n : is_arg i n = true <-> In n (i_args i).
Proof.
  unfold is_arg. rewrite existsb_exists. split.
  - intros [x [Hx He]]. apply Nat.eqb_eq in He. subst. exact Hx.
  - intros H. exists n. split; [exact H | apply Nat.eqb_refl].
Qed.

Lemma targets_cons i p : targets (i :: p) = match i_target i with Some t => [t] | None => [] end ++ targets p.
Proof. reflexivity. Qed.

Lemma targets_app p q : targets (p ++ q) = targets p ++ targets q.
Proof. unfold targets. apply flat_map_app. Qed.

Lemma not_target_head i p n : ~ In n (targets (i :: p)) -> is_target i n = false /\ ~ In n (targets p).
Proof.
  rewrite targets_cons. intros H. split.
  - destruct (is_target i n) eqn:E; [|reflexivity]. apply is_target_true in E. rewrite E in H.
    exfalso. apply H. left. reflexivity.
  - intros Hin. apply H. apply in_or_app. right. exact Hin.
Qed.

(* ================================================================== frame *)
Section Frame.
Variables V D : Type.
Variable interp : list (field * V) -> D.
Variable Deq : D -> D -> Prop.
Hypothesis Deq_refl : forall x, Deq x x.
Hypothesis Deq_trans : forall x y z, Deq x y -> Deq y z -> Deq x z.

Notation den := (den interp).
Notation step := (step interp Deq).
Notation exec := (exec interp Deq).

(* the denotation is a function of the contents of the object's own locations *)
Lemma den_local (o : layout) (h h' : loc -> V) :
  (forall l, In l (locs o) -> h' l = h l) -> den o h' = den o h.
Proof.
  intros H. unfold Heap.den. f_equal. apply map_ext_in. intros [f l] Hin. cbn. f_equal. apply H.
  apply in_locs. exists f. exact Hin.
Qed.

(* an object that exists before the step is not the result of the step *)
Lemma live_not_result i (s s' : state V) n lay :
  step i s s' -> st_obj s n = Some lay -> i_res i <> Some n.
Proof.
  intros St Hn E. pose proof (sp_res _ _ _ _ _ _ _ St) as R. rewrite E in R. destruct R as [_ [R _]].
  rewrite R in Hn. discriminate.
Qed.

(* every non-result object after the step existed before, and its slots are old slots or fresh buffers *)
Lemma old_or_fresh i (s s' : state V) n lay' :
  step i s s' -> i_res i <> Some n -> st_obj s' n = Some lay' ->
  exists lay, st_obj s n = Some lay /\
    forall f l, In (f, l) lay' -> In (f, l) lay \/ (st_next s <= l /\ l < st_next s').
Proof.
  intros St Hr Hn. pose proof (sp_objs _ _ _ _ _ _ _ St n Hr) as O.
  destruct (st_obj s n) as [lay|] eqn:E.
  - destruct O as [lay'' [E' C]]. rewrite E' in Hn. injection Hn as ->. exists lay. split; [reflexivity|].
    intros f l Hin. destruct (is_target i n).
    + destruct (C f l Hin) as [H|[_ H]]; [left; exact H | right; exact H].
    + destruct (is_arg i n).
      * destruct C as [C _]. destruct (C f l Hin) as [H|[_ H]]; [left; exact H | right; exact H].
      * subst lay'. left. exact Hin.
  - rewrite O in Hn. discriminate.
Qed.

(* ---- one step: every object that is not the in-place target denotes the same afterwards *)
Lemma step_keeps i (s s' : state V) :
  wf s -> step i s s' ->
  forall n lay, st_obj s n = Some lay -> is_target i n = false ->
  exists lay', st_obj s' n = Some lay' /\ Deq (den lay' (st_heap s')) (den lay (st_heap s)).
Proof.
  intros W St n lay Hn Ht.
  pose proof (live_not_result _ _ _ _ _ St Hn) as Hr.
  pose proof (sp_objs _ _ _ _ _ _ _ St n Hr) as O. rewrite Hn, Ht in O.
  destruct O as [lay' [E C]]. exists lay'. split; [exact E|].
  destruct (is_arg i n) eqn:Ea.
  - destruct C as [_ C]. exact C.
  - subst lay'. rewrite (den_local lay (st_heap s) (st_heap s')); [apply Deq_refl|].
    intros l Hl.
    assert (Hlt : l < st_next s) by (eapply wf_alloc; eauto).
    destruct (sp_heap _ _ _ _ _ _ _ St l Hlt) as [[t [layt [Et [Ot Hin]]]] | [[a [laya [Ha [_ [Oa Hin]]]]] | H]].
    + apply (sp_shared_kept _ _ _ _ _ _ _ St). apply flocs_incl in Hin.
      assert (t <> n).
      { intros ->. apply is_target_true in Et. rewrite Et in Ht. discriminate. }
      eapply (wf_sep _ _ W t n); eauto.
    + apply (sp_shared_kept _ _ _ _ _ _ _ St). apply flocs_incl in Hin.
      assert (a <> n).
      { intros ->. apply is_arg_true in Ha. rewrite Ha in Ea. discriminate. }
      eapply (wf_sep _ _ W a n); eauto.
    + exact H.
Qed.

(* ---- one step preserves well-formedness (separation of distinct objects) *)
Lemma step_wf i (s s' : state V) : wf s -> step i s s' -> wf s'.
Proof.
  intros W St. constructor.
  - intros n lay' l Hn Hl. apply in_locs in Hl. destruct Hl as [f Hin].
    destruct (i_res i) as [r|] eqn:Er.
    + destruct (Nat.eq_dec r n) as [->|Hne].
      * destruct (sp_result _ _ _ _ _ _ _ St n lay' Er Hn f l Hin) as [[_ H]|[_ [_ [a [lay [_ [Oa Ha]]]]]]]; [exact H|].
        pose proof (sp_next _ _ _ _ _ _ _ St).
        assert (l < st_next s) by (eapply wf_alloc; eauto; apply in_locs; eauto). lia.
      * assert (Hr : i_res i <> Some n) by (rewrite Er; intros E; injection E; auto).
        destruct (old_or_fresh _ _ _ _ _ St Hr Hn) as [lay [Ho C]].
        pose proof (sp_next _ _ _ _ _ _ _ St).
        destruct (C f l Hin) as [H0|[_ H0]]; [|exact H0].
        assert (l < st_next s) by (eapply wf_alloc; eauto; apply in_locs; eauto). lia.
    + assert (Hr : i_res i <> Some n) by (rewrite Er; discriminate).
      destruct (old_or_fresh _ _ _ _ _ St Hr Hn) as [lay [Ho C]].
      pose proof (sp_next _ _ _ _ _ _ _ St).
      destruct (C f l Hin) as [H0|[_ H0]]; [|exact H0].
      assert (l < st_next s) by (eapply wf_alloc; eauto; apply in_locs; eauto). lia.
  - intros n1 n2 lay1 lay2 l Hne H1 H2 Hl1 Hl2.
    destruct (le_lt_dec (st_next s) l) as [Hge|Hlt].
    + exfalso. eapply (sp_fresh_sep _ _ _ _ _ _ _ St n1 n2); eauto.
    + (* an old buffer: in the result only when declared shared; in two old objects only when already shared *)
      assert (Old : forall n lay', st_obj s' n = Some lay' -> In l (locs lay') ->
                    In l (st_shared s') \/ exists lay, st_obj s n = Some lay /\ In l (locs lay)).
      { intros n lay' Hn Hl. apply in_locs in Hl. destruct Hl as [f Hin].
        destruct (i_res i) as [r|] eqn:Er.
        - destruct (Nat.eq_dec r n) as [->|Hne'].
          + destruct (sp_result _ _ _ _ _ _ _ St n lay' Er Hn f l Hin) as [[H _]|[_ [H _]]]; [lia | left; exact H].
          + assert (Hr : i_res i <> Some n) by (rewrite Er; intros E; injection E; auto).
            destruct (old_or_fresh _ _ _ _ _ St Hr Hn) as [lay [Ho C]].
            destruct (C f l Hin) as [H0|[H0 _]]; [|lia]. right. exists lay. split; [exact Ho|].
            apply in_locs. eauto.
        - assert (Hr : i_res i <> Some n) by (rewrite Er; discriminate).
          destruct (old_or_fresh _ _ _ _ _ St Hr Hn) as [lay [Ho C]].
          destruct (C f l Hin) as [H0|[H0 _]]; [|lia]. right. exists lay. split; [exact Ho|].
          apply in_locs. eauto. }
      destruct (Old n1 lay1 H1 Hl1) as [S1|[l1 [O1 I1]]]; [exact S1|].
      destruct (Old n2 lay2 H2 Hl2) as [S2|[l2 [O2 I2]]]; [exact S2|].
      apply (sp_shared_mono _ _ _ _ _ _ _ St). eapply (wf_sep _ _ W n1 n2); eauto.
Qed.

Lemma exec_wf p (s s' : state V) : wf s -> exec p s s' -> wf s'.
Proof. intros W E. induction E; [exact W|]. apply IHE. eapply step_wf; eauto. Qed.

Lemma exec_app p q (s s'' : state V) :
  exec (p ++ q) s s'' <-> exists s', exec p s s' /\ exec q s' s''.
Proof.
  revert s. induction p as [|i p IH]; intros s; cbn [app].
  - split; [intros H; exists s; split; [constructor | exact H] | intros [s' [H1 H2]]; inversion H1; subst; exact H2].
  - split.
    + intros H. inversion H; subst. apply IH in H5. destruct H5 as [s' [A B]].
      exists s'. split; [econstructor; eauto | exact B].
    + intros [s' [A B]]. inversion A; subst. econstructor; [eauto|]. apply IH. exists s'. split; assumption.
Qed.

(* ---- THE FRAME THEOREM: all programs, any length, any interleaving *)
Theorem frame p (s s' : state V) :
  wf s -> exec p s s' ->
  forall n lay, st_obj s n = Some lay -> ~ In n (targets p) ->
  exists lay', st_obj s' n = Some lay' /\ Deq (den lay' (st_heap s')) (den lay (st_heap s)).
Proof.
  intros W E. induction E as [s | i p s s1 s2 St E IH]; intros n lay Hn Hnt.
  - exists lay. split; [exact Hn | apply Deq_refl].
  - apply not_target_head in Hnt. destruct Hnt as [Ht Hp].
    destruct (step_keeps _ _ _ W St n lay Hn Ht) as [lay1 [H1 D1]].
    destruct (IH (step_wf _ _ _ W St) n lay1 H1 Hp) as [lay2 [H2 D2]].
    exists lay2. split; [exact H2 | eapply Deq_trans; eauto].
Qed.

(* "... as when it was created": any object that is live after a prefix p1 (in particular one created by the last
   instruction of p1) and is never an in-place target in the rest p2 *)
Theorem frame_from_creation p1 p2 (s0 s2 : state V) :
  wf s0 -> exec (p1 ++ p2) s0 s2 ->
  exists s1, exec p1 s0 s1 /\ wf s1 /\
    forall n lay, st_obj s1 n = Some lay -> ~ In n (targets p2) ->
    exists lay', st_obj s2 n = Some lay' /\ Deq (den lay' (st_heap s2)) (den lay (st_heap s1)).
Proof.
  intros W E. apply exec_app in E. destruct E as [s1 [E1 E2]].
  exists s1. split; [exact E1|]. pose proof (exec_wf _ _ _ W E1) as W1. split; [exact W1|].
  intros n lay Hn Hnt. eapply frame; eauto.
Qed.

(* mutating a result never changes the input it was derived from ... *)
Theorem mutate_result_keeps_input d p m (s s' : state V) a b lay :
  wf s -> i_res d = Some b -> In a (i_args d) -> i_target d = None ->
  i_target m = Some b -> a <> b -> ~ In a (targets p) ->
  exec (d :: p ++ [m]) s s' -> st_obj s a = Some lay ->
  exists lay', st_obj s' a = Some lay' /\ Deq (den lay' (st_heap s')) (den lay (st_heap s)).
Proof.
  intros W _ _ Td Tm Hab Hp E Ha. eapply frame; eauto.
  rewrite targets_cons, Td. cbn [app]. rewrite targets_app. intros Hin. apply in_app_or in Hin.
  destruct Hin as [Hin|Hin]; [exact (Hp Hin)|].
  rewrite targets_cons, Tm in Hin. cbn in Hin. destruct Hin as [Hin|[]]. exact (Hab (eq_sym Hin)).
Qed.

(* ... and vice versa: mutating the input never changes the result derived from it *)
Theorem mutate_input_keeps_result d p m (s s' : state V) a b :
  wf s -> i_res d = Some b -> In a (i_args d) ->
  i_target m = Some a -> a <> b -> ~ In b (targets p) ->
  exec (d :: p ++ [m]) s s' ->
  exists s1, step d s s1 /\
    forall layb, st_obj s1 b = Some layb ->
    exists lay', st_obj s' b = Some lay' /\ Deq (den lay' (st_heap s')) (den layb (st_heap s1)).
Proof.
  intros W _ _ Tm Hab Hp E. inversion E as [|? ? ? s1 ? St E']; subst.
  exists s1. split; [exact St|]. intros layb Hb. eapply frame; eauto.
  - eapply step_wf; eauto.
  - rewrite targets_app. intros Hin. apply in_app_or in Hin. destruct Hin as [Hin|Hin]; [exact (Hp Hin)|].
    rewrite targets_cons, Tm in Hin. cbn in Hin. destruct Hin as [Hin|[]]. exact (Hab Hin).
Qed.

Lemma wf_empty h : wf (empty_state h : state V).
Proof. constructor; cbn; intros; discriminate. Qed.

End Frame.

(* ================================================================== prefactor folding *)
Section FoldProofs.
Variable R : CRing.
Add Ring RRf : (rth R).
Notation "0" := (r0 R).
Notation "1" := (r1 R).
Infix "+" := (radd R).
Infix "*" := (rmul R).

Lemma chain3_scale_at c : forall (ts : list (nat * T3 R)) k s l r, k < length ts ->
  chain3 (scale_at (scale3 R c) k ts) s l r = c * chain3 ts s l r.
Proof.
  induction ts as [|[d t] ts IH]; intros k s l r Hk; [cbn in Hk; lia|].
  destruct k as [|k]; cbn [scale_at].
  - unfold scale3. apply chain3_scale_first.
  - destruct s as [|p s]; cbn [chain3]; [ring|].
    rewrite <- sumn_scale_l. apply sumn_ext. intros m _. rewrite IH by (cbn in Hk; lia). ring.
Qed.

Lemma chain4_scale_at c : forall (ts : list (nat * T4 R)) k su sd l r, k < length ts ->
  chain4 (scale_at (scale4 R c) k ts) su sd l r = c * chain4 ts su sd l r.
Proof.
  induction ts as [|[d t] ts IH]; intros k su sd l r Hk; [cbn in Hk; lia|].
  destruct k as [|k]; cbn [scale_at].
  - destruct su as [|pu su], sd as [|pd sd]; cbn [chain4]; try ring.
    unfold scale4. rewrite <- sumn_scale_l. apply sumn_ext. intros m _. ring.
  - destruct su as [|pu su], sd as [|pd sd]; cbn [chain4]; try ring.
    rewrite <- sumn_scale_l. apply sumn_ext. intros m _. rewrite IH by (cbn in Hk; lia). ring.
Qed.

(* Mps.add / Mps.distance: the tensors are rewritten, the prefactor is reset, the product is unchanged *)
Theorem fold_preserves_denotation k coeff (ts : list (nat * T3 R)) s : k < length ts ->
  den_state (fst (fold_state k coeff ts)) (snd (fold_state k coeff ts)) s = den_state coeff ts s.
Proof.
  intros Hk. unfold fold_state, den_state, amp. cbn [fst snd]. rewrite chain3_scale_at by exact Hk. ring.
Qed.

Theorem fold_preserves_denotation_oper k coeff (ts : list (nat * T4 R)) su sd : k < length ts ->
  den_oper (fst (fold_oper k coeff ts)) (snd (fold_oper k coeff ts)) su sd = den_oper coeff ts su sd.
Proof.
  intros Hk. unfold fold_oper, den_oper, opamp. cbn [fst snd]. rewrite chain4_scale_at by exact Hk. ring.
Qed.

(* folding both operands and then adding: the sum of the denotations is what it was *)
Corollary fold_both_sum k1 k2 c1 c2 (t1 t2 : list (nat * T3 R)) s : k1 < length t1 -> k2 < length t2 ->
  den_state (fst (fold_state k1 c1 t1)) (snd (fold_state k1 c1 t1)) s +
  den_state (fst (fold_state k2 c2 t2)) (snd (fold_state k2 c2 t2)) s = den_state c1 t1 s + den_state c2 t2 s.
Proof. intros H1 H2. rewrite !fold_preserves_denotation by assumption. reflexivity. Qed.

End FoldProofs.

(* ================================================================== compressed_sum queue *)
Lemma csum_loop_fresh batch : 2 <= batch -> forall fuel q,
  length q <= fuel -> (2 <= length q \/ q = [false]) ->
  exists ks, csum_loop fuel batch q = Some ([false], ks) /\ Forall (fun k => 2 <= k) ks.
Proof.
  intros Hb. induction fuel as [|f IH]; intros q Hlen Hq.
  - destruct q; cbn in Hlen; [|lia]. destruct Hq as [H|H]; [cbn in H; lia | discriminate].
  - destruct q as [|x [|y q]].
    + destruct Hq as [H|H]; [cbn in H; lia | discriminate].
    + destruct Hq as [H|H]; [cbn in H; lia|]. injection H as ->. exists []. split; [reflexivity | constructor].
    + set (q0 := x :: y :: q) in *.
      assert (Hl0 : 2 <= length q0) by (subst q0; cbn; lia).
      set (k := Nat.min batch (length q0)).
      assert (Hk : 2 <= k) by (subst k; lia).
      assert (Hkl : k <= length q0) by (subst k; lia).
      assert (Hs : length (skipn k q0) = length q0 - k) by apply skipn_length.
      destruct (IH (skipn k q0 ++ [false])) as [ks [E F]].
      * rewrite app_length, Hs. cbn [length]. lia.
      * destruct (skipn k q0) as [|z zs] eqn:Esk.
        -- right. reflexivity.
        -- left. rewrite app_length. cbn [length]. lia.
      * exists (k :: ks). split; [|constructor; assumption].
        change (csum_loop (S f) batch q0) with
          (match csum_loop f batch (skipn k q0 ++ [false]) with
           | Some (q', ks0) => Some (q', k :: ks0) | None => None end).
        rewrite E. reflexivity.
Qed.

(* the queue branch of compressed_sum: with at least two terms and batchsize >= 2 the loop terminates, the single
   remaining element is a sum made by _sum (never an element of the argument), and every _sum call gets >= 2 terms *)
Theorem csum_queue_fresh batch q : 2 <= batch -> 2 <= length q ->
  exists ks, csum_loop (length q) batch q = Some ([false], ks) /\ Forall (fun k => 2 <= k) ks.
Proof. intros Hb Hq. apply csum_loop_fresh; [exact Hb | lia | left; exact Hq]. Qed.

(* ================================================================== generated table *)
Theorem sig_ok_all : forallb sig_ok entries = true.
Proof. vm_compute. reflexivity. Qed.

Theorem sig_ok_each : forall e, In e entries -> sig_ok e = true.
Proof. apply forallb_forall. exact sig_ok_all. Qed.

Theorem table_complete_ok : table_complete = true.
Proof. vm_compute. reflexivity. Qed.

Definition benign (k : wkind) : Prop := k = WConfig \/ k = WGauge \/ k = WFold \/ k = WScaleIdentity.

(* what sig_ok means for a public entry point: it is a result-producing operation without declared sharing,
   its returned state is never the input object, and every recorded write to the input is a configuration
   store or a declared denotation-preserving rewrite -- in particular no value store, no destructive in-place
   method, no hand-over to an in-place helper, nothing the scanner did not understand *)
Theorem sig_ok_public_sound e : sig_ok e = true -> e_role e = Public ->
  ~ In OIn (e_ret e) /\ e_ret e <> [] /\ forall w, In w (e_writes e) -> benign (w_kind w).
Proof.
  unfold sig_ok. intros H Hr. rewrite Hr in H. destruct (op_of_fn (e_fn e)) as [[w o]|]; [|discriminate].
  repeat (apply andb_prop in H; destruct H as [H ?]).
  repeat split.
  - intros Hin. rewrite forallb_forall in H1. specialize (H1 _ Hin). discriminate.
  - intros E. rewrite E in H2. discriminate.
  - intros w0 Hin. rewrite forallb_forall in H0. specialize (H0 _ Hin). unfold write_allowed in H0.
    unfold benign. destruct (w_kind w0); try discriminate; tauto.
Qed.

Corollary public_entries_sound : forall e, In e entries -> e_role e = Public ->
  ~ In OIn (e_ret e) /\ e_ret e <> [] /\ forall w, In w (e_writes e) -> benign (w_kind w).
Proof. intros e Hin Hr. apply sig_ok_public_sound; [apply sig_ok_each; exact Hin | exact Hr]. Qed.

(* ================================================================== generated operation rows (Gen/OpEntries.v) *)
Theorem op_table_ok : forallb (fun wo => gen_ok (fst wo) (snd wo)) covered_ops = true.
Proof. vm_compute. reflexivity. Qed.

Theorem sig_tables_agree : forallb (fun wo => tables_agree (fst wo) (snd wo)) covered_ops = true.
Proof. vm_compute. reflexivity. Qed.

Theorem op_table_ok_each : forall w o, In (w, o) covered_ops -> gen_ok w o = true.
Proof. intros w o H. exact (proj1 (forallb_forall _ _) op_table_ok (w, o) H). Qed.

Lemma finter_self_eq a b : fsubset a b = true -> finter a b = a.
Proof.
  unfold fsubset, finter. intros H. induction a as [|f a IH]; [reflexivity|]. cbn in *.
  apply andb_prop in H. destruct H as [H1 H2]. rewrite H1. f_equal. apply IH. exact H2.
Qed.

(* on the unchanged tree the signature used for the observations IS the generated one *)
Theorem sig_tables_agree_each : forall w o, In (w, o) covered_ops ->
  exists g, gen_sig w o = Some g /\ sig_agree g (sig_of w o) = true /\
            s_rewrite (gsig_of w o) = s_rewrite g /\ s_write (gsig_of w o) = s_write g /\ s_share (gsig_of w o) = s_share g.
Proof.
  intros w o H. pose proof (proj1 (forallb_forall _ _) sig_tables_agree (w, o) H) as A. cbn [fst snd] in A.
  unfold tables_agree in A. unfold gsig_of. destruct (gen_sig w o) as [g|]; [|discriminate].
  exists g. split; [reflexivity|]. split; [exact A|].
  unfold sig_agree, fset_eqb in A.
  apply andb_prop in A. destruct A as [A C]. apply andb_prop in A. destruct A as [A B].
  apply andb_prop in A. destruct A as [A _]. apply andb_prop in B. destruct B as [B _].
  apply andb_prop in C. destruct C as [C _].
  cbn [s_rewrite s_write s_share]. repeat split; apply finter_self_eq; assumption.
Qed.

(* no in-place container update of any in-place method touches a field that some operation hands on to its result *)
Theorem inplace_writes_avoid_shared : inplace_ok Chain = true /\ inplace_ok Tree = true.
Proof. split; vm_compute; reflexivity. Qed.

(* what gen_ok means for one generated row of an operand of a covered operation *)
Theorem gen_ok_operand_sound w o fn v p r : gen_ok w o = true -> In (fn, v, p, Operand) (op_rows w o) ->
  find_row (fn, v, p, Operand) = Some r ->
  (forall x, In x (o_writes r) -> benign (pw_kind x)) /\
  (s_cat (sig_of w o) = Derive -> o_ret_is_param r = false).
Proof.
  unfold gen_ok. intros H Hin Hr. apply andb_prop in H. destruct H as [_ H].
  rewrite forallb_forall in H. specialize (H _ Hin). rewrite Hr in H. cbn [is_operand] in H.
  apply andb_prop in H. destruct H as [H1 H2]. split.
  - intros x Hx. rewrite forallb_forall in H1. specialize (H1 _ Hx). unfold benign.
    destruct (pw_kind x); try discriminate; tauto.
  - intros Hc. rewrite Hc in H2. cbn in H2. destruct (o_ret_is_param r); [discriminate | reflexivity].
Qed.

(* observed effects inside a signature: the consequences used by the harness *)
Lemma within_sig_sound o : within_sig o = true ->
  ob_value_changed o = false /\ ob_bystander o = false /\ ob_cross o = false /\
  (forall f, In f (ob_share o) -> In f (s_share (gsig_of (ob_world o) (ob_op o)))) /\
  (forall f, In f (ob_arg_rw o) -> In f (s_rewrite (gsig_of (ob_world o) (ob_op o)))).
Proof.
  unfold within_sig. intros H. repeat (apply andb_prop in H; destruct H as [H ?]).
  repeat split; try (apply negb_true_iff; assumption).
  - intros f Hin. unfold fsubset in H3. rewrite forallb_forall in H3. apply fmem_In. apply H3. exact Hin.
  - intros f Hin. unfold fsubset in H. rewrite forallb_forall in H. apply fmem_In. apply H. exact Hin.
Qed.

(* ================================================================== a concrete execution (non-vacuity)
   contents are integers, an object denotes the product of its site cells and its prefactor cell.
   a := new [2;3]*5 ; b := a.copy() ; b.scale(7, inplace) (slot rebound to a fresh buffer) ;
   c := a.add(b) with the prefactor of a folded into its first site in place (2*5, prefactor 1). *)
Module Example.
Local Open Scope Z_scope.
Definition zinterp (sl : list (field * Z)) : Z :=
  fold_right (fun fv acc => match fst fv with FSite | FCoeff => snd fv * acc | _ => acc end) 1 sl.
Definition la : layout := [(FSite, 0%nat); (FSite, 1%nat); (FCoeff, 2%nat)].
Definition lb : layout := [(FSite, 3%nat); (FSite, 4%nat); (FCoeff, 5%nat)].
Definition lb' : layout := [(FSite, 6%nat); (FSite, 4%nat); (FCoeff, 5%nat)].
Definition lc : layout := [(FSite, 7%nat); (FSite, 8%nat); (FCoeff, 9%nat)].
Definition hp (c : list Z) : loc -> Z := fun l => nth l c 0.
Definition ob (xs : list layout) : oid -> option layout := fun n => nth_error xs n.
Definition s0 : state Z := empty_state (fun _ => 0).
Definition s1 : state Z := mkSt (hp [2; 3; 5]) (ob [la]) 3%nat [].
Definition s2 : state Z := mkSt (hp [2; 3; 5; 2; 3; 5]) (ob [la; lb]) 6%nat [].
Definition s3 : state Z := mkSt (hp [2; 3; 5; 2; 3; 5; 14]) (ob [la; lb']) 7%nat [].
Definition s4 : state Z := mkSt (hp [10; 3; 1; 2; 3; 5; 14; 1; 1; 240]) (ob [la; lb'; lc]) 10%nat [].
Definition i1 := mkI Chain New [] (Some 0%nat).
Definition i2 := mkI Chain Copy [0%nat] (Some 1%nat).
Definition i3 := mkI Chain ScaleIn [1%nat] None.
Definition i4 := mkI Chain Add [0%nat; 1%nat] (Some 2%nat).
Definition prog := [i1; i2; i3; i4].

Ltac cases n := destruct n as [|[|[|[|n]]]].
Ltac cases_l l := do 11 (try (destruct l as [|l])).
Ltac in_solve := cbn in *;
  repeat match goal with
         | H : _ \/ _ |- _ => destruct H
         | H : (_, _) = (_, _) |- _ => injection H as <- <-
         | H : False |- _ => contradiction
         | H : ?x = ?l |- _ => is_var l; subst l
         end; cbn in *; try lia; try congruence.
Ltac slots := intros ?f ?l ?Hin; cbn in Hin;
  repeat (destruct Hin as [Hin|Hin]; [injection Hin as <- <-; first [left; cbn; tauto | right; cbn; repeat split; lia] |]);
  try contradiction.

Lemma st1 : step zinterp eq i1 s0 s1.
Proof.
  constructor; cbn.
  - intros a [].
  - repeat split; discriminate.
  - lia.
  - intros n Hn. cases n; cbn; try reflexivity. exfalso. apply Hn. reflexivity.
  - intros l Hl. lia.
  - intros l [].
  - intros l [].
  - intros r layr E Hr f l Hin. injection E as <-. cbn in Hr. injection Hr as <-.
    left. in_solve.
  - intros n1 n2 l1 l2 l Hne H1 H2 Hl I1 I2. cases n1; cases n2; cbn in *; try discriminate; congruence.
Qed.

Lemma st2 : step zinterp eq i2 s1 s2.
Proof.
  constructor; cbn.
  - intros a [<-|[]]. discriminate.
  - repeat split; discriminate.
  - lia.
  - intros n Hn. cases n; cbn; try reflexivity.
    + exists la. split; [reflexivity|]. split; [slots | reflexivity].
    + exfalso. apply Hn. reflexivity.
  - intros l Hl. right. right. cases_l l; cbn; try reflexivity; lia.
  - intros l [].
  - intros l [].
  - intros r layr E Hr f l Hin. injection E as <-. cbn in Hr. injection Hr as <-.
    left. in_solve.
  - intros n1 n2 l1 l2 l Hne H1 H2 Hl I1 I2.
    cases n1; cases n2; cbn in *; try discriminate; try congruence;
      injection H1 as <-; injection H2 as <-; in_solve.
Qed.

Lemma st3 : step zinterp eq i3 s2 s3.
Proof.
  constructor; cbn.
  - intros a [<-|[]]. discriminate.
  - discriminate.
  - lia.
  - intros n _. cases n; cbn; try reflexivity.
    + exists la. split; reflexivity.
    + exists lb'. split; [reflexivity | slots].
  - intros l Hl. right. right. cases_l l; cbn; try reflexivity; lia.
  - intros l [].
  - intros l [].
  - intros r layr E. discriminate.
  - intros n1 n2 l1 l2 l Hne H1 H2 Hl I1 I2.
    cases n1; cases n2; cbn in *; try discriminate; try congruence;
      injection H1 as <-; injection H2 as <-; in_solve.
Qed.

Lemma st4 : step zinterp eq i4 s3 s4.
Proof.
  constructor; cbn.
  - intros a [<-|[<-|[]]]; discriminate.
  - repeat split; discriminate.
  - lia.
  - intros n Hn. cases n; cbn; try reflexivity.
    + exists la. split; [reflexivity|]. split; [slots | reflexivity].
    + exists lb'. split; [reflexivity|]. split; [slots | reflexivity].
    + exfalso. apply Hn. reflexivity.
  - intros l Hl.
    cases_l l; cbn; try lia;
      first [ right; right; reflexivity
            | right; left; exists 0%nat, la; repeat split; cbn; tauto ].
  - intros l [].
  - intros l [].
  - intros r layr E Hr f l Hin. injection E as <-. cbn in Hr. injection Hr as <-.
    left. in_solve.
  - intros n1 n2 l1 l2 l Hne H1 H2 Hl I1 I2.
    cases n1; cases n2; cbn in *; try discriminate; try congruence;
      injection H1 as <-; injection H2 as <-; in_solve.
Qed.

Lemma run : exec zinterp eq prog s0 s4.
Proof. repeat (econstructor; [first [exact st1 | exact st2 | exact st3 | exact st4] |]). constructor. Qed.

(* the hypotheses of the frame theorem are met by a program that really mutates and really rewrites:
   b changed (30 -> 210), the contents of a's buffers changed (fold), a still denotes 30 *)
Lemma nonvacuous :
  wf s0 /\ exec zinterp eq prog s0 s4 /\ targets prog = [1%nat] /\
  den zinterp la (st_heap s1) = 30 /\ den zinterp la (st_heap s4) = 30 /\
  st_heap s4 0%nat <> st_heap s1 0%nat /\
  den zinterp lb (st_heap s2) = 30 /\ den zinterp lb' (st_heap s4) = 210.
Proof.
  split; [apply wf_empty|]. split; [exact run|]. repeat split; try reflexivity. cbn. discriminate.
Qed.

(* an aliasing successor is NOT a step: a "copy" whose result keeps the operand's site buffer (sharing is not
   declared for Copy) violates the signature *)
Definition s2_alias : state Z := mkSt (hp [2; 3; 5; 2; 3; 5]) (ob [la; [(FSite, 0%nat); (FSite, 4%nat); (FCoeff, 5%nat)]]) 6%nat [].
Lemma aliasing_copy_is_no_step : ~ step zinterp eq i2 s1 s2_alias.
Proof.
  intros St.
  destruct (sp_result _ _ _ _ _ _ _ St 1%nat [(FSite, 0%nat); (FSite, 4%nat); (FCoeff, 5%nat)] eq_refl eq_refl FSite 0%nat)
    as [[H _]|[H _]]; [left; reflexivity | cbn in H; lia | cbn in H; discriminate].
Qed.
End Example.
