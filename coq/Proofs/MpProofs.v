(* Dense semantics of the chain operations of Model/Mp.v (any commutative ring with involution, all chain
   lengths, all bond dimensions).  None of the statements mentions qnidx / to_right / canonical form: the
   tensor part of every operation is gauge independent.                                                    *)
From Coq Require Import Ring List Arith Lia Bool.
Import ListNotations.
From RV Require Import Base.CRing Base.BigSum Model.Chain Proofs.ChainProofs Model.Mp.

Section MpProofs.
Variable R : CRing.
Add Ring RR : (rth R).
Notation zero := (r0 R).
Notation one := (r1 R).
Notation "x *r y" := (rmul R x y) (at level 40, left associativity).
Notation "x +r y" := (radd R x y) (at level 50, left associativity).
Notation "x -r y" := (rsub R x y) (at level 50, left associativity).
Notation T3 := (T3 R).
Notation T4 := (T4 R).

(* ------------------------------------------------------------------ generic helpers *)
Lemma sumn_delta_chain d (f : nat -> R) (s : list nat) r : (r < d)%nat ->
  sumn d (fun m => f m *r @chain3 R [] s m r) = f r *r @chain3 R [] s r r.
Proof.
  intros Hr. destruct s as [|p s]; cbn [chain3].
  - rewrite (sumn_ext R d _ (fun m => if Nat.eqb m r then f m else zero)).
    + rewrite (sumn_delta R d r f Hr). rewrite Nat.eqb_refl. ring.
    + intros m _. destruct (Nat.eqb m r); ring.
  - rewrite sumn_0. ring. intros; ring.
Qed.

Lemma chain3_nil_cons (ts : list (nat * T3)) l r : ts <> [] -> chain3 ts [] l r = zero.
Proof. destruct ts as [|[d t] ts]; [congruence|reflexivity]. Qed.

Lemma chain3_cons d (t : T3) ts p s l r :
  chain3 ((d, t) :: ts) (p :: s) l r = sumn d (fun m => t l p m *r chain3 ts s m r).
Proof. reflexivity. Qed.
Lemma chain4_cons d (t : T4) ts pu su pd sd l r :
  chain4 ((d, t) :: ts) (pu :: su) (pd :: sd) l r = sumn d (fun m => t l pu pd m *r chain4 ts su sd m r).
Proof. reflexivity. Qed.

Lemma sum_prod2 n m (u v : nat -> R) :
  sumn n u *r sumn m v = sumn n (fun i => sumn m (fun j => u i *r v j)).
Proof.
  rewrite <- sumn_scale_r. apply sumn_ext. intros i _. rewrite sumn_scale_l. reflexivity.
Qed.

Lemma sumn_pull2 k n m (g : nat -> nat -> nat -> R) :
  sumn k (fun a => sumn n (fun i => sumn m (fun j => g a i j))) =
  sumn n (fun i => sumn m (fun j => sumn k (fun a => g a i j))).
Proof.
  rewrite sumn_exchange. apply sumn_ext. intros i _. rewrite sumn_exchange. reflexivity.
Qed.

(* ------------------------------------------------------------------ sumcfg *)
Lemma sumcfg_ext dims (f g : list nat -> R) : (forall s, f s = g s) -> sumcfg dims f = sumcfg dims g.
Proof.
  revert f g. induction dims as [|d ds IH]; intros f g H; cbn [sumcfg]; [apply H|].
  apply sumn_ext. intros p _. apply IH. intros s. apply H.
Qed.

Lemma sumcfg_0 dims (f : list nat -> R) : (forall s, f s = zero) -> sumcfg dims f = zero.
Proof.
  revert f. induction dims as [|d ds IH]; intros f H; cbn [sumcfg]; [apply H|].
  apply sumn_0. intros p _. apply IH. intros s. apply H.
Qed.

Lemma sumcfg_add dims (f g : list nat -> R) :
  sumcfg dims (fun s => f s +r g s) = sumcfg dims f +r sumcfg dims g.
Proof.
  revert f g. induction dims as [|d ds IH]; intros f g; cbn [sumcfg]; [reflexivity|].
  rewrite <- sumn_add. apply sumn_ext. intros p _. apply IH.
Qed.

Lemma sumcfg_scale_l dims c (f : list nat -> R) : sumcfg dims (fun s => c *r f s) = c *r sumcfg dims f.
Proof.
  revert f. induction dims as [|d ds IH]; intros f; cbn [sumcfg]; [reflexivity|].
  rewrite <- sumn_scale_l. apply sumn_ext. intros p _. apply IH.
Qed.

Lemma sumcfg_sumn dims n (g : list nat -> nat -> R) :
  sumcfg dims (fun s => sumn n (fun i => g s i)) = sumn n (fun i => sumcfg dims (fun s => g s i)).
Proof.
  revert g. induction dims as [|d ds IH]; intros g; cbn [sumcfg]; [reflexivity|].
  rewrite sumn_exchange. apply sumn_ext. intros p _. apply IH.
Qed.

Lemma sumcfg_cj dims (f : list nat -> R) : rcj R (sumcfg dims f) = sumcfg dims (fun s => rcj R (f s)).
Proof.
  revert f. induction dims as [|d ds IH]; intros f; cbn [sumcfg]; [reflexivity|].
  rewrite sumn_cj. apply sumn_ext. intros p _. apply IH.
Qed.

Lemma sumcfg_exchange d1 d2 (f : list nat -> list nat -> R) :
  sumcfg d1 (fun s => sumcfg d2 (fun t => f s t)) = sumcfg d2 (fun t => sumcfg d1 (fun s => f s t)).
Proof.
  revert f. induction d1 as [|d ds IH]; intros f; cbn [sumcfg]; [reflexivity|].
  rewrite (sumn_ext R d _ (fun p => sumcfg d2 (fun t => sumcfg ds (fun s => f (p :: s) t)))) by (intros; apply IH).
  symmetry. rewrite <- sumcfg_sumn. reflexivity.
Qed.

(* ------------------------------------------------------------------ length / lastdim bookkeeping *)
Lemma lastdim_nonempty {A} dl dl' (c : list (nat * A)) : c <> [] -> lastdim dl c = lastdim dl' c.
Proof. destruct c as [|[d t] c]; [congruence|]. intros _. reflexivity. Qed.

(* ================================================================== add, rank 3 *)
Lemma add_rest3_chain : forall (a b : list (nat * T3)) dla dlb s l r,
  a <> [] -> length a = length b -> lastdim dla a = lastdim dlb b ->
  chain3 (add_rest3 dla a b) s l r =
  if l <? dla then chain3 a s l r else chain3 b s (l - dla) r.
Proof.
  induction a as [|[da ta] a' IH]; intros b dla dlb s l r Hne Hlen Hld; [congruence|].
  destruct b as [|[db tb] b']; [discriminate|].
  destruct a' as [|x a''].
  - (* last site *)
    destruct b' as [|y b'']; [|discriminate]. cbn [add_rest3].
    cbn [lastdim fold_left fst] in Hld. subst db.
    destruct s as [|p s]; cbn [chain3]; [destruct (l <? dla); reflexivity|].
    unfold tadd_last3. destruct (l <? dla); reflexivity.
  - destruct b' as [|y b'']; [discriminate|].
    cbn [add_rest3].
    destruct s as [|p s]; [cbn [chain3]; destruct (l <? dla); reflexivity|].
    rewrite !chain3_cons. rewrite sumn_split.
    rewrite !lastdim_cons in Hld.
    assert (Hrest : forall m, chain3 (add_rest3 da (x :: a'') (y :: b'')) s m r =
                              if m <? da then chain3 (x :: a'') s m r else chain3 (y :: b'') s (m - da) r).
    { intros m. apply (IH (y :: b'') da db); [discriminate | cbn in Hlen |- *; lia | exact Hld]. }
    rewrite (sumn_ext R da _ (fun m => tadd_mid3 R dla da ta tb l p m *r chain3 (x :: a'') s m r)).
    2:{ intros m Hm. rewrite Hrest. destruct (Nat.ltb_spec m da); [reflexivity|lia]. }
    rewrite (sumn_ext R db _ (fun m => tadd_mid3 R dla da ta tb l p (da + m) *r chain3 (y :: b'') s m r)).
    2:{ intros m Hm. rewrite Hrest. destruct (Nat.ltb_spec (da + m) da); [lia|].
        replace (da + m - da)%nat with m by lia. reflexivity. }
    unfold tadd_mid3. destruct (Nat.ltb_spec l dla).
    + rewrite (sumn_0 R db) by (intros i Hi; destruct (Nat.ltb_spec (da + i) da); [lia|ring]).
      rewrite (sumn_ext R da _ (fun m => ta l p m *r chain3 (x :: a'') s m r))
        by (intros m Hm; destruct (Nat.ltb_spec m da); [reflexivity|lia]).
      ring.
    + rewrite (sumn_0 R da) by (intros i Hi; destruct (Nat.ltb_spec i da); [ring|lia]).
      rewrite (sumn_ext R db _ (fun m => tb (l - dla)%nat p m *r chain3 (y :: b'') s m r)).
      2:{ intros m Hm. destruct (Nat.ltb_spec (da + m) da); [lia|].
          replace (da + m - da)%nat with m by lia. reflexivity. }
      ring.
Qed.

Theorem add3_chain (a b : list (nat * T3)) s l r :
  (2 <= length a)%nat -> length a = length b -> lastdim 1 a = lastdim 1 b ->
  chain3 (add3 a b) s l r = chain3 a s l r +r chain3 b s l r.
Proof.
  intros H2 Hlen Hld.
  destruct a as [|[da ta] a']; [cbn in H2; lia|].
  destruct b as [|[db tb] b']; [discriminate|].
  destruct a' as [|x a'']; [cbn in H2; lia|].
  destruct b' as [|y b'']; [discriminate|].
  cbn [add3]. destruct s as [|p s]; [cbn [chain3]; ring|].
  rewrite !chain3_cons. rewrite sumn_split. rewrite !lastdim_cons in Hld.
  assert (Hrest : forall m, chain3 (add_rest3 da (x :: a'') (y :: b'')) s m r =
                            if m <? da then chain3 (x :: a'') s m r else chain3 (y :: b'') s (m - da) r).
  { intros m. apply (add_rest3_chain (x :: a'') (y :: b'') da db); [discriminate | cbn in Hlen |- *; lia | exact Hld]. }
  f_equal.
  - apply sumn_ext. intros m Hm. rewrite Hrest. unfold tadd_first3.
    destruct (Nat.ltb_spec m da); [reflexivity|lia].
  - apply sumn_ext. intros m Hm. rewrite Hrest. unfold tadd_first3.
    destruct (Nat.ltb_spec (da + m) da); [lia|]. replace (da + m - da)%nat with m by lia. reflexivity.
Qed.

Lemma length_add_rest3 : forall (a b : list (nat * T3)) dl, length a = length b ->
  length (add_rest3 dl a b) = length a.
Proof.
  induction a as [|[da ta] a' IH]; intros b dl Hlen; [reflexivity|].
  destruct b as [|[db tb] b']; [discriminate|].
  destruct a' as [|x a'']; [reflexivity|].
  cbn [add_rest3 length]. f_equal. apply IH. cbn in Hlen |- *. lia.
Qed.

Lemma length_add3 (a b : list (nat * T3)) : length a = length b -> length (add3 a b) = length a.
Proof.
  intros Hlen. destruct a as [|[da ta] a']; [reflexivity|].
  destruct b as [|[db tb] b']; [discriminate|].
  destruct a' as [|x a'']; [reflexivity|].
  cbn [add3 length]. f_equal. apply length_add_rest3. cbn in Hlen |- *. lia.
Qed.

Theorem add3_amp (a b : list (nat * T3)) s :
  (2 <= length a)%nat -> length a = length b -> lastdim 1 a = lastdim 1 b ->
  amp (add3 a b) s = amp a s +r amp b s.
Proof. intros. unfold amp. apply add3_chain; assumption. Qed.

(* what the code does on a one-site chain: the vstack result has left dimension 2 and its amplitude
   (row 0) is that of the first operand alone -- add is not a sum there *)
Lemma add3_one_site da ta db tb s :
  amp (@add3 R [(da, ta)] [(db, tb)]) s = amp [(da, ta)] s.
Proof.
  unfold amp. cbn [add3]. destruct s as [|p s]; cbn [chain3]; [reflexivity|].
  apply sumn_ext. intros m _. unfold tadd_last3. cbn. reflexivity.
Qed.

(* ================================================================== rank 4 as a family of rank-3 chains *)
Lemma length_slice4 f i (ts : list (nat * T4)) : length (slice4 f i ts) = length ts.
Proof. revert i. induction ts as [|[d t] ts IH]; intros i; cbn [slice4 length]; [reflexivity|]. rewrite IH. reflexivity. Qed.

Lemma lastdim_slice4 f i dl (ts : list (nat * T4)) : lastdim dl (slice4 f i ts) = lastdim dl ts.
Proof.
  revert i dl. induction ts as [|[d t] ts IH]; intros i dl; cbn [slice4]; [reflexivity|].
  rewrite !lastdim_cons. apply IH.
Qed.

Lemma chain4_slice : forall (ts : list (nat * T4)) f i su sd l r,
  length sd = length ts -> (forall j, (j < length ts)%nat -> nth j sd O = f (i + j)%nat) ->
  chain4 ts su sd l r = chain3 (slice4 f i ts) su l r.
Proof.
  induction ts as [|[d t] ts IH]; intros f i su sd l r Hlen Hf.
  - destruct sd; [|discriminate]. destruct su; reflexivity.
  - destruct sd as [|pd sd]; [discriminate|]. cbn [slice4].
    destruct su as [|pu su]; [reflexivity|].
    rewrite chain4_cons, chain3_cons.
    assert (Hpd : f i = pd).
    { assert (H0 : (O < length ((d, t) :: ts))%nat) by (cbn; lia).
      pose proof (Hf O H0) as H1. rewrite Nat.add_0_r in H1. cbn in H1. symmetry. exact H1. }
    rewrite Hpd. apply sumn_ext. intros m _. f_equal.
    apply IH; [cbn in Hlen; lia|].
    intros j Hj. assert (H0 : (S j < length ((d, t) :: ts))%nat) by (cbn; lia).
    pose proof (Hf (S j) H0) as H1. cbn [nth] in H1. rewrite H1. f_equal. lia.
Qed.

Lemma chain4_slice0 (ts : list (nat * T4)) su sd l r : length sd = length ts ->
  chain4 ts su sd l r = chain3 (slice4 (fun j => nth j sd O) O ts) su l r.
Proof. intros H. apply chain4_slice; [exact H|]. intros j _. reflexivity. Qed.

Lemma slice4_add_rest f : forall (a b : list (nat * T4)) i dl,
  slice4 f i (add_rest4 dl a b) = add_rest3 dl (slice4 f i a) (slice4 f i b).
Proof.
  induction a as [|[da ta] a' IH]; intros b i dl; [reflexivity|].
  destruct b as [|[db tb] b']; [reflexivity|].
  destruct a' as [|[dx tx] a'']; [reflexivity|].
  cbn [add_rest4 slice4 add_rest3]. f_equal.
  apply (IH b' (S i) da).
Qed.

Lemma slice4_add f (a b : list (nat * T4)) i :
  slice4 f i (add4 a b) = add3 (slice4 f i a) (slice4 f i b).
Proof.
  destruct a as [|[da ta] a']; [reflexivity|].
  destruct b as [|[db tb] b']; [reflexivity|].
  destruct a' as [|[dx tx] a'']; [reflexivity|].
  cbn [add4 slice4 add3]. f_equal.
  apply (slice4_add_rest f ((dx, tx) :: a'') b' (S i) da).
Qed.

Theorem add4_chain (a b : list (nat * T4)) su sd l r :
  (2 <= length a)%nat -> length a = length b -> lastdim 1 a = lastdim 1 b -> length sd = length a ->
  chain4 (add4 a b) su sd l r = chain4 a su sd l r +r chain4 b su sd l r.
Proof.
  intros H2 Hlen Hld Hsd.
  assert (Hla : length (add4 a b) = length a).
  { rewrite <- (length_slice4 (fun j => nth j sd O) O), slice4_add, length_add3, length_slice4; [reflexivity|].
    rewrite !length_slice4. exact Hlen. }
  rewrite (chain4_slice0 (add4 a b)) by lia.
  rewrite (chain4_slice0 a) by lia. rewrite (chain4_slice0 b) by lia.
  rewrite slice4_add. apply add3_chain.
  - rewrite length_slice4. exact H2.
  - rewrite !length_slice4. exact Hlen.
  - rewrite !lastdim_slice4. exact Hld.
Qed.

Theorem add4_opamp (a b : list (nat * T4)) su sd :
  (2 <= length a)%nat -> length a = length b -> lastdim 1 a = lastdim 1 b -> length sd = length a ->
  opamp (add4 a b) su sd = opamp a su sd +r opamp b su sd.
Proof. intros. unfold opamp. apply add4_chain; assumption. Qed.

(* ================================================================== scale *)
Theorem scale3_chain : forall (ts : list (nat * T3)) k c s l r, (k < length ts)%nat ->
  chain3 (scale_at3 k c ts) s l r = c *r chain3 ts s l r.
Proof.
  induction ts as [|[d t] ts IH]; intros k c s l r Hk; [cbn in Hk; lia|].
  destruct k as [|k]; cbn [scale_at3].
  - destruct s as [|p s]; [cbn [chain3]; ring|]. rewrite !chain3_cons.
    rewrite <- sumn_scale_l. apply sumn_ext. intros m _. ring.
  - destruct s as [|p s]; [cbn [chain3]; ring|]. rewrite !chain3_cons.
    rewrite <- sumn_scale_l. apply sumn_ext. intros m _. rewrite IH by (cbn in Hk; lia). ring.
Qed.

Theorem scale4_chain : forall (ts : list (nat * T4)) k c su sd l r, (k < length ts)%nat ->
  chain4 (scale_at4 k c ts) su sd l r = c *r chain4 ts su sd l r.
Proof.
  induction ts as [|[d t] ts IH]; intros k c su sd l r Hk; [cbn in Hk; lia|].
  destruct k as [|k]; cbn [scale_at4].
  - destruct su as [|pu su]; [cbn [chain4]; ring|]. destruct sd as [|pd sd]; [cbn [chain4]; ring|].
    rewrite !chain4_cons. rewrite <- sumn_scale_l. apply sumn_ext. intros m _. ring.
  - destruct su as [|pu su]; [cbn [chain4]; ring|]. destruct sd as [|pd sd]; [cbn [chain4]; ring|].
    rewrite !chain4_cons. rewrite <- sumn_scale_l. apply sumn_ext. intros m _.
    rewrite IH by (cbn in Hk; lia). ring.
Qed.

Theorem scale3_amp (ts : list (nat * T3)) k c s : (k < length ts)%nat ->
  amp (scale_at3 k c ts) s = c *r amp ts s.
Proof. intros. unfold amp. apply scale3_chain. assumption. Qed.
Theorem scale3_gauge_independent (ts : list (nat * T3)) k k' c s :
  (k < length ts)%nat -> (k' < length ts)%nat -> amp (scale_at3 k c ts) s = amp (scale_at3 k' c ts) s.
Proof. intros H H'. rewrite !scale3_amp by assumption. reflexivity. Qed.
(* homogeneity: scaling twice = scaling by the product, for EVERY pair of ring elements (no threshold, no branch on c) *)
Theorem scale3_compose (ts : list (nat * T3)) k k' c c' s :
  (k < length ts)%nat -> (k' < length ts)%nat ->
  amp (scale_at3 k' c' (scale_at3 k c ts)) s = (c' *r c) *r amp ts s.
Proof.
  intros H H'. assert (Hl : length (scale_at3 k c ts) = length ts).
  { clear. revert k. induction ts as [|[d t] ts IH]; intros k; [reflexivity|]. destruct k; cbn [scale_at3 length]; [reflexivity|]. rewrite IH. reflexivity. }
  rewrite scale3_amp by (rewrite Hl; exact H'). rewrite scale3_amp by exact H. ring.
Qed.
Theorem scale4_opamp (ts : list (nat * T4)) k c su sd : (k < length ts)%nat ->
  opamp (scale_at4 k c ts) su sd = c *r opamp ts su sd.
Proof. intros. unfold opamp. apply scale4_chain. assumption. Qed.

(* ================================================================== conj, conj_trans *)
Theorem conj3_chain : forall (ts : list (nat * T3)) s l r,
  chain3 (conj3 ts) s l r = rcj R (chain3 ts s l r).
Proof.
  induction ts as [|[d t] ts IH]; intros s l r.
  - destruct s; cbn [conj3 map chain3]; [destruct (Nat.eqb l r); [rewrite rcj_1|rewrite rcj_0]; reflexivity|].
    rewrite rcj_0. reflexivity.
  - cbn [conj3 map fst snd]. fold (conj3 ts).
    destruct s as [|p s]; [cbn [chain3]; rewrite rcj_0; reflexivity|].
    rewrite !chain3_cons. rewrite sumn_cj. apply sumn_ext. intros m _.
    rewrite rcj_mul, IH. reflexivity.
Qed.

Theorem conj4_chain : forall (ts : list (nat * T4)) su sd l r,
  chain4 (conj4 ts) su sd l r = rcj R (chain4 ts su sd l r).
Proof.
  induction ts as [|[d t] ts IH]; intros su sd l r.
  - destruct su, sd; cbn [conj4 map chain4]; try (rewrite rcj_0; reflexivity).
    destruct (Nat.eqb l r); [rewrite rcj_1|rewrite rcj_0]; reflexivity.
  - cbn [conj4 map fst snd]. fold (conj4 ts).
    destruct su as [|pu su]; [cbn [chain4]; rewrite rcj_0; reflexivity|].
    destruct sd as [|pd sd]; [cbn [chain4]; rewrite rcj_0; reflexivity|].
    rewrite !chain4_cons. rewrite sumn_cj. apply sumn_ext. intros m _.
    rewrite rcj_mul, IH. reflexivity.
Qed.

Theorem conj_trans4_chain : forall (ts : list (nat * T4)) su sd l r,
  chain4 (conj_trans4 ts) su sd l r = rcj R (chain4 ts sd su l r).
Proof.
  induction ts as [|[d t] ts IH]; intros su sd l r.
  - destruct su, sd; cbn [conj_trans4 map chain4]; try (rewrite rcj_0; reflexivity).
    destruct (Nat.eqb l r); [rewrite rcj_1|rewrite rcj_0]; reflexivity.
  - cbn [conj_trans4 map fst snd]. fold (conj_trans4 ts).
    destruct su as [|pu su]; destruct sd as [|pd sd]; try (cbn [chain4]; rewrite rcj_0; reflexivity).
    rewrite !chain4_cons. rewrite sumn_cj. apply sumn_ext. intros m _.
    rewrite rcj_mul, IH. reflexivity.
Qed.

Theorem conj3_amp ts s : amp (conj3 ts) s = rcj R (@amp R ts s).
Proof. apply conj3_chain. Qed.
Theorem conj4_opamp ts su sd : opamp (conj4 ts) su sd = rcj R (@opamp R ts su sd).
Proof. apply conj4_chain. Qed.
Theorem conj_trans4_opamp ts su sd : opamp (conj_trans4 ts) su sd = rcj R (@opamp R ts sd su).
Proof. apply conj_trans4_chain. Qed.

(* ================================================================== MpDm.from_mps: the diagonal density operator of a state *)
Theorem from_mps4_chain : forall (ts : list (nat * T3)) su sd l r,
  chain4 (from_mps4 ts) su sd l r = if eqbl su sd then chain3 ts su l r else zero.
Proof.
  induction ts as [|[d t] ts IH]; intros su sd l r.
  - destruct su as [|pu su], sd as [|pd sd]; cbn [from_mps4 map chain4 chain3 eqbl]; try reflexivity.
    destruct (Nat.eqb pu pd && eqbl su sd); reflexivity.
  - cbn [from_mps4 map fst snd]. fold (from_mps4 ts).
    destruct su as [|pu su], sd as [|pd sd]; cbn [chain4 chain3 eqbl]; try reflexivity.
    destruct (Nat.eqb_spec pu pd) as [->|Hne]; cbn [andb].
    + destruct (eqbl su sd) eqn:E.
      * apply sumn_ext. intros m _. rewrite IH, E. reflexivity.
      * apply sumn_0. intros m _. rewrite IH, E. ring.
    + apply sumn_0. intros m _. ring.
Qed.

Theorem from_mps4_opamp (ts : list (nat * T3)) su sd :
  opamp (from_mps4 ts) su sd = if eqbl su sd then amp ts su else zero.
Proof. apply from_mps4_chain. Qed.

(* ================================================================== apply (operator on state) *)
Lemma divmod_lin lO d la : (la < d)%nat -> ((lO * d + la) / d = lO)%nat /\ ((lO * d + la) mod d = la)%nat.
Proof.
  intros H. split.
  - rewrite Nat.div_add_l by lia. rewrite Nat.div_small by lia. lia.
  - rewrite Nat.add_comm, Nat.mod_add by lia. apply Nat.mod_small. lia.
Qed.

Lemma eqb_lin lO rO d la ra : (la < d)%nat -> (ra < d)%nat ->
  Nat.eqb (lO * d + la) (rO * d + ra) = (Nat.eqb lO rO && Nat.eqb la ra)%bool.
Proof.
  intros Hl Hr.
  destruct (Nat.eqb_spec lO rO) as [->|Hne]; cbn [andb].
  - destruct (Nat.eqb_spec la ra) as [->|Hne2].
    + apply Nat.eqb_refl.
    + apply Nat.eqb_neq. lia.
  - apply Nat.eqb_neq. intros Heq.
    apply Hne. destruct (divmod_lin lO d la Hl) as [H1 _]. destruct (divmod_lin rO d ra Hr) as [H2 _].
    rewrite <- H1, <- H2, Heq. reflexivity.
Qed.

Theorem apply3_chain : forall (O : list (nat * T4)) (a : list (nat * T3)) dqs dla s' lO la rO ra,
  length O = length a -> length dqs = length a -> (la < dla)%nat -> (ra < lastdim dla a)%nat ->
  chain3 (apply3 dla dqs O a) s' (lO * dla + la) (rO * lastdim dla a + ra) =
  sumcfg dqs (fun s => chain4 O s' s lO rO *r chain3 a s la ra).
Proof.
  induction O as [|[dO o] O' IH]; intros a dqs dla s' lO la rO ra HlO Hlq Hla Hra.
  - destruct a; [|discriminate]. destruct dqs; [|discriminate].
    cbn [apply3 sumcfg lastdim fold_left] in *.
    destruct s' as [|p s'].
    + cbn [chain3 chain4]. rewrite eqb_lin by assumption.
      destruct (Nat.eqb lO rO), (Nat.eqb la ra); cbn [andb]; ring.
    + cbn [chain3 chain4]. ring.
  - destruct a as [|[da ta] a']; [discriminate|]. destruct dqs as [|dq dqs']; [discriminate|].
    cbn [apply3]. rewrite lastdim_cons in *.
    destruct s' as [|p' s''].
    + cbn [chain3]. symmetry. apply sumcfg_0. intros s. destruct s; cbn [chain4]; ring.
    + rewrite chain3_cons. cbn [sumcfg]. rewrite sumn_prod.
      transitivity (sumn dO (fun mO => sumn da (fun ma => sumn dq (fun q =>
         sumcfg dqs' (fun s => (o lO p' q mO *r chain4 O' s'' s mO rO) *r (ta la q ma *r chain3 a' s ma ra)))))).
      * apply sumn_ext; intros mO HmO. apply sumn_ext; intros ma Hma.
        rewrite (IH a' dqs' da s'' mO ma rO ra); [| cbn in HlO |- *; lia | cbn in Hlq |- *; lia | exact Hma | exact Hra].
        unfold tapply3. destruct (divmod_lin lO dla la Hla) as [-> ->]. destruct (divmod_lin mO da ma Hma) as [-> ->].
        rewrite <- sumn_scale_r. apply sumn_ext; intros q _.
        rewrite <- sumcfg_scale_l. apply sumcfg_ext; intros s. ring.
      * rewrite <- sumn_pull2. apply sumn_ext; intros q _.
        rewrite <- (sumn_ext R dO (fun mO => sumcfg dqs' (fun s => sumn da (fun ma =>
              (o lO p' q mO *r chain4 O' s'' s mO rO) *r (ta la q ma *r chain3 a' s ma ra)))))
          by (intros mO _; apply sumcfg_sumn).
        rewrite <- sumcfg_sumn. apply sumcfg_ext; intros s.
        rewrite chain4_cons, chain3_cons. rewrite sum_prod2. reflexivity.
Qed.

Theorem apply3_amp (W : list (nat * T4)) (a : list (nat * T3)) dqs s' :
  length W = length a -> length dqs = length a -> (0 < lastdim 1 a)%nat ->
  amp (apply3 1 dqs W a) s' = sumcfg dqs (fun s => opamp W s' s *r amp a s).
Proof.
  intros H1 H2 H3. unfold amp, opamp.
  pose proof (apply3_chain W a dqs 1 s' 0%nat 0%nat 0%nat 0%nat H1 H2 (Nat.lt_0_1) H3) as H.
  cbn [Nat.mul Nat.add] in H. exact H.
Qed.

(* homogeneity of the operator-state product in the state: O (c a) = c (O a) *)
Theorem apply3_homogeneous (W : list (nat * T4)) (a : list (nat * T3)) dqs k c s' :
  length W = length a -> length dqs = length a -> (0 < lastdim 1 a)%nat -> (k < length a)%nat ->
  amp (apply3 1 dqs W (scale_at3 k c a)) s' = c *r amp (apply3 1 dqs W a) s'.
Proof.
  intros H1 H2 H3 Hk.
  assert (Hl : length (scale_at3 k c a) = length a).
  { clear. revert k. induction a as [|[d t] a IH]; intros k; [reflexivity|]. destruct k; cbn [scale_at3 length]; [reflexivity|]. rewrite IH. reflexivity. }
  assert (Hd : lastdim 1 (scale_at3 k c a) = lastdim 1 a).
  { clear. generalize 1%nat. revert k. induction a as [|[d t] a IH]; intros k n; [reflexivity|]. destruct k; cbn [scale_at3]; [reflexivity|].
    rewrite !lastdim_cons. apply IH. }
  rewrite apply3_amp by (rewrite ?Hl, ?Hd; assumption). rewrite apply3_amp by assumption.
  rewrite <- sumcfg_scale_l. apply sumcfg_ext; intros s. rewrite scale3_amp by exact Hk. ring.
Qed.

(* operator on operator (Mpo.apply with an Mpo / MpDm argument, MpDm.apply): column by column *)
Lemma slice4_apply f : forall (O b : list (nat * T4)) dqs i dl,
  slice4 f i (apply4 dl dqs O b) = apply3 dl dqs O (slice4 f i b).
Proof.
  induction O as [|[dO o] O' IH]; intros b dqs i dl; [reflexivity|].
  destruct b as [|[db tb] b']; [reflexivity|].
  destruct dqs as [|dq dqs']; [reflexivity|].
  cbn [apply4 slice4 apply3]. f_equal. apply IH.
Qed.

Lemma length_apply3 : forall (O : list (nat * T4)) (a : list (nat * T3)) dqs dl,
  length O = length a -> length dqs = length a -> length (apply3 dl dqs O a) = length a.
Proof.
  induction O as [|[dO o] O' IH]; intros a dqs dl H1 H2; destruct a as [|[da ta] a']; try discriminate; [reflexivity|].
  destruct dqs as [|dq dqs']; [discriminate|]. cbn [apply3 length]. f_equal. apply IH; cbn in *; lia.
Qed.

Theorem apply4_chain (W b : list (nat * T4)) dqs dlb su sd lO lb rO rb :
  length W = length b -> length dqs = length b -> length sd = length b ->
  (lb < dlb)%nat -> (rb < lastdim dlb b)%nat ->
  chain4 (apply4 dlb dqs W b) su sd (lO * dlb + lb) (rO * lastdim dlb b + rb) =
  sumcfg dqs (fun s => chain4 W su s lO rO *r chain4 b s sd lb rb).
Proof.
  intros H1 H2 H3 Hl Hr.
  assert (Hlen : length (apply4 dlb dqs W b) = length b).
  { rewrite <- (length_slice4 (fun j => nth j sd 0%nat) 0%nat), slice4_apply, length_apply3, length_slice4;
      rewrite ?length_slice4; auto. }
  rewrite (chain4_slice0 (apply4 dlb dqs W b)) by lia.
  rewrite slice4_apply.
  rewrite <- (lastdim_slice4 (fun j => nth j sd 0%nat) 0%nat dlb b).
  rewrite apply3_chain; rewrite ?length_slice4, ?lastdim_slice4; auto.
  apply sumcfg_ext; intros s. rewrite (chain4_slice0 b) by lia. reflexivity.
Qed.

Theorem apply4_opamp (W b : list (nat * T4)) dqs su sd :
  length W = length b -> length dqs = length b -> length sd = length b -> (0 < lastdim 1 b)%nat ->
  opamp (apply4 1 dqs W b) su sd = sumcfg dqs (fun s => opamp W su s *r opamp b s sd).
Proof.
  intros H1 H2 H3 H4. unfold opamp.
  pose proof (apply4_chain W b dqs 1 su sd 0%nat 0%nat 0%nat 0%nat H1 H2 H3 (Nat.lt_0_1) H4) as H.
  cbn [Nat.mul Nat.add] in H. exact H.
Qed.

(* ================================================================== dot *)
Lemma of2_tab2 n m (f : nat -> nat -> R) i j : (i < n)%nat -> (j < m)%nat -> of2 (tab2 n m f) i j = f i j.
Proof.
  intros Hi Hj. unfold of2, tab2.
  rewrite (nth_indep _ [] ((fun i => map (fun j => f i j) (seq 0 m)) 0%nat)) by (rewrite map_length, seq_length; exact Hi).
  rewrite (map_nth (fun i => map (fun j => f i j) (seq 0 m))). rewrite seq_nth by exact Hi. cbn [Nat.add].
  rewrite (nth_indep _ zero ((fun j => f i j) 0%nat)) by (rewrite map_length, seq_length; exact Hj).
  rewrite (map_nth (fun j => f i j)). rewrite seq_nth by exact Hj. reflexivity.
Qed.

Lemma sumn_single d k (f : nat -> R) : (k < d)%nat -> (forall m, (m < d)%nat -> m <> k -> f m = zero) -> sumn d f = f k.
Proof.
  intros Hk H0. rewrite (sumn_ext R d f (fun m => if Nat.eqb m k then f m else zero)).
  - apply sumn_delta. exact Hk.
  - intros m Hm. destruct (Nat.eqb_spec m k); [reflexivity|]. apply H0; assumption.
Qed.

Lemma sumn2_scale_r n m (g : nat -> nat -> R) c :
  sumn n (fun i => sumn m (fun j => g i j)) *r c = sumn n (fun i => sumn m (fun j => g i j *r c)).
Proof. rewrite <- sumn_scale_r. apply sumn_ext; intros i _. rewrite <- sumn_scale_r. reflexivity. Qed.

Lemma sumn3_scale_r n m k (g : nat -> nat -> nat -> R) c :
  sumn n (fun i => sumn m (fun j => sumn k (fun l => g i j l))) *r c =
  sumn n (fun i => sumn m (fun j => sumn k (fun l => g i j l *r c))).
Proof. rewrite <- sumn_scale_r. apply sumn_ext; intros i _. apply sumn2_scale_r. Qed.

Lemma sumn4_scale_r n m k h (g : nat -> nat -> nat -> nat -> R) c :
  sumn n (fun i => sumn m (fun j => sumn k (fun l => sumn h (fun o => g i j l o)))) *r c =
  sumn n (fun i => sumn m (fun j => sumn k (fun l => sumn h (fun o => g i j l o *r c)))).
Proof. rewrite <- sumn_scale_r. apply sumn_ext; intros i _. apply sumn3_scale_r. Qed.

(* move the two innermost sums to the outside *)
Lemma sumn_pull3 dp da db dm dn (g : nat -> nat -> nat -> nat -> nat -> R) :
  sumn dp (fun p => sumn da (fun i => sumn db (fun x => sumn dm (fun m => sumn dn (fun n => g p i x m n))))) =
  sumn dm (fun m => sumn dn (fun n => sumn dp (fun p => sumn da (fun i => sumn db (fun x => g p i x m n))))).
Proof.
  transitivity (sumn dp (fun p => sumn da (fun i => sumn dm (fun m => sumn dn (fun n => sumn db (fun x => g p i x m n)))))).
  { apply sumn_ext; intros p _. apply sumn_ext; intros i _. apply (sumn_pull2 db dm dn (fun x m n => g p i x m n)). }
  transitivity (sumn dp (fun p => sumn dm (fun m => sumn dn (fun n => sumn da (fun i => sumn db (fun x => g p i x m n)))))).
  { apply sumn_ext; intros p _. apply (sumn_pull2 da dm dn (fun i m n => sumn db (fun x => g p i x m n))). }
  apply (sumn_pull2 dp dm dn (fun p m n => sumn da (fun i => sumn db (fun x => g p i x m n)))).
Qed.

Lemma sumn_pull4 dq dp da db dm dn (g : nat -> nat -> nat -> nat -> nat -> nat -> R) :
  sumn dq (fun q => sumn dp (fun p => sumn da (fun i => sumn db (fun x => sumn dm (fun m => sumn dn (fun n => g q p i x m n)))))) =
  sumn dm (fun m => sumn dn (fun n => sumn dq (fun q => sumn dp (fun p => sumn da (fun i => sumn db (fun x => g q p i x m n)))))).
Proof.
  transitivity (sumn dq (fun q => sumn dm (fun m => sumn dn (fun n => sumn dp (fun p => sumn da (fun i => sumn db (fun x => g q p i x m n))))))).
  { apply sumn_ext; intros q _. apply (sumn_pull3 dp da db dm dn (fun p i x m n => g q p i x m n)). }
  apply (sumn_pull2 dq dm dn (fun q m n => sumn dp (fun p => sumn da (fun i => sumn db (fun x => g q p i x m n))))).
Qed.

Lemma dot3_go_spec : forall (a b : list (nat * T3)) dps da db e,
  length a = length b -> length dps = length a -> (0 < lastdim da a)%nat -> (0 < lastdim db b)%nat ->
  dot3_go dps a b da db e =
  sumcfg dps (fun s => sumn da (fun i => sumn db (fun x => e i x *r chain3 a s i 0 *r chain3 b s x 0))).
Proof.
  induction a as [|[da' ta] a' IH]; intros b dps da db e Hlen Hlp Hda Hdb.
  - destruct b; [|discriminate]. destruct dps; [|discriminate].
    cbn [dot3_go sumcfg lastdim fold_left] in *.
    rewrite (sumn_single da 0%nat); [| exact Hda |].
    2:{ intros m _ Hm. apply sumn_0; intros x _. cbn [chain3]. destruct (Nat.eqb_spec m 0); [lia|ring]. }
    rewrite (sumn_single db 0%nat); [| exact Hdb |].
    2:{ intros m _ Hm. cbn [chain3]. destruct (Nat.eqb_spec m 0); [lia|ring]. }
    cbn [chain3 Nat.eqb]. ring.
  - destruct b as [|[db' tb] b']; [discriminate|]. destruct dps as [|dp dps']; [discriminate|].
    cbn [dot3_go]. rewrite lastdim_cons in Hda, Hdb.
    rewrite IH; [| cbn in Hlen |- *; lia | cbn in Hlp |- *; lia | exact Hda | exact Hdb].
    cbn [sumcfg]. rewrite <- sumcfg_sumn. apply sumcfg_ext; intros s.
    transitivity (sumn da' (fun m => sumn db' (fun n => sumn dp (fun p => sumn da (fun i => sumn db (fun x =>
        (e i x *r ta i p m *r tb x p n) *r (chain3 a' s m 0 *r chain3 b' s n 0))))))).
    + apply sumn_ext; intros m Hm. apply sumn_ext; intros n Hn.
      rewrite of2_tab2 by assumption.
      rewrite <- (sumn_pull2 dp da db (fun p i x => e i x *r tb x p n *r ta i p m)).
      replace (sumn dp (fun a0 => sumn da (fun i => sumn db (fun j => e i j *r tb j a0 n *r ta i a0 m))) *r
               chain3 a' s m 0 *r chain3 b' s n 0)
        with (sumn dp (fun a0 => sumn da (fun i => sumn db (fun j => e i j *r tb j a0 n *r ta i a0 m))) *r
              (chain3 a' s m 0 *r chain3 b' s n 0)) by ring.
      rewrite sumn3_scale_r.
      apply sumn_ext; intros p _. apply sumn_ext; intros i _. apply sumn_ext; intros x _. ring.
    + rewrite <- (sumn_pull3 dp da db da' db' (fun p i x m n =>
         (e i x *r ta i p m *r tb x p n) *r (chain3 a' s m 0 *r chain3 b' s n 0))).
      apply sumn_ext; intros p _. apply sumn_ext; intros i _. apply sumn_ext; intros x _.
      rewrite !chain3_cons.
      replace (e i x *r sumn da' (fun m => ta i p m *r chain3 a' s m 0) *r sumn db' (fun m => tb x p m *r chain3 b' s m 0))
        with (e i x *r (sumn da' (fun m => ta i p m *r chain3 a' s m 0) *r sumn db' (fun m => tb x p m *r chain3 b' s m 0))) by ring.
      rewrite sum_prod2. rewrite <- sumn_scale_l. apply sumn_ext; intros m _.
      rewrite <- sumn_scale_l. apply sumn_ext; intros n _. ring.
Qed.

Theorem dot3_spec (a b : list (nat * T3)) dps :
  length a = length b -> length dps = length a -> (0 < lastdim 1 a)%nat -> (0 < lastdim 1 b)%nat ->
  dot3 dps a b = sumcfg dps (fun s => amp a s *r amp b s).
Proof.
  intros H1 H2 H3 H4. unfold dot3. rewrite dot3_go_spec by assumption.
  apply sumcfg_ext; intros s. cbn [sumn]. unfold amp. ring.
Qed.

Lemma dot4_go_spec : forall (a b : list (nat * T4)) dus dds da db e,
  length a = length b -> length dus = length a -> length dds = length a ->
  (0 < lastdim da a)%nat -> (0 < lastdim db b)%nat ->
  dot4_go dus dds a b da db e =
  sumcfg dus (fun su => sumcfg dds (fun sd =>
    sumn da (fun i => sumn db (fun x => e i x *r chain4 a su sd i 0 *r chain4 b su sd x 0)))).
Proof.
  induction a as [|[da' ta] a' IH]; intros b dus dds da db e Hlen Hlu Hld Hda Hdb.
  - destruct b; [|discriminate]. destruct dus; [|discriminate]. destruct dds; [|discriminate].
    cbn [dot4_go sumcfg lastdim fold_left] in *.
    rewrite (sumn_single da 0%nat); [| exact Hda |].
    2:{ intros m _ Hm. apply sumn_0; intros x _. cbn [chain4]. destruct (Nat.eqb_spec m 0); [lia|ring]. }
    rewrite (sumn_single db 0%nat); [| exact Hdb |].
    2:{ intros m _ Hm. cbn [chain4]. destruct (Nat.eqb_spec m 0); [lia|ring]. }
    cbn [chain4 Nat.eqb]. ring.
  - destruct b as [|[db' tb] b']; [discriminate|]. destruct dus as [|du dus']; [discriminate|].
    destruct dds as [|dd dds']; [discriminate|].
    cbn [dot4_go]. rewrite lastdim_cons in Hda, Hdb.
    rewrite IH; [| cbn in Hlen |- *; lia | cbn in Hlu |- *; lia | cbn in Hld |- *; lia | exact Hda | exact Hdb].
    cbn [sumcfg]. rewrite <- sumcfg_sumn. apply sumcfg_ext; intros su.
    rewrite <- (sumn_ext R du (fun pu => sumcfg dds' (fun sd => sumn dd (fun pd =>
        sumn da (fun i => sumn db (fun x => e i x *r chain4 ((da', ta) :: a') (pu :: su) (pd :: sd) i 0
                                              *r chain4 ((db', tb) :: b') (pu :: su) (pd :: sd) x 0))))))
      by (intros pu _; apply sumcfg_sumn).
    rewrite <- sumcfg_sumn. apply sumcfg_ext; intros sd.
    transitivity (sumn da' (fun m => sumn db' (fun n => sumn du (fun pu => sumn dd (fun pd => sumn da (fun i => sumn db (fun x =>
        (e i x *r ta i pu pd m *r tb x pu pd n) *r (chain4 a' su sd m 0 *r chain4 b' su sd n 0)))))))).
    + apply sumn_ext; intros m Hm. apply sumn_ext; intros n Hn.
      rewrite of2_tab2 by assumption.
      transitivity (sumn du (fun pu => sumn dd (fun pd => sumn da (fun i => sumn db (fun x =>
                       e i x *r tb x pu pd n *r ta i pu pd m)))) *r (chain4 a' su sd m 0 *r chain4 b' su sd n 0)).
      * rewrite <- (sumn_pull2 du da db (fun pu i x => sumn dd (fun pd => e i x *r tb x pu pd n *r ta i pu pd m))).
        rewrite (sumn_ext R du _ (fun pu => sumn dd (fun pd => sumn da (fun i => sumn db (fun x =>
                       e i x *r tb x pu pd n *r ta i pu pd m)))))
          by (intros pu _; symmetry; apply (sumn_pull2 dd da db (fun pd i x => e i x *r tb x pu pd n *r ta i pu pd m))).
        ring.
      * rewrite sumn4_scale_r.
        apply sumn_ext; intros pu _. apply sumn_ext; intros pd _. apply sumn_ext; intros i _. apply sumn_ext; intros x _. ring.
    + rewrite <- (sumn_pull4 du dd da db da' db' (fun pu pd i x m n =>
         (e i x *r ta i pu pd m *r tb x pu pd n) *r (chain4 a' su sd m 0 *r chain4 b' su sd n 0))).
      apply sumn_ext; intros pu _. apply sumn_ext; intros pd _. apply sumn_ext; intros i _. apply sumn_ext; intros x _.
      rewrite !chain4_cons.
      replace (e i x *r sumn da' (fun m => ta i pu pd m *r chain4 a' su sd m 0) *r sumn db' (fun m => tb x pu pd m *r chain4 b' su sd m 0))
        with (e i x *r (sumn da' (fun m => ta i pu pd m *r chain4 a' su sd m 0) *r sumn db' (fun m => tb x pu pd m *r chain4 b' su sd m 0))) by ring.
      rewrite sum_prod2. rewrite <- sumn_scale_l. apply sumn_ext; intros m _.
      rewrite <- sumn_scale_l. apply sumn_ext; intros n _. ring.
Qed.

Theorem dot4_spec (a b : list (nat * T4)) dus dds :
  length a = length b -> length dus = length a -> length dds = length a ->
  (0 < lastdim 1 a)%nat -> (0 < lastdim 1 b)%nat ->
  dot4 dus dds a b = sumcfg dus (fun su => sumcfg dds (fun sd => opamp a su sd *r opamp b su sd)).
Proof.
  intros H1 H2 H2' H3 H4. unfold dot4. rewrite dot4_go_spec by assumption.
  apply sumcfg_ext; intros su. apply sumcfg_ext; intros sd. cbn [sumn]. unfold opamp. ring.
Qed.

(* ================================================================== distance^2 *)
(* the code's  l1 + l2 - l1dotl2 - conj(l1dotl2)  is  sum_s conj(a_s - b_s) (a_s - b_s), whatever the gauge *)
Theorem dist2_3_spec (a b : list (nat * T3)) dps :
  length a = length b -> length dps = length a -> (0 < lastdim 1 a)%nat -> (0 < lastdim 1 b)%nat ->
  dist2_3 dps a b = sumcfg dps (fun s => rcj R (amp a s -r amp b s) *r (amp a s -r amp b s)).
Proof.
  intros H1 H2 H3 H4. unfold dist2_3.
  assert (Hca : length (conj3 a) = length a) by (unfold conj3; apply map_length).
  assert (Hcb : length (conj3 b) = length b) by (unfold conj3; apply map_length).
  assert (Hla : lastdim 1 (conj3 a) = lastdim 1 a).
  { unfold conj3. clear. generalize 1%nat. induction a as [|[d t] a IH]; intros n; [reflexivity|]. cbn [map fst]. rewrite !lastdim_cons. apply IH. }
  assert (Hlb : lastdim 1 (conj3 b) = lastdim 1 b).
  { unfold conj3. clear. generalize 1%nat. induction b as [|[d t] b IH]; intros n; [reflexivity|]. cbn [map fst]. rewrite !lastdim_cons. apply IH. }
  rewrite !dot3_spec by (rewrite ?Hca, ?Hcb, ?Hla, ?Hlb; congruence || assumption).
  rewrite sumcfg_cj.
  replace (sumcfg dps (fun s => amp (conj3 a) s *r amp a s) +r sumcfg dps (fun s => amp (conj3 b) s *r amp b s)
           -r sumcfg dps (fun s => amp (conj3 a) s *r amp b s) -r sumcfg dps (fun s => rcj R (amp (conj3 a) s *r amp b s)))
    with (sumcfg dps (fun s => amp (conj3 a) s *r amp a s) +r sumcfg dps (fun s => amp (conj3 b) s *r amp b s)
           +r (ropp R one) *r sumcfg dps (fun s => amp (conj3 a) s *r amp b s) +r (ropp R one) *r sumcfg dps (fun s => rcj R (amp (conj3 a) s *r amp b s))) by ring.
  rewrite <- !sumcfg_scale_l, <- !sumcfg_add. apply sumcfg_ext; intros s.
  rewrite !conj3_amp. rewrite rcj_mul, rcj_invol.
  replace (amp a s -r amp b s) with (amp a s +r ropp R (amp b s)) by ring.
  rewrite rcj_add, rcj_opp. ring.
Qed.

(* the value is self-conjugate ("real"), so `.real` in the code loses nothing *)
Theorem dist2_3_real (a b : list (nat * T3)) dps :
  length a = length b -> length dps = length a -> (0 < lastdim 1 a)%nat -> (0 < lastdim 1 b)%nat ->
  rcj R (dist2_3 dps a b) = dist2_3 dps a b.
Proof.
  intros H1 H2 H3 H4. rewrite dist2_3_spec by assumption. rewrite sumcfg_cj.
  apply sumcfg_ext; intros s. rewrite rcj_mul, rcj_invol. ring.
Qed.

Theorem dist2_4_spec (a b : list (nat * T4)) dus dds :
  length a = length b -> length dus = length a -> length dds = length a ->
  (0 < lastdim 1 a)%nat -> (0 < lastdim 1 b)%nat ->
  dist2_4 dus dds a b =
  sumcfg dus (fun su => sumcfg dds (fun sd => rcj R (opamp a su sd -r opamp b su sd) *r (opamp a su sd -r opamp b su sd))).
Proof.
  intros H1 H2 H2' H3 H4. unfold dist2_4.
  assert (Hca : length (conj4 a) = length a) by (unfold conj4; apply map_length).
  assert (Hcb : length (conj4 b) = length b) by (unfold conj4; apply map_length).
  assert (Hla : lastdim 1 (conj4 a) = lastdim 1 a).
  { unfold conj4. clear. generalize 1%nat. induction a as [|[d t] a IH]; intros n; [reflexivity|]. cbn [map fst]. rewrite !lastdim_cons. apply IH. }
  assert (Hlb : lastdim 1 (conj4 b) = lastdim 1 b).
  { unfold conj4. clear. generalize 1%nat. induction b as [|[d t] b IH]; intros n; [reflexivity|]. cbn [map fst]. rewrite !lastdim_cons. apply IH. }
  rewrite !dot4_spec by (rewrite ?Hca, ?Hcb, ?Hla, ?Hlb; congruence || assumption).
  rewrite sumcfg_cj.
  rewrite (sumcfg_ext dus (fun s => rcj R (sumcfg dds (fun sd => opamp (conj4 a) s sd *r opamp b s sd)))
                          (fun s => sumcfg dds (fun sd => rcj R (opamp (conj4 a) s sd *r opamp b s sd))))
    by (intros; apply sumcfg_cj).
  set (A := sumcfg dus (fun su => sumcfg dds (fun sd => opamp (conj4 a) su sd *r opamp a su sd))).
  set (B := sumcfg dus (fun su => sumcfg dds (fun sd => opamp (conj4 b) su sd *r opamp b su sd))).
  set (C := sumcfg dus (fun su => sumcfg dds (fun sd => opamp (conj4 a) su sd *r opamp b su sd))).
  set (D := sumcfg dus (fun s => sumcfg dds (fun sd => rcj R (opamp (conj4 a) s sd *r opamp b s sd)))).
  replace (A +r B -r C -r D) with (A +r B +r (ropp R one) *r C +r (ropp R one) *r D) by ring.
  subst A B C D.
  rewrite <- !sumcfg_scale_l, <- !sumcfg_add. apply sumcfg_ext; intros su.
  rewrite <- !sumcfg_scale_l, <- !sumcfg_add. apply sumcfg_ext; intros sd.
  rewrite !conj4_opamp. rewrite rcj_mul, rcj_invol.
  replace (opamp a su sd -r opamp b su sd) with (opamp a su sd +r ropp R (opamp b su sd)) by ring.
  rewrite rcj_add, rcj_opp. ring.
Qed.

(* ================================================================== Mps prefactor folding *)
Lemma length_scale_at3 : forall (ts : list (nat * T3)) k c, length (scale_at3 k c ts) = length ts.
Proof. induction ts as [|[d t] ts IH]; intros k c; [reflexivity|]. destruct k; cbn [scale_at3 length]; [reflexivity|]. rewrite IH. reflexivity. Qed.
Lemma lastdim_scale_at3 : forall (ts : list (nat * T3)) k c dl, lastdim dl (scale_at3 k c ts) = lastdim dl ts.
Proof.
  induction ts as [|[d t] ts IH]; intros k c dl; [reflexivity|]. destruct k; cbn [scale_at3]; [reflexivity|].
  rewrite !lastdim_cons. apply IH.
Qed.
Lemma length_scale_at4 : forall (ts : list (nat * T4)) k c, length (scale_at4 k c ts) = length ts.
Proof. induction ts as [|[d t] ts IH]; intros k c; [reflexivity|]. destruct k; cbn [scale_at4 length]; [reflexivity|]. rewrite IH. reflexivity. Qed.
Lemma lastdim_scale_at4 : forall (ts : list (nat * T4)) k c dl, lastdim dl (scale_at4 k c ts) = lastdim dl ts.
Proof.
  induction ts as [|[d t] ts IH]; intros k c dl; [reflexivity|]. destruct k; cbn [scale_at4]; [reflexivity|].
  rewrite !lastdim_cons. apply IH.
Qed.

(* folding the prefactor into the tensors leaves  coeff * amplitude  unchanged *)
Theorem mps_fold3_spec (ts : list (nat * T3)) k c s : (k < length ts)%nat ->
  snd (mps_fold3 k c ts) *r amp (fst (mps_fold3 k c ts)) s = c *r amp ts s.
Proof. intros Hk. cbn [mps_fold3 fst snd]. rewrite scale3_amp by exact Hk. ring. Qed.

Theorem mps_add3_spec same ka kb ca cb (a b : list (nat * T3)) s :
  (same = true -> ca = cb) ->
  (2 <= length a)%nat -> length a = length b -> lastdim 1 a = lastdim 1 b ->
  (ka < length a)%nat -> (kb < length b)%nat ->
  snd (mps_add3 same ka kb ca cb a b) *r amp (fst (mps_add3 same ka kb ca cb a b)) s
  = ca *r amp a s +r cb *r amp b s.
Proof.
  intros Hs H2 Hlen Hld Hka Hkb. unfold mps_add3. destruct same; cbn [fst snd].
  - rewrite <- (Hs eq_refl). rewrite add3_amp by assumption. ring.
  - rewrite add3_amp; rewrite ?length_scale_at3, ?lastdim_scale_at3; try assumption.
    rewrite !scale3_amp by assumption. ring.
Qed.

Theorem mps_add4_spec same ka kb ca cb (a b : list (nat * T4)) su sd :
  (same = true -> ca = cb) ->
  (2 <= length a)%nat -> length a = length b -> lastdim 1 a = lastdim 1 b -> length sd = length a ->
  (ka < length a)%nat -> (kb < length b)%nat ->
  snd (mps_add4 same ka kb ca cb a b) *r opamp (fst (mps_add4 same ka kb ca cb a b)) su sd
  = ca *r opamp a su sd +r cb *r opamp b su sd.
Proof.
  intros Hs H2 Hlen Hld Hsd Hka Hkb. unfold mps_add4. destruct same; cbn [fst snd].
  - rewrite <- (Hs eq_refl). rewrite add4_opamp by assumption. ring.
  - rewrite add4_opamp; rewrite ?length_scale_at4, ?lastdim_scale_at4; try assumption.
    rewrite !scale4_opamp by assumption. ring.
Qed.

(* Mps.distance (squared): the distance of the represented vectors  ca * a  and  cb * b *)
Theorem mps_dist2_3_spec same dps ka kb ca cb (a b : list (nat * T3)) :
  (same = true -> ca = cb) ->
  length a = length b -> length dps = length a -> (0 < lastdim 1 a)%nat -> (0 < lastdim 1 b)%nat ->
  (ka < length a)%nat -> (kb < length b)%nat ->
  mps_dist2_3 same dps ka kb ca cb a b =
  sumcfg dps (fun s => rcj R (ca *r amp a s -r cb *r amp b s) *r (ca *r amp a s -r cb *r amp b s)).
Proof.
  intros Hs Hlen Hlp Hda Hdb Hka Hkb. unfold mps_dist2_3. destruct same.
  - rewrite <- (Hs eq_refl). rewrite dist2_3_spec by assumption.
    rewrite <- sumcfg_scale_l. apply sumcfg_ext; intros s.
    replace (ca *r amp a s -r ca *r amp b s) with (ca *r (amp a s -r amp b s)) by ring.
    rewrite rcj_mul. ring.
  - rewrite dist2_3_spec; rewrite ?length_scale_at3, ?lastdim_scale_at3; try assumption.
    rewrite rcj_1. rewrite <- sumcfg_scale_l. apply sumcfg_ext; intros s.
    rewrite !scale3_amp by assumption. ring.
Qed.

End MpProofs.
