(* C02 -- lemmas about Gen/Partition.v (generated) and the tree builders of Model/TreeTopo.v *)
From Coq Require Import ZArith List Arith Lia Bool Permutation.
Import ListNotations.
From RV Require Import Gen.Partition Model.TreeTopo.

(* ------------------------------------------------------------------ induction principles *)
Section TreeInd.
Variable P : tree -> Prop.
Hypothesis H : forall k ch, Forall P ch -> P (Node k ch).
Fixpoint tree_ind' (t : tree) : P t :=
  match t with
  | Node k ch => H k ch ((fix go (l : list tree) : Forall P l :=
      match l with [] => Forall_nil P | c :: l' => Forall_cons c (tree_ind' c) (go l') end) ch)
  end.
End TreeInd.

Section BTreeInd.
Context {A : Type}.
Variable P : btree A -> Prop.
Hypothesis H : forall bs ch, Forall P ch -> P (BNode bs ch).
Fixpoint btree_ind' (t : btree A) : P t :=
  match t with
  | BNode bs ch => H bs ch ((fix go (l : list (btree A)) : Forall P l :=
      match l with [] => Forall_nil P | c :: l' => Forall_cons c (btree_ind' c) (go l') end) ch)
  end.
End BTreeInd.

(* ------------------------------------------------------------------ approximate_partition *)
Lemma fold_append {A B : Type} (f : B -> A) (xs : list B) (acc : list A) :
  fold_left (fun ret i => ret ++ [f i]) xs acc = acc ++ map f xs.
Proof.
  revert acc. induction xs as [|x xs IH]; intros acc; cbn [fold_left map].
  - now rewrite app_nil_r.
  - rewrite IH, <- app_assoc. reflexivity.
Qed.

Lemma firstn_plus {A : Type} (l : list A) a c : firstn (a + c) l = firstn a l ++ firstn c (skipn a l).
Proof.
  revert l. induction a as [|a IH]; intros l; [reflexivity|].
  destruct l as [|x l]; cbn [Nat.add firstn skipn app].
  - now rewrite firstn_nil.
  - now rewrite IH.
Qed.

Local Open Scope Z_scope.

Lemma slice_step {A : Type} (l : list A) a b : 0 <= a <= b ->
  firstn (Z.to_nat a) l ++ py_slice l a (Z.min b (py_len l)) = firstn (Z.to_nat b) l.
Proof.
  intros Hab. unfold py_slice, py_clip, py_len. set (n := Z.of_nat (length l)).
  assert (Hn : 0 <= n) by (subst n; lia).
  destruct (Z.ltb_spec a 0) as [|_]; [lia|].
  destruct (Z.ltb_spec (Z.min b n) 0) as [|_]; [lia|].
  replace (Z.min (Z.min b n) n) with (Z.min b n) by lia.
  destruct (Z_le_gt_dec a n) as [Han|Han].
  - rewrite (Z.min_l a n) by lia.
    rewrite <- firstn_plus.
    replace (Z.to_nat a + Z.to_nat (Z.min b n - a))%nat with (Z.to_nat (Z.min b n)) by lia.
    destruct (Z_le_gt_dec b n).
    + now rewrite Z.min_l by lia.
    + rewrite Z.min_r by lia. rewrite !firstn_all2; [reflexivity| |]; subst n; lia.
  - rewrite (Z.min_r a n) by lia. rewrite (Z.min_r b n) by lia. rewrite Z.sub_diag. cbn [Z.to_nat firstn].
    rewrite app_nil_r. rewrite !firstn_all2; [reflexivity| |]; subst n; lia.
Qed.

Lemma concat_slices {A : Type} (l : list A) s k : 0 <= s ->
  concat (map (fun i => py_slice l (i * s) (Z.min ((i + 1) * s) (py_len l))) (map Z.of_nat (seq 0 k)))
  = firstn (Z.to_nat (Z.of_nat k * s)) l.
Proof.
  intros Hs. induction k as [|k IH].
  - reflexivity.
  - rewrite seq_S, !map_app, concat_app, IH. cbn [map concat Nat.add]. rewrite app_nil_r.
    rewrite slice_step by nia. f_equal. f_equal. lia.
Qed.

Lemma partition_as_map {A : Type} (l : list A) n :
  approximate_partition l n =
  let size := (py_len l - 1) / n + 1 in
  map (fun i => py_slice l (i * size) (Z.min ((i + 1) * size) (py_len l))) (py_range n).
Proof.
  unfold approximate_partition, py_floordiv. cbv zeta.
  exact (fold_append (fun i => py_slice l (i * ((py_len l - 1) / n + 1))
                                  (Z.min ((i + 1) * ((py_len l - 1) / n + 1)) (py_len l))) (py_range n) []).
Qed.

(* the groups returned by the generated function concatenate to the input, for every list (the empty
   one included: floor division gives size 0 and every group is empty) and every positive group count *)
Theorem partition_concat_gen : forall (A : Type) (l : list A) (n : Z),
  0 < n -> concat (approximate_partition l n) = l.
Proof.
  intros A l n Hn. rewrite partition_as_map. cbv zeta. unfold py_range.
  assert (Hs : 0 <= (py_len l - 1) / n + 1).
  { assert (-1 <= (py_len l - 1) / n); [|lia].
    apply Z.div_le_lower_bound; unfold py_len; lia. }
  rewrite concat_slices by exact Hs.
  apply firstn_all2. rewrite Z2Nat.id by lia.
  pose proof (Z.mul_succ_div_gt (py_len l - 1) n Hn) as H. unfold py_len in *. lia.
Qed.

Lemma partition_length {A : Type} (l : list A) n : length (approximate_partition l n) = Z.to_nat n.
Proof. rewrite partition_as_map. cbv zeta. unfold py_range. now rewrite !map_length, seq_length. Qed.

Lemma py_slice_length {A : Type} (l : list A) a b : 0 <= a -> 0 <= b -> (length (py_slice l a b) <= Z.to_nat (b - a))%nat.
Proof.
  intros Ha Hb. unfold py_slice, py_clip, py_len. set (n := Z.of_nat (length l)).
  destruct (Z.ltb_spec a 0); [lia|]. rewrite firstn_length.
  destruct (Z.ltb_spec b 0); lia.
Qed.

(* every group is strictly shorter than a list longer than the number of groups (>= 2 groups):
   this is what makes the builders' recursions terminate *)
Lemma partition_group_shorter {A : Type} (l g : list A) n :
  2 <= n -> 2 <= py_len l -> In g (approximate_partition l n) -> (length g < length l)%nat.
Proof.
  intros Hn Hl. rewrite partition_as_map. cbv zeta. unfold py_range. rewrite in_map_iff.
  intros [i [<- Hi]]. apply in_map_iff in Hi. destruct Hi as [j [<- Hj]]. apply in_seq in Hj.
  set (s := (py_len l - 1) / n + 1).
  assert (Hs : 0 <= s /\ s < py_len l).
  { unfold s. split.
    - assert (0 <= (py_len l - 1) / n); [apply Z.div_pos; lia|lia].
    - assert ((py_len l - 1) / n < py_len l - 1); [|lia].
      apply Z.div_lt; lia. }
  pose proof (py_slice_length l (Z.of_nat j * s) (Z.min ((Z.of_nat j + 1) * s) (py_len l))) as H.
  assert (Z.to_nat (Z.min ((Z.of_nat j + 1) * s) (py_len l) - Z.of_nat j * s) <= Z.to_nat s)%nat by nia.
  unfold py_len in *. specialize (H ltac:(nia) ltac:(nia)). lia.
Qed.

Local Close Scope Z_scope.

(* ------------------------------------------------------------------ reals / dummies bookkeeping *)
Section Named.
Context {A : Type}.
Implicit Types (a : A) (offs : list A) (t : btree A) (l : list A) (bs : list (basis A)) (ch els : list (btree A)).

Lemma reals_app (x y : list (basis A)) : reals (x ++ y) = reals x ++ reals y.
Proof. induction x as [|[a|i] x IH]; cbn [app reals]; [reflexivity| |]; now rewrite IH. Qed.
Lemma reals_map_Real l : reals (map Real l) = l.
Proof. induction l as [|a l IH]; cbn [map reals]; [reflexivity|now rewrite IH]. Qed.
Lemma dummies_app (x y : list (basis A)) : dummies (x ++ y) = dummies x ++ dummies y.
Proof. induction x as [|[a|i] x IH]; cbn [app dummies]; [reflexivity| |]; now rewrite IH. Qed.
Lemma dummies_map_Real l : dummies (map (@Real A) l) = [].
Proof. induction l as [|a l IH]; cbn [map dummies]; [reflexivity|exact IH]. Qed.

Lemma concat_flat_map {X Y : Type} (f : X -> list (list Y)) (xs : list X) :
  concat (flat_map f xs) = flat_map (fun x => concat (f x)) xs.
Proof. induction xs as [|x xs IH]; cbn [flat_map]; [reflexivity|]. now rewrite concat_app, IH. Qed.

Lemma reals_flat_map {X : Type} (f : X -> list (basis A)) (xs : list X) :
  reals (flat_map f xs) = flat_map (fun x => reals (f x)) xs.
Proof. induction xs as [|x xs IH]; cbn [flat_map]; [reflexivity|]. now rewrite reals_app, IH. Qed.
Lemma dummies_flat_map {X : Type} (f : X -> list (basis A)) (xs : list X) :
  dummies (flat_map f xs) = flat_map (fun x => dummies (f x)) xs.
Proof. induction xs as [|x xs IH]; cbn [flat_map]; [reflexivity|]. now rewrite dummies_app, IH. Qed.

Lemma real_basis_node bs ch : real_basis (BNode bs ch) = reals bs ++ flat_map real_basis ch.
Proof.
  unfold real_basis, basis_list. cbn [bpre concat]. rewrite reals_app, concat_flat_map, reals_flat_map. reflexivity.
Qed.
Lemma dummy_ids_node bs ch : dummy_ids (BNode bs ch) = dummies bs ++ flat_map dummy_ids ch.
Proof.
  unfold dummy_ids, basis_list. cbn [bpre concat]. rewrite dummies_app, concat_flat_map, dummies_flat_map. reflexivity.
Qed.
Lemma real_basis_post_node bs ch :
  real_basis_postorder (BNode bs ch) = flat_map real_basis_postorder ch ++ reals bs.
Proof.
  unfold real_basis_postorder, basis_list_postorder. cbn [bpost]. rewrite concat_app, reals_app, concat_flat_map, reals_flat_map.
  cbn [concat]. now rewrite app_nil_r.
Qed.

Lemma forallb_flat_map {X Y : Type} (p : Y -> bool) (f : X -> list Y) (xs : list X) :
  forallb p (flat_map f xs) = forallb (fun x => forallb p (f x)) xs.
Proof. induction xs as [|x xs IH]; cbn [flat_map forallb]; [reflexivity|]. now rewrite forallb_app, IH. Qed.

Lemma nodes_ok_node bs ch : nodes_ok (BNode bs ch) = node_okb bs && forallb nodes_ok ch.
Proof. unfold nodes_ok. cbn [bpre forallb]. now rewrite forallb_flat_map. Qed.

Lemma node_okb_reals l : l <> [] -> node_okb (map (@Real A) l) = true.
Proof.
  destruct l as [|a l]; [congruence|]. intros _. cbn [map node_okb].
  assert (E : forallb is_real (map (@Real A) l) = true) by (induction l; cbn; auto).
  cbn [forallb is_real andb]. exact E.
Qed.

Lemma real_basis_leaf l : real_basis (leaf l) = l.
Proof. unfold leaf. rewrite real_basis_node. cbn [flat_map]. now rewrite app_nil_r, reals_map_Real. Qed.
Lemma dummy_ids_leaf l : dummy_ids (leaf l) = [].
Proof. unfold leaf. rewrite dummy_ids_node. cbn [flat_map]. now rewrite app_nil_r, dummies_map_Real. Qed.
Lemma nodes_ok_leaf l : l <> [] -> nodes_ok (leaf l) = true.
Proof. intros H. unfold leaf. rewrite nodes_ok_node. cbn [forallb]. now rewrite node_okb_reals. Qed.

Lemma flat_map_ext_in {X Y : Type} (f g : X -> list Y) (xs : list X) :
  (forall x, In x xs -> f x = g x) -> flat_map f xs = flat_map g xs.
Proof.
  induction xs as [|x xs IH]; intros H; cbn [flat_map]; [reflexivity|].
  rewrite (H x (in_eq _ _)), IH; [reflexivity|]. intros; apply H; now right.
Qed.
Lemma flat_map_singleton {X : Type} (xs : list X) : flat_map (fun x => [x]) xs = xs.
Proof. induction xs as [|x xs IH]; cbn [flat_map app]; [reflexivity|now rewrite IH]. Qed.
Lemma flat_map_concat {X Y : Type} (f : X -> list Y) (xss : list (list X)) :
  flat_map (flat_map f) xss = flat_map f (concat xss).
Proof. induction xss as [|xs xss IH]; cbn [flat_map concat]; [reflexivity|]. now rewrite flat_map_app, IH. Qed.

(* ---------------------------------------------------------------- thread / thread_cat *)
Lemma thread_flat {X Y Z : Type} (f : X -> nat -> Y * nat) (h : Y -> list Z) (g : X -> list Z) (xs : list X) :
  (forall x c, In x xs -> h (fst (f x c)) = g x) ->
  forall c, flat_map h (fst (thread f xs c)) = flat_map g xs.
Proof.
  induction xs as [|x xs IH]; intros H c; cbn [thread]; [reflexivity|].
  specialize (H x c (in_eq _ _)) as Hx. destruct (f x c) as [y c1].
  specialize (IH (fun x' c' Hin => H x' c' (in_cons _ _ _ Hin)) c1).
  destruct (thread f xs c1) as [ys c2]. cbn [fst flat_map] in *. now rewrite Hx, IH.
Qed.
Lemma thread_forallb {X Y : Type} (f : X -> nat -> Y * nat) (p : Y -> bool) (xs : list X) :
  (forall x c, In x xs -> p (fst (f x c)) = true) ->
  forall c, forallb p (fst (thread f xs c)) = true.
Proof.
  induction xs as [|x xs IH]; intros H c; cbn [thread]; [reflexivity|].
  specialize (H x c (in_eq _ _)) as Hx. destruct (f x c) as [y c1].
  specialize (IH (fun x' c' Hin => H x' c' (in_cons _ _ _ Hin)) c1).
  destruct (thread f xs c1) as [ys c2]. cbn [fst forallb] in *. now rewrite Hx, IH.
Qed.
Lemma thread_cat_flat {X Y Z : Type} (f : X -> nat -> list Y * nat) (h : Y -> list Z) (g : X -> list Z) (xs : list X) :
  (forall x c, In x xs -> flat_map h (fst (f x c)) = g x) ->
  forall c, flat_map h (fst (thread_cat f xs c)) = flat_map g xs.
Proof.
  induction xs as [|x xs IH]; intros H c; cbn [thread_cat]; [reflexivity|].
  specialize (H x c (in_eq _ _)) as Hx. destruct (f x c) as [y c1].
  specialize (IH (fun x' c' Hin => H x' c' (in_cons _ _ _ Hin)) c1).
  destruct (thread_cat f xs c1) as [ys c2]. cbn [fst flat_map] in *. now rewrite flat_map_app, Hx, IH.
Qed.
Lemma thread_cat_forallb {X Y : Type} (f : X -> nat -> list Y * nat) (p : Y -> bool) (xs : list X) :
  (forall x c, In x xs -> forallb p (fst (f x c)) = true) ->
  forall c, forallb p (fst (thread_cat f xs c)) = true.
Proof.
  induction xs as [|x xs IH]; intros H c; cbn [thread_cat]; [reflexivity|].
  specialize (H x c (in_eq _ _)) as Hx. destruct (f x c) as [y c1].
  specialize (IH (fun x' c' Hin => H x' c' (in_cons _ _ _ Hin)) c1).
  destruct (thread_cat f xs c1) as [ys c2]. cbn [fst] in *. now rewrite forallb_app, Hx, IH.
Qed.

(* counters: a threaded call sequence whose members each create the dummies [c, c') creates [c, c'') *)
Lemma seq_chain (x y z : nat) : x <= y -> y <= z -> seq x (y - x) ++ seq y (z - y) = seq x (z - x).
Proof. intros. replace (z - x) with ((y - x) + (z - y)) by lia. rewrite seq_app. do 2 f_equal. lia. Qed.

Lemma thread_dummies {X Y : Type} (f : X -> nat -> Y * nat) (d : Y -> list nat) (xs : list X) :
  (forall x c, In x xs -> c <= snd (f x c) /\ d (fst (f x c)) = seq c (snd (f x c) - c)) ->
  forall c, c <= snd (thread f xs c) /\ flat_map d (fst (thread f xs c)) = seq c (snd (thread f xs c) - c).
Proof.
  induction xs as [|x xs IH]; intros H c; cbn [thread].
  - cbn [fst snd flat_map]. rewrite Nat.sub_diag. split; [lia|reflexivity].
  - specialize (H x c (in_eq _ _)) as Hx. destruct (f x c) as [y c1].
    specialize (IH (fun x' c' Hin => H x' c' (in_cons _ _ _ Hin)) c1).
    destruct (thread f xs c1) as [ys c2]. cbn [fst snd flat_map] in *.
    destruct Hx as [L1 E1], IH as [L2 E2]. split; [lia|]. rewrite E1, E2. apply seq_chain; lia.
Qed.
Lemma thread_cat_dummies {X Y : Type} (f : X -> nat -> list Y * nat) (d : Y -> list nat) (xs : list X) :
  (forall x c, In x xs -> c <= snd (f x c) /\ flat_map d (fst (f x c)) = seq c (snd (f x c) - c)) ->
  forall c, c <= snd (thread_cat f xs c) /\ flat_map d (fst (thread_cat f xs c)) = seq c (snd (thread_cat f xs c) - c).
Proof.
  induction xs as [|x xs IH]; intros H c; cbn [thread_cat].
  - cbn [fst snd flat_map]. rewrite Nat.sub_diag. split; [lia|reflexivity].
  - specialize (H x c (in_eq _ _)) as Hx. destruct (f x c) as [y c1].
    specialize (IH (fun x' c' Hin => H x' c' (in_cons _ _ _ Hin)) c1).
    destruct (thread_cat f xs c1) as [ys c2]. cbn [fst snd] in *.
    destruct Hx as [L1 E1], IH as [L2 E2]. split; [lia|]. rewrite flat_map_app, E1, E2. apply seq_chain; lia.
Qed.

(* ---------------------------------------------------------------- linear *)
Lemma linear_from_real a l : real_basis (linear_from a l) = a :: l.
Proof.
  revert a. induction l as [|b l IH]; intros a; cbn [linear_from]; rewrite real_basis_node; cbn [reals flat_map app].
  - reflexivity.
  - now rewrite IH, app_nil_r.
Qed.
Lemma linear_from_ok a l : nodes_ok (linear_from a l) = true /\ dummy_ids (linear_from a l) = [].
Proof.
  revert a. induction l as [|b l IH]; intros a; cbn [linear_from]; rewrite nodes_ok_node, dummy_ids_node; cbn.
  - auto.
  - destruct (IH b) as [-> ->]. auto.
Qed.
(* ---------------------------------------------------------------- binary *)
Lemma bin_real f : forall a offs, Permutation (real_basis (bin f a offs)) (a :: offs).
Proof.
  induction f as [|f IH]; intros a offs; cbn [bin].
  - rewrite real_basis_node. cbn [reals app]. constructor.
    rewrite flat_map_concat_map, map_map.
    rewrite (map_ext _ (fun o => [o])) by (intros; apply real_basis_leaf).
    rewrite <- flat_map_concat_map, flat_map_singleton. reflexivity.
  - destruct offs as [|o0 [|o1 rest]]; rewrite real_basis_node; cbn [reals flat_map app].
    + reflexivity.
    + constructor. rewrite app_nil_r. apply IH.
    + constructor. rewrite app_nil_r.
      rewrite (IH o0), (IH o1). cbn [app]. constructor.
      symmetry. etransitivity; [|apply Permutation_middle]. now rewrite firstn_skipn.
Qed.
Lemma bin_ok f : forall a offs, nodes_ok (bin f a offs) = true /\ dummy_ids (bin f a offs) = [].
Proof.
  induction f as [|f IH]; intros a offs; cbn [bin].
  - rewrite nodes_ok_node, dummy_ids_node. cbn [node_okb forallb is_real andb dummies app]. split.
    + induction offs as [|o offs IHo]; cbn [map forallb]; [reflexivity|]. rewrite nodes_ok_leaf by congruence. exact IHo.
    + induction offs as [|o offs IHo]; cbn [map flat_map]; [reflexivity|]. now rewrite dummy_ids_leaf.
  - destruct offs as [|o0 [|o1 rest]]; rewrite nodes_ok_node, dummy_ids_node; cbn [node_okb forallb is_real andb dummies app flat_map].
    + auto.
    + destruct (IH o0 []) as [-> ->]. auto.
    + destruct (IH o0 (firstn (length rest / 2) rest)) as [-> ->].
      destruct (IH o1 (skipn (length rest / 2) rest)) as [-> ->]. auto.
Qed.
(* the fuel supplied by [binary] is enough: more fuel does not change the tree *)
Lemma bin_fuel f1 : forall f2 a offs, length offs <= f1 -> length offs <= f2 -> bin f1 a offs = bin f2 a offs.
Proof.
  induction f1 as [|f1 IH]; intros f2 a offs H1 H2.
  - destruct offs; [|cbn in H1; lia]. destruct f2; reflexivity.
  - destruct f2 as [|f2].
    + destruct offs; [|cbn in H2; lia]. reflexivity.
    + cbn [bin]. destruct offs as [|o0 [|o1 rest]]; [reflexivity| |].
      * f_equal. f_equal. apply IH; cbn; lia.
      * cbn [length] in H1, H2.
        assert (length rest / 2 <= length rest) by (apply Nat.div_le_upper_bound; lia).
        f_equal. f_equal; [|f_equal]; apply IH; rewrite ?firstn_length, ?skipn_length; lia.
Qed.

(* ---------------------------------------------------------------- general_mctdh *)
Lemma chunks_concat f order : forall l, concat (chunks f order l) = l.
Proof.
  induction f as [|f IH]; intros l; cbn [chunks]; [cbn; now rewrite app_nil_r|].
  destruct (Nat.ltb order (length l)); cbn [concat]; [|now rewrite app_nil_r].
  rewrite IH. apply firstn_skipn.
Qed.
Lemma chunks_nonempty f order : forall l, 0 < order -> l <> [] -> Forall (fun g => g <> []) (chunks f order l).
Proof.
  induction f as [|f IH]; intros l Ho Hl; cbn [chunks]; [repeat constructor; exact Hl|].
  destruct (Nat.ltb_spec order (length l)) as [Hlt|Hge]; [|repeat constructor; exact Hl].
  constructor.
  - destruct l; [cbn in Hlt; lia|]. destruct order; [lia|]. cbn. congruence.
  - apply IH; [exact Ho|]. intros E. apply (f_equal (@length A)) in E. rewrite skipn_length in E. cbn in E. lia.
Qed.
Lemma label_groups_concat f order : forall (l : list (A * bool)), concat (label_groups f order l) = map fst l.
Proof.
  induction f as [|f IH]; intros l; cbn [label_groups].
  - induction l as [|x l IHl]; cbn [map concat app]; [reflexivity|now rewrite IHl].
  - destruct l as [|[a [|]] l']; cbn [concat map fst app]; [reflexivity| |].
    + now rewrite IH.
    + rewrite IH, <- map_app, firstn_skipn. reflexivity.
Qed.
Lemma label_groups_nonempty f order : forall (l : list (A * bool)), Forall (fun g => g <> []) (label_groups f order l).
Proof.
  induction f as [|f IH]; intros l; cbn [label_groups].
  - induction l; cbn [map]; constructor; [congruence|assumption].
  - destruct l as [|[a [|]] l']; [constructor| |]; (constructor; [congruence|apply IH]).
Qed.
Lemma map_fst_combine {X Y : Type} (l : list X) (m : list Y) : length l <= length m -> map fst (combine l m) = l.
Proof.
  revert m. induction l as [|x l IH]; intros m H; [reflexivity|].
  destruct m as [|y m]; cbn in H; [lia|]. cbn [combine map fst]. rewrite IH by lia. reflexivity.
Qed.

Definition mode_ok (mode : mctdh_mode) (l : list A) : Prop :=
  match mode with ContractLabel lab => length lab = length l | _ => True end.

Lemma elementary_concat order mode l : mode_ok mode l -> concat (elementary order mode l) = l.
Proof.
  destruct mode as [| |lab]; cbn [elementary mode_ok]; intros H.
  - apply chunks_concat.
  - rewrite <- flat_map_concat_map. apply flat_map_singleton.
  - rewrite label_groups_concat. apply map_fst_combine. lia.
Qed.
Lemma elementary_nonempty order mode l : 0 < order -> l <> [] -> Forall (fun g => g <> []) (elementary order mode l).
Proof.
  intros Ho Hl. destruct mode as [| |lab]; cbn [elementary].
  - now apply chunks_nonempty.
  - clear Hl. induction l; cbn [map]; constructor; [congruence|assumption].
  - apply label_groups_nonempty.
Qed.

Lemma mctdh_rec_real f order : 0 < order -> forall els ctr,
  real_basis (fst (mctdh_rec f order els ctr)) = flat_map real_basis els.
Proof.
  intros Ho. induction f as [|f IH]; intros els ctr; cbn [mctdh_rec].
  - cbn [fst]. now rewrite real_basis_node.
  - destruct (Nat.leb (length els) order); [cbn [fst]; now rewrite real_basis_node|].
    pose proof (thread_flat (mctdh_rec f order) real_basis (flat_map real_basis)
                  (approximate_partition els (Z.of_nat order)) (fun x c _ => IH x c) (S ctr)) as E.
    destruct (thread _ _ _) as [ts c']. cbn [fst] in *. rewrite real_basis_node. cbn [reals app].
    rewrite E, flat_map_concat, partition_concat_gen by lia. reflexivity.
Qed.
Lemma mctdh_rec_ok f order : 0 < order -> forall els ctr, forallb nodes_ok els = true ->
  nodes_ok (fst (mctdh_rec f order els ctr)) = true.
Proof.
  intros Ho. induction f as [|f IH]; intros els ctr Hels; cbn [mctdh_rec].
  - cbn [fst]. rewrite nodes_ok_node. cbn [node_okb andb]. exact Hels.
  - destruct (Nat.leb (length els) order); [cbn [fst]; rewrite nodes_ok_node; exact Hels|].
    assert (Hg : forall g, In g (approximate_partition els (Z.of_nat order)) -> forallb nodes_ok g = true).
    { intros g Hg. apply forallb_forall. intros x Hx. rewrite forallb_forall in Hels. apply Hels.
      rewrite <- (partition_concat_gen _ els (Z.of_nat order)) by lia. apply in_concat. eauto. }
    pose proof (thread_forallb (mctdh_rec f order) nodes_ok (approximate_partition els (Z.of_nat order))
                  (fun x c Hin => IH x c (Hg x Hin)) (S ctr)) as E.
    destruct (thread _ _ _) as [ts c']. cbn [fst] in *. rewrite nodes_ok_node. cbn [node_okb andb]. exact E.
Qed.
(* the dummies are numbered 0, 1, 2, ... in pre-order: distinct labels, hence distinct DoF names *)
Lemma mctdh_rec_dummies f order : forall els ctr, flat_map dummy_ids els = [] ->
  ctr <= snd (mctdh_rec f order els ctr) /\
  dummy_ids (fst (mctdh_rec f order els ctr)) = seq ctr (snd (mctdh_rec f order els ctr) - ctr).
Proof.
  induction f as [|f IH]; intros els ctr Hels; cbn [mctdh_rec].
  - cbn [fst snd]. rewrite dummy_ids_node, Hels. replace (S ctr - ctr) with 1 by lia. split; [lia|reflexivity].
  - destruct (Nat.leb (length els) order).
    { cbn [fst snd]. rewrite dummy_ids_node, Hels. replace (S ctr - ctr) with 1 by lia. split; [lia|reflexivity]. }
    destruct (Z_lt_le_dec 0 (Z.of_nat order)) as [Ho|Ho].
    2:{ (* order = 0: range(0) is empty, the node is a dummy leaf *)
      assert (order = 0) by lia. subst order. rewrite partition_as_map. cbv zeta. unfold py_range.
      cbn [Z.of_nat Z.to_nat seq map thread fst snd]. rewrite dummy_ids_node. cbn [dummies flat_map app].
      replace (S ctr - ctr) with 1 by lia. split; [lia|reflexivity]. }
    assert (Hg : forall g, In g (approximate_partition els (Z.of_nat order)) -> flat_map dummy_ids g = []).
    { intros g Hg. rewrite <- (partition_concat_gen _ els (Z.of_nat order)) in Hels by lia.
      rewrite <- flat_map_concat in Hels. clear - Hels Hg.
      induction (approximate_partition els (Z.of_nat order)) as [|x xs IHx]; [destruct Hg|].
      cbn [flat_map] in Hels. apply app_eq_nil in Hels. destruct Hels as [H1 H2].
      destruct Hg as [->|Hg]; auto. }
    pose proof (thread_dummies (mctdh_rec f order) dummy_ids (approximate_partition els (Z.of_nat order))
                  (fun x c Hin => IH x c (Hg x Hin)) (S ctr)) as E.
    destruct (thread _ _ _) as [ts c']. cbn [fst snd] in *. destruct E as [L E].
    rewrite dummy_ids_node. cbn [dummies app]. rewrite E. split; [lia|].
    replace (c' - ctr) with (S (c' - S ctr)) by lia. reflexivity.
Qed.

(* ---------------------------------------------------------------- t3ns *)
Lemma t3_rec_real f : forall (bl : list A) ctr, flat_map real_basis (fst (t3_rec f bl ctr)) = bl.
Proof.
  induction f as [|f IH]; intros bl ctr.
  - destruct bl as [|a [|b [|c rest]]]; cbn [t3_rec fst flat_map]; rewrite ?app_nil_r; [reflexivity|apply real_basis_leaf| |].
    + rewrite real_basis_node. cbn [reals flat_map app]. rewrite real_basis_leaf, ?app_nil_r. reflexivity.
    + rewrite real_basis_node. cbn [reals flat_map app]. rewrite real_basis_leaf, ?app_nil_r. reflexivity.
  - destruct bl as [|a [|b [|c rest]]]; cbn [t3_rec fst flat_map]; rewrite ?app_nil_r; [reflexivity|apply real_basis_leaf| |].
    + rewrite real_basis_node. cbn [reals flat_map app]. rewrite real_basis_leaf, ?app_nil_r. reflexivity.
    + pose proof (thread_cat_flat (t3_rec f) real_basis (fun x => x) (approximate_partition (b :: c :: rest) 2%Z)
                    (fun x c0 _ => IH x c0) (S ctr)) as E.
      destruct (thread_cat _ _ _) as [ts c']. cbn [fst flat_map] in *. rewrite app_nil_r.
      rewrite real_basis_node. cbn [reals flat_map app]. rewrite app_nil_r, real_basis_node. cbn [reals app].
      rewrite E, flat_map_concat_map, map_id, partition_concat_gen by lia. reflexivity.
Qed.
Lemma t3_rec_ok f : forall (bl : list A) ctr, forallb nodes_ok (fst (t3_rec f bl ctr)) = true.
Proof.
  induction f as [|f IH]; intros bl ctr.
  - destruct bl as [|a [|b [|c rest]]]; cbn [t3_rec fst forallb]; rewrite ?andb_true_r; [reflexivity| | |].
    + apply nodes_ok_leaf; congruence.
    + rewrite nodes_ok_node. cbn [node_okb forallb is_real andb]. rewrite nodes_ok_leaf by congruence. reflexivity.
    + rewrite nodes_ok_node. cbn [node_okb forallb is_real andb]. rewrite nodes_ok_leaf by congruence. reflexivity.
  - destruct bl as [|a [|b [|c rest]]]; cbn [t3_rec fst forallb]; rewrite ?andb_true_r; [reflexivity| | |].
    + apply nodes_ok_leaf; congruence.
    + rewrite nodes_ok_node. cbn [node_okb forallb is_real andb]. rewrite nodes_ok_leaf by congruence. reflexivity.
    + pose proof (thread_cat_forallb (t3_rec f) nodes_ok (approximate_partition (b :: c :: rest) 2%Z)
                    (fun x c0 _ => IH x c0) (S ctr)) as E.
      destruct (thread_cat _ _ _) as [ts c']. cbn [fst forallb] in *.
      rewrite nodes_ok_node. cbn [node_okb forallb is_real andb]. rewrite nodes_ok_node. cbn [node_okb andb].
      rewrite E. reflexivity.
Qed.
Lemma t3_rec_dummies f : forall (bl : list A) ctr,
  ctr <= snd (t3_rec f bl ctr) /\
  flat_map dummy_ids (fst (t3_rec f bl ctr)) = seq ctr (snd (t3_rec f bl ctr) - ctr).
Proof.
  assert (B1 : forall (a : A) ctr, ctr <= ctr /\ flat_map dummy_ids [leaf [a]] = seq ctr (ctr - ctr)).
  { intros. rewrite Nat.sub_diag. cbn [flat_map]. rewrite dummy_ids_leaf. split; [lia|reflexivity]. }
  assert (B2 : forall (a : A) r ctr, ctr <= ctr /\ flat_map dummy_ids [BNode [Real a] [leaf r]] = seq ctr (ctr - ctr)).
  { intros. rewrite Nat.sub_diag. cbn [flat_map]. rewrite dummy_ids_node. cbn [dummies flat_map app]. rewrite dummy_ids_leaf.
    split; [lia|reflexivity]. }
  induction f as [|f IH]; intros bl ctr.
  - destruct bl as [|a [|b [|c rest]]]; cbn [t3_rec fst snd]; [rewrite Nat.sub_diag; split; [lia|reflexivity]|apply B1|apply B2|apply B2].
  - destruct bl as [|a [|b [|c rest]]]; cbn [t3_rec fst snd]; [rewrite Nat.sub_diag; split; [lia|reflexivity]|apply B1|apply B2|].
    pose proof (thread_cat_dummies (t3_rec f) dummy_ids (approximate_partition (b :: c :: rest) 2%Z)
                  (fun x c0 _ => IH x c0) (S ctr)) as E.
    destruct (thread_cat _ _ _) as [ts c']. cbn [fst snd flat_map] in *. destruct E as [L E].
    rewrite app_nil_r, dummy_ids_node. cbn [dummies flat_map app]. rewrite app_nil_r, dummy_ids_node. cbn [dummies app].
    rewrite E. split; [lia|]. replace (c' - ctr) with (S (c' - S ctr)) by lia. reflexivity.
Qed.


(* ---------------------------------------------------------------- the fuel is enough *)
Lemma thread_ext {X Y : Type} (f g : X -> nat -> Y * nat) (xs : list X) :
  (forall x c, In x xs -> f x c = g x c) -> forall c, thread f xs c = thread g xs c.
Proof.
  induction xs as [|x xs IH]; intros H c; cbn [thread]; [reflexivity|].
  rewrite (H x c (in_eq _ _)). destruct (g x c) as [y c1].
  rewrite (IH (fun x' c' Hin => H x' c' (in_cons _ _ _ Hin)) c1). reflexivity.
Qed.
Lemma thread_cat_ext {X Y : Type} (f g : X -> nat -> list Y * nat) (xs : list X) :
  (forall x c, In x xs -> f x c = g x c) -> forall c, thread_cat f xs c = thread_cat g xs c.
Proof.
  induction xs as [|x xs IH]; intros H c; cbn [thread_cat]; [reflexivity|].
  rewrite (H x c (in_eq _ _)). destruct (g x c) as [y c1].
  rewrite (IH (fun x' c' Hin => H x' c' (in_cons _ _ _ Hin)) c1). reflexivity.
Qed.

Lemma mctdh_rec_fuel order : 2 <= order -> forall f1 f2 els ctr,
  length els <= f1 -> length els <= f2 -> mctdh_rec f1 order els ctr = mctdh_rec f2 order els ctr.
Proof.
  intros Ho. induction f1 as [|f1 IH]; intros f2 els ctr H1 H2.
  - destruct els; [|cbn in H1; lia]. destruct f2; reflexivity.
  - destruct f2 as [|f2]; [destruct els; [reflexivity|cbn in H2; lia]|].
    cbn [mctdh_rec]. destruct (Nat.leb_spec (length els) order) as [|Hlt]; [reflexivity|].
    rewrite (thread_ext (mctdh_rec f1 order) (mctdh_rec f2 order)); [reflexivity|].
    intros g c Hg.
    assert (length g < length els).
    { apply (partition_group_shorter els g (Z.of_nat order)); [lia|unfold py_len; lia|exact Hg]. }
    apply IH; lia.
Qed.

Lemma t3_rec_fuel : forall f1 f2 (bl : list A) ctr,
  length bl <= f1 -> length bl <= f2 -> t3_rec f1 bl ctr = t3_rec f2 bl ctr.
Proof.
  induction f1 as [|f1 IH]; intros f2 bl ctr H1 H2.
  - destruct bl; [|cbn in H1; lia]. destruct f2; reflexivity.
  - destruct f2 as [|f2]; [destruct bl; [reflexivity|cbn in H2; lia]|].
    destruct bl as [|a [|b [|c rest]]]; try reflexivity.
    cbn [t3_rec]. rewrite (thread_cat_ext (t3_rec f1) (t3_rec f2)); [reflexivity|].
    intros g c0 Hg.
    assert (length g < length (b :: c :: rest)).
    { apply (partition_group_shorter (b :: c :: rest) g 2%Z); [lia|unfold py_len; cbn [length]; lia|exact Hg]. }
    cbn [length] in *. apply IH; lia.
Qed.

Lemma concat_length_ge {X : Type} (gs : list (list X)) : Forall (fun g => g <> []) gs -> length gs <= length (concat gs).
Proof.
  induction 1 as [|g gs Hg _ IH]; cbn [concat length]; [lia|]. rewrite app_length.
  destruct g; [congruence|]. cbn [length]. lia.
Qed.

(* more fuel than the builders supply never changes the tree: the out-of-fuel branches are dead *)
Theorem builders_fuel_irrelevant : forall (l : list A),
  (forall f a offs, l = a :: offs -> length offs <= f -> bin f a offs = bin (length offs) a offs) /\
  (forall order mode f, 2 <= order -> mode_ok mode l -> l <> [] -> length l <= f ->
     mctdh_rec f order (map leaf (elementary order mode l)) 0
     = mctdh_rec (length l) order (map leaf (elementary order mode l)) 0) /\
  (forall f g ctr, In g (approximate_partition l 3%Z) -> length l <= f -> t3_rec f g ctr = t3_rec (length l) g ctr).
Proof.
  intros l. repeat split.
  - intros f a offs _ H. apply bin_fuel; lia.
  - intros order mode f Ho Hm Hl Hf.
    assert (length (elementary order mode l) <= length l).
    { transitivity (length (concat (elementary order mode l))).
      - apply concat_length_ge. apply elementary_nonempty; [lia|exact Hl].
      - now rewrite (elementary_concat order mode l Hm). }
    apply mctdh_rec_fuel; rewrite ?map_length; lia.
  - intros f g ctr Hg Hf.
    assert (length g <= length l).
    { transitivity (length (concat (approximate_partition l 3%Z))); [|now rewrite partition_concat_gen by lia].
      clear - Hg. induction (approximate_partition l 3%Z) as [|x xs IH]; [destruct Hg|].
      cbn [concat]. rewrite app_length. destruct Hg as [->|Hg]; [lia|specialize (IH Hg); lia]. }
    apply t3_rec_fuel; lia.
Qed.

(* ---------------------------------------------------------------- the property: every basis set exactly once *)
Definition exactly_once (t : btree A) (l : list A) : Prop :=
  Permutation (real_basis t) l /\ nodes_ok t = true /\ NoDup (dummy_ids t).

Lemma linear_exactly_once l t : linear l = Some t -> exactly_once t l /\ real_basis t = l.
Proof.
  destruct l as [|a l]; [discriminate|]. intros [= <-].
  destruct (linear_from_ok a l) as [H1 H2]. unfold exactly_once. rewrite linear_from_real, H1, H2.
  repeat split; auto. constructor.
Qed.
Lemma binary_exactly_once l t : binary l = Some t -> exactly_once t l.
Proof.
  destruct l as [|a l]; [discriminate|]. intros [= <-].
  destruct (bin_ok (length l) a l) as [H1 H2]. unfold exactly_once. rewrite H1, H2.
  repeat split; [apply bin_real|constructor].
Qed.
Lemma general_mctdh_exactly_once l order mode t : 0 < order ->
  general_mctdh l order mode = Some t -> exactly_once t l /\ real_basis t = l.
Proof.
  intros Ho. unfold general_mctdh.
  destruct (Nat.leb_spec (length l) 1) as [|Hl]; [discriminate|].
  assert (Hm : (match mode with ContractLabel lab => negb (Nat.eqb (length lab) (length l)) | _ => false end) = false -> mode_ok mode l).
  { destruct mode; cbn; auto. intros H. apply negb_false_iff, Nat.eqb_eq in H. exact H. }
  destruct (match mode with ContractLabel lab => _ | _ => false end); [discriminate|]. specialize (Hm eq_refl).
  intros [= <-].
  assert (Hl0 : l <> []) by (intros ->; cbn in Hl; lia).
  pose proof (elementary_nonempty order mode l Ho Hl0) as Hne.
  assert (E : real_basis (fst (mctdh_rec (length l) order (map leaf (elementary order mode l)) 0)) = l).
  { rewrite mctdh_rec_real by exact Ho. rewrite flat_map_concat_map, map_map.
    rewrite (map_ext _ (fun g => g)) by (intros; apply real_basis_leaf). rewrite map_id.
    now apply elementary_concat. }
  assert (D : flat_map dummy_ids (map leaf (elementary order mode l)) = []).
  { clear E. revert Hne. generalize (elementary order mode l). intros gs Hne.
    induction Hne as [|g gs _ _ IHg]; cbn [map flat_map]; [reflexivity|]. rewrite dummy_ids_leaf. exact IHg. }
  split; [|exact E]. unfold exactly_once. rewrite E. split; [reflexivity|]. split.
  - apply mctdh_rec_ok; [exact Ho|]. rewrite forallb_forall. intros x Hx. apply in_map_iff in Hx.
    destruct Hx as [g [<- Hg]]. apply nodes_ok_leaf. rewrite Forall_forall in Hne. now apply Hne.
  - destruct (mctdh_rec_dummies (length l) order _ 0 D) as [_ ->]. apply seq_NoDup.
Qed.
Lemma t3ns_exactly_once l : exactly_once (t3ns l) l /\ real_basis (t3ns l) = l.
Proof.
  unfold t3ns.
  pose proof (thread_cat_flat (t3_rec (length l)) real_basis (fun x => x) (approximate_partition l 3%Z)
                (fun x c _ => t3_rec_real (length l) x c) 1) as E.
  pose proof (thread_cat_forallb (t3_rec (length l)) nodes_ok (approximate_partition l 3%Z)
                (fun x c _ => t3_rec_ok (length l) x c) 1) as O.
  pose proof (thread_cat_dummies (t3_rec (length l)) dummy_ids (approximate_partition l 3%Z)
                (fun x c _ => t3_rec_dummies (length l) x c) 1) as D.
  destruct (thread_cat _ _ _) as [ts c']. cbn [fst snd] in *. destruct D as [L D].
  assert (R : real_basis (BNode [Dummy 0] ts) = l).
  { rewrite real_basis_node. cbn [reals app]. rewrite E, flat_map_concat_map, map_id. apply partition_concat_gen. lia. }
  split; [|exact R]. unfold exactly_once. rewrite R. split; [reflexivity|]. split.
  - rewrite nodes_ok_node. cbn [node_okb andb]. exact O.
  - rewrite dummy_ids_node. cbn [dummies app]. rewrite D.
    change (0 :: seq 1 (c' - 1)) with (seq 0 (S (c' - 1))). apply seq_NoDup.
Qed.

End Named.

(* ------------------------------------------------------------------ shapes of the builders' trees *)
Lemma postorder_size t : length (postorder t) = size t.
Proof.
  induction t as [k ch IH] using tree_ind'. cbn [postorder size]. rewrite app_length. cbn [length].
  rewrite Nat.add_1_r. f_equal. induction IH as [|c ch Hc _ IHch]; cbn [flat_map map list_sum]; [reflexivity|].
  now rewrite app_length, Hc, IHch.
Qed.
Lemma preorder_size t : length (preorder t) = size t.
Proof.
  induction t as [k ch IH] using tree_ind'. cbn [preorder size length]. f_equal.
  induction IH as [|c ch Hc _ IHch]; cbn [flat_map map list_sum]; [reflexivity|].
  now rewrite app_length, Hc, IHch.
Qed.
(* the two node orders list the same nodes *)
Lemma pre_post_perm t : Permutation (preorder t) (postorder t).
Proof.
  induction t as [k ch IH] using tree_ind'. cbn [preorder postorder].
  rewrite Permutation_app_comm. cbn [app]. constructor.
  induction IH as [|c ch Hc _ IHch]; cbn [flat_map]; [constructor|]. now apply Permutation_app.
Qed.

(* ------------------------------------------------------------------ the statements used by Props/C02.v *)
Theorem partition_concat : forall (A : Type) (l : list A) (n : Z),
  (0 < n)%Z -> concat (approximate_partition l n) = l.
Proof. exact partition_concat_gen. Qed.

Theorem builders_exactly_once : forall (A : Type) (l : list A),
  (forall t, linear l = Some t -> Permutation (real_basis t) l /\ nodes_ok t = true /\ NoDup (dummy_ids t)) /\
  (forall t, binary l = Some t -> Permutation (real_basis t) l /\ nodes_ok t = true /\ NoDup (dummy_ids t)) /\
  (forall order mode t, 0 < order -> general_mctdh l order mode = Some t ->
       Permutation (real_basis t) l /\ nodes_ok t = true /\ NoDup (dummy_ids t)) /\
  (Permutation (real_basis (t3ns l)) l /\ nodes_ok (t3ns l) = true /\ NoDup (dummy_ids (t3ns l))).
Proof.
  intros A l. repeat split.
  - now destruct (linear_exactly_once l t H) as [[? [? ?]] _].
  - now destruct (linear_exactly_once l t H) as [[? [? ?]] _].
  - now destruct (linear_exactly_once l t H) as [[? [? ?]] _].
  - now destruct (binary_exactly_once l t H) as [? [? ?]].
  - now destruct (binary_exactly_once l t H) as [? [? ?]].
  - now destruct (binary_exactly_once l t H) as [? [? ?]].
  - now destruct (general_mctdh_exactly_once l order mode t H H0) as [[? [? ?]] _].
  - now destruct (general_mctdh_exactly_once l order mode t H H0) as [[? [? ?]] _].
  - now destruct (general_mctdh_exactly_once l order mode t H H0) as [[? [? ?]] _].
  - now destruct (t3ns_exactly_once l) as [[? [? ?]] _].
  - now destruct (t3ns_exactly_once l) as [[? [? ?]] _].
  - now destruct (t3ns_exactly_once l) as [[? [? ?]] _].
Qed.

(* the builders that list the leaves left to right even keep the order of the caller's list *)
Theorem builders_keep_order : forall (A : Type) (l : list A),
  (forall t, linear l = Some t -> real_basis t = l) /\
  (forall order mode t, 0 < order -> general_mctdh l order mode = Some t -> real_basis t = l) /\
  real_basis (t3ns l) = l.
Proof.
  intros A l. repeat split.
  - intros t H. now destruct (linear_exactly_once l t H).
  - intros order mode t Ho H. now destruct (general_mctdh_exactly_once l order mode t Ho H).
  - now destruct (t3ns_exactly_once l).
Qed.
