(* Proofs about Model/Dims.v: the states returned by the P&C schemes and the two-site sweep obey the configured limit.
   The kept-count rule is the generated Gen/Trunc.compute_m_trunc; its bound is Proofs/TruncProofs.m_trunc_le_M (C05). *)
From Coq Require Import QArith ZArith List Arith Bool Lia.
Import ListNotations.
From RV Require Import Gen.RkTableaux Model.Trunc Gen.Trunc Proofs.TruncProofs Model.PsSweep Proofs.PsSweepProofs Model.Dims.
Close Scope Q_scope.
Local Open Scope Z_scope.

Definition lim (cfg : config) (k : nat) : Z := py_index (cfg_max_dims cfg) (Z.of_nat (S k)).

Lemma cut_le_limit cfg : cfg_criteria cfg <> Threshold -> forall k da d, cut_ok cfg k da d ->
  Forall2 Z.le d (map (lim cfg) (seq k (length d))).
Proof.
  intros Hc k da d H. induction H as [k|k x da y d sigma idx left Hb Hs Hl Hy Hcut IH]; cbn [length seq map]; constructor.
  - subst y. unfold lim. rewrite <- Hb. now apply m_trunc_le_M.
  - exact IH.
Qed.

Lemma cut_le_input cfg : (forall b, 0 <= py_index (cfg_max_dims cfg) b) -> forall k da d, cut_ok cfg k da d -> Forall2 Z.le d da.
Proof.
  intros HM k da d H. induction H as [k|k x da y d sigma idx left Hb Hs Hl Hy Hcut IH]; constructor; [|exact IH].
  subst y. pose proof (m_trunc_range cfg sigma idx left Hs (HM _)). lia.
Qed.

(* a state produced by a final compress obeys the limit at every interior bond *)
Lemma compress_le_limit cfg din dop a d : cfg_criteria cfg <> Threshold ->
  dsem cfg din dop (DCompress a) d -> Forall2 Z.le d (limits cfg (length d)).
Proof. intros Hc H. inversion H; subst. unfold limits. eapply cut_le_limit; eassumption. Qed.

Lemma top_compress_le_limit cfg din dop e d : cfg_criteria cfg <> Threshold -> is_compress e = true ->
  dsem cfg din dop e d -> Forall2 Z.le d (limits cfg (length d)).
Proof. intros Hc He H. destruct e; try discriminate. eapply compress_le_limit; eassumption. Qed.

(* ------------------------------------------------------------------ compressed_sum ends in a compress *)
Lemma dcsum_fuel_top b : (2 <= b)%nat -> forall fuel q, (length q <= fuel)%nat -> q <> [] ->
  (forall x, q = [x] -> is_compress x = true) ->
  exists e, dcsum_fuel fuel b q = Some e /\ is_compress e = true.
Proof.
  intros Hb. induction fuel as [|f IH]; intros q Hl Hq H1.
  - destruct q; [congruence|cbn in Hl; lia].
  - destruct q as [|x [|x2 q]]; [congruence| |].
    + exists x. split; [reflexivity|]. now apply H1.
    + cbn [dcsum_fuel]. set (qq := x :: x2 :: q) in *.
      assert (Hn : (2 <= Nat.min b (length qq))%nat) by (subst qq; cbn [length]; lia).
      set (n := Nat.min b (length qq)) in *.
      assert (Hn2 : (n <= length qq)%nat) by (subst n; lia).
      pose proof (firstn_length_le qq Hn2) as Hfl.
      destruct (firstn n qq) as [|h t] eqn:Ef; [cbn in Hfl; lia|].
      apply IH.
      * rewrite app_length, skipn_length. cbn [length] in *. lia.
      * intros E. apply app_eq_nil in E. destruct E; discriminate.
      * intros y Ey. destruct (skipn n qq) as [|s0 ss]; cbn [app] in Ey.
        -- inversion Ey; subst. reflexivity.
        -- destruct ss; discriminate.
Qed.

Lemma dcsumT_top b q : (2 <= b)%nat -> q <> [] -> is_compress (dcsumT b q) = true.
Proof.
  intros Hb Hq. unfold dcsumT, dcsum. destruct q as [|x [|x2 q]]; [congruence|reflexivity|].
  destruct (dcsum_fuel_top b Hb (length (x :: x2 :: q)) (x :: x2 :: q)) as (e & He & Hc);
    [lia|discriminate|intros y Ey; discriminate|].
  rewrite He. exact Hc.
Qed.

Lemma taylor_dexp_top N : is_compress (taylor_dexp N) = true.
Proof. unfold taylor_dexp. apply dcsumT_top; [lia|discriminate]. Qed.
Lemma tdrk4_dexp_top : is_compress tdrk4_dexp = true.
Proof. reflexivity. Qed.
Lemma rk_dexp_top t : is_compress (rk_dexp t) = true.
Proof. unfold rk_dexp. apply dcsumT_top; [lia|discriminate]. Qed.

(* ------------------------------------------------------------------ the schemes obey the limit, criteria fixed / both *)
Lemma pc_dims_le_limit cfg din dop e d : cfg_criteria cfg <> Threshold ->
  (exists N, e = taylor_dexp N) \/ e = tdrk4_dexp \/ (exists t, e = rk_dexp t) ->
  dsem cfg din dop e d -> Forall2 Z.le d (limits cfg (length d)).
Proof.
  intros Hc He H. eapply top_compress_le_limit; [exact Hc| |exact H].
  destruct He as [[N ->]|[->|[t ->]]]; [apply taylor_dexp_top|apply tdrk4_dexp_top|apply rk_dexp_top].
Qed.

(* adaptive branches: a chain of accepted sub-steps, each taking the previous result as its input *)
Inductive substeps (cfg : config) (dop : list Z) (e : dexp) : list Z -> list Z -> Prop :=
| Sub1 din d : dsem cfg din dop e d -> substeps cfg dop e din d
| SubS din dmid d : dsem cfg din dop e dmid -> substeps cfg dop e dmid d -> substeps cfg dop e din d.

Lemma adaptive_dims_le_limit cfg dop e din d : cfg_criteria cfg <> Threshold -> is_compress e = true ->
  substeps cfg dop e din d -> Forall2 Z.le d (limits cfg (length d)).
Proof.
  intros Hc He H. induction H as [din d H|din dmid d H _ IH]; [|exact IH].
  eapply top_compress_le_limit; eassumption.
Qed.

(* ------------------------------------------------------------------ the interpreter's bound is sound *)
Lemma zipw_mono_add a : forall b a' b', Forall2 Z.le a a' -> Forall2 Z.le b b' -> Forall2 Z.le (zipw Z.add a b) (zipw Z.add a' b').
Proof.
  intros b a' b' Ha. revert b b'. induction Ha as [|x x' a a' Hx Ha IH]; intros b b' Hb; [destruct b; cbn; constructor|].
  inversion Hb; subst; cbn [zipw]; constructor; [lia|auto].
Qed.
Lemma zipw_mono_mul o : Forall (fun z => 0 <= z) o -> forall a a', Forall2 Z.le a a' -> Forall2 Z.le (zipw Z.mul o a) (zipw Z.mul o a').
Proof.
  intros Ho. induction Ho as [|z o Hz Ho IH]; intros a a' Ha; [constructor|].
  inversion Ha; subst; cbn [zipw]; constructor; [nia|auto].
Qed.
Lemma Forall2_le_trans a b c : Forall2 Z.le a b -> Forall2 Z.le b c -> Forall2 Z.le a c.
Proof.
  intros H. revert c. induction H as [|x y a b Hxy Hab IH]; intros c Hc; inversion Hc; subst; constructor; [lia|auto].
Qed.
Lemma Forall2_le_refl a : Forall2 Z.le a a.
Proof. induction a; constructor; [lia|auto]. Qed.

Lemma Forall2_length {A B} (R : A -> B -> Prop) l l' : Forall2 R l l' -> length l = length l'.
Proof. induction 1; cbn; lia. Qed.

Lemma zipw_length f a : forall b, length a = length b -> length (zipw f a b) = length a.
Proof. induction a as [|x a IH]; intros [|y b] E; cbn in *; try lia. rewrite IH; lia. Qed.

Lemma cut_length cfg k da d : cut_ok cfg k da d -> length d = length da.
Proof. induction 1; cbn; lia. Qed.

Lemma zipw_min_bound : forall d ba M, Forall2 Z.le d ba -> Forall2 Z.le d M -> Forall2 Z.le d (zipw Z.min ba M).
Proof.
  intros d ba M H1. revert M. induction H1 as [|x y d ba Hxy Hd IH]; intros M H2; inversion H2; subst; cbn [zipw]; constructor; [lia|auto].
Qed.

(* with input, operator and limits all given on the same n interior bonds, every value has n bonds and lies below the
   interpreter's bound *)
Lemma dbound_sound cfg din dop n : cfg_criteria cfg <> Threshold -> (forall b, 0 <= py_index (cfg_max_dims cfg) b) ->
  Forall (fun z => 0 <= z) dop -> length din = n -> length dop = n ->
  forall e d, dsem cfg din dop e d -> length d = n /\ Forall2 Z.le d (dbound din dop (limits cfg n) e).
Proof.
  intros Hc HM Ho Hdi Hdo e d H.
  induction H as [|a b da db d Ha IHa Hb IHb Hd|a da d Ha IHa Hd|a da Ha IHa|a da d Ha IHa Hd|a da d Ha IHa Hcut]; cbn [dbound].
  - split; [exact Hdi|apply Forall2_le_refl].
  - destruct IHa as [La Ba]. destruct IHb as [Lb Bb]. split.
    + apply Forall2_length in Hd. rewrite Hd, zipw_length; lia.
    + eapply Forall2_le_trans; [exact Hd|]. now apply zipw_mono_add.
  - destruct IHa as [La Ba]. split.
    + apply Forall2_length in Hd. rewrite Hd, zipw_length; lia.
    + eapply Forall2_le_trans; [exact Hd|]. now apply zipw_mono_mul.
  - exact IHa.
  - destruct IHa as [La Ba]. split; [apply Forall2_length in Hd; lia|]. eapply Forall2_le_trans; eassumption.
  - destruct IHa as [La Ba]. pose proof (cut_length _ _ _ _ Hcut) as Ld. split; [lia|].
    apply zipw_min_bound.
    + eapply Forall2_le_trans; [eapply cut_le_input; eassumption|exact Ba].
    + pose proof (cut_le_limit cfg Hc _ _ _ Hcut) as Hl. unfold limits. now rewrite <- La, <- Ld.
Qed.

(* ------------------------------------------------------------------ two-site sweep *)
Section Ps2Dims.
Variable kept : nat -> Z.
Variable qr : nat -> Z -> Z.
Variable M : nat -> Z.
Hypothesis kept_le : forall l, kept l <= M l.                 (* C05: compute_m_trunc <= limit, criteria fixed / both *)
Hypothesis qr_le : forall b x, qr b x <= x.                   (* QR never enlarges a bond *)

Lemma ps2_step_keeps_bound d e b : d b <= M b -> ps2_dims_step kept qr d e b <= M b.
Proof.
  intros H. destruct e; cbn [ps2_dims_step]; try exact H.
  - destruct (Nat.eqb_spec b left) as [->|_]; [apply kept_le|exact H].
  - pose proof (qr_le b (d b)). lia.
Qed.

Lemma ps2_run_bound b : forall tr d, (d b <= M b \/ exists h, In (Fwd2 b h) tr) -> ps2_dims_run kept qr tr d b <= M b.
Proof.
  induction tr as [|e tr IH]; intros d H; unfold ps2_dims_run in *; cbn [fold_left].
  - destruct H as [H|[h []]]. exact H.
  - apply IH. destruct H as [H|[h [E|Hin]]].
    + left. now apply ps2_step_keeps_bound.
    + subst e. left. cbn [ps2_dims_step]. rewrite Nat.eqb_refl. apply kept_le.
    + right. now exists h.
Qed.

Lemma G2_has_pair h k b : (b < k)%nat -> In (Fwd2 b h) (G2 h k).
Proof.
  intros Hb. unfold G2. apply in_flat_map. exists b. split; [apply in_seq; lia|]. now left.
Qed.

(* after one two-site step every interior bond (b < n-1) obeys the limit, whatever the input dimensions were *)
Lemma ps2_dims_le_limit n (dt : Q) (to_right : bool) d b : (2 <= n)%nat -> (b < n - 1)%nat ->
  let q := if to_right then 0%nat else (n - 1)%nat in
  ps2_dims_run kept qr (ps2_step n to_right q dt) d b <= M b.
Proof.
  intros Hn Hb q. apply ps2_run_bound. right. exists (dt / 2)%Q. unfold ps2_step. apply in_or_app.
  assert (Hr : In (Fwd2 b (dt / 2)%Q) (ps2_half n true 0 (dt / 2)%Q)).
  { rewrite (right_half2 (dt / 2)%Q n Hn). apply in_or_app.
    destruct (Nat.eq_dec b (n - 2)) as [->|Hne]; [right; now left|left; apply G2_has_pair; lia]. }
  subst q. destruct to_right; cbn [negb switch_q]; [left; exact Hr|right; exact Hr].
Qed.
End Ps2Dims.
