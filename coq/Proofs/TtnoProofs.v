(* C02 -- proofs about Model/Ttno.v:
     one_site_sound     one decomposition step preserves the denoted operator for EVERY vertex cover
                        (any number m of incoming bonds, any number k of physical columns)
     stack_discipline   the np.roll bookkeeping of construct_symbolic_ttno, for all trees
     ttno_sound         the constructed TTNO has the coefficient function of the term table, all trees
   Scalars: any commutative ring (Base/CRing.v).                                                    *)
From Coq Require Import List Arith Bool Lia Ring ZArith.
Import ListNotations.
From RV Require Import Base.CRing Model.TreeTopo Model.Ttno Proofs.TreeTopoProofs.

(* ------------------------------------------------------------------ lists *)
Section ListFacts.
Context {X : Type}.
Implicit Types (l u v : list X).

Lemma lastn_app_exact u v : lastn (length v) (u ++ v) = v.
Proof. unfold lastn. rewrite app_length. replace (length u + length v - length v) with (length u) by lia.
  rewrite skipn_app, skipn_all, Nat.sub_diag. reflexivity. Qed.
Lemma initn_app_exact u v : initn (length v) (u ++ v) = u.
Proof. unfold initn. rewrite app_length. replace (length u + length v - length v) with (length u) by lia.
  rewrite firstn_app, firstn_all, Nat.sub_diag. cbn. now rewrite app_nil_r. Qed.
Lemma initn_lastn m l : initn m l ++ lastn m l = l.
Proof. apply firstn_skipn. Qed.
Lemma lastn_length m l : m <= length l -> length (lastn m l) = m.
Proof. intros. unfold lastn. rewrite skipn_length. lia. Qed.
Lemma initn_length m l : length (initn m l) = length l - m.
Proof. unfold initn. rewrite firstn_length. lia. Qed.
Lemma lastn_0 l : lastn 0 l = [].
Proof. unfold lastn. rewrite Nat.sub_0_r. apply skipn_all. Qed.
Lemma initn_0 l : initn 0 l = l.
Proof. unfold initn. rewrite Nat.sub_0_r. apply firstn_all. Qed.

Lemma roll_right_split m l : m <= length l -> roll_right m l = lastn m l ++ initn m l.
Proof.
  intros Hm. unfold roll_right, lastn, initn. cbv zeta.
  destruct (Nat.eq_dec m (length l)) as [->|Hne].
  - destruct l as [|x l'] eqn:El; [reflexivity|]. rewrite Nat.mod_same by (cbn; lia).
    rewrite Nat.sub_0_r, Nat.sub_diag. cbn [skipn firstn]. rewrite skipn_all, firstn_all. now rewrite app_nil_r.
  - rewrite Nat.mod_small by lia. reflexivity.
Qed.
Lemma roll_right_length m l : length (roll_right m l) = length l.
Proof.
  unfold roll_right. cbv zeta. rewrite app_length, skipn_length, firstn_length.
  assert (length l - m mod length l <= length l) by lia. lia.
Qed.
Lemma roll_left1_cons (x : X) l : roll_left1 (x :: l) = l ++ [x].
Proof. reflexivity. Qed.
Lemma roll_left1_length l : length (roll_left1 l) = length l.
Proof. destruct l; cbn [roll_left1 length]; [reflexivity|]. rewrite app_length. cbn. lia. Qed.

Lemma last_app_single l (x d : X) : last (l ++ [x]) d = x.
Proof. apply last_last. Qed.

(* splitting one more element off the end *)
Lemma lastn_S m l d : S m <= length l -> lastn (S m) l = last (initn m l) d :: lastn m l.
Proof.
  intros H. rewrite <- (initn_lastn m l) at 1.
  assert (Hi : length (initn m l) = length l - m) by apply initn_length.
  destruct (exists_last (l := initn m l)) as [u [x E]]; [intros E; rewrite E in Hi; cbn in Hi; lia|].
  rewrite E, last_last, <- app_assoc. cbn [app].
  change (x :: lastn m l) with ([x] ++ lastn m l) at 1.
  replace (S m) with (length ([x] ++ lastn m l)) by (rewrite app_length, lastn_length by lia; reflexivity).
  apply lastn_app_exact.
Qed.
Lemma initn_S m l : S m <= length l -> initn (S m) l = removelast (initn m l).
Proof.
  intros H. rewrite <- (initn_lastn m l) at 1.
  assert (Hi : length (initn m l) = length l - m) by apply initn_length.
  destruct (exists_last (l := initn m l)) as [u [x E]]; [intros E; rewrite E in Hi; cbn in Hi; lia|].
  rewrite E, removelast_last, <- app_assoc. cbn [app].
  replace (S m) with (length ([x] ++ lastn m l)) by (rewrite app_length, lastn_length by lia; reflexivity).
  apply initn_app_exact.
Qed.

Lemma last_skipn w l d : w < length l -> last (skipn w l) d = last l d.
Proof.
  revert l. induction w as [|w IH]; intros l H; [reflexivity|].
  destruct l as [|x l]; [cbn in H; lia|]. cbn [skipn]. rewrite IH by (cbn in H; lia).
  destruct l; [cbn in H; lia|reflexivity].
Qed.
Lemma removelast_skipn w l : w < length l -> removelast (skipn w l) = skipn w (removelast l).
Proof.
  revert l. induction w as [|w IH]; intros l H; [reflexivity|].
  destruct l as [|x l]; [cbn in H; lia|]. cbn [skipn]. rewrite IH by (cbn in H; lia).
  destruct l; [cbn in H; lia|reflexivity].
Qed.
Lemma firstn_removelast w l : w < length l -> firstn w (removelast l) = firstn w l.
Proof.
  revert l. induction w as [|w IH]; intros l H; [reflexivity|].
  destruct l as [|x l]; [cbn in H; lia|]. destruct l as [|y l]; [cbn in H; lia|].
  change (removelast (x :: y :: l)) with (x :: removelast (y :: l)). cbn [firstn]. f_equal. apply IH. cbn in *. lia.
Qed.
Lemma removelast_length l : length (removelast l) = length l - 1.
Proof.
  induction l as [|x l IH]; [reflexivity|]. destruct l; [reflexivity|].
  change (removelast (x :: x0 :: l)) with (x :: removelast (x0 :: l)). cbn [length] in *. lia.
Qed.
Lemma skipn_skipn a b l : skipn a (skipn b l) = skipn (b + a) l.
Proof.
  revert l. induction b as [|b IH]; intros l; [reflexivity|]. destruct l; [now rewrite !skipn_nil|]. cbn [skipn Nat.add]. apply IH.
Qed.
End ListFacts.

(* ------------------------------------------------------------------ keys *)
Lemma keqb_spec a b : reflect (a = b) (keqb a b).
Proof.
  revert b. induction a as [|x a IH]; intros [|y b]; cbn [keqb]; try (constructor; congruence).
  destruct (Nat.eqb_spec x y) as [->|Hne]; cbn [andb].
  - destruct (IH b) as [->|Hne]; constructor; congruence.
  - constructor; congruence.
Qed.
Lemma keqb_refl a : keqb a a = true.
Proof. destruct (keqb_spec a a); congruence. Qed.
Lemma memb_spec a l : reflect (In a l) (memb a l).
Proof.
  unfold memb. destruct (existsb (keqb a) l) eqn:E; constructor.
  - apply existsb_exists in E. destruct E as [x [Hx Hk]]. destruct (keqb_spec a x); [subst; auto|discriminate].
  - intro H. assert (existsb (keqb a) l = true); [|congruence]. apply existsb_exists. exists a. split; auto. apply keqb_refl.
Qed.
Lemma nodupb_spec l : nodupb l = true -> NoDup l.
Proof.
  induction l as [|a l IH]; cbn [nodupb]; intros H; constructor; apply andb_true_iff in H; destruct H as [H1 H2].
  - destruct (memb_spec a l); [discriminate|assumption].
  - auto.
Qed.

Section Sound.
Variable R : CRing.
Add Ring RR : (rth R).
Notation "0" := (r0 R).
Notation "1" := (r1 R).
Infix "+" := (radd R).
Infix "*" := (rmul R).
Notation table := (table R).
Notation bond := (bond R).
Notation trow := (trow R).
Notation lsum := (@lsum R _).

(* ---------------------------------------------------------------- list sums *)
Lemma lsum_app {X} (l1 l2 : list X) f : lsum (l1 ++ l2) f = lsum l1 f + lsum l2 f.
Proof. induction l1 as [|a l1 IH]; cbn [Ttno.lsum app]; [ring|]. rewrite IH. ring. Qed.
Lemma lsum_ext {X} (l : list X) f g : (forall x, In x l -> f x = g x) -> lsum l f = lsum l g.
Proof.
  induction l as [|a l IH]; cbn [Ttno.lsum]; intros H; [reflexivity|].
  rewrite (H a (in_eq _ _)). rewrite IH; [reflexivity|]. intros; apply H; right; assumption.
Qed.
Lemma lsum_filter {X} (l : list X) p f : lsum (filter p l) f = lsum l (fun x => if p x then f x else 0).
Proof. induction l as [|a l IH]; cbn [Ttno.lsum filter]; [reflexivity|]. destruct (p a); cbn [Ttno.lsum]; rewrite IH; ring. Qed.
Lemma lsum_map {X Y} (l : list X) (h : X -> Y) f : lsum (map h l) f = lsum l (fun x => f (h x)).
Proof. induction l as [|a l IH]; cbn [Ttno.lsum map]; [reflexivity|]. now rewrite IH. Qed.
Lemma lsum_add {X} (l : list X) f g : lsum l (fun x => f x + g x) = lsum l f + lsum l g.
Proof. induction l as [|a l IH]; cbn [Ttno.lsum]; [ring|]. rewrite IH. ring. Qed.
Lemma lsum_zero {X} (l : list X) f : (forall x, In x l -> f x = 0) -> lsum l f = 0.
Proof.
  induction l as [|a l IH]; cbn [Ttno.lsum]; intros H; [reflexivity|].
  rewrite (H a (in_eq _ _)). rewrite IH; [ring|]. intros; apply H; right; assumption.
Qed.
Lemma lsum_swap {X Y} (l1 : list X) (l2 : list Y) f :
  lsum l1 (fun a => lsum l2 (fun b => f a b)) = lsum l2 (fun b => lsum l1 (fun a => f a b)).
Proof.
  induction l1 as [|a l1 IH]; cbn [Ttno.lsum].
  - symmetry. apply lsum_zero. reflexivity.
  - rewrite IH, <- lsum_add. reflexivity.
Qed.
Lemma lsum_scale_r {X} (l : list X) c f : lsum l (fun x => f x * c) = lsum l f * c.
Proof. induction l as [|a l IH]; cbn [Ttno.lsum]; [ring|]. rewrite IH. ring. Qed.
Lemma lsum_scale_l {X} (l : list X) c f : lsum l (fun x => c * f x) = c * lsum l f.
Proof. induction l as [|a l IH]; cbn [Ttno.lsum]; [ring|]. rewrite IH. ring. Qed.
Lemma lsum_flat_map {X Y} (l : list X) (h : X -> list Y) f : lsum (flat_map h l) f = lsum l (fun x => lsum (h x) f).
Proof. induction l as [|a l IH]; cbn [Ttno.lsum flat_map]; [reflexivity|]. now rewrite lsum_app, IH. Qed.

(* a sum over a duplicate-free selector of an indicator picks membership *)
Lemma lsum_indicator (sel : list key) (k : key) (v : R) :
  NoDup sel -> lsum sel (fun s => if keqb s k then v else 0) = if memb k sel then v else 0.
Proof.
  induction sel as [|s sel IH]; intros ND; cbn [Ttno.lsum]; [reflexivity|].
  inversion ND as [|? ? Hn ND']; subst. rewrite IH by assumption.
  unfold memb at 2. cbn [existsb]. fold (memb k sel).
  destruct (keqb_spec s k) as [->|Hne].
  - rewrite keqb_refl. cbn [orb]. destruct (memb_spec k sel); [contradiction|ring].
  - destruct (keqb_spec k s); [congruence|]. cbn [orb]. ring.
Qed.

(* ---------------------------------------------------------------- one decomposition step *)
Definition Dout_of (Drow : key -> R) (ops : bond) (j : nat) : R := den_outop R Drow (nth j ops []).

Definition covers (w : nat) (t : table) (rsel csel : list key) : Prop :=
  forall x, In x t -> In (rkey R w x) rsel \/ In (ckey R w x) csel.

Lemma coversb_spec w t rsel csel : coversb R w t rsel csel = true -> covers w t rsel csel.
Proof.
  unfold coversb, covers. rewrite forallb_forall. intros H x Hx. specialize (H x Hx).
  apply orb_true_iff in H. destruct H as [H|H]; [left|right].
  - destruct (memb_spec (rkey R w x) rsel); [assumption|discriminate].
  - destruct (memb_spec (ckey R w x) csel); [assumption|discriminate].
Qed.

Lemma nth_enum_rows (pre post : bond) rsel Drow (g : key -> R -> R) :
  forall n, n = length pre ->
  lsum (enum_from n rsel) (fun ir => g (snd ir) (Dout_of Drow (pre ++ out_rows R rsel ++ post) (fst ir)))
  = lsum rsel (fun r => g r (1 * Drow r + 0)).
Proof.
  revert pre. induction rsel as [|r rsel IH]; intros pre n Hn; cbn [enum_from Ttno.lsum]; [reflexivity|].
  f_equal.
  - cbn [fst snd]. unfold Dout_of. rewrite app_nth2 by lia. subst n. rewrite Nat.sub_diag. cbn [out_rows map app nth].
    unfold den_outop. cbn [Ttno.lsum fst snd]. reflexivity.
  - specialize (IH (pre ++ [[(r, 1)]]) (S n)). rewrite app_length in IH. cbn [length] in IH.
    rewrite <- app_assoc in IH. cbn [app] in IH. cbn [out_rows map]. cbn [app]. apply IH. lia.
Qed.

Lemma nth_enum_cols (pre : bond) (cs : list key) (h : key -> outop R) Drow (g : key -> R -> R) :
  forall n, n = length pre ->
  lsum (enum_from n cs) (fun jc => g (snd jc) (Dout_of Drow (pre ++ map h cs) (fst jc)))
  = lsum cs (fun c => g c (den_outop R Drow (h c))).
Proof.
  revert pre. induction cs as [|c cs IH]; intros pre n Hn; cbn [enum_from Ttno.lsum]; [reflexivity|].
  f_equal.
  - cbn [fst snd]. unfold Dout_of. rewrite app_nth2 by lia. subst n. rewrite Nat.sub_diag. reflexivity.
  - specialize (IH (pre ++ [h c]) (S n)). rewrite app_length in IH. cbn [length] in IH.
    rewrite <- app_assoc in IH. cbn [app] in IH. cbn [map]. apply IH. lia.
Qed.

(* THE one-site theorem.  Drow: any valuation of the row keys (children bonds x own operators);
   G: any valuation of the column keys (everything still to the right / above).  The new table,
   read through the new bond's out-operators, denotes what the old table denoted. *)
Theorem one_site_sound (w : nat) (t : table) (rsel csel : list key) (Drow G : key -> R) :
  NoDup rsel -> NoDup csel -> covers w t rsel csel ->
  lsum (snd (one_site w t rsel csel))
       (fun y => snd y * Dout_of Drow (fst (one_site w t rsel csel)) (hd O (fst y)) * G (tl (fst y)))
  = lsum t (fun x => snd x * Drow (rkey R w x) * G (ckey R w x)).
Proof.
  intros NDr NDc Hcov. cbn [one_site fst snd]. rewrite lsum_app.
  (* part 1: selected rows *)
  assert (P1 : lsum (new_rows R w t rsel)
      (fun y => snd y * Dout_of Drow (out_ops R w t rsel csel) (hd O (fst y)) * G (tl (fst y)))
    = lsum t (fun x => if memb (rkey R w x) rsel then snd x * Drow (rkey R w x) * G (ckey R w x) else 0)).
  { unfold new_rows. rewrite lsum_flat_map.
    transitivity (lsum (enum_from O rsel) (fun ir =>
       (fun r d => lsum t (fun x => if keqb (rkey R w x) r then snd x * d * G (ckey R w x) else 0))
         (snd ir) (Dout_of Drow (out_ops R w t rsel csel) (fst ir)))).
    { apply lsum_ext. intros ir _. rewrite lsum_map, lsum_filter. cbn [fst snd hd tl]. reflexivity. }
    unfold out_ops.
    etransitivity.
    { exact (nth_enum_rows [] (out_cols R w t rsel csel) rsel Drow
        (fun r d => lsum t (fun x => if keqb (rkey R w x) r then snd x * d * G (ckey R w x) else 0)) O eq_refl). }
    cbv beta. rewrite lsum_swap. apply lsum_ext. intros x _.
    transitivity (lsum rsel (fun s => if keqb s (rkey R w x) then snd x * Drow (rkey R w x) * G (ckey R w x) else 0)).
    { apply lsum_ext. intros s _. destruct (keqb_spec (rkey R w x) s) as [<-|Hne].
      - rewrite keqb_refl. ring.
      - destruct (keqb_spec s (rkey R w x)); [congruence|reflexivity]. }
    apply lsum_indicator. assumption. }
  (* part 2: complementary operators of the selected columns *)
  assert (P2 : lsum (new_cols R rsel csel)
      (fun y => snd y * Dout_of Drow (out_ops R w t rsel csel) (hd O (fst y)) * G (tl (fst y)))
    = lsum t (fun x => if memb (rkey R w x) rsel then 0
                       else if memb (ckey R w x) csel then snd x * Drow (rkey R w x) * G (ckey R w x) else 0)).
  { unfold new_cols. rewrite lsum_map. cbn [fst snd hd tl]. unfold out_ops, out_cols.
    etransitivity.
    { refine (nth_enum_cols (out_rows R rsel) csel _ Drow (fun c d => 1 * d * G c) (length rsel) _).
      unfold out_rows; now rewrite map_length. }
    cbv beta.
    transitivity (lsum csel (fun c =>
        lsum t (fun x => if keqb c (ckey R w x) then (if memb (rkey R w x) rsel then 0 else snd x * Drow (rkey R w x) * G (ckey R w x)) else 0))).
    { apply lsum_ext. intros c _. unfold den_outop. rewrite lsum_map, lsum_filter. cbn [fst snd].
      rewrite <- lsum_scale_l, <- lsum_scale_r. apply lsum_ext. intros x _.
      destruct (keqb_spec (ckey R w x) c) as [->|Hne].
      - rewrite keqb_refl. cbn [andb]. destruct (memb (rkey R w x) rsel); cbn [negb]; ring.
      - destruct (keqb_spec c (ckey R w x)); [congruence|]. cbn [andb]. ring. }
    rewrite lsum_swap. apply lsum_ext. intros x _.
    rewrite lsum_indicator by assumption.
    destruct (memb (ckey R w x) csel), (memb (rkey R w x) rsel); reflexivity. }
  rewrite P1, P2, <- lsum_add. apply lsum_ext. intros x Hx.
  destruct (memb_spec (rkey R w x) rsel); [ring|].
  destruct (memb_spec (ckey R w x) csel); [ring|].
  destruct (Hcov x Hx); contradiction.
Qed.

(* ---------------------------------------------------------------- rectangular tables *)
Definition rect (n : nat) (t : table) : Prop := Forall (fun x : trow => length (fst x) = n) t.
Definition olast (y : trow) : nat := last (fst y) O.
Definition oinit (y : trow) : key := removelast (fst y).

Lemma colsinb_spec w t csel : colsinb R w t csel = true ->
  forall c, In c csel -> exists x, In x t /\ ckey R w x = c.
Proof.
  unfold colsinb. rewrite forallb_forall. intros H c Hc. specialize (H c Hc).
  apply existsb_exists in H. destruct H as [x [Hx E]]. exists x. split; [assumption|].
  destruct (keqb_spec (ckey R w x) c); [assumption|discriminate].
Qed.

Lemma one_site_shape w t rsel csel y : In y (snd (one_site w t rsel csel)) ->
  (exists i x, In x t /\ fst y = i :: ckey R w x) \/ (exists j c, In c csel /\ fst y = j :: c).
Proof.
  cbn [one_site snd]. intros H. apply in_app_or in H. destruct H as [H|H].
  - left. unfold new_rows in H. apply in_flat_map in H. destruct H as [[i r] [_ H]].
    apply in_map_iff in H. destruct H as [x [<- Hx]]. apply filter_In in Hx. exists i, x. split; [tauto|reflexivity].
  - right. unfold new_cols in H. apply in_map_iff in H. destruct H as [[j c] [<- Hjc]].
    exists j, c. split; [|reflexivity].
    clear - Hjc. revert Hjc. generalize (length rsel). induction csel as [|c0 cs IH]; intros n0 H; [destruct H|].
    cbn [enum_from] in H. destruct H as [[= _ <-]|H]; [left; reflexivity|right; eapply IH; eassumption].
Qed.

Lemma one_site_rect n w t rsel csel : rect n t -> colsinb R w t csel = true ->
  rect (S (n - w)) (snd (one_site w t rsel csel)).
Proof.
  intros Hr Hc. apply Forall_forall. intros y Hy. unfold rect in Hr. rewrite Forall_forall in Hr.
  destruct (one_site_shape _ _ _ _ _ Hy) as [[i [x [Hx E]]]|[j [c [Hcin E]]]]; rewrite E; cbn [length]; f_equal.
  - unfold ckey. rewrite skipn_length. f_equal. now apply Hr.
  - destruct (colsinb_spec _ _ _ Hc c Hcin) as [x [Hx <-]]. unfold ckey. rewrite skipn_length. f_equal. now apply Hr.
Qed.

Lemma prep_rect n m t : rect n t -> rect (if Nat.eqb m 0 then S n else n) (prep m t).
Proof.
  intros Hr. unfold prep. destruct (Nat.eqb m 0); apply Forall_forall; intros y Hy; apply in_map_iff in Hy;
    destruct Hy as [x [<- Hx]]; unfold rect in Hr; rewrite Forall_forall in Hr; cbn [fst length].
  - f_equal. now apply Hr.
  - rewrite roll_right_length. now apply Hr.
Qed.

Lemma step_fst mk t w : fst (step mk t w) = out_ops R (rowwidth (fst mk) (snd mk)) (prep (fst mk) t) (fst w) (snd w).
Proof. reflexivity. Qed.
Lemma step_snd mk t w : snd (step mk t w) =
  map (fun x : trow => (roll_left1 (fst x), snd x)) (snd (one_site (rowwidth (fst mk) (snd mk)) (prep (fst mk) t) (fst w) (snd w))).
Proof. reflexivity. Qed.

Lemma valid_step_parts mk t w : valid_step mk t w = true ->
  NoDup (fst w) /\ NoDup (snd w) /\
  covers (rowwidth (fst mk) (snd mk)) (prep (fst mk) t) (fst w) (snd w) /\
  colsinb R (rowwidth (fst mk) (snd mk)) (prep (fst mk) t) (snd w) = true.
Proof.
  unfold valid_step. cbv zeta. rewrite !andb_true_iff. intros [[[H1 H2] H3] H4].
  repeat split; auto using nodupb_spec, coversb_spec.
Qed.

Lemma step_rect n mk t w : rect n t -> valid_step mk t w = true ->
  rect (S ((if Nat.eqb (fst mk) 0 then S n else n) - rowwidth (fst mk) (snd mk))) (snd (step mk t w)).
Proof.
  intros Hr Hv. destruct (valid_step_parts _ _ _ Hv) as [_ [_ [_ Hc]]].
  rewrite step_snd. pose proof (one_site_rect _ _ _ (fst w) _ (prep_rect n (fst mk) t Hr) Hc) as H.
  apply Forall_forall. intros y Hy. apply in_map_iff in Hy. destruct Hy as [x [<- Hx]].
  unfold rect in H. rewrite Forall_forall in H. cbn [fst]. rewrite roll_left1_length. now apply H.
Qed.

(* one loop iteration: prepend/roll, decompose, roll back *)
Lemma step_sound mk t w (Drow G : key -> R) : valid_step mk t w = true ->
  lsum (snd (step mk t w)) (fun y => snd y * Dout_of Drow (fst (step mk t w)) (olast y) * G (oinit y))
  = lsum (prep (fst mk) t) (fun x => snd x * Drow (rkey R (rowwidth (fst mk) (snd mk)) x) * G (ckey R (rowwidth (fst mk) (snd mk)) x)).
Proof.
  intros Hv. destruct (valid_step_parts _ _ _ Hv) as [N1 [N2 [Hcov _]]].
  rewrite <- (one_site_sound _ _ _ _ Drow G N1 N2 Hcov).
  rewrite step_snd, step_fst, lsum_map. apply lsum_ext. intros y Hy. cbn [fst snd].
  assert (E : exists j c, fst y = j :: c).
  { destruct (one_site_shape _ _ _ _ _ Hy) as [[i [x [_ E]]]|[j [c [_ E]]]]; eauto. }
  destruct E as [j [c E]]. unfold olast, oinit. cbn [fst]. rewrite E, roll_left1_cons, last_last, removelast_last.
  reflexivity.
Qed.

(* ---------------------------------------------------------------- the loop over concatenated node lists *)
Lemma skipn_S_tl {X} n (l : list X) : skipn (S n) l = skipn n (tl l).
Proof. destruct l; [cbn [tl]; now rewrite !skipn_nil|reflexivity]. Qed.

Lemma loop_app l1 l2 : forall (t : table) ws,
  loop (l1 ++ l2) t ws =
  (fst (loop l1 t ws) ++ fst (loop l2 (snd (loop l1 t ws)) (skipn (length l1) ws)),
   snd (loop l2 (snd (loop l1 t ws)) (skipn (length l1) ws))).
Proof.
  induction l1 as [|a l1 IH]; intros t ws; cbn [app loop length fst snd].
  - cbn [skipn]. now destruct (loop l2 t ws).
  - rewrite IH. cbn [fst snd]. rewrite skipn_S_tl. reflexivity.
Qed.
Lemma valid_run_app l1 l2 : forall (t : table) ws,
  valid_run (l1 ++ l2) t ws = valid_run l1 t ws && valid_run l2 (snd (loop l1 t ws)) (skipn (length l1) ws).
Proof.
  induction l1 as [|a l1 IH]; intros t ws; cbn [app valid_run loop length fst snd]; [reflexivity|].
  rewrite IH, skipn_S_tl, andb_assoc. reflexivity.
Qed.
Lemma loop_length l : forall (t : table) ws, length (fst (loop l t ws)) = length l.
Proof. induction l as [|a l IH]; intros t ws; cbn [loop fst length]; [reflexivity|]. now rewrite IH. Qed.

Lemma map_flat_map' {X Y Z} (f : Y -> Z) (g : X -> list Y) l : map f (flat_map g l) = flat_map (fun x => map f (g x)) l.
Proof. induction l as [|a l IH]; cbn [flat_map map]; [reflexivity|]. now rewrite map_app, IH. Qed.
Lemma pmk_node k ch : pmk (Node k ch) = flat_map pmk ch ++ [(length ch, k)].
Proof. unfold pmk. cbn [postorder]. rewrite map_app, map_flat_map'. reflexivity. Qed.
Lemma pmk_length t : length (pmk t) = size t.
Proof. unfold pmk. rewrite map_length. apply postorder_size. Qed.
Lemma forest_pmk_length cs : length (flat_map pmk cs) = list_sum (map size cs).
Proof. induction cs as [|c cs IH]; cbn [flat_map map list_sum]; [reflexivity|]. now rewrite app_length, pmk_length, IH. Qed.

(* ---------------------------------------------------------------- indicator algebra *)
Lemma firstn_eq_split {X} a b (x s : list X) : length s = (a + b)%nat ->
  (firstn (a + b) x = s <-> firstn a x = firstn a s /\ firstn b (skipn a x) = skipn a s).
Proof.
  intros Hs. split.
  - intros E. assert (Hx : (a + b <= length x)%nat).
    { apply (f_equal (@length X)) in E. rewrite firstn_length in E. lia. }
    rewrite firstn_plus in E. split.
    + apply (f_equal (firstn a)) in E. rewrite firstn_app, firstn_firstn, Nat.min_id in E.
      rewrite firstn_length, Nat.min_l in E by lia. rewrite Nat.sub_diag in E. cbn [firstn] in E. now rewrite app_nil_r in E.
    + apply (f_equal (skipn a)) in E. rewrite skipn_app, firstn_length, Nat.min_l in E by lia.
      rewrite Nat.sub_diag in E. cbn [skipn] in E. rewrite skipn_all2 in E by (rewrite firstn_length; lia). exact E.
  - intros [E1 E2]. rewrite firstn_plus, E1, E2. apply firstn_skipn.
Qed.

Lemma kdelta_split a b (x s : key) : length s = (a + b)%nat ->
  kdelta R (firstn a x) (firstn a s) * kdelta R (firstn b (skipn a x)) (skipn a s) = kdelta R (firstn (a + b) x) s.
Proof.
  intros Hs. pose proof (firstn_eq_split a b x s Hs) as H. unfold kdelta.
  destruct (keqb_spec (firstn (a + b) x) s) as [E|NE].
  - destruct (proj1 H E) as [E1 E2]. rewrite E1, E2, !keqb_refl. ring.
  - destruct (keqb_spec (firstn a x) (firstn a s)) as [E1|]; [|ring].
    destruct (keqb_spec (firstn b (skipn a x)) (skipn a s)) as [E2|]; [|ring].
    exfalso. apply NE. apply H. split; assumption.
Qed.


(* ---------------------------------------------------------------- _decompose_qr, relative to a witness *)
Lemma lsum_pick (sel : list key) (k : key) (F : key -> R) :
  NoDup sel -> In k sel -> lsum sel (fun s => if keqb k s then F s else 0) = F k.
Proof.
  intros ND Hin.
  transitivity (lsum sel (fun s => if keqb s k then F k else 0)).
  { apply lsum_ext. intros s _. destruct (keqb_spec k s) as [->|NE]; [now rewrite keqb_refl|].
    destruct (keqb_spec s k); [congruence|reflexivity]. }
  rewrite lsum_indicator by assumption. destruct (memb_spec k sel); [reflexivity|contradiction].
Qed.

(* a weighted sum of products Drow(row key) * G(column key), regrouped by distinct keys *)
Lemma bilinear_expand {X} (l : list X) (kr kc : X -> key) (f : X -> R) (qrows qcols : list key) (Drow G : key -> R) :
  NoDup qrows -> NoDup qcols -> (forall x, In x l -> In (kr x) qrows /\ In (kc x) qcols) ->
  lsum l (fun x => f x * (Drow (kr x) * G (kc x)))
  = lsum qrows (fun rk => lsum qcols (fun ck =>
      Drow rk * G ck * lsum l (fun x => if keqb (kr x) rk && keqb (kc x) ck then f x else 0))).
Proof.
  intros NDr NDc. induction l as [|x l IH]; intros Hin.
  - cbn [Ttno.lsum]. symmetry. apply lsum_zero. intros rk _. apply lsum_zero. intros ck _. ring.
  - cbn [Ttno.lsum]. rewrite IH by (intros; apply Hin; now right).
    destruct (Hin x (in_eq _ _)) as [Hr Hc].
    transitivity (lsum qrows (fun rk => lsum qcols (fun ck =>
        (if keqb (kr x) rk then (if keqb (kc x) ck then Drow rk * G ck * f x else 0) else 0)))
      + lsum qrows (fun rk => lsum qcols (fun ck =>
        Drow rk * G ck * lsum l (fun x0 => if keqb (kr x0) rk && keqb (kc x0) ck then f x0 else 0)))).
    { f_equal.
      transitivity (lsum qrows (fun rk => if keqb (kr x) rk then lsum qcols (fun ck => if keqb (kc x) ck then Drow rk * G ck * f x else 0) else 0)).
      - rewrite (lsum_pick qrows (kr x) (fun rk => lsum qcols (fun ck => if keqb (kc x) ck then Drow rk * G ck * f x else 0)) NDr Hr).
        rewrite (lsum_pick qcols (kc x) (fun ck => Drow (kr x) * G ck * f x) NDc Hc). ring.
      - apply lsum_ext. intros rk _. destruct (keqb (kr x) rk); [reflexivity|]. symmetry. apply lsum_zero. reflexivity. }
    rewrite <- lsum_add. apply lsum_ext. intros rk _. rewrite <- lsum_add. apply lsum_ext. intros ck _.
    destruct (keqb (kr x) rk), (keqb (kc x) ck); cbn [andb]; ring.
Qed.

Definition rcol (e : rentry R) : key := snd (fst e).
Definition ridx (e : rentry R) : nat := fst (fst e).

(* admissible factorisation witness for the table t split after w columns *)
Definition qr_valid (w : nat) (t : table) (qrows qcols : list key) (q : bond) (r : list (rentry R)) : Prop :=
  NoDup qrows /\ NoDup qcols /\
  (forall x, In x t -> In (rkey R w x) qrows /\ In (ckey R w x) qcols) /\
  (forall e p, In e r -> In p (nth (ridx e) q []) -> In (fst p) qrows) /\
  (forall e, In e r -> In (rcol e) qcols /\ exists x, In x t /\ ckey R w x = rcol e) /\
  (forall rk ck, In rk qrows -> In ck qcols -> qr_entry R q r rk ck = gamma_entry R w t rk ck).

Theorem one_site_qr_sound (w : nat) (t : table) (qrows qcols : list key) (q : bond) (r : list (rentry R)) (Drow G : key -> R) :
  qr_valid w t qrows qcols q r ->
  lsum (qr_table R r) (fun y => snd y * Dout_of Drow q (hd O (fst y)) * G (tl (fst y)))
  = lsum t (fun x => snd x * Drow (rkey R w x) * G (ckey R w x)).
Proof.
  intros [NDr [NDc [Ht [Hq [Hr Hex]]]]].
  (* right-hand side, regrouped *)
  transitivity (lsum qrows (fun rk => lsum qcols (fun ck => Drow rk * G ck * gamma_entry R w t rk ck))).
  2:{ unfold gamma_entry. rewrite <- (bilinear_expand t (rkey R w) (ckey R w) (fun x => snd x) qrows qcols Drow G NDr NDc Ht).
      apply lsum_ext. intros; ring. }
  (* left-hand side: expand the out-operators into their summands *)
  transitivity (lsum (flat_map (fun e => map (fun p => (e, p)) (nth (ridx e) q [])) r)
                     (fun ep => (snd (fst ep) * snd (snd ep)) * (Drow (fst (snd ep)) * G (rcol (fst ep))))).
  { unfold qr_table. rewrite lsum_map, lsum_flat_map. apply lsum_ext. intros e _. cbn [fst snd hd tl].
    unfold Dout_of, den_outop. rewrite lsum_map. cbn [fst snd]. fold (ridx e) (rcol e).
    rewrite <- lsum_scale_l, <- lsum_scale_r. apply lsum_ext. intros p _. unfold ridx, rcol, key in *. ring. }
  rewrite (bilinear_expand _ (fun ep => fst (snd ep)) (fun ep => rcol (fst ep)) (fun ep => snd (fst ep) * snd (snd ep))
             qrows qcols Drow G NDr NDc).
  2:{ intros [e p] Hin. apply in_flat_map in Hin. destruct Hin as [e' [He' Hp]]. apply in_map_iff in Hp.
      destruct Hp as [p' [[= <- <-] Hp']]. cbn [fst snd]. split; [eapply Hq; eassumption|apply Hr; assumption]. }
  apply lsum_ext. intros rk Hrk. apply lsum_ext. intros ck Hck. f_equal.
  rewrite <- (Hex rk ck Hrk Hck). unfold qr_entry. rewrite lsum_flat_map. apply lsum_ext. intros e _.
  rewrite lsum_map. cbn [fst snd]. fold (ridx e) (rcol e).
  destruct (keqb (rcol e) ck).
  - rewrite <- lsum_scale_l. apply lsum_ext. intros p _. rewrite andb_true_r. destruct (keqb (fst p) rk); ring.
  - apply lsum_zero. intros p _. now rewrite andb_false_r.
Qed.

(* ---------------------------------------------------------------- steps with either kind of witness *)
Definition svalid_step (mk : nat * nat) (t : table) (sw : swit R) : Prop :=
  match sw with
  | WG w => valid_step mk t w = true
  | WQ _ qrows qcols q r => qr_valid (rowwidth (fst mk) (snd mk)) (prep (fst mk) t) qrows qcols q r
  end.
Fixpoint svalid_run (nodes : list (nat * nat)) (t : table) (sws : list (swit R)) : Prop :=
  match nodes with
  | [] => True
  | n :: ns => svalid_step n t (hd (swit0 R) sws) /\ svalid_run ns (snd (sstep n t (hd (swit0 R) sws))) (tl sws)
  end.

Lemma sstep_rect n mk t sw : rect n t -> svalid_step mk t sw ->
  rect (S ((if Nat.eqb (fst mk) 0 then S n else n) - rowwidth (fst mk) (snd mk))) (snd (sstep mk t sw)).
Proof.
  destruct sw as [w|qrows qcols q r]; cbn [sstep svalid_step]; [apply step_rect|].
  intros Hr [_ [_ [_ [_ [Hc _]]]]]. cbn [snd]. apply Forall_forall. intros y Hy.
  apply in_map_iff in Hy. destruct Hy as [y0 [<- Hy0]]. unfold qr_table in Hy0. apply in_map_iff in Hy0.
  destruct Hy0 as [e [<- He]]. cbn [fst]. rewrite roll_left1_length. cbn [length]. f_equal.
  destruct (Hc e He) as [_ [x [Hx E]]]. unfold rcol in E.
  transitivity (length (ckey R (rowwidth (fst mk) (snd mk)) x)); [now rewrite E|].
  unfold ckey. rewrite skipn_length. f_equal.
  pose proof (prep_rect n (fst mk) t Hr) as Hp. unfold rect in Hp. rewrite Forall_forall in Hp. now apply Hp.
Qed.

Lemma sstep_sound mk t sw (Drow G : key -> R) : svalid_step mk t sw ->
  lsum (snd (sstep mk t sw)) (fun y => snd y * Dout_of Drow (fst (sstep mk t sw)) (olast y) * G (oinit y))
  = lsum (prep (fst mk) t) (fun x => snd x * Drow (rkey R (rowwidth (fst mk) (snd mk)) x) * G (ckey R (rowwidth (fst mk) (snd mk)) x)).
Proof.
  destruct sw as [w|qrows qcols q r]; cbn [sstep svalid_step]; [apply step_sound|].
  intros Hv. rewrite <- (one_site_qr_sound _ _ _ _ _ _ Drow G Hv). cbn [fst snd]. rewrite lsum_map.
  apply lsum_ext. intros y Hy. unfold qr_table in Hy. apply in_map_iff in Hy. destruct Hy as [e [<- _]].
  unfold olast, oinit. cbn [fst snd hd tl]. now rewrite roll_left1_cons, last_last, removelast_last.
Qed.

Lemma sloop_app l1 l2 : forall (t : table) sws,
  sloop (l1 ++ l2) t sws =
  (fst (sloop l1 t sws) ++ fst (sloop l2 (snd (sloop l1 t sws)) (skipn (length l1) sws)),
   snd (sloop l2 (snd (sloop l1 t sws)) (skipn (length l1) sws))).
Proof.
  induction l1 as [|a l1 IH]; intros t sws; cbn [app sloop length fst snd].
  - cbn [skipn]. now destruct (sloop l2 t sws).
  - rewrite IH. cbn [fst snd]. rewrite skipn_S_tl. reflexivity.
Qed.
Lemma svalid_run_app l1 l2 : forall (t : table) sws,
  svalid_run (l1 ++ l2) t sws <-> svalid_run l1 t sws /\ svalid_run l2 (snd (sloop l1 t sws)) (skipn (length l1) sws).
Proof.
  induction l1 as [|a l1 IH]; intros t sws; cbn [app svalid_run sloop length fst snd].
  - cbn [skipn]. tauto.
  - rewrite IH, skipn_S_tl. tauto.
Qed.
Lemma sloop_length l : forall (t : table) sws, length (fst (sloop l t sws)) = length l.
Proof. induction l as [|a l IH]; intros t sws; cbn [sloop fst length]; [reflexivity|]. now rewrite IH. Qed.

(* a run with covers only is a run of the general loop *)
Lemma map_tl' {X Y} (f : X -> Y) l : map f (tl l) = tl (map f l).
Proof. destruct l; reflexivity. Qed.
Lemma hd_map_WG ws : hd (swit0 R) (map (@WG R) ws) = WG (hd ([], []) ws).
Proof. destruct ws; reflexivity. Qed.
Lemma sloop_WG l : forall (t : table) ws, sloop l t (map (@WG R) ws) = loop l t ws.
Proof.
  induction l as [|a l IH]; intros t ws; cbn [sloop loop]; [reflexivity|].
  rewrite hd_map_WG. cbn [sstep]. rewrite <- map_tl', IH. reflexivity.
Qed.
Lemma svalid_run_WG l : forall (t : table) ws, valid_run l t ws = true -> svalid_run l t (map (@WG R) ws).
Proof.
  induction l as [|a l IH]; intros t ws H; cbn [svalid_run valid_run] in *; [exact I|].
  apply andb_true_iff in H. destruct H as [H1 H2]. rewrite hd_map_WG. cbn [svalid_step sstep]. split; [exact H1|].
  rewrite <- map_tl'. now apply IH.
Qed.

(* ---------------------------------------------------------------- the invariant, tree by tree *)
Lemma den_node k ch bs j s :
  den (Node k ch) bs j s =
  den_outop R (fun sym =>
     match ch with
     | [] => kdelta R (skipn 1 sym) s
     | _ => den_forest R (@den R) ch (removelast bs) (firstn (length ch) sym) (firstn (list_sum (map width ch)) s)
            * kdelta R (skipn (length ch) sym) (skipn (list_sum (map width ch)) s)
     end) (nth j (last bs []) []).
Proof. reflexivity. Qed.

Lemma den_forest_cons c cs bs o os s :
  den_forest R (@den R) (c :: cs) bs (o :: os) s =
  den c (firstn (size c) bs) o (firstn (width c) s) * den_forest R (@den R) cs (skipn (size c) bs) os (skipn (width c) s).
Proof. reflexivity. Qed.

Definition Wd (cs : list tree) : nat := list_sum (map width cs).

Definition tree_ok (t : tree) : Prop := forall (T : table) ws n,
  rect n T -> (width t <= n)%nat -> svalid_run (pmk t) T ws ->
  rect (n - width t + 1) (snd (sloop (pmk t) T ws)) /\
  forall (G : key -> R) s, length s = width t ->
  lsum (snd (sloop (pmk t) T ws)) (fun y => snd y * den t (fst (sloop (pmk t) T ws)) (olast y) s * G (oinit y))
  = lsum T (fun x => snd x * kdelta R (firstn (width t) (fst x)) s * G (skipn (width t) (fst x))).

Definition forest_ok (cs : list tree) : Prop := forall (T : table) ws n,
  rect n T -> (Wd cs <= n)%nat -> svalid_run (flat_map pmk cs) T ws ->
  rect (n - Wd cs + length cs) (snd (sloop (flat_map pmk cs) T ws)) /\
  forall (G : key -> R) s, length s = Wd cs ->
  lsum (snd (sloop (flat_map pmk cs) T ws))
       (fun y => snd y * den_forest R (@den R) cs (fst (sloop (flat_map pmk cs) T ws)) (lastn (length cs) (fst y)) s
                 * G (initn (length cs) (fst y)))
  = lsum T (fun x => snd x * kdelta R (firstn (Wd cs) (fst x)) s * G (skipn (Wd cs) (fst x))).

Lemma rect_cast a b (T : table) : rect a T -> a = b -> rect b T.
Proof. now intros H <-. Qed.
Lemma rect_len n (T : table) x : rect n T -> In x T -> length (fst x) = n.
Proof. unfold rect. rewrite Forall_forall. auto. Qed.

Lemma forest_ok_nil : forest_ok [].
Proof.
  intros T ws n Hr _ _. cbn [flat_map loop fst snd length Wd map list_sum]. unfold Wd. cbn [map list_sum].
  split; [now rewrite Nat.sub_0_r, Nat.add_0_r|].
  intros G s Hs. destruct s; [|discriminate]. apply lsum_ext. intros x _.
  rewrite lastn_0, initn_0. cbn [den_forest firstn skipn]. reflexivity.
Qed.

Lemma forest_ok_cons c cs : tree_ok c -> forest_ok cs -> forest_ok (c :: cs).
Proof.
  intros Hc Hcs T ws n Hr Hw Hv.
  assert (EW : Wd (c :: cs) = (width c + Wd cs)%nat) by reflexivity.
  cbn [flat_map] in *. apply svalid_run_app in Hv. destruct Hv as [Hv1 Hv2].
  rewrite sloop_app. cbn [fst snd].
  set (T1 := snd (sloop (pmk c) T ws)) in *. set (b1 := fst (sloop (pmk c) T ws)).
  set (ws' := skipn (length (pmk c)) ws) in *.
  set (T2 := snd (sloop (flat_map pmk cs) T1 ws')). set (b2 := fst (sloop (flat_map pmk cs) T1 ws')).
  destruct (Hc T ws n Hr ltac:(lia) Hv1) as [Hr1 Heq1]. fold T1 in Hr1, Heq1. fold b1 in Heq1.
  destruct (Hcs T1 ws' (n - width c + 1)%nat Hr1 ltac:(lia) Hv2) as [Hr2 Heq2]. fold T2 in Hr2, Heq2. fold b2 in Heq2.
  assert (Lb1 : length b1 = size c) by (unfold b1; now rewrite sloop_length, pmk_length).
  split.
  - cbn [length]. replace (n - Wd (c :: cs) + S (length cs))%nat with (n - width c + 1 - Wd cs + length cs)%nat by lia. exact Hr2.
  - intros G s Hs. cbn [length].
    set (s1 := firstn (width c) s). set (s2 := skipn (width c) s).
    assert (Ls1 : length s1 = width c) by (unfold s1; rewrite firstn_length; lia).
    assert (Ls2 : length s2 = Wd cs) by (unfold s2; rewrite skipn_length; lia).
    (* A: peel the first child off the forest denotation *)
    transitivity (lsum T2 (fun y => snd y * den_forest R (@den R) cs b2 (lastn (length cs) (fst y)) s2 *
                    (fun u => den c b1 (last u O) s1 * G (removelast u)) (initn (length cs) (fst y)))).
    { apply lsum_ext. intros y Hy. pose proof (rect_len _ _ _ Hr2 Hy) as Ly.
      rewrite (lastn_S _ _ O) by lia. rewrite initn_S by lia. rewrite den_forest_cons.
      rewrite firstn_app, Lb1, Nat.sub_diag, firstn_all2 by lia. cbn [firstn]. rewrite app_nil_r.
      rewrite skipn_app, Lb1, Nat.sub_diag, skipn_all2 by lia. cbn [skipn app].
      fold s1 s2. ring. }
    cbv beta. pose proof (Heq2 (fun u => den c b1 (last u O) s1 * G (removelast u)) s2 Ls2) as E2. cbv beta in E2.
    rewrite E2. clear E2.
    (* C: rows of T1 are longer than what the remaining children read *)
    transitivity (lsum T1 (fun x => snd x * den c b1 (olast x) s1 *
                    (fun v => kdelta R (firstn (Wd cs) v) s2 * G (skipn (Wd cs) v)) (oinit x))).
    { apply lsum_ext. intros x Hx. pose proof (rect_len _ _ _ Hr1 Hx) as Lx. unfold olast, oinit.
      rewrite last_skipn, removelast_skipn, firstn_removelast by lia. ring. }
    cbv beta. pose proof (Heq1 (fun v => kdelta R (firstn (Wd cs) v) s2 * G (skipn (Wd cs) v)) s1 Ls1) as E1. cbv beta in E1.
    rewrite E1. clear E1.
    apply lsum_ext. intros x _. rewrite skipn_skipn, EW, <- (kdelta_split (width c) (Wd cs) (fst x) s) by lia.
    fold s1 s2. ring.
Qed.

Lemma forest_ok_all cs : Forall tree_ok cs -> forest_ok cs.
Proof. induction 1; [apply forest_ok_nil|now apply forest_ok_cons]. Qed.

Lemma tree_ok_node k ch : Forall tree_ok ch -> tree_ok (Node k ch).
Proof.
  intros Hch T ws n Hr Hw Hv. pose proof (forest_ok_all ch Hch) as HF.
  assert (EW : width (Node k ch) = (Wd ch + k)%nat) by reflexivity.
  rewrite pmk_node in *. apply svalid_run_app in Hv. destruct Hv as [Hv1 Hv2].
  rewrite sloop_app. cbn [fst snd].
  set (T' := snd (sloop (flat_map pmk ch) T ws)) in *. set (bsc := fst (sloop (flat_map pmk ch) T ws)).
  set (ws' := skipn (length (flat_map pmk ch)) ws) in *.
  destruct (HF T ws n Hr ltac:(lia) Hv1) as [Hr' HeqF]. fold T' in Hr', HeqF. fold bsc in HeqF.
  cbn [sloop fst snd svalid_run] in *. destruct Hv2 as [Hv2 _].
  set (w0 := hd (swit0 R) ws') in *. set (mk := (length ch, k)) in *.
  split.
  - pose proof (sstep_rect _ mk T' w0 Hr' Hv2) as H. cbn [fst snd mk] in H. unfold rowwidth in H.
    eapply rect_cast; [exact H|]. rewrite EW in *. clear - Hw.
    destruct ch as [|c0 ch0]; cbn [length Nat.eqb]; lia.
  - intros G s Hs.
    set (Drow := fun sym : key =>
       match ch with
       | [] => kdelta R (skipn 1 sym) s
       | _ => den_forest R (@den R) ch bsc (firstn (length ch) sym) (firstn (Wd ch) s)
              * kdelta R (skipn (length ch) sym) (skipn (Wd ch) s)
       end).
    transitivity (lsum (snd (sstep mk T' w0))
       (fun y => snd y * Dout_of Drow (fst (sstep mk T' w0)) (olast y) * G (oinit y))).
    { apply lsum_ext. intros y _. rewrite den_node, last_last, removelast_last. reflexivity. }
    rewrite (sstep_sound mk T' w0 Drow G Hv2). cbn [fst snd mk]. unfold prep, rowwidth.
    destruct ch as [|c0 ch0].
    + (* leaf *)
      cbn [length Nat.eqb flat_map sloop fst snd] in *. subst T'. rewrite lsum_map. apply lsum_ext. intros x _.
      unfold rkey, ckey, Drow. cbn [fst snd firstn skipn Nat.add]. unfold Wd. cbn [map list_sum Nat.add]. reflexivity.
    + (* m >= 1 children *)
      set (m := length (c0 :: ch0)) in *. assert (Hm : m = S (length ch0)) by reflexivity.
      replace (Nat.eqb m 0) with false by (rewrite Hm; reflexivity).
      rewrite lsum_map.
      transitivity (lsum T' (fun y => snd y * den_forest R (@den R) (c0 :: ch0) bsc (lastn m (fst y)) (firstn (Wd (c0 :: ch0)) s)
                     * (fun u => kdelta R (firstn k u) (skipn (Wd (c0 :: ch0)) s) * G (skipn k u)) (initn m (fst y)))).
      { apply lsum_ext. intros y Hy. pose proof (rect_len _ _ _ Hr' Hy) as Ly. fold m in Ly. unfold key in Ly.
        unfold rkey, ckey. cbn [fst snd]. rewrite roll_right_split by lia.
        assert (Ll : length (lastn m (fst y)) = m) by (apply lastn_length; lia).
        rewrite firstn_app, skipn_app, Ll. replace (m + k - m)%nat with k by lia.
        rewrite (firstn_all2 (n := (m + k)%nat)) by lia. rewrite (skipn_all2 (n := (m + k)%nat)) by lia. cbn [app].
        unfold Drow. rewrite firstn_app, skipn_app, Ll, Nat.sub_diag. cbn [firstn skipn].
        rewrite firstn_all2, skipn_all2 by lia. rewrite app_nil_r. cbn [app]. fold m. unfold key in *. ring. }
      assert (Ls1 : length (firstn (Wd (c0 :: ch0)) s) = Wd (c0 :: ch0)) by (rewrite firstn_length; lia).
      cbv beta. pose proof (HeqF (fun u => kdelta R (firstn k u) (skipn (Wd (c0 :: ch0)) s) * G (skipn k u)) _ Ls1) as EF.
      cbv beta in EF. rewrite EF. clear EF.
      apply lsum_ext. intros x _. rewrite skipn_skipn, EW.
      rewrite <- (kdelta_split (Wd (c0 :: ch0)) k (fst x) s) by lia. ring.
Qed.

Theorem all_trees_ok : forall t, tree_ok t.
Proof. induction t as [k ch IH] using tree_ind'. now apply tree_ok_node. Qed.

(* ---------------------------------------------------------------- the theorem *)
Definition sfinal_den (tr : tree) (T : table) (sws : list (swit R)) (s : key) : R :=
  lsum (snd (sconstruct tr T sws)) (fun y => snd y * den tr (fst (sconstruct tr T sws)) (olast y) s).
Definition final_den (tr : tree) (T : table) (ws : list wit) (s : key) : R :=
  lsum (snd (construct tr T ws)) (fun y => snd y * den tr (fst (construct tr T ws)) (olast y) s).

(* every node may use a vertex cover or a factorisation *)
Theorem ttno_sound_table_gen : forall tr (T : table) sws,
  rect (width tr) T -> svalid_run (pmk tr) T sws ->
  forall s, length s = width tr -> sfinal_den tr T sws s = coeff T s.
Proof.
  intros tr T sws Hr Hv s Hs. unfold sfinal_den, sconstruct.
  destruct (all_trees_ok tr T sws (width tr) Hr (le_n _) Hv) as [_ H].
  specialize (H (fun _ => 1) s Hs).
  transitivity (lsum T (fun x : trow => snd x * kdelta R (firstn (width tr) (fst x)) s * 1)).
  - rewrite <- H. apply lsum_ext. intros; ring.
  - unfold coeff. apply lsum_ext. intros x Hx. rewrite firstn_all2 by (rewrite (rect_len _ _ _ Hr Hx); lia). ring.
Qed.

Theorem ttno_sound_table : forall tr (T : table) ws,
  rect (width tr) T -> valid_run (pmk tr) T ws = true ->
  forall s, length s = width tr -> final_den tr T ws s = coeff T s.
Proof.
  intros tr T ws Hr Hv s Hs.
  rewrite <- (ttno_sound_table_gen tr T (map (@WG R) ws) Hr (svalid_run_WG _ _ _ Hv) s Hs).
  unfold final_den, sfinal_den, construct, sconstruct. now rewrite sloop_WG.
Qed.

(* the qr algorithm (and any mixture): relative to exact factorisation witnesses; the final table is
   what the code produces at the root, where gamma has one column: q = gamma, r = [[1]] *)
Theorem ttno_sound_qr : forall tr (T : table) sws,
  rect (width tr) T -> svalid_run (pmk tr) T sws ->
  snd (sconstruct tr T sws) = [([O], 1)] ->
  forall s, length s = width tr -> ttno_coeff tr (fst (sconstruct tr T sws)) s = coeff T s.
Proof.
  intros tr T sws Hr Hv Hfin s Hs. rewrite <- (ttno_sound_table_gen tr T sws Hr Hv s Hs).
  unfold sfinal_den. rewrite Hfin. cbn [Ttno.lsum fst snd]. unfold olast, ttno_coeff. cbn [fst last]. ring.
Qed.

(* at the root the column part of every row is empty; the implementation's cover is the single
   (empty) column, which leaves the one-row table [0] with factor 1 *)
Lemma hd_skipn_nth {X} n (l : list X) d : hd d (skipn n l) = nth n l d.
Proof. revert l. induction n as [|n IH]; intros [|x l]; cbn [skipn hd nth]; auto. Qed.

Lemma root_final_table tr (T : table) ws :
  nth (size tr - 1) ws ([], []) = ([], [[]]) -> snd (construct tr T ws) = [([O], 1)].
Proof.
  intros Hw. unfold construct. destruct tr as [k ch]. rewrite pmk_node, loop_app. cbn [fst snd loop].
  rewrite hd_skipn_nth, forest_pmk_length.
  replace (list_sum (map size ch)) with (size (Node k ch) - 1)%nat by (cbn [size]; lia).
  unfold wit, key in *. rewrite Hw. reflexivity.
Qed.

Theorem ttno_sound : forall tr (T : table) ws,
  rect (width tr) T -> valid_run (pmk tr) T ws = true ->
  nth (size tr - 1) ws ([], []) = ([], [[]]) ->
  forall s, length s = width tr -> ttno_coeff tr (fst (construct tr T ws)) s = coeff T s.
Proof.
  intros tr T ws Hr Hv Hw s Hs. rewrite <- (ttno_sound_table tr T ws Hr Hv s Hs).
  unfold final_den. rewrite (root_final_table tr T ws Hw). cbn [Ttno.lsum fst snd]. unfold olast, ttno_coeff. cbn [fst last]. ring.
Qed.

End Sound.

(* ------------------------------------------------------------------ the stack discipline *)
Lemma hloop_app l1 l2 : forall idx h,
  hloop idx (l1 ++ l2) h =
  (fst (hloop idx l1 h) ++ fst (hloop (idx + length l1) l2 (snd (hloop idx l1 h))),
   snd (hloop (idx + length l1) l2 (snd (hloop idx l1 h)))).
Proof.
  induction l1 as [|a l1 IH]; intros idx h; cbn [app hloop length fst snd].
  - rewrite Nat.add_0_r. now destruct (hloop idx l2 h).
  - rewrite IH. cbn [fst snd]. replace (idx + S (length l1)) with (S idx + length l1) by lia. reflexivity.
Qed.

Lemma own_cols_length idx k : length (own_cols idx k) = k.
Proof. unfold own_cols. now rewrite map_length, seq_length. Qed.
Lemma root_positions_length base cs : length (root_positions base cs) = length cs.
Proof. revert base. induction cs as [|c cs IH]; intros base; cbn [root_positions length]; [reflexivity|]. now rewrite IH. Qed.

Lemma phys_cols_node base k ch :
  phys_cols base (Node k ch) = phys_forest base ch ++ own_cols (base + list_sum (map size ch)) k.
Proof. reflexivity. Qed.
Lemma phys_forest_cons base c cs : phys_forest base (c :: cs) = phys_cols base c ++ phys_forest (base + size c) cs.
Proof. reflexivity. Qed.
Lemma expected_node base k ch rest :
  expected base (Node k ch) rest =
  expected_forest (own_cols (base + list_sum (map size ch)) k) rest base ch []
  ++ [ {| consumed := (match ch with [] => [Zero] | _ => map Out (root_positions base ch) end)
                      ++ own_cols (base + list_sum (map size ch)) k;
          remaining := rest |} ].
Proof. reflexivity. Qed.
Lemma expected_forest_cons own rest b c cs done :
  expected_forest own rest b (c :: cs) done =
  expected b c (phys_forest (b + size c) cs ++ own ++ rest ++ done)
  ++ expected_forest own rest (b + size c) cs (done ++ [Out (b + size c - 1)]).
Proof. reflexivity. Qed.

Definition hdisc (t : tree) : Prop := forall base rest,
  hloop base (pmk t) (phys_cols base t ++ rest) = (expected base t rest, rest ++ [Out (base + size t - 1)]).

Definition hdisc_forest (cs : list tree) : Prop := forall base own rest done,
  hloop base (flat_map pmk cs) (phys_forest base cs ++ own ++ rest ++ done)
  = (expected_forest own rest base cs done, own ++ rest ++ done ++ map Out (root_positions base cs)).

Lemma hdisc_forest_all cs : Forall hdisc cs -> hdisc_forest cs.
Proof.
  induction 1 as [|c cs Hc _ IH]; intros base own rest done.
  - cbn [flat_map hloop root_positions map]. now rewrite app_nil_r.
  - cbn [flat_map]. rewrite hloop_app, phys_forest_cons, <- app_assoc, Hc. cbn [fst snd].
    rewrite pmk_length, expected_forest_cons.
    replace ((phys_forest (base + size c) cs ++ own ++ rest ++ done) ++ [Out (base + size c - 1)])
      with (phys_forest (base + size c) cs ++ own ++ rest ++ (done ++ [Out (base + size c - 1)]))
      by (now rewrite <- !app_assoc).
    rewrite IH. cbn [fst snd root_positions map]. f_equal. now rewrite <- !app_assoc.
Qed.

Theorem stack_discipline_gen : forall t, hdisc t.
Proof.
  induction t as [k ch IH] using tree_ind'. intros base rest.
  pose proof (hdisc_forest_all ch IH base (own_cols (base + list_sum (map size ch)) k) rest []) as HF.
  rewrite pmk_node, hloop_app, phys_cols_node, <- app_assoc.
  rewrite app_nil_r in HF. change ([] ++ map Out (root_positions base ch)) with (map Out (root_positions base ch)) in HF.
  rewrite HF. cbn [fst snd hloop]. rewrite forest_pmk_length, expected_node.
  set (own := own_cols (base + list_sum (map size ch)) k).
  assert (Lo : length own = k) by apply own_cols_length.
  assert (Es : base + size (Node k ch) - 1 = base + list_sum (map size ch)) by (cbn [size]; lia).
  rewrite Es. unfold hstep. cbn [fst snd]. unfold rowwidth.
  destruct ch as [|c0 ch0].
  - cbn [length Nat.eqb root_positions map app]. rewrite app_nil_r.
    cbn [Nat.add firstn skipn]. rewrite firstn_app, skipn_app, Lo, Nat.sub_diag, firstn_all2, skipn_all2 by lia.
    cbn [firstn skipn app]. rewrite app_nil_r. reflexivity.
  - set (ch := c0 :: ch0) in *. set (m := length ch).
    assert (Hm : Nat.eqb m 0 = false) by reflexivity. rewrite Hm.
    set (outs := map Out (root_positions base ch)).
    assert (Lout : length outs = m) by (unfold outs; now rewrite map_length, root_positions_length).
    assert (Er : roll_right m (own ++ rest ++ outs) = outs ++ own ++ rest).
    { rewrite roll_right_split by (rewrite !app_length; lia).
      replace (own ++ rest ++ outs) with ((own ++ rest) ++ outs) by (now rewrite app_assoc).
      rewrite <- Lout. now rewrite lastn_app_exact, initn_app_exact. }
    rewrite Er. rewrite app_assoc.
    rewrite firstn_app, skipn_app, app_length, Lout, Lo, Nat.sub_diag, firstn_all2, skipn_all2 by (rewrite app_length; lia).
    cbn [firstn skipn app]. rewrite app_nil_r. reflexivity.
Qed.

(* from the very first node: the header is the physical columns in post-order, nothing else *)
Theorem stack_discipline : forall t,
  hloop 0 (pmk t) (phys_cols 0 t) = (expected 0 t [], [Out (size t - 1)]).
Proof. intros t. pose proof (stack_discipline_gen t 0 []) as H. now rewrite app_nil_r in H. Qed.

(* the header functions are the table functions: renaming commutes with the layout operations *)
Lemma roll_right_map {X Y} (f : X -> Y) m l : map f (roll_right m l) = roll_right m (map f l).
Proof. unfold roll_right. cbv zeta. now rewrite map_app, map_length, skipn_map, firstn_map. Qed.
Lemma roll_left1_map {X Y} (f : X -> Y) l : map f (roll_left1 l) = roll_left1 (map f l).
Proof. destruct l; cbn [roll_left1 map]; [reflexivity|]. now rewrite map_app. Qed.

(* ------------------------------------------------------------------ corollaries *)
Section Corollaries.
Variable R : CRing.
Add Ring RRc : (rth R).
Notation "0" := (r0 R).
Notation "1" := (r1 R).
Infix "+" := (radd R).
Infix "*" := (rmul R).

(* two trees over the same degrees of freedom see the same term list through different column
   conventions: another post-order (a column permutation), extra identity columns for purely
   virtual nodes, another numbering of the primary operators.  [phi] is that relabelling of
   operator strings. *)
Definition relabel (phi : key -> key) (T : table R) : table R := map (fun x => (phi (fst x), snd x)) T.

Lemma coeff_relabel phi (T : table R) s :
  (forall x, In x T -> phi (fst x) = phi s -> fst x = s) -> coeff (relabel phi T) (phi s) = coeff T s.
Proof.
  intros Hinj. unfold coeff, relabel. rewrite lsum_map. apply lsum_ext. intros x Hx. cbn [fst snd]. unfold kdelta.
  destruct (keqb_spec (phi (fst x)) (phi s)) as [E|NE], (keqb_spec (fst x) s) as [E'|NE']; try reflexivity.
  - exfalso. apply NE'. now apply Hinj.
  - exfalso. apply NE. now rewrite E'.
Qed.
Lemma coeff_relabel_outside phi (T : table R) s' :
  (forall x, In x T -> phi (fst x) <> s') -> coeff (relabel phi T) s' = 0.
Proof.
  intros H. unfold coeff, relabel. rewrite lsum_map. apply lsum_zero. intros x Hx. cbn [fst snd]. unfold kdelta.
  destruct (keqb_spec (phi (fst x)) s'); [exfalso; eapply H; eassumption|ring].
Qed.

Definition root_cover (tr : tree) (ws : list wit) : Prop := nth (size tr - 1) ws ([], []) = ([], [[]]).

Theorem ttno_topology_independent : forall t1 t2 (T1 T2 : table R) ws1 ws2 phi,
  rect R (width t1) T1 -> rect R (width t2) T2 -> T2 = relabel phi T1 ->
  valid_run (pmk t1) T1 ws1 = true -> valid_run (pmk t2) T2 ws2 = true ->
  root_cover t1 ws1 -> root_cover t2 ws2 ->
  forall s, length s = width t1 -> length (phi s) = width t2 ->
  (forall x, In x T1 -> phi (fst x) = phi s -> fst x = s) ->
  ttno_coeff t2 (fst (construct t2 T2 ws2)) (phi s) = ttno_coeff t1 (fst (construct t1 T1 ws1)) s.
Proof.
  intros t1 t2 T1 T2 ws1 ws2 phi R1 R2 -> V1 V2 C1 C2 s L1 L2 Hinj.
  rewrite (ttno_sound R t1 T1 ws1 R1 V1 C1 s L1), (ttno_sound R t2 _ ws2 R2 V2 C2 _ L2).
  now apply coeff_relabel.
Qed.
(* ... and nothing outside the relabelled strings *)
Theorem ttno_topology_independent_outside : forall t2 (T1 T2 : table R) ws2 phi,
  rect R (width t2) T2 -> T2 = relabel phi T1 -> valid_run (pmk t2) T2 ws2 = true -> root_cover t2 ws2 ->
  forall s', length s' = width t2 -> (forall x, In x T1 -> phi (fst x) <> s') ->
  ttno_coeff t2 (fst (construct t2 T2 ws2)) s' = 0.
Proof.
  intros t2 T1 T2 ws2 phi R2 -> V2 C2 s' L H. rewrite (ttno_sound R t2 _ ws2 R2 V2 C2 _ L).
  now apply coeff_relabel_outside.
Qed.

(* the instance "another post-order of the same basis sets": a column permutation is injective *)
Definition permute (p : list nat) (s : key) : key := map (fun i => nth i s O) p.
Lemma permute_inj p n (x s : key) :
  (forall i, (i < n)%nat -> In i p) -> length x = n -> length s = n -> permute p x = permute p s -> x = s.
Proof.
  intros Hp Lx Ls E. apply (nth_ext x s O O); [congruence|]. intros i Hi.
  unfold permute in E. pose proof (proj1 (@map_ext_in_iff _ _ _ _ _) E) as E'. apply E', Hp. lia.
Qed.
Lemma permute_length p s : length (permute p s) = length p.
Proof. unfold permute. apply map_length. Qed.

End Corollaries.

(* ------------------------------------------------------------------ the chain MPO and the linear tree *)
Section ChainMpo.
Variable R : CRing.
Add Ring RRm : (rth R).
Notation "0" := (r0 R).
Notation "1" := (r1 R).
Infix "+" := (radd R).
Infix "*" := (rmul R).
Notation table := (table R).
Notation trow := (trow R).

Lemma mvalid_step_parts (t : table) w : mvalid_step R t w = true ->
  NoDup (fst w) /\ NoDup (snd w) /\ covers R 2 t (fst w) (snd w) /\ colsinb R 2 t (snd w) = true.
Proof.
  unfold mvalid_step. rewrite !andb_true_iff. intros [[[H1 H2] H3] H4].
  repeat split; auto using nodupb_spec, coversb_spec.
Qed.

(* invariant of the left-to-right sweep: D = denotation of the bond reached so far *)
Lemma mpo_inv : forall n (T : table) ws N (D : nat -> R) (G : key -> R) s,
  length s = n -> rect R N T -> (n + 1 <= N)%nat -> mvalid_run n T ws = true ->
  lsum (snd (mloop n T ws)) (fun y => snd y * mden_l R (fst (mloop n T ws)) D s (hd O (fst y)) * G (tl (fst y)))
  = lsum T (fun x => snd x * D (hd O (fst x)) * kdelta R (firstn n (tl (fst x))) s * G (skipn n (tl (fst x)))).
Proof.
  induction n as [|n IH]; intros T ws N D G s Hs Hr HN Hv.
  - destruct s; [|discriminate]. cbn [mloop fst snd mden_l firstn skipn]. apply lsum_ext. intros x _.
    unfold kdelta. cbn [keqb]. ring.
  - destruct s as [|p s']; [discriminate|]. cbn [length] in Hs. apply Nat.succ_inj in Hs.
    cbn [mloop fst snd mden_l]. cbn [mvalid_run] in Hv. apply andb_true_iff in Hv. destruct Hv as [Hv1 Hv2].
    set (w := hd ([], []) ws) in *.
    destruct (mvalid_step_parts _ _ Hv1) as [N1 [N2 [Hcov Hcin]]].
    assert (Hr1 : rect R (S (N - 2)) (snd (mstep R T w))) by (apply one_site_rect; assumption).
    rewrite (IH (snd (mstep R T w)) (tl ws) (S (N - 2)) _ G s' Hs Hr1 ltac:(lia) Hv2).
    pose proof (one_site_sound R 2 T (fst w) (snd w) (msym R D p)
                  (fun u => kdelta R (firstn n u) s' * G (skipn n u)) N1 N2 Hcov) as E.
    unfold Dout_of in E. unfold mstep.
    transitivity (lsum (snd (one_site 2 T (fst w) (snd w)))
        (fun y => snd y * den_outop R (msym R D p) (nth (hd O (fst y)) (fst (one_site 2 T (fst w) (snd w))) [])
                  * (kdelta R (firstn n (tl (fst y))) s' * G (skipn n (tl (fst y)))))).
    { apply lsum_ext. intros; ring. }
    rewrite E. apply lsum_ext. intros x Hx. pose proof (rect_len R _ _ _ Hr Hx) as Lx.
    destruct x as [[|a [|q rest]] f]; cbn [fst length] in Lx; try lia.
    unfold rkey, ckey. cbn [fst snd firstn skipn hd tl msym].
    unfold kdelta. cbn [keqb]. destruct (Nat.eqb q p); cbn [andb]; [|ring].
    destruct (keqb (firstn n rest) s'); ring.
Qed.

Lemma mpo_table_rect n (T : table) : rect R n T -> rect R (n + 2) (mpo_table T).
Proof.
  intros H. apply Forall_forall. intros y Hy. unfold mpo_table in Hy. apply in_map_iff in Hy.
  destruct Hy as [x [<- Hx]]. cbn [fst length]. rewrite app_length. pose proof (rect_len R _ _ _ H Hx) as L.
  unfold key in *. cbn [length]. lia.
Qed.

(* the symbolic MPO of the chain has the coefficient function of its term table; the hypothesis on
   the final table is the code's own `assert len(table) == 1 and factor[0] == 1` *)
Theorem mpo_sound : forall n (T : table) ws,
  rect R n T -> mvalid_run n (mpo_table T) ws = true ->
  snd (mloop n (mpo_table T) ws) = [([O; O], 1)] ->
  forall s, length s = n -> mpo_coeff (fst (mloop n (mpo_table T) ws)) s = coeff T s.
Proof.
  intros n T ws Hr Hv Hfin s Hs.
  pose proof (mpo_inv n (mpo_table T) ws (n + 2) (fun j => if Nat.eqb j 0 then 1 else 0) (fun _ => 1) s Hs
                (mpo_table_rect n T Hr) ltac:(lia) Hv) as E.
  rewrite Hfin in E. cbn [Ttno.lsum fst snd hd tl] in E. unfold mpo_coeff.
  transitivity (1 * mden_l R (fst (mloop n (mpo_table T) ws)) (fun j => if Nat.eqb j 0 then 1 else 0) s O * 1 + 0); [ring|].
  rewrite E. unfold mpo_table, coeff. rewrite lsum_map. apply lsum_ext. intros x Hx. cbn [fst snd hd tl Nat.eqb].
  pose proof (rect_len R _ _ _ Hr Hx) as L. unfold key in *.
  rewrite firstn_app, L, Nat.sub_diag, firstn_all2 by lia.
  cbn [firstn]. rewrite app_nil_r. ring.
Qed.

(* the linear tree *)
Lemma chain_tree_width n : width (chain_tree n) = S n.
Proof. induction n as [|n IH]; cbn [chain_tree width map list_sum]; [reflexivity|]. rewrite IH. cbn. lia. Qed.
Lemma chain_tree_size n : size (chain_tree n) = S n.
Proof. induction n as [|n IH]; cbn [chain_tree size map list_sum]; [reflexivity|]. rewrite IH. cbn. lia. Qed.
Lemma shape_linear_from {A} (a : A) l : shape (linear_from a l) = chain_tree (length l).
Proof. revert a. induction l as [|b l IH]; intros a; cbn [linear_from shape map length chain_tree]; [reflexivity|]. now rewrite IH. Qed.

(* BasisTree.linear puts the first basis set at the root, so post-order lists the chain backwards:
   the tree's term table is the chain's with every row reversed *)
Theorem ttno_linear_eq_mpo : forall n (T : table) wsT wsM,
  rect R (S n) T ->
  valid_run (pmk (chain_tree n)) (relabel R (@rev nat) T) wsT = true -> root_cover (chain_tree n) wsT ->
  mvalid_run (S n) (mpo_table T) wsM = true -> snd (mloop (S n) (mpo_table T) wsM) = [([O; O], 1)] ->
  forall s, length s = S n ->
  ttno_coeff (chain_tree n) (fst (construct (chain_tree n) (relabel R (@rev nat) T) wsT)) (rev s)
  = mpo_coeff (fst (mloop (S n) (mpo_table T) wsM)) s.
Proof.
  intros n T wsT wsM Hr Hv Hc Hmv Hfin s Hs.
  rewrite (mpo_sound (S n) T wsM Hr Hmv Hfin s Hs).
  assert (Hr' : rect R (width (chain_tree n)) (relabel R (@rev nat) T)).
  { rewrite chain_tree_width. apply Forall_forall. intros y Hy. unfold relabel in Hy. apply in_map_iff in Hy.
    destruct Hy as [x [<- Hx]]. cbn [fst]. rewrite rev_length. apply (rect_len R _ _ _ Hr Hx). }
  rewrite (ttno_sound R (chain_tree n) _ wsT Hr' Hv Hc (rev s)) by (now rewrite rev_length, chain_tree_width).
  apply coeff_relabel. intros x _ E. apply (f_equal (@rev nat)) in E. now rewrite !rev_involutive in E.
Qed.

End ChainMpo.

(* ------------------------------------------------------------------ the cover at the root *)
(* The orientation rule is GENERATED (Gen/RootCover.v).  With one unique column and n >= 1 unique
   rows the columns are the U side; the column is matched in every maximum matching (it has an edge),
   so no U vertex is free, the Koenig loop does not run, and the cover is {column}: no row selected. *)
Lemma select_repeat_false {X} n (xs : list X) : select (repeat false n) xs = [].
Proof. revert xs. induction n as [|n IH]; intros [|x xs]; cbn [repeat select]; auto. Qed.

Theorem root_cover_orientation : forall (rowkeys : list key) (matchV : list (option nat)),
  rowkeys <> [] -> In (Some O) matchV -> root_witness rowkeys matchV = Some ([], [[]]).
Proof.
  intros rowkeys matchV Hne Hm. unfold root_witness, root_cover_bools.
  assert (Hru : RootCover.rows_are_U (Z.of_nat (length rowkeys)) 1%Z = false).
  { unfold RootCover.rows_are_U. destruct rowkeys; [congruence|]. cbn [length]. apply Z.ltb_ge. lia. }
  rewrite Hru. unfold konig_no_free.
  assert (Hfree : RootCover.konig_free_U 1 matchV = []).
  { unfold RootCover.konig_free_U. cbn [seq filter].
    assert (E : existsb (fun m => match m with Some u' => Nat.eqb O u' | None => false end) matchV = true).
    { apply existsb_exists. exists (Some O). split; [exact Hm|reflexivity]. }
    rewrite E. reflexivity. }
  rewrite Hfree. cbn [RootCover.konig_loop_runs length Z.of_nat Z.ltb Z.compare option_map].
  unfold RootCover.konig_result, RootCover.konig_init, RootCover.unpack_cover. cbn [repeat map negb fst snd].
  rewrite select_repeat_false. reflexivity.
Qed.

Section RootFactor.
Variable R : CRing.
(* hence the table left after the root step is the single row [0] with factor ONE: dropping `factor`
   at the end of construct_symbolic_ttno loses nothing *)
Theorem root_factor_one : forall tr (T : table R) ws (rowkeys : list key) (matchV : list (option nat)),
  rowkeys <> [] -> In (Some O) matchV ->
  Some (nth (size tr - 1) ws ([], [])) = root_witness rowkeys matchV ->
  snd (construct tr T ws) = [([O], r1 R)].
Proof.
  intros tr T ws rowkeys matchV Hne Hm Hw. rewrite (root_cover_orientation rowkeys matchV Hne Hm) in Hw.
  injection Hw as Hw. now apply root_final_table.
Qed.
End RootFactor.

(* The other minimum cover of the one-edge graph -- the row -- is an admissible witness too, but then
   the factor stays in the discarded table: a one-node tree, one term with factor 2. *)
Definition refute_tree : tree := Node 1 [].
Definition refute_table : table ZRing := [([5], 2%Z)].
Definition refute_ws : list wit := [([[0; 5]], [])].
Theorem root_factor_other_cover_refuted :
  rect ZRing (width refute_tree) refute_table /\
  valid_run (pmk refute_tree) refute_table refute_ws = true /\
  length (fst (hd ([], []) refute_ws)) + length (snd (hd ([], []) refute_ws)) = 1 /\   (* as small as the column cover *)
  snd (construct refute_tree refute_table refute_ws) = [([0], 2%Z)] /\                  (* factor 2 left behind *)
  ttno_coeff refute_tree (fst (construct refute_tree refute_table refute_ws)) [5] <> coeff refute_table [5].
Proof.
  split; [repeat constructor|]. split; [reflexivity|]. split; [reflexivity|]. split; [reflexivity|].
  vm_compute. discriminate.
Qed.

(* ------------------------------------------------------------------ bond labels *)
Section ChargeProofs.
Variable R : CRing.
Variable pq : nat -> Z.
Notation table := (table R).
Notation trow := (trow R).
Notation chg := (chg pq).
Notation lab := (lab R pq).
Notation labF := (lab_forest R lab).

Lemma chg_app a b : chg (a ++ b) = (chg a + chg b)%Z.
Proof. induction a as [|x a IH]; cbn [app Ttno.chg fold_right]; [reflexivity|]. fold (chg (a ++ b)) (chg a). rewrite IH. lia. Qed.

Lemma nth_map_error {X Y} (f : X -> list Y) l i :
  nth i (map f l) [] = match nth_error l i with Some c => f c | None => [] end.
Proof. revert i. induction l as [|x l IH]; intros [|i]; cbn [map nth nth_error]; auto. Qed.

Lemma enum_from_in {X} (l : list X) : forall n i x, In (i, x) (enum_from n l) -> exists k, i = n + k /\ nth_error l k = Some x.
Proof.
  induction l as [|a l IH]; intros n i x H; [destruct H|]. cbn [enum_from] in H. destruct H as [[= <- <-]|H].
  - exists 0. split; [lia|reflexivity].
  - destruct (IH _ _ _ H) as [k [-> E]]. exists (S k). split; [lia|exact E].
Qed.

Lemma one_site_charges w (t : table) rsel csel (C Q : key -> Z) (q : Z) :
  (forall x, In x t -> (C (rkey R w x) + Q (ckey R w x))%Z = q) ->
  nonredb R w t rsel csel = true ->
  let ops := out_ops R w t rsel csel in
  let C' := fun j => match nth j ops [] with [] => 0%Z | p :: _ => C (fst p) end in
  (forall j p, In p (nth j ops []) -> C (fst p) = C' j) /\
  (forall y, In y (snd (one_site w t rsel csel)) -> (C' (hd O (fst y)) + Q (tl (fst y)))%Z = q).
Proof.
  intros Hq Hnr ops C'.
  set (Lc := fun c => map (fun x : trow => (rkey R w x, snd x))
                 (filter (fun x => keqb (ckey R w x) c && negb (memb (rkey R w x) rsel)) t)).
  assert (HLc : forall c p, In p (Lc c) -> C (fst p) = (q - Q c)%Z).
  { intros c p Hp. unfold Lc in Hp. apply in_map_iff in Hp. destruct Hp as [x [<- Hx]]. apply filter_In in Hx.
    destruct Hx as [Hx Hb]. apply andb_true_iff in Hb. destruct Hb as [Hb _].
    destruct (keqb_spec (ckey R w x) c) as [<-|]; [|discriminate]. cbn [fst]. specialize (Hq x Hx). lia. }
  assert (Hops : forall j, nth j ops [] =
            match nth_error rsel j with
            | Some r => [(r, r1 R)]
            | None => match nth_error csel (j - length rsel) with Some c => Lc c | None => [] end
            end).
  { intros j. unfold ops, out_ops. destruct (nth_error rsel j) as [r|] eqn:E.
    - assert (j < length rsel) by (apply nth_error_Some; congruence).
      rewrite app_nth1 by (unfold out_rows; now rewrite map_length). unfold out_rows.
      pose proof (nth_map_error (fun r0 : key => [(r0, r1 R)]) rsel j) as En. rewrite E in En. exact En.
    - apply nth_error_None in E. rewrite app_nth2 by (unfold out_rows; now rewrite map_length).
      unfold out_rows, out_cols. rewrite map_length. exact (nth_map_error Lc csel (j - length rsel)). }
  split.
  - intros j p Hp. unfold C'. rewrite Hops in *. destruct (nth_error rsel j) as [r|].
    + destruct Hp as [<-|[]]. reflexivity.
    + destruct (nth_error csel (j - length rsel)) as [c|]; [|destruct Hp].
      rewrite (HLc c p Hp). destruct (Lc c) as [|p0 L] eqn:EL; [destruct Hp|].
      symmetry. apply (HLc c). rewrite EL. now left.
  - intros y Hy. cbn [one_site snd] in Hy. apply in_app_or in Hy. destruct Hy as [Hy|Hy].
    + unfold new_rows in Hy. apply in_flat_map in Hy. destruct Hy as [[i r] [Hir Hy]].
      apply in_map_iff in Hy. destruct Hy as [x [<- Hx]]. apply filter_In in Hx. destruct Hx as [Hx Hb].
      cbn [fst snd] in *. destruct (keqb_spec (rkey R w x) r) as [<-|]; [|discriminate].
      destruct (enum_from_in _ _ _ _ Hir) as [k [-> Ek]]. cbn [Nat.add hd tl]. unfold C'. rewrite Hops, Ek. cbn [fst].
      now apply Hq.
    + unfold new_cols in Hy. apply in_map_iff in Hy. destruct Hy as [[j c] [<- Hjc]]. cbn [fst snd hd tl].
      destruct (enum_from_in _ _ _ _ Hjc) as [k [-> Ek]]. unfold C'. rewrite Hops.
      assert (En : nth_error rsel (length rsel + k) = None) by (apply nth_error_None; lia).
      rewrite En. replace (length rsel + k - length rsel) with k by lia. unfold key in *. rewrite Ek.
      assert (Hin : In c csel) by (eapply nth_error_In; eassumption).
      unfold nonredb in Hnr. rewrite forallb_forall in Hnr. specialize (Hnr c Hin).
      apply existsb_exists in Hnr. destruct Hnr as [x [Hx Hb]].
      assert (Hp0 : In (rkey R w x, snd x) (Lc c)).
      { unfold Lc. apply in_map_iff. exists x. split; [reflexivity|]. apply filter_In. split; assumption. }
      destruct (Lc c) as [|p0 L] eqn:EL; [destruct Hp0|].
      assert (C (fst p0) = (q - Q c)%Z) by (apply (HLc c); rewrite EL; now left). lia.
Qed.

Lemma nonred_run_app l1 l2 : forall (t : table) ws,
  nonred_run (l1 ++ l2) t ws = nonred_run l1 t ws && nonred_run l2 (snd (loop l1 t ws)) (skipn (length l1) ws).
Proof.
  induction l1 as [|a l1 IH]; intros t ws; cbn [app nonred_run loop length fst snd]; [reflexivity|].
  rewrite IH, skipn_S_tl, andb_assoc. reflexivity.
Qed.

(* rectangular tables along a cover-only run (from the soundness development) *)
Lemma loop_rect_tree t (T : table) ws n : rect R n T -> width t <= n -> valid_run (pmk t) T ws = true ->
  rect R (n - width t + 1) (snd (loop (pmk t) T ws)).
Proof.
  intros Hr Hw Hv. destruct (all_trees_ok R t T (map (@WG R) ws) n Hr Hw (svalid_run_WG R _ _ _ Hv)) as [H _].
  now rewrite sloop_WG in H.
Qed.
Lemma loop_rect_forest cs (T : table) ws n : rect R n T -> Wd cs <= n -> valid_run (flat_map pmk cs) T ws = true ->
  rect R (n - Wd cs + length cs) (snd (loop (flat_map pmk cs) T ws)).
Proof.
  intros Hr Hw Hv.
  assert (HF : forest_ok R cs) by (apply forest_ok_all, Forall_forall; intros; apply all_trees_ok).
  destruct (HF T (map (@WG R) ws) n Hr Hw (svalid_run_WG R _ _ _ Hv)) as [H _]. now rewrite sloop_WG in H.
Qed.

Lemma lab_node k ch bs j :
  lab (Node k ch) bs j = match nth j (last bs []) [] with [] => 0%Z | p :: _ => symchg R pq (Node k ch) bs (fst p) end.
Proof. reflexivity. Qed.
Lemma labF_cons c cs bs o os :
  labF (c :: cs) bs (o :: os) = (lab c (firstn (size c) bs) o + labF cs (skipn (size c) bs) os)%Z.
Proof. reflexivity. Qed.
Lemma consistentb_node k ch bs :
  consistentb R pq (Node k ch) bs =
  forallb (fun j => forallb (fun p => Z.eqb (symchg R pq (Node k ch) bs (fst p)) (lab (Node k ch) bs j)) (nth j (last bs []) []))
          (seq 0 (length (last bs [])))
  && cons_forest R (consistentb R pq) ch (removelast bs).
Proof. reflexivity. Qed.

Definition qtree_ok (t : tree) : Prop := forall (T : table) ws n (Qr : key -> Z) (q : Z),
  rect R n T -> width t <= n -> valid_run (pmk t) T ws = true -> nonred_run (pmk t) T ws = true ->
  (forall x, In x T -> (chg (firstn (width t) (fst x)) + Qr (skipn (width t) (fst x)))%Z = q) ->
  consistentb R pq t (fst (loop (pmk t) T ws)) = true /\
  forall y, In y (snd (loop (pmk t) T ws)) -> (lab t (fst (loop (pmk t) T ws)) (olast R y) + Qr (oinit R y))%Z = q.

Definition qforest_ok (cs : list tree) : Prop := forall (T : table) ws n (Qr : key -> Z) (q : Z),
  rect R n T -> Wd cs <= n -> valid_run (flat_map pmk cs) T ws = true -> nonred_run (flat_map pmk cs) T ws = true ->
  (forall x, In x T -> (chg (firstn (Wd cs) (fst x)) + Qr (skipn (Wd cs) (fst x)))%Z = q) ->
  cons_forest R (consistentb R pq) cs (fst (loop (flat_map pmk cs) T ws)) = true /\
  forall y, In y (snd (loop (flat_map pmk cs) T ws)) ->
    (labF cs (fst (loop (flat_map pmk cs) T ws)) (lastn (length cs) (fst y)) + Qr (initn (length cs) (fst y)))%Z = q.

Lemma qforest_ok_nil : qforest_ok [].
Proof.
  intros T ws n Qr q Hr _ _ _ Hq. cbn [flat_map loop fst snd length]. split; [reflexivity|].
  intros y Hy. rewrite lastn_0, initn_0. specialize (Hq y Hy). unfold Wd in Hq.
  change (list_sum (map width [])) with 0 in Hq. cbn [firstn skipn] in Hq. exact Hq.
Qed.

Lemma qforest_ok_cons c cs : qtree_ok c -> qforest_ok cs -> qforest_ok (c :: cs).
Proof.
  intros Hc Hcs T ws n Qr q Hr Hw Hv Hn Hq.
  assert (EW : Wd (c :: cs) = width c + Wd cs) by reflexivity.
  cbn [flat_map] in *. rewrite valid_run_app in Hv. apply andb_true_iff in Hv. destruct Hv as [Hv1 Hv2].
  rewrite nonred_run_app in Hn. apply andb_true_iff in Hn. destruct Hn as [Hn1 Hn2].
  rewrite loop_app. cbn [fst snd].
  pose proof (loop_rect_tree c T ws n Hr ltac:(lia) Hv1) as Hr1.
  set (T1 := snd (loop (pmk c) T ws)) in *. set (b1 := fst (loop (pmk c) T ws)).
  set (ws' := skipn (length (pmk c)) ws) in *.
  pose proof (loop_rect_forest cs T1 ws' (n - width c + 1) Hr1 ltac:(lia) Hv2) as Hr2.
  set (T2 := snd (loop (flat_map pmk cs) T1 ws')) in *. set (b2 := fst (loop (flat_map pmk cs) T1 ws')).
  assert (Lb1 : length b1 = size c) by (unfold b1; now rewrite loop_length, pmk_length).
  (* the child, with the continuation = later siblings' columns and the rest *)
  destruct (Hc T ws n (fun v => (chg (firstn (Wd cs) v) + Qr (skipn (Wd cs) v))%Z) q Hr ltac:(lia) Hv1 Hn1) as [Hk1 Hl1].
  { intros x Hx. specialize (Hq x Hx). rewrite EW, firstn_plus, chg_app, <- skipn_skipn in Hq.
    rewrite (skipn_skipn (Wd cs) (width c)). rewrite skipn_skipn in Hq. lia. }
  fold T1 b1 in Hk1, Hl1.
  (* the remaining siblings, with the continuation = this child's label and the rest *)
  destruct (Hcs T1 ws' (n - width c + 1) (fun u => (lab c b1 (last u O) + Qr (removelast u))%Z) q Hr1 ltac:(lia) Hv2 Hn2) as [Hk2 Hl2].
  { intros x Hx. pose proof (rect_len R _ _ _ Hr1 Hx) as Lx. specialize (Hl1 x Hx). unfold olast, oinit in Hl1.
    rewrite last_skipn, removelast_skipn by lia. rewrite firstn_removelast in Hl1 by lia. lia. }
  fold T2 b2 in Hk2, Hl2.
  split.
  - cbn [cons_forest]. rewrite firstn_app, Lb1, Nat.sub_diag, firstn_all2 by lia. cbn [firstn]. rewrite app_nil_r.
    rewrite skipn_app, Lb1, Nat.sub_diag, skipn_all2 by lia. cbn [skipn app]. now rewrite Hk1, Hk2.
  - intros y Hy. pose proof (rect_len R _ _ _ Hr2 Hy) as Ly. specialize (Hl2 y Hy). cbn [length].
    rewrite (lastn_S _ _ O) by lia. rewrite initn_S by lia. rewrite labF_cons.
    rewrite firstn_app, Lb1, Nat.sub_diag, firstn_all2 by lia. cbn [firstn]. rewrite app_nil_r.
    rewrite skipn_app, Lb1, Nat.sub_diag, skipn_all2 by lia. cbn [skipn app]. lia.
Qed.

Lemma qforest_ok_all cs : Forall qtree_ok cs -> qforest_ok cs.
Proof. induction 1; [apply qforest_ok_nil|now apply qforest_ok_cons]. Qed.

Lemma qtree_ok_node k ch : Forall qtree_ok ch -> qtree_ok (Node k ch).
Proof.
  intros Hch T ws n Qr q Hr Hw Hv Hn Hq. pose proof (qforest_ok_all ch Hch) as HF.
  assert (EW : width (Node k ch) = Wd ch + k) by reflexivity.
  rewrite pmk_node in *. rewrite valid_run_app in Hv. apply andb_true_iff in Hv. destruct Hv as [Hv1 Hv2].
  rewrite nonred_run_app in Hn. apply andb_true_iff in Hn. destruct Hn as [Hn1 Hn2].
  rewrite loop_app. cbn [fst snd].
  pose proof (loop_rect_forest ch T ws n Hr ltac:(lia) Hv1) as Hr'.
  set (T' := snd (loop (flat_map pmk ch) T ws)) in *. set (bsc := fst (loop (flat_map pmk ch) T ws)).
  set (ws' := skipn (length (flat_map pmk ch)) ws) in *.
  destruct (HF T ws n (fun u => (chg (firstn k u) + Qr (skipn k u))%Z) q Hr ltac:(lia) Hv1 Hn1) as [HkF HlF].
  { intros x Hx. specialize (Hq x Hx). rewrite EW, firstn_plus, chg_app in Hq. rewrite skipn_skipn. lia. }
  fold T' bsc in HkF, HlF.
  cbn [loop fst snd valid_run nonred_run] in *. rewrite andb_true_r in Hv2, Hn2.
  set (w0 := hd ([], []) ws') in *. set (mk := (length ch, k)) in *.
  cbn [fst snd] in Hn2.
  set (C := fun sym : key => sym_charge R pq lab ch (bsc ++ [fst (step mk T' w0)]) sym).
  destruct (valid_step_parts R _ _ _ Hv2) as [_ [_ [_ _]]].
  (* charges of the prepared rows *)
  assert (Hprep : forall x, In x (prep (fst mk) T') ->
             (C (rkey R (rowwidth (fst mk) (snd mk)) x) + Qr (ckey R (rowwidth (fst mk) (snd mk)) x))%Z = q).
  { intros x Hx. unfold prep in Hx. cbn [fst snd mk] in *. unfold C, sym_charge. rewrite removelast_last.
    destruct ch as [|c0 ch0].
    - cbn [length Nat.eqb flat_map loop fst snd] in *. apply in_map_iff in Hx. destruct Hx as [x0 [<- Hx0]].
      unfold rkey, ckey, rowwidth. cbn [fst snd Nat.eqb Nat.add firstn skipn]. subst T'.
      specialize (Hq x0 Hx0). rewrite EW in Hq. unfold Wd in Hq. cbn [map list_sum Nat.add] in Hq. exact Hq.
    - set (m := length (c0 :: ch0)) in *. assert (Hm : Nat.eqb m 0 = false) by reflexivity. rewrite Hm in Hx.
      apply in_map_iff in Hx. destruct Hx as [y [<- Hy]]. pose proof (rect_len R _ _ _ Hr' Hy) as Ly. fold m in Ly.
      unfold key in Ly. specialize (HlF y Hy). fold m in HlF.
      unfold rkey, ckey, rowwidth. rewrite Hm. cbn [fst snd]. rewrite roll_right_split by lia.
      assert (Ll : length (lastn m (fst y)) = m) by (apply lastn_length; lia).
      assert (E3 : forall X0 : list nat, firstn m (lastn m (fst y) ++ X0) = lastn m (fst y)).
      { intros X0. rewrite firstn_app, Ll, Nat.sub_diag, firstn_all2 by lia. cbn [firstn]. now rewrite app_nil_r. }
      assert (E4 : forall X0 : list nat, skipn m (lastn m (fst y) ++ X0) = X0).
      { intros X0. rewrite skipn_app, Ll, Nat.sub_diag, skipn_all2 by lia. reflexivity. }
      assert (E1 : firstn (m + k) (lastn m (fst y) ++ initn m (fst y)) = lastn m (fst y) ++ firstn k (initn m (fst y))).
      { rewrite firstn_app, Ll. replace (m + k - m) with k by lia. now rewrite (firstn_all2 (n := m + k)) by lia. }
      assert (E2 : skipn (m + k) (lastn m (fst y) ++ initn m (fst y)) = skipn k (initn m (fst y))).
      { rewrite skipn_app, Ll. replace (m + k - m) with k by lia. now rewrite (skipn_all2 (n := m + k)) by lia. }
      rewrite E1, E2, E3, E4. fold m. cbv beta in HlF. unfold key in *. lia. }
  destruct (one_site_charges _ _ _ _ C Qr q Hprep Hn2) as [Hsame Hnew].
  assert (Eown : last (bsc ++ [fst (step mk T' w0)]) [] = fst (step mk T' w0)) by apply last_last.
  assert (Elab : forall j, lab (Node k ch) (bsc ++ [fst (step mk T' w0)]) j =
                    match nth j (fst (step mk T' w0)) [] with [] => 0%Z | p :: _ => C (fst p) end).
  { intros j. rewrite lab_node, Eown. reflexivity. }
  split.
  - rewrite consistentb_node, Eown, removelast_last, HkF, andb_true_r.
    apply forallb_forall. intros j _. apply forallb_forall. intros p Hp. apply Z.eqb_eq.
    rewrite Elab. rewrite step_fst in *. apply (Hsame j p Hp).
  - intros y Hy. rewrite step_snd in Hy. apply in_map_iff in Hy. destruct Hy as [y0 [<- Hy0]].
    specialize (Hnew y0 Hy0).
    assert (E : exists j c, fst y0 = j :: c).
    { destruct (one_site_shape R _ _ _ _ _ Hy0) as [[i [x [_ E]]]|[j [c [_ E]]]]; eauto. }
    destruct E as [j [c E]]. unfold olast, oinit. cbn [fst]. rewrite E in *. rewrite roll_left1_cons, last_last, removelast_last.
    cbn [hd tl] in Hnew. rewrite Elab, step_fst. exact Hnew.
Qed.

Theorem all_trees_qok : forall t, qtree_ok t.
Proof. induction t as [k ch IH] using tree_ind'. now apply qtree_ok_node. Qed.

(* All terms carry the same total charge q (in this component)  ==>  in every out-operator of every
   node all summands are equally charged (the label `out_op[0].qn` does not depend on which summand
   scipy lists first), and the root's label is q (= TTNO.qntot). *)
Theorem ttno_qn_labels : forall tr (T : table) ws (q : Z),
  rect R (width tr) T -> valid_run (pmk tr) T ws = true -> nonred_run (pmk tr) T ws = true ->
  (forall x, In x T -> chg (fst x) = q) ->
  consistentb R pq tr (fst (construct tr T ws)) = true /\
  forall y, In y (snd (construct tr T ws)) -> lab tr (fst (construct tr T ws)) (olast R y) = q.
Proof.
  intros tr T ws q Hr Hv Hn Hq. unfold construct.
  destruct (all_trees_qok tr T ws (width tr) (fun _ => 0%Z) q Hr (le_n _) Hv Hn) as [H1 H2].
  - intros x Hx. rewrite firstn_all2 by (rewrite (rect_len R _ _ _ Hr Hx); lia). rewrite (Hq x Hx). lia.
  - split; [exact H1|]. intros y Hy. specialize (H2 y Hy). lia.
Qed.

End ChargeProofs.

(* ------------------------------------------------------------------ the unique-rows step *)
(* The decomposition addresses the left part of a row by its index into term_row.  That is sound only
   because the index determines the row: rows with equal index are equal as tuples. *)
Lemma insert_key_in k x l : In x (insert_key k l) <-> x = k \/ In x l.
Proof.
  induction l as [|h t IH]; cbn [insert_key].
  - cbn. intuition.
  - destruct (keqb_spec k h) as [->|NE].
    + cbn. intuition (subst; auto).
    + destruct (key_ltb k h); cbn [In]; [intuition|]. rewrite IH. intuition.
Qed.
Lemma term_rows_in k keys : In k (term_rows keys) <-> In k keys.
Proof.
  unfold term_rows. induction keys as [|a keys IH]; cbn [fold_right]; [tauto|].
  rewrite insert_key_in, IH. cbn [In]. intuition.
Qed.
Lemma index_of_nth k l : In k l -> nth (index_of k l) l [] = k.
Proof.
  induction l as [|h t IH]; intros H; [destruct H|]. cbn [index_of].
  destruct (keqb_spec k h) as [->|NE]; [reflexivity|]. cbn [nth]. apply IH. destruct H; [congruence|assumption].
Qed.

(* term_row[row_unique_inverse[t]] == table_row[t] *)
Theorem row_index_reconstruct : forall (keys : list key) t, t < length keys ->
  nth (nth t (row_inverse keys) O) (term_rows keys) [] = nth t keys [].
Proof.
  intros keys t Ht. unfold row_inverse.
  rewrite (nth_indep _ O (index_of [] (term_rows keys))) by (now rewrite map_length).
  rewrite (map_nth (fun k => index_of k (term_rows keys)) keys [] t).
  apply index_of_nth, term_rows_in, nth_In, Ht.
Qed.
(* rows with equal index are equal as tuples, and conversely *)
Theorem row_index_injective : forall (keys : list key) s t, s < length keys -> t < length keys ->
  (nth s (row_inverse keys) O = nth t (row_inverse keys) O <-> nth s keys [] = nth t keys []).
Proof.
  intros keys s t Hs Ht. split; intros E.
  - rewrite <- (row_index_reconstruct keys s Hs), <- (row_index_reconstruct keys t Ht), E. reflexivity.
  - unfold row_inverse.
    rewrite !(nth_indep _ O (index_of [] (term_rows keys))) by (now rewrite map_length).
    rewrite !(map_nth (fun k => index_of k (term_rows keys)) keys []). now rewrite E.
Qed.
(* the call found in the source (Gen/UniqueRows.v) is the one this specification describes *)
Theorem row_index_call_spec :
  row_index_spec UniqueRows.row_index_call = Some (fun keys => (term_rows keys, row_inverse keys)).
Proof. reflexivity. Qed.
