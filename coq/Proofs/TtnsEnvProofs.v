(* C11, second part -- proofs about Model/TtnsEnv.v: the environment recursion of TTNS.expectation equals the
   dense bilinear form, partial operators, parent environments and reduced density matrices, find_path. *)
From Coq Require Import Ring List Arith Bool Lia.
Import ListNotations.
From RV Require Import Base.CRing Base.BigSum Model.Chain Proofs.ChainProofs Model.Ttns Proofs.TtnsProofs Model.TtnsEnv.

Section EnvProofs.
Variable R : CRing.
Add Ring RR : (rth R).
Notation "0" := (r0 R).
Notation "1" := (r1 R).
Infix "+" := (radd R).
Infix "*" := (rmul R).
Notation cj := (rcj R).
Notation ttree := (ttree R).
Notation otree := (otree R).
Notation ptree := (ptree R).
Notation env3 := (env3 R).
Notation csum := (csum R).
Notation esum := (esum R).
Notation tamp := (tamp R).
Notation oamp := (oamp R).
Notation camps := (camps R).
Notation ocamps := (ocamps R).
Notation tdim := (tdim R).
Notation odim := (odim R).
Notation tsize := (tsize R).
Notation osize := (osize R).
Notation tshape := (tshape R).
Notation oshape := (oshape R).
Notation sumcfgs := (sumcfgs R).
Notation tpdims := (tpdims R).

(* ------------------------------------------------------------------ triple sums *)
Definition sum3 (a b c : nat) (g : nat -> nat -> nat -> R) : R :=
  sumn a (fun x => sumn b (fun y => sumn c (fun z => g x y z))).

Lemma sum3_ext a b c g h : (forall x y z, x < a -> y < b -> z < c -> g x y z = h x y z) -> sum3 a b c g = sum3 a b c h.
Proof.
  intros H. unfold sum3. apply sumn_ext. intros x Hx. apply sumn_ext. intros y Hy. apply sumn_ext. intros z Hz. apply H; assumption.
Qed.

Lemma sum3_0 a b c : sum3 a b c (fun _ _ _ => 0) = 0.
Proof. unfold sum3. apply sumn_0. intros. apply sumn_0. intros. apply sumn_0. reflexivity. Qed.

Lemma sum3_add a b c g h : sum3 a b c (fun x y z => g x y z + h x y z) = sum3 a b c g + sum3 a b c h.
Proof.
  unfold sum3. rewrite <- sumn_add. apply sumn_ext. intros x _. rewrite <- sumn_add. apply sumn_ext. intros y _.
  apply sumn_add.
Qed.

Lemma sum3_scale_l a b c k g : sum3 a b c (fun x y z => k * g x y z) = k * sum3 a b c g.
Proof.
  unfold sum3. rewrite <- sumn_scale_l. apply sumn_ext. intros x _. rewrite <- sumn_scale_l. apply sumn_ext. intros y _.
  apply sumn_scale_l.
Qed.

Lemma sum3_sumn a b c n (g : nat -> nat -> nat -> nat -> R) :
  sum3 a b c (fun x y z => sumn n (fun j => g j x y z)) = sumn n (fun j => sum3 a b c (g j)).
Proof.
  induction n as [|n IH]; cbn [sumn]; [apply sum3_0|]. rewrite sum3_add, IH. reflexivity.
Qed.

(* (sum a)(sum b)(sum c) *)
Lemma sum3_prod a b c (u v w : nat -> R) :
  sumn a u * sumn b v * sumn c w = sum3 a b c (fun x y z => u x * v y * w z).
Proof.
  symmetry. unfold sum3.
  rewrite (sumn_ext R a _ (fun x => u x * (sumn b v * sumn c w))).
  - rewrite sumn_scale_r. ring.
  - intros x _. rewrite (sumn_ext R b _ (fun y => (u x * sumn c w) * v y)).
    + rewrite sumn_scale_l. ring.
    + intros y _. rewrite sumn_scale_l. ring.
Qed.

(* ------------------------------------------------------------------ esum *)
Lemma esum_cons db do dk e E f :
  esum ((db, do, dk, e) :: E) f =
  sum3 db do dk (fun kb ko kk => e kb ko kk * esum E (fun Kb Ko Kk => f (kb :: Kb) (ko :: Ko) (kk :: Kk))).
Proof. reflexivity. Qed.

Lemma esum_ext E : forall f g, (forall a b c, f a b c = g a b c) -> esum E f = esum E g.
Proof.
  induction E as [|[[[db do] dk] e] E IH]; intros f g H; [apply H|]. rewrite !esum_cons. apply sum3_ext. intros.
  f_equal. apply IH. intros. apply H.
Qed.

Lemma esum_zero E : esum E (fun _ _ _ => 0) = 0.
Proof.
  induction E as [|[[[db do] dk] e] E IH]; [reflexivity|]. rewrite esum_cons.
  rewrite (sum3_ext _ _ _ _ (fun _ _ _ => 0)); [apply sum3_0|]. intros. rewrite IH. ring.
Qed.

Lemma esum_add E : forall f g, esum E (fun a b c => f a b c + g a b c) = esum E f + esum E g.
Proof.
  induction E as [|[[[db do] dk] e] E IH]; intros f g; [reflexivity|]. rewrite !esum_cons. rewrite <- sum3_add.
  apply sum3_ext. intros. rewrite IH. ring.
Qed.

Lemma esum_scale E : forall k f, esum E (fun a b c => k * f a b c) = k * esum E f.
Proof.
  induction E as [|[[[db do] dk] e] E IH]; intros k f; [reflexivity|]. rewrite !esum_cons. rewrite <- sum3_scale_l.
  apply sum3_ext. intros. rewrite IH. ring.
Qed.

Lemma esum_sumn E n (f : nat -> list nat -> list nat -> list nat -> R) :
  esum E (fun a b c => sumn n (fun j => f j a b c)) = sumn n (fun j => esum E (f j)).
Proof. induction n as [|n IH]; cbn [sumn]; [apply esum_zero|]. rewrite esum_add, IH. reflexivity. Qed.

Lemma esum_sumcfg E pd : forall (g : list nat -> list nat -> list nat -> list nat -> R),
  esum E (fun a b c => sumcfg pd (fun x => g a b c x)) = sumcfg pd (fun x => esum E (fun a b c => g a b c x)).
Proof.
  induction pd as [|d pd IH]; intros g; cbn [sumcfg]; [reflexivity|].
  rewrite esum_sumn. apply sumn_ext. intros p _. apply (IH (fun a b c s => g a b c (p :: s))).
Qed.

(* environments only matter inside the bond ranges *)
Lemma esum_extE E E' : forall f,
  Forall2 (fun x y => fst x = fst y /\
                      forall a b c, a < fst (fst (fst x)) -> b < snd (fst (fst x)) -> c < snd (fst x) -> snd x a b c = snd y a b c) E E' ->
  esum E f = esum E' f.
Proof.
  intros f H. revert f. induction H as [|[[[db do] dk] e] [[[db' do'] dk'] e'] E E' [Hd He] _ IH]; intros f; [reflexivity|].
  cbn [fst snd] in *. injection Hd as -> -> ->. rewrite !esum_cons. apply sum3_ext. intros. rewrite He by assumption.
  f_equal. apply IH.
Qed.

(* ------------------------------------------------------------------ product of three bond sums *)
Fixpoint zip3c (A B C : list (nat * (nat -> R))) : list (nat * nat * nat * env3) :=
  match A, B, C with
  | (da, a) :: A', (db, b) :: B', (dc, c) :: C' =>
    (da, db, dc, fun x y z => cj (a x) * b y * c z) :: zip3c A' B' C'
  | _, _, _ => []
  end.

Lemma csum_cj A : forall f, cj (csum A f) = csum (map (fun x => (fst x, fun k => cj (snd x k))) A) (fun K => cj (f K)).
Proof.
  induction A as [|[d a] A IH]; intros f; cbn [Ttns.csum map fst snd]; [reflexivity|].
  rewrite sumn_cj. apply sumn_ext. intros k _. rewrite rcj_mul, IH. reflexivity.
Qed.

Lemma csum3_prod A : forall B C fa fo fk, length B = length A -> length C = length A ->
  cj (csum A fa) * csum B fo * csum C fk =
  esum (zip3c A B C) (fun Ka Ko Kk => cj (fa Ka) * fo Ko * fk Kk).
Proof.
  induction A as [|[da a] A IH]; intros [|[db b] B] [|[dc c] C] fa fo fk HB HC; cbn [length] in *; try discriminate.
  - reflexivity.
  - cbn [zip3c]. rewrite esum_cons. cbn [Ttns.csum]. rewrite sumn_cj. rewrite sum3_prod.
    apply sum3_ext. intros x y z _ _ _. rewrite rcj_mul.
    rewrite <- (IH B C (fun K => fa (x :: K)) (fun K => fo (y :: K)) (fun K => fk (z :: K))) by lia. ring.
Qed.

(* ------------------------------------------------------------------ double configuration sums *)
Definition S2 (dd : list (list nat)) (F : list (list nat) -> list (list nat) -> R) : R :=
  sumcfgs dd (fun a => sumcfgs dd (fun b => F a b)).

Lemma S2_ext_len dd F G : (forall a b, length a = length dd -> length b = length dd -> F a b = G a b) -> S2 dd F = S2 dd G.
Proof.
  intros H. unfold S2. apply sumcfgs_ext_len. intros a Ha. apply sumcfgs_ext_len. intros b Hb. apply H; assumption.
Qed.

Lemma S2_ext dd F G : (forall a b, F a b = G a b) -> S2 dd F = S2 dd G.
Proof. intros H. apply S2_ext_len. intros. apply H. Qed.

Lemma S2_sumn dd n (F : nat -> list (list nat) -> list (list nat) -> R) :
  S2 dd (fun a b => sumn n (fun j => F j a b)) = sumn n (fun j => S2 dd (F j)).
Proof.
  unfold S2. rewrite <- sumcfgs_sumn. apply sumcfgs_ext. intros a. apply sumcfgs_sumn.
Qed.

Lemma S2_sum3 dd x y z (F : nat -> nat -> nat -> list (list nat) -> list (list nat) -> R) :
  S2 dd (fun a b => sum3 x y z (fun i j k => F i j k a b)) = sum3 x y z (fun i j k => S2 dd (F i j k)).
Proof.
  unfold sum3. rewrite S2_sumn. apply sumn_ext. intros i _. rewrite S2_sumn. apply sumn_ext. intros j _. apply S2_sumn.
Qed.

Lemma S2_scale_l dd c F : S2 dd (fun a b => c * F a b) = c * S2 dd F.
Proof.
  unfold S2. rewrite <- sumcfgs_scale_l. apply sumcfgs_ext. intros a. apply sumcfgs_scale_l.
Qed.

Lemma S2_scale_r dd c F : S2 dd (fun a b => F a b * c) = S2 dd F * c.
Proof. rewrite (S2_ext dd _ (fun a b => c * F a b)) by (intros; ring). rewrite S2_scale_l. ring. Qed.

Lemma sumcfg_exchange d1 : forall d2 (F : list nat -> list nat -> R),
  sumcfg d1 (fun a => sumcfg d2 (fun b => F a b)) = sumcfg d2 (fun b => sumcfg d1 (fun a => F a b)).
Proof.
  induction d1 as [|d d1 IH]; intros d2 F; cbn [sumcfg]; [reflexivity|].
  rewrite sumcfg_sumn. apply sumn_ext. intros p _. apply IH.
Qed.

Lemma sumcfgs_sumcfg_exchange dd : forall pd (F : list (list nat) -> list nat -> R),
  sumcfgs dd (fun a => sumcfg pd (fun x => F a x)) = sumcfg pd (fun x => sumcfgs dd (fun a => F a x)).
Proof.
  induction dd as [|d dd IH]; intros pd F; cbn [Ttns.sumcfgs]; [reflexivity|].
  rewrite (sumcfg_ext R d _ (fun ph => sumcfg pd (fun x => sumcfgs dd (fun s => F (ph :: s) x)))).
  - apply sumcfg_exchange.
  - intros ph. apply IH.
Qed.

Lemma sumcfgs_exchange d1 : forall d2 (F : list (list nat) -> list (list nat) -> R),
  sumcfgs d1 (fun a => sumcfgs d2 (fun b => F a b)) = sumcfgs d2 (fun b => sumcfgs d1 (fun a => F a b)).
Proof.
  induction d1 as [|d d1 IH]; intros d2 F; cbn [Ttns.sumcfgs]; [reflexivity|].
  rewrite (sumcfg_ext R d _ (fun ph => sumcfgs d2 (fun b => sumcfgs d1 (fun s => F (ph :: s) b)))).
  - symmetry. apply sumcfgs_sumcfg_exchange.
  - intros ph. apply IH.
Qed.

Lemma S2_app d1 d2 F :
  S2 (d1 ++ d2) F = S2 d1 (fun a1 b1 => S2 d2 (fun a2 b2 => F (a1 ++ a2) (b1 ++ b2))).
Proof.
  unfold S2. rewrite sumcfgs_app. apply sumcfgs_ext. intros a1.
  rewrite (sumcfgs_ext R d2 _ (fun a2 => sumcfgs d1 (fun b1 => sumcfgs d2 (fun b2 => F (a1 ++ a2) (b1 ++ b2))))).
  - apply sumcfgs_exchange.
  - intros a2. apply sumcfgs_app.
Qed.

Lemma S2_prod d1 d2 (P Q : list (list nat) -> list (list nat) -> R) :
  S2 d1 (fun a1 b1 => S2 d2 (fun a2 b2 => P a1 b1 * Q a2 b2)) = S2 d1 P * S2 d2 Q.
Proof.
  rewrite <- S2_scale_r. apply S2_ext. intros a1 b1. apply S2_scale_l.
Qed.


(* ------------------------------------------------------------------ expectation with a full operator tree *)
Lemma cenvF_node l pd d T cs pdo do Ot co pb po pk :
  cenvF R (TNode l pd d T cs) (ONode pdo do Ot co) pb po pk = esum (zipenvF R cs co) (nodeFfull R pd T Ot pb po pk).
Proof. reflexivity. Qed.

Definition dense3 (t : ttree) (o : otree) (pb po pk : nat) : R :=
  S2 (tpdims t) (fun su sd => cj (tamp t su pb) * oamp o su sd po * tamp t sd pk).

Lemma env_children cs :
  Forall (fun c => forall o, tshape c = oshape o -> forall pb po pk, cenvF R c o pb po pk = dense3 c o pb po pk) cs ->
  forall co, map tshape cs = map oshape co -> forall f,
  S2 (flat_map tpdims cs) (fun ru rd => esum (zip3c (camps cs ru) (ocamps co ru rd) (camps cs rd)) f)
  = esum (zipenvF R cs co) f.
Proof.
  induction 1 as [|c cs Hc _ IH]; intros [|o1 co] Hs f; cbn [map] in Hs; try discriminate.
  - reflexivity.
  - injection Hs as H1 Hs. cbn [flat_map zipenvF]. rewrite esum_cons.
    set (n1 := tsize c).
    assert (Hos : osize o1 = n1). { unfold n1. rewrite osize_shape, tsize_shape, H1. reflexivity. }
    rewrite S2_app.
    rewrite (S2_ext_len (tpdims c) _ (fun a1 b1 =>
       sum3 (tdim c) (odim o1) (tdim c) (fun kb ko kk =>
         (cj (tamp c a1 kb) * oamp o1 a1 b1 ko * tamp c b1 kk) *
         S2 (flat_map tpdims cs) (fun a2 b2 =>
            esum (zip3c (camps cs a2) (ocamps co a2 b2) (camps cs b2)) (fun Kb Ko Kk => f (kb :: Kb) (ko :: Ko) (kk :: Kk)))))).
    + rewrite S2_sum3. apply sum3_ext. intros kb ko kk _ _ _. rewrite S2_scale_r.
      rewrite (Hc o1 H1). unfold dense3. rewrite (IH co Hs). reflexivity.
    + intros a1 b1 Ha Hb. rewrite tpdims_length in Ha, Hb. fold n1 in Ha, Hb.
      transitivity (S2 (flat_map tpdims cs) (fun a2 b2 =>
         sum3 (tdim c) (odim o1) (tdim c) (fun kb ko kk =>
           (cj (tamp c a1 kb) * oamp o1 a1 b1 ko * tamp c b1 kk) *
           esum (zip3c (camps cs a2) (ocamps co a2 b2) (camps cs b2)) (fun Kb Ko Kk => f (kb :: Kb) (ko :: Ko) (kk :: Kk))))).
      * apply S2_ext. intros a2 b2.
        cbn [Ttns.camps Ttns.ocamps]. rewrite Hos. fold n1.
        rewrite !firstn_app_exact by assumption. rewrite !skipn_app_exact by assumption.
        cbn [zip3c]. rewrite esum_cons. reflexivity.
      * rewrite (S2_sum3 (flat_map tpdims cs) _ _ _ (fun kb ko kk a2 b2 =>
           (cj (tamp c a1 kb) * oamp o1 a1 b1 ko * tamp c b1 kk) *
           esum (zip3c (camps cs a2) (ocamps co a2 b2) (camps cs b2)) (fun Kb Ko Kk => f (kb :: Kb) (ko :: Ko) (kk :: Kk)))).
        apply sum3_ext. intros kb ko kk _ _ _. apply S2_scale_l.
Qed.

Lemma ocamps_length co : forall ru rd, length (ocamps co ru rd) = length co.
Proof. induction co as [|o co IH]; intros ru rd; cbn [Ttns.ocamps length]; [reflexivity|]. f_equal. apply IH. Qed.

(* TTNS.expectation (environment recursion) = the dense bilinear form  sum_{s',s} conj(psi s') O(s',s) psi(s) *)
Lemma expectation_full_dense t : forall o, tshape t = oshape o -> forall pb po pk,
  cenvF R t o pb po pk = dense3 t o pb po pk.
Proof.
  induction t as [l pd d T cs IH] using (ttree_ind' R). intros [pdo do Ot co] Hs pb po pk.
  rewrite cenvF_node. cbn [Ttns.tshape Ttns.oshape] in Hs. injection Hs as Hs.
  unfold dense3, S2. cbn [Ttns.tpdims Ttns.sumcfgs].
  unfold nodeFfull.
  rewrite (esum_sumcfg _ pd (fun Kb Ko Kk pu => sumcfg pd (fun pdn => cj (T Kb pu pb) * Ot Ko pu pdn po * T Kk pdn pk))).
  apply sumcfg_ext. intros pu.
  rewrite (esum_sumcfg _ pd (fun Kb Ko Kk pdn => cj (T Kb pu pb) * Ot Ko pu pdn po * T Kk pdn pk)).
  (* right-hand side: bring the sum over the down indices of this node outside the sum over ru *)
  rewrite sumcfgs_sumcfg_exchange. apply sumcfg_ext. intros pdn.
  rewrite <- (env_children cs IH co Hs). unfold S2.
  apply sumcfgs_ext. intros ru. apply sumcfgs_ext. intros rd.
  rewrite tamp_node, oamp_node, tamp_node.
  symmetry. apply csum3_prod.
  - rewrite ocamps_length, camps_length. apply (f_equal (@length _)) in Hs. rewrite !map_length in Hs. lia.
  - rewrite !camps_length. reflexivity.
Qed.


(* ------------------------------------------------------------------ partial operators *)
Lemma sumcfg_ext_in ds : forall (f g : list nat -> R), (forall s, all_lt ds s = true -> f s = g s) -> sumcfg ds f = sumcfg ds g.
Proof.
  induction ds as [|d ds IH]; intros f g H; cbn [sumcfg]; [apply H; reflexivity|].
  apply sumn_ext. intros p Hp. apply IH. intros s Hs. apply H. cbn [all_lt]. rewrite Hs.
  apply Nat.ltb_lt in Hp. rewrite Hp. reflexivity.
Qed.

Lemma sel_merge keep : forall kept full, length keep = length full -> length kept = length (sel keep full) ->
  sel keep (merge keep kept full) = kept.
Proof.
  induction keep as [|[|] keep IH]; intros kept full Hl Hk; destruct full as [|y full]; cbn [length] in Hl; try discriminate;
    cbn [sel merge] in *.
  - destruct kept; [reflexivity|discriminate].
  - destruct kept as [|x kept]; [discriminate|]. cbn [hd tl length] in *. f_equal. apply IH; lia.
  - apply IH; [lia|exact Hk].
Qed.

Lemma sumcfg_merge keep : forall pd pu, length keep = length pd -> all_lt pd pu = true -> forall G : list nat -> R,
  sumcfg (sel keep pd) (fun pdk => G (merge keep pdk pu)) = sumcfg pd (fun pdn => if eqskip keep pu pdn then G pdn else 0).
Proof.
  induction keep as [|[|] keep IH]; intros pd pu Hl Hpu G; destruct pd as [|d pd]; cbn [length] in Hl; try discriminate.
  - destruct pu; [reflexivity|discriminate].
  - destruct pu as [|x pu]; [discriminate|]. cbn [all_lt] in Hpu. apply andb_true_iff in Hpu as [Hx Hpu].
    cbn [sel sumcfg]. apply sumn_ext. intros y _. cbn [merge hd tl eqskip].
    apply (IH pd pu (ltac:(lia)) Hpu (fun q => G (y :: q))).
  - destruct pu as [|x pu]; [discriminate|]. cbn [all_lt] in Hpu. apply andb_true_iff in Hpu as [Hx Hpu].
    apply Nat.ltb_lt in Hx. cbn [sel sumcfg merge].
    rewrite (IH pd pu (ltac:(lia)) Hpu (fun q => G (x :: q))).
    rewrite <- (sumn_delta R d x (fun y => sumcfg pd (fun pdn => if eqskip keep pu pdn then G (y :: pdn) else 0)) Hx).
    apply sumn_ext. intros y _. cbn [eqskip]. rewrite (Nat.eqb_sym x y). destruct (Nat.eqb y x); cbn [andb].
    + reflexivity.
    + symmetry. apply sumcfg_0.
Qed.

Lemma nodeF_full pd keep T Ot pb po pk Kb Ko Kk : length keep = length pd ->
  nodeF R pd keep T Ot pb po pk Kb Ko Kk =
  nodeFfull R pd T (fun Ko pu pdn po => if eqskip keep pu pdn then Ot Ko (sel keep pu) (sel keep pdn) po else 0) pb po pk Kb Ko Kk.
Proof.
  intros Hl. unfold nodeF, nodeFfull. apply sumcfg_ext_in. intros pu Hpu.
  set (G := fun pdn => cj (T Kb pu pb) * Ot Ko (sel keep pu) (sel keep pdn) po * T Kk pdn pk).
  transitivity (sumcfg pd (fun pdn => if eqskip keep pu pdn then G pdn else 0)).
  - rewrite <- (sumcfg_merge keep pd pu Hl Hpu G). apply sumcfg_ext_in.
    intros pdk Hk. unfold G. rewrite sel_merge; [reflexivity| |].
    + rewrite (all_lt_length _ _ Hpu). exact Hl.
    + rewrite (all_lt_length _ _ Hk).
      clear - Hl Hpu. apply all_lt_length in Hpu. revert pd pu Hl Hpu.
      induction keep as [|[|] keep IH]; intros [|d pd] [|x pu] Hl Hpu; cbn [length sel] in *; try discriminate; try reflexivity.
      * f_equal. apply IH; lia.
      * apply IH; lia.
  - apply sumcfg_ext. intros pdn. unfold G. destruct (eqskip keep pu pdn); ring.
Qed.

Lemma cenv_node l pd d T cs keep do Ot co pb po pk :
  cenv R (TNode l pd d T cs) (PNode keep do Ot co) pb po pk = esum (zipenv R cs co) (nodeF R pd keep T Ot pb po pk).
Proof. reflexivity. Qed.

Lemma compat_node l pd d T cs keep do Ot co :
  compat R (TNode l pd d T cs) (PNode keep do Ot co) <-> length keep = length pd /\ compats R cs co.
Proof.
  cbn [compat]. split; intros [H1 H2]; split; try exact H1; exact H2.
Qed.

Lemma pfull_dim o : odim (pfull R o) = pdim R o.
Proof. destruct o; reflexivity. Qed.

Lemma cenv_pfull t : forall o, compat R t o -> forall pb po pk, cenv R t o pb po pk = cenvF R t (pfull R o) pb po pk.
Proof.
  induction t as [l pd d T cs IH] using (ttree_ind' R). intros [keep do Ot co] Hc pb po pk.
  apply compat_node in Hc as [Hl Hcs]. cbn [pfull]. rewrite cenv_node, cenvF_node.
  rewrite (esum_ext _ _ _ (fun Kb Ko Kk => nodeF_full pd keep T Ot pb po pk Kb Ko Kk Hl)).
  apply esum_extE. clear - IH Hcs. revert co Hcs.
  induction IH as [|c cs Hc _ IHl]; intros [|o1 co] Hcs; cbn [compats] in Hcs; try contradiction; cbn [zipenv zipenvF map]; constructor.
  - cbn [fst snd]. rewrite pfull_dim. split; [reflexivity|]. intros a b c0 _ _ _. apply Hc. apply Hcs.
  - apply IHl. apply Hcs.
Qed.

Lemma compat_shape t : forall o, compat R t o -> tshape t = oshape (pfull R o).
Proof.
  induction t as [l pd d T cs IH] using (ttree_ind' R). intros [keep do Ot co] Hc.
  apply compat_node in Hc as [_ Hcs]. cbn [pfull Ttns.tshape Ttns.oshape]. f_equal. rewrite map_map.
  revert co Hcs. induction IH as [|c cs Hc _ IHl]; intros [|o1 co] Hcs; cbn [compats] in Hcs; try contradiction; cbn [map]; [reflexivity|].
  f_equal; [apply Hc; apply Hcs|apply IHl; apply Hcs].
Qed.

(* TTNS.expectation incl. operators on a sub-tree's DoFs: the environment recursion equals
   sum_{s',s} conj(psi s') . O(s',s) . psi(s)  with O the operator extended by the identity on the other DoFs *)
Lemma ttns_expectation_dense t o : compat R t o -> forall pb po pk,
  cenv R t o pb po pk =
  sumcfgs (tpdims t) (fun su => sumcfgs (tpdims t) (fun sd =>
    cj (tamp t su pb) * oamp (pfull R o) su sd po * tamp t sd pk)).
Proof.
  intros Hc pb po pk. rewrite (cenv_pfull t o Hc). apply (expectation_full_dense t _ (compat_shape t o Hc)).
Qed.


(* ------------------------------------------------------------------ parent environments: closed value = parent env . child env *)
Lemma sum3_exchange a b c a' b' c' (g : nat -> nat -> nat -> nat -> nat -> nat -> R) :
  sum3 a b c (fun x y z => sum3 a' b' c' (fun x' y' z' => g x y z x' y' z')) =
  sum3 a' b' c' (fun x' y' z' => sum3 a b c (fun x y z => g x y z x' y' z')).
Proof.
  unfold sum3.
  rewrite (sumn_ext R a _ (fun x => sumn a' (fun x' => sumn b (fun y => sumn c (fun z => sumn b' (fun y' => sumn c' (fun z' => g x y z x' y' z'))))))).
  2:{ intros x _. rewrite (sumn_ext R b _ (fun y => sumn a' (fun x' => sumn c (fun z => sumn b' (fun y' => sumn c' (fun z' => g x y z x' y' z')))))).
      - apply sumn_exchange.
      - intros y _. apply sumn_exchange. }
  rewrite sumn_exchange. apply sumn_ext. intros x' _.
  rewrite (sumn_ext R a _ (fun x => sumn b' (fun y' => sumn b (fun y => sumn c (fun z => sumn c' (fun z' => g x y z x' y' z')))))).
  2:{ intros x _. rewrite (sumn_ext R b _ (fun y => sumn b' (fun y' => sumn c (fun z => sumn c' (fun z' => g x y z x' y' z'))))).
      - apply sumn_exchange.
      - intros y _. apply sumn_exchange. }
  rewrite sumn_exchange. apply sumn_ext. intros y' _.
  rewrite (sumn_ext R a _ (fun x => sumn c' (fun z' => sumn b (fun y => sumn c (fun z => g x y z x' y' z'))))).
  2:{ intros x _. rewrite (sumn_ext R b _ (fun y => sumn c' (fun z' => sumn c (fun z => g x y z x' y' z')))).
      - apply sumn_exchange.
      - intros y _. apply sumn_exchange. }
  apply sumn_exchange.
Qed.

Lemma sum3_delta a b c x y z (g : nat -> nat -> nat -> R) : x < a -> y < b -> z < c ->
  sum3 a b c (fun x' y' z' => delta3 R x y z x' y' z' * g x' y' z') = g x y z.
Proof.
  intros Hx Hy Hz. unfold sum3, delta3.
  rewrite <- (sumn_delta R a x (fun x' => g x' y z) Hx). apply sumn_ext. intros x' _.
  destruct (Nat.eqb x' x) eqn:Ex; cbn [andb].
  - rewrite <- (sumn_delta R b y (fun y' => g x' y' z) Hy). apply sumn_ext. intros y' _.
    destruct (Nat.eqb y' y) eqn:Ey; cbn [andb].
    + rewrite <- (sumn_delta R c z (fun z' => g x' y' z') Hz). apply sumn_ext. intros z' _.
      destruct (Nat.eqb z' z); ring.
    + apply sumn_0. intros. ring.
  - apply sumn_0. intros. apply sumn_0. intros. ring.
Qed.

Definition dims3 (x : nat * nat * nat * env3) := fst x.
Definition sumE (x : nat * nat * nat * env3) (g : nat -> nat -> nat -> R) : R :=
  sum3 (fst (fst (fst x))) (snd (fst (fst x))) (snd (fst x)) g.

(* one child environment pulled out of the contraction: the slot is replaced by a delta *)
Lemma esum_at E : forall i x f, nth_error E i = Some x ->
  esum E f = sumE x (fun kb ko kk => snd x kb ko kk * esum (replace_slot i (slot_delta R x kb ko kk) E) f).
Proof.
  induction E as [|[[[db do] dk] e] E IH]; intros [|i] x f Hx; cbn [nth_error] in Hx; try discriminate.
  - injection Hx as <-. unfold sumE. cbn [fst snd replace_slot slot_delta]. rewrite esum_cons. apply sum3_ext.
    intros kb ko kk Hb Ho Hk. f_equal. rewrite esum_cons.
    symmetry. apply (sum3_delta db do dk kb ko kk (fun kb' ko' kk' => esum E (fun Kb Ko Kk => f (kb' :: Kb) (ko' :: Ko) (kk' :: Kk)))); assumption.
  - rewrite esum_cons. cbn [replace_slot].
    rewrite (sum3_ext _ _ _ _ (fun kb0 ko0 kk0 => sumE x (fun kb ko kk =>
       e kb0 ko0 kk0 * (snd x kb ko kk * esum (replace_slot i (slot_delta R x kb ko kk) E) (fun Kb Ko Kk => f (kb0 :: Kb) (ko0 :: Ko) (kk0 :: Kk)))))).
    + unfold sumE. rewrite sum3_exchange. apply sum3_ext. intros kb ko kk _ _ _. rewrite esum_cons.
      rewrite <- sum3_scale_l. apply sum3_ext. intros. ring.
    + intros kb0 ko0 kk0 _ _ _. rewrite (IH i x _ Hx). unfold sumE. rewrite <- sum3_scale_l. reflexivity.
Qed.

Lemma zipenv_nth cs : forall co i c o1, nth_error cs i = Some c -> nth_error co i = Some o1 ->
  nth_error (zipenv R cs co) i = Some (tdim c, pdim R o1, tdim c, cenv R c o1).
Proof.
  induction cs as [|c0 cs IH]; intros [|o0 co] [|i] c o1 Hc Ho; cbn [nth_error] in *; try discriminate.
  - injection Hc as <-. injection Ho as <-. reflexivity.
  - cbn [zipenv nth_error]. apply IH; assumption.
Qed.

Definition sumP (t : ttree) (o : ptree) (g : nat -> nat -> nat -> R) : R := sum3 (tdim t) (pdim R o) (tdim t) g.

Lemma penv_child_spec l pd d T cs keep do Ot co i c o1 Pe kb ko kk :
  nth_error cs i = Some c -> nth_error co i = Some o1 ->
  penv_child R (TNode l pd d T cs) (PNode keep do Ot co) i Pe kb ko kk =
  sum3 d do d (fun pb po pk => Pe pb po pk *
     esum (replace_slot i (slot_delta R (tdim c, pdim R o1, tdim c, cenv R c o1) kb ko kk) (zipenv R cs co)) (nodeF R pd keep T Ot pb po pk)).
Proof. intros Hc Ho. unfold penv_child. rewrite (zipenv_nth cs co i c o1 Hc Ho). reflexivity. Qed.

Lemma env_split : forall path t o Pe u ou, subtree R path t = Some u -> psub R path o = Some ou ->
  sumP t o (fun pb po pk => Pe pb po pk * cenv R t o pb po pk) =
  sumP u ou (fun kb ko kk => penv_at R t o path Pe kb ko kk * cenv R u ou kb ko kk).
Proof.
  induction path as [|i path IH]; intros t o Pe u ou Hu Hou; cbn [subtree psub] in Hu, Hou.
  - injection Hu as <-. injection Hou as <-. reflexivity.
  - destruct t as [l pd d T cs], o as [keep do Ot co]. cbn [tch pch] in Hu, Hou.
    destruct (nth_error cs i) as [c|] eqn:Ec; [|discriminate]. destruct (nth_error co i) as [o1|] eqn:Eo; [|discriminate].
    cbn [penv_at tch pch]. rewrite Ec, Eo.
    rewrite <- (IH c o1 (penv_child R (TNode l pd d T cs) (PNode keep do Ot co) i Pe) u ou Hu Hou).
    unfold sumP. cbn [Ttns.tdim pdim].
    rewrite (sum3_ext d do d _ (fun pb po pk => sum3 (tdim c) (pdim R o1) (tdim c) (fun kb ko kk =>
        cenv R c o1 kb ko kk * (Pe pb po pk *
          esum (replace_slot i (slot_delta R (tdim c, pdim R o1, tdim c, cenv R c o1) kb ko kk) (zipenv R cs co)) (nodeF R pd keep T Ot pb po pk))))).
    + rewrite sum3_exchange. apply sum3_ext. intros kb ko kk _ _ _.
      rewrite (penv_child_spec l pd d T cs keep do Ot co i c o1 Pe kb ko kk Ec Eo).
      rewrite sum3_scale_l. ring.
    + intros pb po pk _ _ _. rewrite cenv_node.
      rewrite (esum_at _ i _ _ (zipenv_nth cs co i c o1 Ec Eo)). unfold sumE. cbn [fst snd].
      rewrite <- sum3_scale_l. apply sum3_ext. intros. ring.
Qed.


(* ------------------------------------------------------------------ one-site reduced density matrix *)
Lemma penv_child_ext t o i Pe1 Pe2 : (forall a b c, Pe1 a b c = Pe2 a b c) ->
  forall a b c, penv_child R t o i Pe1 a b c = penv_child R t o i Pe2 a b c.
Proof.
  intros H a b c. destruct t as [l pd d T cs], o as [keep do Ot co]. unfold penv_child.
  apply sumn_ext. intros pb _. apply sumn_ext. intros po _. apply sumn_ext. intros pk _. rewrite H. reflexivity.
Qed.

Lemma penv_at_ext : forall path t o Pe1 Pe2, (forall a b c, Pe1 a b c = Pe2 a b c) ->
  forall a b c, penv_at R t o path Pe1 a b c = penv_at R t o path Pe2 a b c.
Proof.
  induction path as [|i path IH]; intros t o Pe1 Pe2 H a b c; cbn [penv_at]; [apply H|].
  destruct (nth_error (tch R t) i) as [c0|]; [|apply H]. destruct (nth_error (pch R o) i) as [o1|]; [|apply H].
  apply IH. apply penv_child_ext. exact H.
Qed.

Lemma nth_error_map_nth {A} (g : A -> A) : forall (l : list A) i x, nth_error l i = Some x -> nth_error (map_nth i g l) i = Some (g x).
Proof.
  induction l as [|y l IH]; intros [|i] x H; cbn [nth_error map_nth] in *; try discriminate.
  - injection H as <-. reflexivity.
  - apply IH. exact H.
Qed.

Lemma set_unit_dim path n ket bra : forall o, pdim R (set_unit R path n ket bra o) = pdim R o.
Proof. destruct path; intros [keep d Ot cs]; reflexivity. Qed.

Lemma zipenv_replace_map_nth cs : forall co i g x y,
  (forall o1, pdim R (g o1) = pdim R o1) ->
  nth_error (zipenv R cs co) i = Some x -> nth_error (zipenv R cs (map_nth i g co)) i = Some y ->
  forall kb ko kk, replace_slot i (slot_delta R y kb ko kk) (zipenv R cs (map_nth i g co)) = replace_slot i (slot_delta R x kb ko kk) (zipenv R cs co).
Proof.
  induction cs as [|c cs IH]; intros [|o0 co] [|i] g x y Hg Hx Hy kb ko kk; cbn [zipenv map_nth nth_error] in *; try discriminate.
  - injection Hx as <-. injection Hy as <-. cbn [replace_slot slot_delta]. rewrite Hg. reflexivity.
  - cbn [replace_slot]. f_equal. apply (IH co i g x y Hg Hx Hy).
Qed.

Lemma penv_at_set_unit n ket bra : forall path t o Pe a b c,
  penv_at R t (set_unit R path n ket bra o) path Pe a b c = penv_at R t o path Pe a b c.
Proof.
  induction path as [|i path IH]; intros t o Pe a b c; [reflexivity|].
  destruct o as [keep do Ot co]. cbn [set_unit penv_at pch].
  destruct (nth_error (tch R t) i) as [c0|] eqn:Ec; [|reflexivity].
  destruct (nth_error co i) as [o1|] eqn:Eo.
  - rewrite (nth_error_map_nth _ co i o1 Eo). rewrite IH. apply penv_at_ext. intros a' b' c'.
    destruct t as [l pd d T cs]. cbn [tch] in Ec. unfold penv_child.
    apply sumn_ext. intros pb _. apply sumn_ext. intros po _. apply sumn_ext. intros pk _. f_equal.
    rewrite (zipenv_nth cs co i c0 o1 Ec Eo).
    rewrite (zipenv_nth cs _ i c0 _ Ec (nth_error_map_nth _ co i o1 Eo)).
    rewrite (zipenv_replace_map_nth cs co i _ _ _ (set_unit_dim path n ket bra) (zipenv_nth cs co i c0 o1 Ec Eo)
               (zipenv_nth cs _ i c0 _ Ec (nth_error_map_nth _ co i o1 Eo))). reflexivity.
  - assert (Hn : nth_error (map_nth i (set_unit R path n ket bra) co) i = None).
    { clear - Eo. revert i Eo. induction co as [|o0 co IHc]; intros [|i] Eo; cbn [nth_error map_nth] in *; try discriminate; try reflexivity. apply IHc. exact Eo. }
    rewrite Hn. reflexivity.
Qed.

Lemma psub_set_unit n ket bra : forall path o keep d Ot cs, psub R path o = Some (PNode keep d Ot cs) ->
  psub R path (set_unit R path n ket bra o) = Some (PNode (repeat true n) d (unit_tens R ket bra) cs).
Proof.
  induction path as [|i path IH]; intros [keep0 d0 Ot0 cs0] keep d Ot cs H; cbn [psub set_unit pch] in *.
  - injection H as _ <- _ <-. reflexivity.
  - destruct (nth_error cs0 i) as [o1|] eqn:Eo; [|discriminate]. rewrite (nth_error_map_nth _ cs0 i o1 Eo). apply (IH o1 keep d Ot cs H).
Qed.

Lemma sel_all : forall n l, length l = n -> sel (repeat true n) l = l.
Proof. induction n as [|n IH]; intros [|x l] H; cbn [length repeat sel] in *; try discriminate; try reflexivity. f_equal. apply IH. lia. Qed.

Lemma merge_all : forall n kept full, length kept = n -> length full = n -> merge (repeat true n) kept full = kept.
Proof.
  induction n as [|n IH]; intros [|x kept] [|y full] Hk Hf; cbn [length repeat merge hd tl] in *; try discriminate; try reflexivity.
  f_equal. apply IH; lia.
Qed.

Lemma sumcfg_delta_list ds : forall v (g : list nat -> R), all_lt ds v = true ->
  sumcfg ds (fun x => if list_eq_dec Nat.eq_dec x v then g x else 0) = g v.
Proof.
  induction ds as [|d ds IH]; intros [|y v] g Hv; cbn [all_lt] in Hv; try discriminate.
  - cbn [sumcfg]. destruct (list_eq_dec Nat.eq_dec [] []); [reflexivity|congruence].
  - apply andb_true_iff in Hv as [Hy Hv]. apply Nat.ltb_lt in Hy. cbn [sumcfg].
    rewrite <- (IH v (fun s => g (y :: s)) Hv).
    rewrite <- (sumn_delta R d y (fun p => sumcfg ds (fun s => if list_eq_dec Nat.eq_dec s v then g (p :: s) else 0)) Hy).
    apply sumn_ext. intros p _. destruct (Nat.eqb_spec p y) as [->|Hne].
    + apply sumcfg_ext. intros s. destruct (list_eq_dec Nat.eq_dec (y :: s) (y :: v)) as [E|E], (list_eq_dec Nat.eq_dec s v) as [E'|E']; try reflexivity; congruence.
    + rewrite (sumcfg_ext R ds _ (fun _ => 0)); [apply sumcfg_0|]. intros s.
      destruct (list_eq_dec Nat.eq_dec (p :: s) (y :: v)) as [E|E]; [congruence|reflexivity].
Qed.

Lemma nodeF_unit pd T ket bra pb po pk Kb Ko Kk : all_lt pd ket = true -> all_lt pd bra = true ->
  nodeF R pd (repeat true (length pd)) T (unit_tens R ket bra) pb po pk Kb Ko Kk = cj (T Kb bra pb) * T Kk ket pk.
Proof.
  intros Hk Hb. unfold nodeF. rewrite (sel_all _ pd eq_refl).
  rewrite (sumcfg_ext_in pd _ (fun pu => if list_eq_dec Nat.eq_dec pu bra then cj (T Kb pu pb) * T Kk ket pk else 0)).
  - apply (sumcfg_delta_list pd bra (fun pu => cj (T Kb pu pb) * T Kk ket pk) Hb).
  - intros pu Hpu. rewrite (sel_all _ pu (all_lt_length _ _ Hpu)). unfold unit_tens.
    destruct (list_eq_dec Nat.eq_dec pu bra) as [E|E].
    + rewrite (sumcfg_ext_in pd _ (fun pdk => if list_eq_dec Nat.eq_dec pdk ket then cj (T Kb pu pb) * T Kk pdk pk else 0)).
      * apply (sumcfg_delta_list pd ket (fun pdk => cj (T Kb pu pb) * T Kk pdk pk) Hk).
      * intros pdk Hpdk. rewrite (merge_all _ pdk pu (all_lt_length _ _ Hpdk) (all_lt_length _ _ Hpu)).
        destruct (list_eq_dec Nat.eq_dec pdk ket); ring.
    + rewrite (sumcfg_ext R pd _ (fun _ => 0)); [apply sumcfg_0|]. intros pdk. ring.
Qed.

(* calc_1site_rdm entry (ket, bra) = closed contraction with |bra><ket| on the node and nothing elsewhere *)
Lemma rdm1_closed t o path ket bra l pd d T cs keep do Ot co :
  subtree R path t = Some (TNode l pd d T cs) -> psub R path o = Some (PNode keep do Ot co) ->
  all_lt pd ket = true -> all_lt pd bra = true ->
  rdm1_site R t o path ket bra =
  sumP t o (fun pb po pk => cenv R t (set_unit R path (length pd) ket bra o) pb po pk).
Proof.
  intros Hu Hou Hk Hb. unfold rdm1_site. rewrite Hu, Hou.
  set (o' := set_unit R path (length pd) ket bra o).
  assert (Hou' := psub_set_unit (length pd) ket bra path o keep do Ot co Hou). fold o' in Hou'.
  transitivity (sumP t o' (fun pb po pk => env_one R pb po pk * cenv R t o' pb po pk)).
  - rewrite (env_split path t o' (env_one R) _ _ Hu Hou'). unfold sumP. cbn [Ttns.tdim pdim].
    apply sum3_ext. intros pb po pk _ _ _. unfold o'. rewrite penv_at_set_unit. f_equal.
    rewrite cenv_node. apply esum_ext. intros Kb Ko Kk. symmetry. apply nodeF_unit; assumption.
  - unfold sumP, o'. rewrite set_unit_dim. apply sum3_ext. intros. unfold env_one. ring.
Qed.

Lemma compats_map_nth g : forall cs co i, compats R cs co ->
  (forall c o1, nth_error cs i = Some c -> nth_error co i = Some o1 -> compat R c o1 -> compat R c (g o1)) ->
  compats R cs (map_nth i g co).
Proof.
  induction cs as [|c cs IH]; intros [|o0 co] [|i] Hc Hg; cbn [compats map_nth] in *; try contradiction; try exact I.
  - destruct Hc as [H1 H2]. split; [apply (Hg c o0 eq_refl eq_refl H1)|exact H2].
  - destruct Hc as [H1 H2]. split; [exact H1|]. apply IH; [exact H2|]. intros c' o1 Hc' Ho'. apply Hg; assumption.
Qed.

Lemma compat_set_unit ket bra : forall path t o u, compat R t o -> subtree R path t = Some u ->
  compat R t (set_unit R path (length (tpd R u)) ket bra o).
Proof.
  induction path as [|i path IH]; intros [l pd d T cs] [keep do Ot co] u Hc Hu; cbn [subtree tch] in Hu.
  - injection Hu as <-. cbn [set_unit tpd]. apply compat_node in Hc as [_ Hcs]. apply compat_node. split; [apply repeat_length|exact Hcs].
  - destruct (nth_error cs i) as [c|] eqn:Ec; [|discriminate]. cbn [set_unit].
    apply compat_node in Hc as [Hl Hcs]. apply compat_node. split; [exact Hl|].
    apply compats_map_nth; [exact Hcs|]. intros c' o1 Hc' Ho' Hco. rewrite Ec in Hc'. injection Hc' as <-.
    apply IH; assumption.
Qed.

(* whole state (dangling bonds of dimension 1): the RDM entry is the dense bilinear form with the operator
   |bra><ket| on the node's DoFs and the identity elsewhere, i.e. Tr_rest |psi><psi| *)
Lemma rdm1_dense t o path ket bra u :
  compat R t o -> tdim t = 1%nat -> pdim R o = 1%nat -> subtree R path t = Some u -> (exists ou, psub R path o = Some ou) ->
  all_lt (tpd R u) ket = true -> all_lt (tpd R u) bra = true ->
  rdm1_site R t o path ket bra =
  sumcfgs (tpdims t) (fun su => sumcfgs (tpdims t) (fun sd =>
    cj (tamp t su O) * oamp (pfull R (set_unit R path (length (tpd R u)) ket bra o)) su sd O * tamp t sd O)).
Proof.
  intros Hc Hd Hdo Hu [[keep do Ot co] Hou] Hk Hb. destruct u as [l pd d T cs]. cbn [tpd] in *.
  rewrite (rdm1_closed t o path ket bra l pd d T cs keep do Ot co Hu Hou Hk Hb).
  unfold sumP, sum3. rewrite Hd, Hdo. cbn [sumn].
  pose proof (ttns_expectation_dense t _ (compat_set_unit ket bra path t o _ Hc Hu) O O O) as E. cbn [tpd] in E.
  rewrite <- E. ring.
Qed.

(* calc_1dof_rdm: the other DoFs of the node are traced out of the site RDM *)
Lemma rdm1dof_dense t o path j a b u :
  compat R t o -> tdim t = 1%nat -> pdim R o = 1%nat -> subtree R path t = Some u -> (exists ou, psub R path o = Some ou) ->
  (forall x, all_lt (put_nth j 1%nat (tpd R u)) x = true -> all_lt (tpd R u) (put_nth j a x) = true /\ all_lt (tpd R u) (put_nth j b x) = true) ->
  rdm1_dof R t o path j a b =
  sumcfg (put_nth j 1%nat (tpd R u)) (fun x =>
    sumcfgs (tpdims t) (fun su => sumcfgs (tpdims t) (fun sd =>
      cj (tamp t su O) * oamp (pfull R (set_unit R path (length (tpd R u)) (put_nth j a x) (put_nth j b x) o)) su sd O * tamp t sd O))).
Proof.
  intros Hc Hd Hdo Hu Hou Hr. unfold rdm1_dof. rewrite Hu. apply sumcfg_ext_in. intros x Hx.
  destruct (Hr x Hx) as [Ha Hb]. apply (rdm1_dense t o path _ _ u Hc Hd Hdo Hu Hou Ha Hb).
Qed.


(* ------------------------------------------------------------------ replacing an operator sub-tree *)
Lemma psub_set_sub new : forall path o x, psub R path o = Some x -> psub R path (set_sub R path new o) = Some new.
Proof.
  induction path as [|i path IH]; intros [keep d Ot cs] x H; cbn [psub set_sub pch] in *; [reflexivity|].
  destruct (nth_error cs i) as [o1|] eqn:Eo; [|discriminate]. rewrite (nth_error_map_nth _ cs i o1 Eo). apply (IH o1 x H).
Qed.

Lemma set_sub_dim new : forall path o x, psub R path o = Some x -> pdim R new = pdim R x -> pdim R (set_sub R path new o) = pdim R o.
Proof.
  destruct path as [|i path]; intros [keep d Ot cs] x H Hd; cbn [psub set_sub] in *; [|reflexivity].
  injection H as <-. exact Hd.
Qed.

Lemma zipenv_replace_at cs : forall co i g c o1, nth_error cs i = Some c -> nth_error co i = Some o1 -> pdim R (g o1) = pdim R o1 ->
  forall kb ko kk,
  replace_slot i (slot_delta R (tdim c, pdim R (g o1), tdim c, cenv R c (g o1)) kb ko kk) (zipenv R cs (map_nth i g co)) =
  replace_slot i (slot_delta R (tdim c, pdim R o1, tdim c, cenv R c o1) kb ko kk) (zipenv R cs co).
Proof.
  induction cs as [|c0 cs IH]; intros [|o0 co] [|i] g c o1 Hc Ho Hg kb ko kk; cbn [nth_error] in *; try discriminate.
  - injection Hc as <-. injection Ho as <-. cbn [zipenv map_nth replace_slot slot_delta]. rewrite Hg. reflexivity.
  - cbn [zipenv map_nth replace_slot]. f_equal. apply (IH co i g c o1 Hc Ho Hg).
Qed.

Lemma penv_at_set_sub new : forall path t o x Pe a b c, psub R path o = Some x -> pdim R new = pdim R x ->
  penv_at R t (set_sub R path new o) path Pe a b c = penv_at R t o path Pe a b c.
Proof.
  induction path as [|i path IH]; intros t o x Pe a b c Hx Hd; [reflexivity|].
  destruct o as [keep do Ot co]. cbn [set_sub penv_at pch psub] in *.
  destruct (nth_error co i) as [o1|] eqn:Eo; [|discriminate].
  destruct (nth_error (tch R t) i) as [c0|] eqn:Ec; [|reflexivity].
  rewrite (nth_error_map_nth _ co i o1 Eo). rewrite (IH c0 o1 x _ a b c Hx Hd). apply penv_at_ext. intros a' b' c'.
  destruct t as [l pd d T cs]. cbn [tch] in Ec. unfold penv_child.
  apply sumn_ext. intros pb _. apply sumn_ext. intros po _. apply sumn_ext. intros pk _. f_equal.
  rewrite (zipenv_nth cs co i c0 o1 Ec Eo).
  rewrite (zipenv_nth cs _ i c0 _ Ec (nth_error_map_nth _ co i o1 Eo)).
  rewrite (zipenv_replace_at cs co i _ c0 o1 Ec Eo (set_sub_dim new path o1 x Hx Hd)). reflexivity.
Qed.

Lemma compat_set_sub new : forall path t o u, compat R t o -> subtree R path t = Some u -> compat R u new ->
  compat R t (set_sub R path new o).
Proof.
  induction path as [|i path IH]; intros [l pd d T cs] [keep do Ot co] u Hc Hu Hn; cbn [subtree tch] in Hu.
  - injection Hu as <-. exact Hn.
  - destruct (nth_error cs i) as [c|] eqn:Ec; [|discriminate]. cbn [set_sub].
    apply compat_node in Hc as [Hl Hcs]. apply compat_node. split; [exact Hl|].
    apply compats_map_nth; [exact Hcs|]. intros c' o1 Hc' Ho' Hco. rewrite Ec in Hc'. injection Hc' as <-.
    eapply IH; eassumption.
Qed.

(* ------------------------------------------------------------------ two-site reduced density matrix *)
Section Rdm2Proofs.
Variables k1 b1 k2 b2 : list nat.
Notation D2 := (D2 R k1 b1 k2 b2).
Notation units := (units R k1 b1 k2 b2).
Notation zipD2 := (zipD2 R k1 b1 k2 b2).
Notation zipunits := (zipunits R k1 b1 k2 b2).
Notation okD := (okD R k1 b1 k2 b2).
Notation okDs := (okDs R k1 b1 k2 b2).

Lemma D2_node l pd d T cs keep do Ot co r1 r2 pb po pk :
  D2 (TNode l pd d T cs) (PNode keep do Ot co) r1 r2 pb po pk =
  esum (zipD2 r1 r2 cs co O)
       (if is_here r1 then (fun Kb Ko Kk => cj (T Kb b1 pb) * T Kk k1 pk)
        else if is_here r2 then (fun Kb Ko Kk => cj (T Kb b2 pb) * T Kk k2 pk)
        else nodeF R pd keep T Ot pb po pk).
Proof.
  cbn [TtnsEnv.D2]. f_equal. generalize O as j. revert co.
  induction cs as [|c cs IHc]; intros [|o1 co] j; cbn [TtnsEnv.zipD2]; try reflexivity. f_equal. apply IHc.
Qed.

Lemma units_node l pd d T cs keep do Ot co r1 r2 :
  units (TNode l pd d T cs) (PNode keep do Ot co) r1 r2 =
  PNode (if is_here r1 || is_here r2 then repeat true (length pd) else keep) do
        (if is_here r1 then unit_tens R k1 b1 else if is_here r2 then unit_tens R k2 b2 else Ot)
        (zipunits r1 r2 cs co O).
Proof.
  cbn [TtnsEnv.units]. f_equal. generalize O as j. revert co.
  induction cs as [|c cs IHc]; intros [|o1 co] j; cbn [TtnsEnv.zipunits]; try reflexivity. f_equal. apply IHc.
Qed.

Lemma okD_node l pd d T cs r1 r2 :
  okD (TNode l pd d T cs) r1 r2 <->
  (is_here r1 = true -> all_lt pd k1 = true /\ all_lt pd b1 = true) /\
  (is_here r2 = true -> all_lt pd k2 = true /\ all_lt pd b2 = true) /\ okDs r1 r2 cs O.
Proof.
  assert (E : forall j, (fix go (cs : list ttree) (j : nat) {struct cs} : Prop :=
                          match cs with [] => True | c :: cs' => okD c (rel_child r1 j) (rel_child r2 j) /\ go cs' (S j) end) cs j
                       <-> okDs r1 r2 cs j).
  { induction cs as [|c cs IHc]; intros j; cbn [TtnsEnv.okDs]; [tauto|]. rewrite IHc. tauto. }
  cbn [TtnsEnv.okD]. rewrite E. tauto.
Qed.

Lemma units_dim t o r1 r2 : pdim R (units t o r1 r2) = pdim R o.
Proof. destruct t, o. reflexivity. Qed.

Lemma D2_units t : forall o r1 r2, okD t r1 r2 -> forall pb po pk,
  D2 t o r1 r2 pb po pk = cenv R t (units t o r1 r2) pb po pk.
Proof.
  induction t as [l pd d T cs IH] using (ttree_ind' R). intros [keep do Ot co] r1 r2 Hok pb po pk.
  apply okD_node in Hok as (H1 & H2 & Hcs). rewrite D2_node, units_node, cenv_node.
  assert (HE : forall f, esum (zipD2 r1 r2 cs co O) f = esum (zipenv R cs (zipunits r1 r2 cs co O)) f).
  { intros f. apply esum_extE. clear - IH Hcs. revert co Hcs. generalize O as j.
    induction IH as [|c cs Hc _ IHl]; intros j [|o1 co] Hcs; cbn [TtnsEnv.zipD2 TtnsEnv.zipunits zipenv]; try constructor.
    - cbn [TtnsEnv.okDs] in Hcs. destruct Hcs as [Hc1 _]. cbn [fst snd].
      destruct (is_in (rel_child r1 j) || is_in (rel_child r2 j)).
      + rewrite units_dim. split; [reflexivity|]. intros a b c0 _ _ _. apply Hc. exact Hc1.
      + split; reflexivity.
    - cbn [TtnsEnv.okDs] in Hcs. destruct Hcs as [_ Hcs]. apply IHl. exact Hcs. }
  rewrite HE. apply esum_ext. intros Kb Ko Kk.
  destruct (is_here r1) eqn:E1; cbn [orb].
  - destruct (H1 eq_refl) as [Ha Hb]. symmetry. apply nodeF_unit; assumption.
  - destruct (is_here r2) eqn:E2.
    + destruct (H2 eq_refl) as [Ha Hb]. symmetry. apply nodeF_unit; assumption.
    + reflexivity.
Qed.

Lemma compat_units t : forall o r1 r2, compat R t o -> compat R t (units t o r1 r2).
Proof.
  induction t as [l pd d T cs IH] using (ttree_ind' R). intros [keep do Ot co] r1 r2 Hc.
  apply compat_node in Hc as [Hl Hcs]. rewrite units_node. apply compat_node. split.
  - destruct (is_here r1 || is_here r2); [apply repeat_length|exact Hl].
  - clear - IH Hcs. revert co Hcs. generalize O as j.
    induction IH as [|c cs Hc _ IHl]; intros j [|o1 co] Hcs; cbn [compats TtnsEnv.zipunits] in *; try contradiction; try exact I.
    destruct Hcs as [Ha Hb]. split; [|apply IHl; exact Hb].
    destruct (is_in (rel_child r1 j) || is_in (rel_child r2 j)); [apply Hc; exact Ha|exact Ha].
Qed.

(* calc_2site_rdm entry = closed contraction with |b1><k1| and |b2><k2| on the two sites *)
Lemma rdm2_closed t o p1 p2 u ou :
  let w := lcp p1 p2 in
  subtree R w t = Some u -> psub R w o = Some ou ->
  okD u (Some (skipn (length w) p1)) (Some (skipn (length w) p2)) ->
  rdm2_site R t o p1 p2 k1 k2 b1 b2 =
  sumP t o (fun pb po pk =>
    cenv R t (set_sub R w (units u ou (Some (skipn (length w) p1)) (Some (skipn (length w) p2))) o) pb po pk).
Proof.
  intros w Hu Hou Hok. unfold rdm2_site. fold w. rewrite Hu, Hou.
  set (r1 := Some (skipn (length w) p1)) in *. set (r2 := Some (skipn (length w) p2)) in *.
  set (ou' := units u ou r1 r2). set (o' := set_sub R w ou' o).
  assert (Hou' : psub R w o' = Some ou') by (apply (psub_set_sub ou' w o ou Hou)).
  assert (Hd : pdim R ou' = pdim R ou) by apply units_dim.
  transitivity (sumP t o' (fun pb po pk => env_one R pb po pk * cenv R t o' pb po pk)).
  - rewrite (env_split w t o' (env_one R) u ou' Hu Hou'). unfold sumP, sum3', sum3. rewrite Hd.
    apply sumn_ext. intros pb _. apply sumn_ext. intros po _. apply sumn_ext. intros pk _.
    unfold o'. rewrite (penv_at_set_sub ou' w t o ou _ _ _ _ Hou Hd). f_equal. apply D2_units. exact Hok.
  - unfold sumP. unfold o'. rewrite (set_sub_dim ou' w o ou Hou Hd). apply sum3_ext. intros. unfold env_one. ring.
Qed.

Lemma rdm2_dense t o p1 p2 u ou :
  let w := lcp p1 p2 in
  compat R t o -> tdim t = 1%nat -> pdim R o = 1%nat ->
  subtree R w t = Some u -> psub R w o = Some ou -> compat R u ou ->
  okD u (Some (skipn (length w) p1)) (Some (skipn (length w) p2)) ->
  rdm2_site R t o p1 p2 k1 k2 b1 b2 =
  sumcfgs (tpdims t) (fun su => sumcfgs (tpdims t) (fun sd =>
    cj (tamp t su O) *
    oamp (pfull R (set_sub R w (units u ou (Some (skipn (length w) p1)) (Some (skipn (length w) p2))) o)) su sd O *
    tamp t sd O)).
Proof.
  intros w Hc Hd Hdo Hu Hou Hcu Hok.
  rewrite (rdm2_closed t o p1 p2 u ou Hu Hou Hok). fold w.
  unfold sumP, sum3. rewrite Hd, Hdo. cbn [sumn].
  rewrite <- (ttns_expectation_dense t _ (compat_set_sub _ w t o u Hc Hu (compat_units u ou _ _ Hcu)) O O O). ring.
Qed.
End Rdm2Proofs.


End EnvProofs.

(* ------------------------------------------------------------------ Tree.find_path *)
Section FindPath.

Lemma adjacent_sym x y : adjacent x y -> adjacent y x.
Proof. intros [H|H]; [right|left]; exact H. Qed.

Lemma chain_glue l : forall w m, is_chain (l ++ [w]) -> is_chain (w :: m) -> is_chain (l ++ w :: m).
Proof.
  induction l as [|x l IH]; intros w m H1 H2; [exact H2|].
  destruct l as [|y l].
  - cbn [app is_chain] in *. destruct H1 as [Ha _]. split; [exact Ha|exact H2].
  - cbn [app] in *. cbn [is_chain] in H1. destruct H1 as [Ha H1]. cbn [is_chain]. split; [exact Ha|]. apply (IH w m H1 H2).
Qed.

Lemma chain_tail x l : is_chain (x :: l) -> is_chain l.
Proof. destruct l; cbn [is_chain]; [trivial|intros [_ H]; exact H]. Qed.

Lemma chain_rev_cons x l : is_chain (x :: l) -> is_chain (rev l ++ [x]).
Proof.
  revert x. induction l as [|y l IH]; intros x H; [exact I|].
  cbn [is_chain] in H. destruct H as [Ha H]. cbn [rev]. rewrite <- app_assoc. cbn [app].
  apply chain_glue; [apply IH; exact H|]. cbn [is_chain]. split; [apply adjacent_sym; exact Ha|exact I].
Qed.

Lemma chain_rev l : is_chain l -> is_chain (rev l).
Proof. destruct l as [|x l]; [trivial|]. intros H. cbn [rev]. apply chain_rev_cons. exact H. Qed.

Lemma chain_firstn : forall m l, is_chain l -> is_chain (firstn m l).
Proof.
  induction m as [|m IH]; intros l H; [exact I|]. destruct l as [|x l]; [exact I|]. cbn [firstn].
  destruct l as [|y l]; [destruct m; exact I|]. cbn [is_chain] in H. destruct H as [Ha H].
  specialize (IH (y :: l) H). destruct m as [|m]; [exact I|]. cbn [firstn] in *. cbn [is_chain]. split; [exact Ha|exact IH].
Qed.

Lemma firstn_snoc {A} (d : A) : forall n (p : list A), n < length p -> firstn (S n) p = firstn n p ++ [nth n p d].
Proof.
  induction n as [|n IH]; intros [|x p] H; cbn [length] in H; try lia; [reflexivity|].
  cbn [firstn nth app]. f_equal. apply IH. lia.
Qed.

Lemma anc_chain p : forall n, n <= length p -> is_chain (ancestors p n).
Proof.
  induction n as [|n IH]; intros H; [exact I|]. cbn [ancestors].
  assert (Hadj : adjacent (firstn (S n) p) (firstn n p)).
  { right. exists (nth n p O). apply firstn_snoc. lia. }
  destruct n as [|n]; cbn [ancestors is_chain] in *; split; try exact Hadj; try exact I. apply IH. lia.
Qed.

Lemma lnat_eqb_true a b : lnat_eqb a b = true <-> a = b.
Proof. unfold lnat_eqb. destruct (list_eq_dec Nat.eq_dec a b); split; congruence. Qed.

Lemma index_of_nth w : forall l, In w l -> nth_error l (index_of w l) = Some w.
Proof.
  induction l as [|y l IH]; intros H; [destruct H|]. cbn [index_of].
  destruct (lnat_eqb w y) eqn:E; [apply lnat_eqb_true in E; subst; reflexivity|].
  cbn [nth_error]. apply IH. destruct H as [H|H]; [|exact H]. subst. exfalso.
  assert (lnat_eqb w w = true) by (apply lnat_eqb_true; reflexivity). congruence.
Qed.

Lemma firstn_S_nth_error {A} : forall i (l : list A) w, nth_error l i = Some w -> firstn (S i) l = firstn i l ++ [w].
Proof.
  induction i as [|i IH]; intros [|x l] w H; cbn [nth_error] in H; try discriminate.
  - injection H as <-. reflexivity.
  - cbn [firstn app]. f_equal. apply IH. exact H.
Qed.

(* the list returned by find_path is a path of the tree: consecutive nodes are parent and child *)
Lemma find_path_is_path p1 p2 : is_chain (find_path p1 p2).
Proof.
  unfold find_path.
  destruct (filter (fun x => existsb (lnat_eqb x) (anc p2)) (anc p1)) as [|w rest] eqn:E; [exact I|].
  assert (Hin : In w (filter (fun x => existsb (lnat_eqb x) (anc p2)) (anc p1))) by (rewrite E; left; reflexivity).
  apply filter_In in Hin as [Hin1 Hex]. apply existsb_exists in Hex as (w' & Hin2 & Heq). apply lnat_eqb_true in Heq. subst w'.
  rewrite (firstn_S_nth_error _ _ w (index_of_nth w _ Hin1)). rewrite <- app_assoc. cbn [app].
  apply chain_glue.
  - rewrite <- (firstn_S_nth_error _ _ w (index_of_nth w _ Hin1)). apply chain_firstn. apply anc_chain. lia.
  - change (w :: rev (firstn (index_of w (anc p2)) (anc p2))) with (rev [w] ++ rev (firstn (index_of w (anc p2)) (anc p2))).
    rewrite <- rev_app_distr. rewrite <- (firstn_S_nth_error _ _ w (index_of_nth w _ Hin2)).
    apply chain_rev. apply chain_firstn. apply anc_chain. lia.
Qed.

Lemma in_ancestors p x : forall n, In x (ancestors p n) <-> exists k, k <= n /\ x = firstn k p.
Proof.
  induction n as [|n IH]; cbn [ancestors In].
  - split; [intros [H|[]]; exists O; split; [lia|congruence]|intros (k & Hk & ->); left; replace k with O by lia; reflexivity].
  - rewrite IH. split.
    + intros [H|(k & Hk & ->)]; [exists (S n); split; [lia|congruence]|exists k; split; [lia|reflexivity]].
    + intros (k & Hk & ->). destruct (Nat.eq_dec k (S n)) as [->|Hne]; [left; reflexivity|right; exists k; split; [lia|reflexivity]].
Qed.

Lemma lcp_prefix p1 : forall p2, lcp p1 p2 = firstn (length (lcp p1 p2)) p1 /\ lcp p1 p2 = firstn (length (lcp p1 p2)) p2.
Proof.
  induction p1 as [|x p1 IH]; intros [|y p2]; cbn [lcp]; try (split; reflexivity).
  destruct (Nat.eqb_spec x y) as [->|Hne]; [|split; reflexivity].
  cbn [length firstn]. destruct (IH p2) as [H1 H2]. split; f_equal; assumption.
Qed.

Lemma lcp_length_le p1 : forall p2, length (lcp p1 p2) <= length p1 /\ length (lcp p1 p2) <= length p2.
Proof.
  induction p1 as [|x p1 IH]; intros [|y p2]; cbn [lcp length]; try lia.
  destruct (Nat.eqb x y); cbn [length]; [specialize (IH p2)|]; lia.
Qed.

Lemma lcp_max : forall k p1 p2 k', k <= length p1 -> k' <= length p2 -> firstn k p1 = firstn k' p2 -> k <= length (lcp p1 p2).
Proof.
  induction k as [|k IH]; intros p1 p2 k' H1 H2 E; [lia|].
  destruct p1 as [|x p1]; cbn [length] in H1; [lia|]. cbn [firstn] in E.
  destruct k' as [|k']; [discriminate|]. destruct p2 as [|y p2]; cbn [length] in H2; [lia|]. cbn [firstn] in E.
  injection E as -> E. cbn [lcp]. rewrite Nat.eqb_refl. cbn [length]. apply le_n_S. apply (IH p1 p2 k'); [lia|lia|exact E].
Qed.

(* common_ancestors[0], the node the library takes as the turning point, is the longest common prefix *)
Lemma find_path_common p1 p2 : exists rest,
  filter (fun x => existsb (lnat_eqb x) (anc p2)) (anc p1) = lcp p1 p2 :: rest.
Proof.
  set (f := fun x => existsb (lnat_eqb x) (anc p2)).
  set (L := length (lcp p1 p2)).
  assert (HfL : f (firstn L p1) = true).
  { unfold f. apply existsb_exists. exists (firstn L p2). split.
    - apply in_ancestors. exists L. split; [apply lcp_length_le|reflexivity].
    - apply lnat_eqb_true. destruct (lcp_prefix p1 p2) as [H1 H2]. unfold L. rewrite <- H1, <- H2. reflexivity. }
  assert (Hgen : forall n, L <= n -> n <= length p1 -> exists rest, filter f (ancestors p1 n) = firstn L p1 :: rest).
  { induction n as [|n IH]; intros H1 H2.
    - replace L with O in * by lia. cbn [ancestors filter]. rewrite HfL. eauto.
    - cbn [ancestors filter]. destruct (Nat.eq_dec L (S n)) as [E|Hne].
      + rewrite <- E. rewrite HfL. eauto.
      + destruct (f (firstn (S n) p1)) eqn:Ef; [|apply IH; lia].
        exfalso. unfold f in Ef. apply existsb_exists in Ef as (y & Hy & Heq). apply lnat_eqb_true in Heq. subst y.
        apply in_ancestors in Hy as (k' & Hk' & Ek).
        pose proof (lcp_max (S n) p1 p2 k' H2 Hk' Ek). unfold L in *. lia. }
  destruct (Hgen (length p1) (proj1 (lcp_length_le p1 p2)) (le_n _)) as [rest Hr].
  exists rest. unfold anc. rewrite Hr. f_equal. symmetry. apply lcp_prefix.
Qed.

End FindPath.

(* ------------------------------------------------------------------ get_skip_pidx *)
Lemma keep_mask_length sd od : length (keep_mask sd od) = length sd.
Proof. apply map_length. Qed.

Lemma skip_pidx_same sd : skip_pidx sd sd = [].
Proof.
  unfold skip_pidx. assert (H : forall pre i, skip_from i (map (fun d => existsb (Nat.eqb d) (pre ++ sd)) sd) = []).
  { induction sd as [|d sd IH]; intros pre i; [reflexivity|]. cbn [map skip_from].
    replace (existsb (Nat.eqb d) (pre ++ d :: sd)) with true.
    - replace (pre ++ d :: sd) with ((pre ++ [d]) ++ sd) by (rewrite <- app_assoc; reflexivity). apply IH.
    - symmetry. apply existsb_exists. exists d. split; [apply in_or_app; right; left; reflexivity|apply Nat.eqb_refl]. }
  apply (H [] O).
Qed.

(* the skip list is not determined by the operator node alone: it cannot be memoised per operator node *)
Lemma skip_pidx_needs_state_node : ~ exists f : list nat -> list nat, forall sd od, skip_pidx sd od = f od.
Proof.
  intros [f H]. pose proof (H [1] [1]) as H1. pose proof (H [1; 7] [1]) as H2. rewrite <- H1 in H2. discriminate H2.
Qed.
