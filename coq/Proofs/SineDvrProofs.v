(* C16 -- algebraic consequences of the sine-DVR closed forms that need no integration:
   symmetry / antisymmetry and the integration-by-parts relations between the closed forms.
   Equality with the integrals over the analytic basis functions is NOT proved (oracle: scipy quad). *)
From Coq Require Import QArith ZArith List Bool Arith Lia Qring Qfield.
Import ListNotations.
From RV Require Import Model.Ladder Model.SineDvr.
Close Scope Q_scope.
Local Open Scope Q_scope.

Lemma qn_inj j k : qn j == qn k -> j = k.
Proof. unfold qn. intros H. apply (proj1 (inject_Z_injective _ _)) in H. lia. Qed.

Lemma qn_pos j : (1 <= j)%nat -> 0 < qn j.
Proof. intros H. unfold qn. replace 0 with (inject_Z 0) by reflexivity. rewrite <- Zlt_Qlt. lia. Qed.

Lemma sum_nz j k : (1 <= j)%nat -> ~ qn j + qn k == 0.
Proof.
  intros Hj H. pose proof (qn_pos j Hj) as Hp.
  assert (0 <= qn k) by (unfold qn; replace 0 with (inject_Z 0) by reflexivity; rewrite <- Zle_Qle; lia).
  assert (0 < qn j + qn k) by (apply Qlt_le_trans with (qn j + 0); [rewrite Qplus_0_r; exact Hp | apply Qplus_le_r; assumption]).
  rewrite H in H1. now apply Qlt_irrefl in H1.
Qed.

Lemma diff_nz j k : j <> k -> ~ qn j - qn k == 0.
Proof. intros Hne H. apply Hne, qn_inj. rewrite <- (Qplus_0_l (qn k)), <- H. ring. Qed.

Lemma odd_ne j k : Nat.odd (j + k) = true -> j <> k.
Proof. intros H E. subst. replace (k + k)%nat with (2 * k)%nat in H by lia. rewrite Nat.odd_mul, Nat.odd_2 in H. discriminate. Qed.

Lemma sq_diff_nz j k : (1 <= j)%nat -> j <> k -> ~ qn j * qn j - qn k * qn k == 0.
Proof.
  intros Hj Hne H. assert (E : (qn j - qn k) * (qn j + qn k) == 0) by (rewrite <- H; ring).
  apply Qmult_integral in E. destruct E as [E|E]; [now apply (diff_nz j k Hne)|now apply (sum_nz j k Hj)].
Qed.

(* <j| d/du |k> is antisymmetric *)
Lemma du_antisym j k : (1 <= j)%nat -> (1 <= k)%nat -> du_c j k == - du_c k j.
Proof.
  intros Hj Hk. unfold du_c. rewrite (Nat.add_comm k j).
  destruct (Nat.odd (j + k)) eqn:E; [|ring].
  pose proof (odd_ne _ _ E) as Hne.
  field. split; [apply sq_diff_nz; auto|apply sq_diff_nz; auto].
Qed.

Lemma du_diag j : du_c j j == 0.
Proof. unfold du_c. replace (j + j)%nat with (2 * j)%nat by lia. rewrite Nat.odd_mul, Nat.odd_2. reflexivity. Qed.

(* <j| u |k>, <j| u^2 |k> are symmetric (both unit components) *)
Lemma u_sym j k : (1 <= j)%nat -> (1 <= k)%nat -> u_a j k == u_a k j /\ u_b j k == u_b k j.
Proof.
  intros Hj Hk. unfold u_a, u_b. rewrite (Nat.add_comm k j), (Nat.eqb_sym k j). split; [reflexivity|].
  destruct (Nat.odd (j + k)) eqn:E; [|reflexivity].
  pose proof (odd_ne _ _ E) as Hne.
  field. repeat split; try (apply sum_nz; assumption); try (apply diff_nz; auto).
Qed.

Lemma uu_sym j k : (1 <= j)%nat -> (1 <= k)%nat -> uu_a j k == uu_a k j /\ uu_b j k == uu_b k j.
Proof.
  intros Hj Hk. unfold uu_a, uu_b. rewrite (Nat.add_comm k j), (Nat.eqb_sym k j). split; [reflexivity|].
  destruct (Nat.odd (j + k)) eqn:E.
  - pose proof (odd_ne _ _ E) as Hne.
    field. repeat split; try (apply sum_nz; assumption); try (apply diff_nz; auto).
  - destruct (Nat.eqb_spec j k) as [->|Hne]; [reflexivity|].
    field. repeat split; try (apply sum_nz; assumption); try (apply diff_nz; auto).
Qed.

(* integration by parts, boundary terms vanish:  <j|u d|k> + <k|u d|j> = - delta_jk *)
Lemma udu_parts j k : (1 <= j)%nat -> (1 <= k)%nat ->
  udu_c j k + udu_c k j == if (j =? k)%nat then - (1) else 0.
Proof.
  intros Hj Hk. unfold udu_c. rewrite (Nat.add_comm k j), (Nat.eqb_sym k j).
  destruct (Nat.odd (j + k)) eqn:E.
  - pose proof (odd_ne _ _ E) as Hne. destruct (Nat.eqb_spec j k); [contradiction|].
    field. repeat split; try (apply sum_nz; assumption); try (apply diff_nz; auto).
  - destruct (Nat.eqb_spec j k) as [->|Hne]; [reflexivity|].
    field. repeat split; try (apply sum_nz; assumption); try (apply diff_nz; auto).
Qed.

(* <j|u^2 d|k> + <k|u^2 d|j> = -2 <j|u|k>   (both unit components) *)
Lemma uudu_parts j k : (1 <= j)%nat -> (1 <= k)%nat ->
  uudu_a j k + uudu_a k j == - (2) * u_a j k /\ uudu_b j k + uudu_b k j == - (2) * u_b j k.
Proof.
  intros Hj Hk. unfold uudu_a, uudu_b, u_a, u_b, cube. rewrite (Nat.add_comm k j), (Nat.eqb_sym k j).
  destruct (Nat.odd (j + k)) eqn:E.
  - pose proof (odd_ne _ _ E) as Hne. destruct (Nat.eqb_spec j k); [contradiction|].
    split; field; repeat split; try (apply sum_nz; assumption); try (apply diff_nz; auto).
  - destruct (Nat.eqb_spec j k) as [->|Hne]; [split; reflexivity|].
    split; [|ring]. field. repeat split; try (apply sum_nz; assumption); try (apply diff_nz; auto).
Qed.

Lemma p2_diag j k : j <> k -> p2_c j k == 0.
Proof. intros H. unfold p2_c. destruct (Nat.eqb_spec j k); [contradiction|reflexivity]. Qed.

Theorem sinedvr_partial j k : (1 <= j)%nat -> (1 <= k)%nat ->
  du_c j k == - du_c k j /\
  u_a j k == u_a k j /\ u_b j k == u_b k j /\
  uu_a j k == uu_a k j /\ uu_b j k == uu_b k j /\
  udu_c j k + udu_c k j == (if (j =? k)%nat then - (1) else 0) /\
  uudu_a j k + uudu_a k j == - (2) * u_a j k /\ uudu_b j k + uudu_b k j == - (2) * u_b j k /\
  (j <> k -> p2_c j k == 0).
Proof.
  intros Hj Hk.
  destruct (u_sym j k Hj Hk), (uu_sym j k Hj Hk), (uudu_parts j k Hj Hk).
  repeat split; auto using du_antisym, udu_parts, p2_diag.
Qed.
